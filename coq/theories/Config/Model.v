(** Model of the configuration path, path by path (no proofs in this file):

    - lib/inih/src/ini.c  [ini_parse_stream] as compiled by snoopy (stack buffer of INI_MAX_LINE
      bytes filled by fgets, BOM, start-of-line comments, continuation lines, section lines,
      name[=:]value lines, inline comments, whitespace stripping, snoopy's quote stripping,
      error lines, first error line number as the result);
    - src/configfile.c    the callback ([snoopy] section only, option registry), the nine value
      parsers, [getOptionValueAsString_*];
    - src/util/parser.c   [snoopy_util_parser_strByteLength];
    - src/util/syslog.c   the four conversion ladders;
    - src/configuration.c the compiled-in defaults;
    - src/cli/action-conf.c the listing printed by `snoopyctl conf`.

    Every number, literal and table is a field of [config_consts], regenerated from the source
    on every run (Gen_Config.v, vlib/tr_config.py).  Sizes are [N]; byte strings are [list byte]
    without the terminating NUL.  Entry points meant for reuse (C02, C11):
      [ini_events c data]   handler calls and return value of ini_parse on a file of bytes [data]
      [handler c cfg ev]    snoopy_configfile_iniParser_callback
      [load c cfg data]     snoopy_configfile_load on top of configuration [cfg]
      [defaults c]          snoopy_configuration_setDefaults
      [render_option], [conf_print]. *)
From Snoopy Require Import Lib.CStr.
Local Open Scope N_scope.

(** * constants *)
Inductive opt := OErrorLogging | OFilterChain | OMessageFormat | OOutput | OFacility | OIdent | OLevel | ODsLen | OLogLen | OUnknown.
Inductive otype := TBool | TString | TInt | TNone.

Record opt_row := { row_name : list byte; row_type : otype; row_parse : opt; row_render : opt }.

Record config_consts := {
  (* lib/inih: -D flags of Makefile.am over the defaults of ini.h, and the local #defines of ini.c *)
  ini_max_line : N;                 (* INI_MAX_LINE: size of the stack buffer handed to fgets *)
  ini_max_section : N;              (* MAX_SECTION *)
  ini_max_name : N;                 (* MAX_NAME *)
  ini_start_comment : list byte;    (* INI_START_COMMENT_PREFIXES  ";#" *)
  ini_inline_comment : list byte;   (* INI_INLINE_COMMENT_PREFIXES ";"  *)
  ini_flags_ok : bool;              (* USE_STACK, ALLOW_MULTILINE, ALLOW_BOM, ALLOW_INLINE_COMMENTS on;
                                       STOP_ON_FIRST_ERROR, CALL_HANDLER_ON_NEW_SECTION, ALLOW_NO_VALUE, HANDLER_LINENO off *)
  (* configfile.c *)
  section_name : list byte;         (* "snoopy" *)
  options : list opt_row;           (* snoopy_configfile_optionRegistry up to the terminator, guards evaluated *)
  bool_true : list byte;            (* first letters read as true  "yY1tT" *)
  bool_false : list byte;           (* first letters read as false "nN0fF" *)
  bool_yes : list byte;             (* "yes" *)
  bool_no : list byte;              (* "no"  *)
  log_prefix : list byte;           (* "LOG_" *)
  cfg_strips : bool;                (* configfile.c cleanup removes one LOG_ prefix after upper-casing *)
  util_strips : bool;               (* util/syslog.c convert*ToInt removes one LOG_ prefix *)
  output_sep : byte;                (* ':' *)
  output_names : list (list byte);  (* snoopy_outputregistry_names up to the terminator, guards evaluated *)
  (* util/syslog.c, constants from <syslog.h> *)
  fac_to_int : list (list byte * N);
  fac_to_str : list (N * list byte);
  lvl_to_int : list (list byte * N);
  lvl_to_str : list (N * list byte);
  syslog_invalid : list byte;       (* "(invalid)" *)
  (* util/parser.c *)
  len_saturating : bool;            (* the digit loop stops accumulating above valMax (wide arithmetic) *)
  suffix_k : list byte;  factor_k : N;      (* "kK" 1024 *)
  suffix_m : list byte;  factor_m : N;      (* "mM" 1048576 *)
  (* snoopy.h / config.h / configuration.c *)
  d_error_logging : bool;
  d_message_format : list byte;
  d_filter_chain : list byte;
  d_output : list byte;
  d_output_arg : list byte;
  d_facility : N;
  d_ident : list byte;
  d_level : N;
  ds_min : N; ds_max : N; ds_def : N;
  log_min : N; log_max : N; log_def : N;
  (* action-conf.c *)
  conf_header : list byte;          (* "; Options from config file (or defaults): " *)
  conf_section : list byte;         (* "[snoopy]" *)
  conf_assign : list byte;          (* " = " *)
  conf_quote : bool;                (* string-typed options are printed between double quotes *)
  conf_cont : bool;                 (* string values holding an inline-comment start are printed as a continuation line *)
  conf_cont_sep : list byte;        (* " =\n    " between the name and the value in that form *)
  (* etc/snoopy.ini.in: what the documentation promises (names through <syslog.h> as LOG_<NAME>) *)
  doc_options : list (list byte);   (* options with an example line ";name = ..." *)
  doc_fac : list (list byte * N);   (* "One of AUTH|AUTHPRIV|..." *)
  doc_lvl : list (list byte * N);   (* "One of EMERG|ALERT|..." *)
  doc_ds_min : N; doc_ds_max : N; doc_ds_def : N;      (* "Between 255 and 1048575", "Default value: 2047" *)
  doc_log_min : N; doc_log_max : N; doc_log_def : N
}.

(** * the settings a configuration file can change *)
Record cfg := {
  error_logging : bool;
  message_format : list byte;
  filter_chain : list byte;
  output : list byte;
  output_arg : list byte;
  syslog_facility : N;
  syslog_ident : list byte;
  syslog_level : N;
  ds_max_len : N;
  log_max_len : N
}.

Definition DQ := x22.  Definition SQ := x27.  Definition LBR := x5b.  Definition RBR := x5d.
Definition EQB := x3d.
Definition BOM : list byte := [xef; xbb; xbf].

Definition memb (b : byte) (l : list byte) : bool := existsb (beq b) l.
Definition nonempty (s : list byte) : bool := match s with [] => false | _ => true end.

(** * lib/inih/src/ini.c *)

(** [lskip]: pointer to the first non-whitespace byte *)
Fixpoint lskip (s : list byte) : list byte :=
  match s with
  | b :: s' => if is_space b then lskip s' else s
  | [] => []
  end.

(** [rstrip]: trailing whitespace overwritten by NUL *)
Fixpoint rstrip (s : list byte) : list byte :=
  match s with
  | [] => []
  | b :: s' => match rstrip s' with
               | [] => if is_space b then [] else [b]
               | r => b :: r
               end
  end.

(** [find_chars_or_comment s chars]: (bytes before the stop position, bytes from it on).  Stops at a
    byte of [chars], or at an inline-comment prefix that follows a whitespace byte. *)
Fixpoint fcc (chars inl : list byte) (was_space : bool) (s : list byte) : list byte * list byte :=
  match s with
  | [] => ([], [])
  | b :: s' =>
    if memb b chars || (was_space && memb b inl) then ([], s)
    else let (p, r) := fcc chars inl (is_space b) s' in (b :: p, r)
  end.

(** the view a C string function has of a buffer: bytes before the first NUL *)
Fixpoint cstr (s : list byte) : list byte :=
  match s with
  | [] => []
  | b :: s' => if beq b NUL then [] else b :: cstr s'
  end.

(** snoopy's addition to inih: one layer of matching quotes *)
Definition strip_q (q : byte) (v : list byte) : option (list byte) :=
  match v with
  | b :: r => if beq b q && beq (last v NUL) q then Some (removelast r) else None
  | [] => None
  end.
Definition unquote (v : list byte) : list byte :=
  match strip_q DQ v with
  | Some x => x
  | None => match strip_q SQ v with Some x => x | None => v end
  end.

(** the sequence of buffers fgets(line, INI_MAX_LINE, f) returns: at most [n = INI_MAX_LINE - 1]
    bytes each, ending after a newline.  [k] = room left in the chunk being filled (>= 1). *)
Definition cons_head (b : byte) (cs : list (list byte)) : list (list byte) :=
  match cs with
  | [] => [[b]]
  | c :: cs' => (b :: c) :: cs'
  end.
Fixpoint chunks (n k : nat) (d : list byte) : list (list byte) :=
  match d with
  | [] => []
  | b :: d' =>
    if beq b NL then [b] :: chunks n n d'
    else match k with
         | S (S k') => cons_head b (chunks n (S k') d')
         | _ => [b] :: chunks n n d'
         end
  end.

Definition event := (list byte * list byte * list byte)%type.     (* section, name, value *)

Record ini_state := { st_section : list byte; st_prev : list byte; st_error : N; st_lineno : N }.
Definition ini_init : ini_state := {| st_section := []; st_prev := []; st_error := 0; st_lineno := 0 |}.

Section Ini.
  Variable c : config_consts.

  Definition set_error (st : ini_state) (lineno : N) : ini_state :=
    {| st_section := st_section st; st_prev := st_prev st;
       st_error := if st_error st =? 0 then lineno else st_error st; st_lineno := lineno |}.

  (** one iteration of the loop of ini_parse_stream, after the BOM test: [l1] is the C string at
      [start] (BOM skipped on line 1), [bom] tells whether [start] was advanced *)
  Definition ini_body (st : ini_state) (lineno : N) (bom : bool) (l1 : list byte) : ini_state * list event :=
    let l2 := rstrip l1 in
    let start := lskip l2 in
    let moved := bom || negb (Nat.eqb (length start) (length l2)) in       (* start > line *)
    let same := {| st_section := st_section st; st_prev := st_prev st; st_error := st_error st; st_lineno := lineno |} in
    match start with
    | [] => (same, [])                                                     (* strchr(";#", '\0') is non-NULL *)
    | b :: rest =>
      if memb b (ini_start_comment c) then (same, [])
      else if nonempty (st_prev st) && moved then (same, [(st_section st, st_prev st, start)])
      else if beq b LBR then
        let (sec, r) := fcc [RBR] (ini_inline_comment c) false rest in
        match r with
        | x :: _ => if beq x RBR
                    then ({| st_section := takeN (ini_max_section c - 1) sec; st_prev := [];
                             st_error := st_error st; st_lineno := lineno |}, [])
                    else (set_error st lineno, [])
        | [] => (set_error st lineno, [])
        end
      else
        let (nm, r) := fcc [EQB; COLONB] (ini_inline_comment c) false start in
        match r with
        | x :: v => if beq x EQB || beq x COLONB
                    then let name := rstrip nm in
                         let (v1, _) := fcc [] (ini_inline_comment c) false v in
                         let value := unquote (rstrip (lskip v1)) in
                         ({| st_section := st_section st; st_prev := takeN (ini_max_name c - 1) name;
                             st_error := st_error st; st_lineno := lineno |}, [(st_section st, name, value)])
                    else (set_error st lineno, [])
        | [] => (set_error st lineno, [])
        end
    end.

  (** one iteration of the loop of ini_parse_stream on the buffer [chunk] *)
  Definition ini_line (st : ini_state) (chunk : list byte) : ini_state * list event :=
    let lineno := st_lineno st + 1 in
    let line := cstr chunk in
    let bom := (lineno =? 1) && prefixb BOM line in
    ini_body st lineno bom (if bom then skipn 3 line else line).

  Fixpoint ini_lines (st : ini_state) (cs : list (list byte)) : ini_state * list event :=
    match cs with
    | [] => (st, [])
    | ch :: cs' => let (st1, e1) := ini_line st ch in
                   let (st2, e2) := ini_lines st1 cs' in (st2, e1 ++ e2)
    end.

  Definition file_chunks (data : list byte) : list (list byte) :=
    let n := N.to_nat (ini_max_line c - 1) in chunks n n data.

  (** handler calls in order, and the value ini_parse returns (0, or the number of the first bad line) *)
  Definition ini_events (data : list byte) : list event * N :=
    let (st, ev) := ini_lines ini_init (file_chunks data) in (ev, st_error st).
End Ini.

(** * src/util/parser.c *)
Fixpoint acc_digits (sat : bool) (vmax acc : N) (s : list byte) : N * list byte :=
  match s with
  | b :: s' => if is_digit b
               then acc_digits sat vmax (if negb sat || (acc <=? vmax) then acc * 10 + digit_val b else acc) s'
               else (acc, s)
  | [] => (acc, [])
  end.

Definition len_factor (c : config_consts) (rest : list byte) : N :=
  match rest with
  | b :: _ => if memb b (suffix_k c) then factor_k c else if memb b (suffix_m c) then factor_m c else 1
  | [] => 1
  end.

Definition bytelen (c : config_consts) (vmin vmax vdef : N) (s : list byte) : N :=
  let (n, rest) := acc_digits (len_saturating c) vmax 0 s in
  if n =? 0 then vdef
  else let r := n * len_factor c rest in
       let r1 := if r <? vmin then vmin else r in
       if vmax <? r1 then vmax else r1.

(** * src/util/syslog.c and the cleanup of configfile.c *)
Fixpoint assoc_str (k : list byte) (t : list (list byte * N)) : option N :=
  match t with
  | [] => None
  | (n, v) :: t' => if list_eqb n k then Some v else assoc_str k t'
  end.
Fixpoint assoc_num (k : N) (t : list (N * list byte)) : option (list byte) :=
  match t with
  | [] => None
  | (v, n) :: t' => if v =? k then Some n else assoc_num k t'
  end.

Definition strip_prefix (p s : list byte) : list byte := if prefixb p s then skipn (length p) s else s.
Definition strip_if (b : bool) (p s : list byte) : list byte := if b then strip_prefix p s else s.

(** the name the ladders finally compare: upper-cased, then the prefix strips of both layers *)
Definition syslog_key (c : config_consts) (v : list byte) : list byte :=
  strip_if (util_strips c) (log_prefix c) (strip_if (cfg_strips c) (log_prefix c) (map to_upper v)).

Definition parse_facility (c : config_consts) (v : list byte) : N :=
  match assoc_str (syslog_key c v) (fac_to_int c) with Some n => n | None => d_facility c end.
Definition parse_level (c : config_consts) (v : list byte) : N :=
  match assoc_str (syslog_key c v) (lvl_to_int c) with Some n => n | None => d_level c end.
Definition render_facility (c : config_consts) (n : N) : list byte :=
  match assoc_num n (fac_to_str c) with Some s => s | None => syslog_invalid c end.
Definition render_level (c : config_consts) (n : N) : list byte :=
  match assoc_num n (lvl_to_str c) with Some s => s | None => syslog_invalid c end.

(** * src/configfile.c *)
Definition parse_bool (c : config_consts) (v : list byte) : option bool :=
  match v with
  | b :: _ => if memb b (bool_true c) then Some true else if memb b (bool_false c) then Some false else None
  | [] => None
  end.

(** the 'output' parser: name[:argument], split at the first separator *)
Definition split_output (c : config_consts) (v : list byte) : list byte * option (list byte) :=
  match index (output_sep c) v with
  | None => (v, None)
  | Some k => (firstn k v, Some (skipn (S k) v))
  end.
Definition name_known (c : config_consts) (n : list byte) : bool := existsb (list_eqb n) (output_names c).
Definition parse_output (c : config_consts) (v : list byte) : list byte * list byte :=
  let (n, a) := split_output c v in
  if name_known c n then (n, match a with Some x => x | None => [] end)
  else (d_output c, d_output_arg c).

Definition set_error_logging (g : cfg) (x : bool) : cfg :=
  {| error_logging := x; message_format := message_format g; filter_chain := filter_chain g; output := output g;
     output_arg := output_arg g; syslog_facility := syslog_facility g; syslog_ident := syslog_ident g;
     syslog_level := syslog_level g; ds_max_len := ds_max_len g; log_max_len := log_max_len g |}.
Definition set_message_format (g : cfg) (x : list byte) : cfg :=
  {| error_logging := error_logging g; message_format := x; filter_chain := filter_chain g; output := output g;
     output_arg := output_arg g; syslog_facility := syslog_facility g; syslog_ident := syslog_ident g;
     syslog_level := syslog_level g; ds_max_len := ds_max_len g; log_max_len := log_max_len g |}.
Definition set_filter_chain (g : cfg) (x : list byte) : cfg :=
  {| error_logging := error_logging g; message_format := message_format g; filter_chain := x; output := output g;
     output_arg := output_arg g; syslog_facility := syslog_facility g; syslog_ident := syslog_ident g;
     syslog_level := syslog_level g; ds_max_len := ds_max_len g; log_max_len := log_max_len g |}.
Definition set_output (g : cfg) (x : list byte * list byte) : cfg :=
  {| error_logging := error_logging g; message_format := message_format g; filter_chain := filter_chain g; output := fst x;
     output_arg := snd x; syslog_facility := syslog_facility g; syslog_ident := syslog_ident g;
     syslog_level := syslog_level g; ds_max_len := ds_max_len g; log_max_len := log_max_len g |}.
Definition set_facility (g : cfg) (x : N) : cfg :=
  {| error_logging := error_logging g; message_format := message_format g; filter_chain := filter_chain g; output := output g;
     output_arg := output_arg g; syslog_facility := x; syslog_ident := syslog_ident g;
     syslog_level := syslog_level g; ds_max_len := ds_max_len g; log_max_len := log_max_len g |}.
Definition set_ident (g : cfg) (x : list byte) : cfg :=
  {| error_logging := error_logging g; message_format := message_format g; filter_chain := filter_chain g; output := output g;
     output_arg := output_arg g; syslog_facility := syslog_facility g; syslog_ident := x;
     syslog_level := syslog_level g; ds_max_len := ds_max_len g; log_max_len := log_max_len g |}.
Definition set_level (g : cfg) (x : N) : cfg :=
  {| error_logging := error_logging g; message_format := message_format g; filter_chain := filter_chain g; output := output g;
     output_arg := output_arg g; syslog_facility := syslog_facility g; syslog_ident := syslog_ident g;
     syslog_level := x; ds_max_len := ds_max_len g; log_max_len := log_max_len g |}.
Definition set_ds_len (g : cfg) (x : N) : cfg :=
  {| error_logging := error_logging g; message_format := message_format g; filter_chain := filter_chain g; output := output g;
     output_arg := output_arg g; syslog_facility := syslog_facility g; syslog_ident := syslog_ident g;
     syslog_level := syslog_level g; ds_max_len := x; log_max_len := log_max_len g |}.
Definition set_log_len (g : cfg) (x : N) : cfg :=
  {| error_logging := error_logging g; message_format := message_format g; filter_chain := filter_chain g; output := output g;
     output_arg := output_arg g; syslog_facility := syslog_facility g; syslog_ident := syslog_ident g;
     syslog_level := syslog_level g; ds_max_len := ds_max_len g; log_max_len := x |}.

(** the nine value parsers (the snoopy_configfile_parseValue functions) *)
Definition parse_value (c : config_consts) (o : opt) (v : list byte) (g : cfg) : cfg :=
  match o with
  | OErrorLogging => match parse_bool c v with Some b => set_error_logging g b | None => g end
  | OFilterChain => set_filter_chain g v
  | OMessageFormat => set_message_format g v
  | OOutput => set_output g (parse_output c v)
  | OFacility => set_facility g (parse_facility c v)
  | OIdent => set_ident g v
  | OLevel => set_level g (parse_level c v)
  | ODsLen => set_ds_len g (bytelen c (ds_min c) (ds_max c) (ds_def c) v)
  | OLogLen => set_log_len g (bytelen c (log_min c) (log_max c) (log_def c) v)
  | OUnknown => g
  end.

Fixpoint find_row (name : list byte) (rows : list opt_row) : option opt_row :=
  match rows with
  | [] => None
  | r :: rows' => if list_eqb (row_name r) name then Some r else find_row name rows'
  end.

(** snoopy_configfile_iniParser_callback *)
Definition handler (c : config_consts) (g : cfg) (e : event) : cfg :=
  let '(sec, name, value) := e in
  if list_eqb sec (section_name c)
  then match find_row name (options c) with
       | Some r => parse_value c (row_parse r) value g
       | None => g
       end
  else g.

Definition defaults (c : config_consts) : cfg :=
  {| error_logging := d_error_logging c; message_format := d_message_format c; filter_chain := d_filter_chain c;
     output := d_output c; output_arg := d_output_arg c; syslog_facility := d_facility c; syslog_ident := d_ident c;
     syslog_level := d_level c; ds_max_len := ds_def c; log_max_len := log_def c |}.

(** snoopy_configfile_load: every handler call is applied, whatever ini_parse returns *)
Definition load (c : config_consts) (g : cfg) (data : list byte) : cfg :=
  fold_left (handler c) (fst (ini_events c data)) g.

(** getOptionValueAsString_* *)
Definition render_output (c : config_consts) (g : cfg) : list byte :=
  match output_arg g with
  | [] => output g
  | a => output g ++ [output_sep c] ++ a
  end.
Definition render_option (c : config_consts) (o : opt) (g : cfg) : list byte :=
  match o with
  | OErrorLogging => if error_logging g then bool_yes c else bool_no c
  | OFilterChain => filter_chain g
  | OMessageFormat => message_format g
  | OOutput => render_output c g
  | OFacility => render_facility c (syslog_facility g)
  | OIdent => syslog_ident g
  | OLevel => render_level c (syslog_level g)
  | ODsLen => dec (ds_max_len g)
  | OLogLen => dec (log_max_len g)
  | OUnknown => []
  end.

(** * src/cli/action-conf.c *)
(** does [v] hold an inline-comment start (whitespace followed by a comment prefix)? *)
Fixpoint has_inline (inl : list byte) (was_space : bool) (v : list byte) : bool :=
  match v with
  | [] => false
  | b :: v' => (was_space && memb b inl) || has_inline inl (is_space b) v'
  end.

Definition conf_line (c : config_consts) (r : opt_row) (g : cfg) : list byte :=
  let v := render_option c (row_render r) g in
  match row_type r with
  | TString =>
    if conf_cont c && has_inline (ini_inline_comment c) false v
    then row_name r ++ conf_cont_sep c ++ v ++ [NL]
    else if conf_quote c then row_name r ++ conf_assign c ++ [DQ] ++ v ++ [DQ; NL]
    else row_name r ++ conf_assign c ++ v ++ [NL]
  | _ => row_name r ++ conf_assign c ++ v ++ [NL]
  end.

(** the text `snoopyctl conf` prints for configuration [g] read from [path] *)
Definition conf_print (c : config_consts) (path : list byte) (g : cfg) : list byte :=
  conf_header c ++ path ++ [NL] ++ conf_section c ++ [NL] ++ concat (map (fun r => conf_line c r g) (options c)).
