(** Part 2 of C08_conf_roundtrip: every configuration obtained by parsing ANY file (any bytes) and
    applying the handler calls to the compiled-in defaults satisfies the invariant [cfg_wf]:
    the values the ini parser hands to the callback hold no NUL and no newline, and an inline-comment
    start only when they came from a continuation line. *)
From Coq Require Import Strings.String.
From Snoopy Require Import Lib.CStr Config.Model Config.Grammar Config.Exec Config.Values Config.Handler
  Config.IniLemmas Config.IniLines Config.RoundTrip Config.ConfDefs Config.ConfRoundTrip.
From Coq Require Import ZifyBool ZifyN ZifyNat.
Local Open Scope nat_scope.

Definition good (b : byte) : Prop := b <> NUL /\ b <> NL.
Definition all_good (s : list byte) : Prop := forall b, In b s -> good b.

Lemma all_good_clean s : all_good s -> clean s = true.
Proof.
  intros H. unfold clean. apply forallb_forall. intros b Hb. destruct (H b Hb) as [A B]. apply beq_neq in A, B. now rewrite A, B.
Qed.
Lemma all_good_sub a b : (forall x, In x a -> In x b) -> all_good b -> all_good a.
Proof. intros S G x Hx. apply G. now apply S. Qed.

(** * sub-list facts of the ini.c helpers *)
Lemma In_lskip s x : In x (lskip s) -> In x s.
Proof. induction s as [|b s IH]; simpl; [tauto|]. destruct (is_space b); [right; auto|tauto]. Qed.
Lemma In_rstrip s x : In x (rstrip s) -> In x s.
Proof. destruct (rstrip_split s) as [w [E _]]. intros H. rewrite E. apply in_or_app. now left. Qed.
Lemma fcc_split chars inl s : forall ws0, s = fst (fcc chars inl ws0 s) ++ snd (fcc chars inl ws0 s).
Proof.
  induction s as [|b s IH]; intros ws0; simpl; [reflexivity|].
  destruct (memb b chars || (ws0 && memb b inl)); [reflexivity|].
  specialize (IH (is_space b)). destruct (fcc chars inl (is_space b) s) as [p r]. simpl in *. now rewrite <- IH.
Qed.
Lemma fcc_fst_no_inline chars inl s : forall ws0, has_inline inl ws0 (fst (fcc chars inl ws0 s)) = false.
Proof.
  induction s as [|b s IH]; intros ws0; simpl; [reflexivity|].
  destruct (memb b chars || (ws0 && memb b inl)) eqn:E; [reflexivity|].
  specialize (IH (is_space b)). destruct (fcc chars inl (is_space b) s) as [p r]. simpl in *.
  apply orb_false_iff in E as [_ E]. now rewrite E, IH.
Qed.
Lemma lskip_split s : exists w, s = w ++ lskip s.
Proof. induction s as [|b s [w E]]; [exists []; reflexivity|]. simpl. destruct (is_space b); [exists (b :: w); simpl; now rewrite <- E|exists []; reflexivity]. Qed.
Lemma lskip_head s : head_nonspace (lskip s) = true.
Proof. induction s as [|b s IH]; simpl; [reflexivity|]. destruct (is_space b) eqn:E; [exact IH|simpl; now rewrite E]. Qed.

Lemma rstrip_tail_fixed b s : rstrip (b :: s) = b :: s -> rstrip s = s.
Proof.
  simpl. destruct (rstrip s) as [|x r] eqn:R.
  - destruct (is_space b); [discriminate|]. intros H; injection H as <-. reflexivity.
  - intros H; injection H as <-. reflexivity.
Qed.
Lemma rstrip_lskip_fixed s : rstrip s = s -> rstrip (lskip s) = lskip s.
Proof.
  induction s as [|b s IH]; intros H; simpl; [reflexivity|]. destruct (is_space b); [|exact H].
  apply IH. now apply rstrip_tail_fixed in H.
Qed.

Lemma has_inline_mono inl b : forall ws0, has_inline inl ws0 b = false -> has_inline inl false b = false.
Proof. destruct b as [|x b]; intros ws0 H; [reflexivity|]. simpl in *. apply orb_false_iff in H as [_ H]. exact H. Qed.
Lemma has_inline_suffix inl a b ws0 : has_inline inl ws0 (a ++ b) = false -> has_inline inl false b = false.
Proof. rewrite has_inline_app. intros H. apply orb_false_iff in H as [_ H]. now apply has_inline_mono in H. Qed.
Lemma has_inline_prefix inl a b ws0 : has_inline inl ws0 (a ++ b) = false -> has_inline inl ws0 a = false.
Proof. rewrite has_inline_app. intros H. now apply orb_false_iff in H as [H _]. Qed.

(** [unquote v] is [v], or [v] without its first and last byte, or empty (a lone quote character) *)
Lemma unquote_cases v : unquote v = v \/ (exists q x, v = [q] ++ unquote v ++ [x]) \/ unquote v = [].
Proof.
  unfold unquote.
  assert (Q : forall q, match strip_q q v with Some u => (exists x, v = [q] ++ u ++ [x]) \/ u = [] | None => True end).
  { intros q. unfold strip_q. destruct v as [|b r]; [exact I|]. destruct (beq b q && beq (last (b :: r) NUL) q) eqn:E; [|exact I].
    apply andb_prop in E as [E1 E2]. apply beq_eq in E1. subst b.
    destruct r as [|y r']; [right; reflexivity|]. left.
    exists (last (y :: r') NUL). cbn [app]. f_equal. apply app_removelast_last. discriminate. }
  pose proof (Q DQ) as Q1. pose proof (Q SQ) as Q2.
  destruct (strip_q DQ v) as [u|].
  - right. destruct Q1 as [[x E]|E]; [left; exists DQ, x; exact E|right; exact E].
  - destruct (strip_q SQ v) as [u|]; [|now left].
    right. destruct Q2 as [[x E]|E]; [left; exists SQ, x; exact E|right; exact E].
Qed.

Lemma no_inline_join n a : has_inline [SEMI] false n = false -> has_inline [SEMI] false a = false ->
  has_inline [SEMI] false (n ++ [COLONB] ++ a) = false.
Proof.
  intros H1 H2. rewrite has_inline_app, H1. cbn [orb]. rewrite has_inline_app.
  assert (E1 : forall ws, has_inline [SEMI] ws [COLONB] = false) by (intros []; reflexivity).
  assert (E2 : forall ws, ends_space ws [COLONB] = false) by (intros ws; reflexivity).
  now rewrite E1, E2, H2.
Qed.

(** * the values one line can produce *)
Section Reach.
  Variable c : config_consts.
  Hypothesis OK : config_consts_ok c = true.

  Let IC : ini_inline_comment c = [SEMI] := proj1 (proj2 (ok_ini c OK)).
  Let SC : ini_start_comment c = [SEMI; HASH] := proj1 (ok_ini c OK).

  Lemma unquote_shape V : all_good V -> has_inline [SEMI] false V = false -> value_shape c (unquote V) = true.
  Proof.
    intros G I. unfold value_shape, no_inline. rewrite IC.
    destruct (unquote_cases V) as [E|[[q [x E]]|E]].
    - rewrite E, I, (all_good_clean _ G). reflexivity.
    - assert (G' : all_good (unquote V)).
      { intros b Hb. apply G. rewrite E. apply in_or_app. right. apply in_or_app. now left. }
      rewrite (all_good_clean _ G').
      rewrite E in I. apply has_inline_suffix in I. apply has_inline_prefix in I. now rewrite I.
    - rewrite E. reflexivity.
  Qed.

  Lemma body_values st ln bom l1 : all_good (rstrip l1) ->
    forall e, In e (snd (ini_body c st ln bom l1)) -> value_shape c (snd e) = true.
  Proof.
    intros G e. unfold ini_body.
    assert (GS : all_good (lskip (rstrip l1))) by (eapply all_good_sub; [apply In_lskip|exact G]).
    assert (RF : rstrip (lskip (rstrip l1)) = lskip (rstrip l1)) by (apply rstrip_lskip_fixed, rstrip_idem).
    pose proof (lskip_head (rstrip l1)) as HN.
    destruct (lskip (rstrip l1)) as [|b rest] eqn:S; [intros []|].
    destruct (memb b (ini_start_comment c)) eqn:M; [intros []|].
    destruct (nonempty (st_prev st) && (bom || negb (Nat.eqb (length (b :: rest)) (length (rstrip l1))))).
    - (* continuation line: the whole stripped line *)
      intros [<-|[]]. cbn [snd]. unfold value_shape, cont_shape. rewrite (all_good_clean _ GS).
      unfold no_outer_ws. rewrite RF, list_eqb_refl, (lskip_head_nonspace _ HN), list_eqb_refl.
      cbn [nonempty head_not_in andb]. rewrite M. cbn. now rewrite orb_true_r.
    - destruct (beq b LBR).
      + destruct (fcc [RBR] (ini_inline_comment c) false rest) as [sec r]. destruct r as [|x r]; [intros []|]. destruct (beq x RBR); intros [].
      + pose proof (fcc_split [EQB; COLONB] (ini_inline_comment c) (b :: rest) false) as SP.
        destruct (fcc [EQB; COLONB] (ini_inline_comment c) false (b :: rest)) as [nm r]. cbn [fst snd] in SP.
        destruct r as [|x v]; [intros []|]. destruct (beq x EQB || beq x COLONB); [|intros []].
        pose proof (fcc_split [] (ini_inline_comment c) v false) as SP2.
        pose proof (fcc_fst_no_inline [] (ini_inline_comment c) v false) as NI.
        destruct (fcc [] (ini_inline_comment c) false v) as [v1 r1]. cbn [fst snd] in SP2, NI.
        intros [<-|[]]. cbn [snd]. rewrite IC in NI.
        assert (G1 : all_good v1).
        { intros y Hy. apply GS. rewrite SP. apply in_or_app. right. right. rewrite SP2. apply in_or_app. now left. }
        apply unquote_shape.
        * eapply all_good_sub; [|exact G1]. intros y Hy. apply In_lskip. now apply In_rstrip.
        * destruct (lskip_split v1) as [w E]. rewrite E in NI. apply has_inline_suffix in NI.
          destruct (rstrip_split (lskip v1)) as [w' [E' _]]. rewrite E' in NI. now apply has_inline_prefix in NI.
  Qed.

  (** ** the buffers fgets returns hold a newline only as their last byte *)
  Definition chunk_shape (ch : list byte) : Prop := exists s t, ch = s ++ t /\ nonlb s = true /\ (t = [] \/ t = [NL]).

  Lemma chunks_shape n d : forall k, Forall chunk_shape (chunks n k d).
  Proof.
    induction d as [|b d IH]; intros k; simpl; [constructor|].
    destruct (beq b NL) eqn:E.
    - apply beq_eq in E. subst b. constructor; [|apply IH]. exists [], [NL]. auto.
    - assert (ONE : chunk_shape [b]) by (exists [b], []; simpl; rewrite E; auto).
      destruct k as [|[|k']]; try (constructor; [exact ONE|apply IH]).
      specialize (IH (S k')). destruct (chunks n (S k') d) as [|c0 cs]; simpl; [constructor; [exact ONE|constructor]|].
      inversion IH as [|? ? [s [t [E1 [E2 E3]]]] IH']; subst. constructor; [|assumption].
      exists (b :: s), t. simpl. rewrite E, E2. auto.
  Qed.

  Lemma cstr_shape ch : chunk_shape ch -> exists u t, cstr ch = u ++ t /\ all_good u /\ all_space t = true.
  Proof.
    intros [s [t [-> [NS T]]]]. induction s as [|b s IH].
    - exists [], (cstr t). split; [reflexivity|]. split; [intros x []|]. destruct T as [->| ->]; reflexivity.
    - simpl in NS. apply andb_prop in NS as [N1 N2]. simpl. destruct (beq b NUL) eqn:E.
      + exists [], []. split; [reflexivity|]. split; [intros x []|reflexivity].
      + destruct (IH N2) as [u [t' [E1 [G A]]]]. exists (b :: u), t'. simpl. rewrite E1. split; [reflexivity|]. split; [|exact A].
        intros x [<-|Hx]; [|now apply G]. split; [now apply beq_neq|apply beq_neq; now apply negb_true_iff in N1].
  Qed.

  Lemma line_values st ch : chunk_shape ch -> forall e, In e (snd (ini_line c st ch)) -> value_shape c (snd e) = true.
  Proof.
    intros SH. unfold ini_line. destruct (cstr_shape ch SH) as [u [t [E [G A]]]]. rewrite E.
    apply body_values.
    assert (K : forall k, all_good (rstrip (skipn k (u ++ t)))).
    { intros k. rewrite skipn_app. rewrite rstrip_app_space.
      - eapply all_good_sub; [|exact G]. intros x Hx. apply In_rstrip in Hx. eapply In_skipn; eauto.
      - unfold all_space in *. rewrite forallb_forall in *. intros x Hx. apply A. eapply In_skipn; eauto. }
    destruct ((st_lineno st + 1 =? 1)%N && prefixb BOM (u ++ t)); [apply K|apply (K 0)].
  Qed.

  Lemma lines_values chs : Forall chunk_shape chs -> forall st e, In e (snd (ini_lines c st chs)) -> value_shape c (snd e) = true.
  Proof.
    induction 1 as [|ch chs H HF IH]; intros st e; simpl; [intros []|].
    pose proof (line_values st ch H) as L. destruct (ini_line c st ch) as [st1 e1]. 
    specialize (IH st1). destruct (ini_lines c st1 chs) as [st2 e2]. simpl in *.
    intros Hin. apply in_app_or in Hin as [Hin|Hin]; auto.
  Qed.

  Theorem ini_values_shape data : forall e, In e (fst (ini_events c data)) -> value_shape c (snd e) = true.
  Proof.
    intros e. unfold ini_events, file_chunks.
    pose proof (lines_values _ (chunks_shape (N.to_nat (ini_max_line c - 1)) data (N.to_nat (ini_max_line c - 1))) ini_init e) as L.
    destruct (ini_lines c ini_init (chunks (N.to_nat (ini_max_line c - 1)) (N.to_nat (ini_max_line c - 1)) data)) as [st ev]. exact L.
  Qed.

  (** * the invariant is kept by the callback *)
  Lemma printable_shape v : printable c v = true -> value_shape c v = true.
  Proof. unfold printable, value_shape. intros H. apply andb_prop in H as [A B]. now rewrite A, B. Qed.

  Lemma index_decompose x v k : index x v = Some k -> v = firstn k v ++ x :: skipn (S k) v.
  Proof.
    revert k. induction v as [|b v IH]; intros k; simpl; [discriminate|].
    destruct (beq b x) eqn:E.
    - intros H; injection H as <-. apply beq_eq in E. now subst.
    - destruct (index x v) as [j|]; simpl; [|discriminate]. intros H; injection H as <-. simpl. f_equal. now apply IH.
  Qed.

  Lemma output_shape g v : value_shape c v = true ->
    let g' := set_output g (parse_output c v) in value_shape c (render_output c g') = true /\ name_known c (output g') = true.
  Proof.
    intros V. pose proof OK as H. split_ok H.
    match goal with A : beq (output_sep c) COLONB = true |- _ => apply beq_eq in A; rename A into SEP end.
    match goal with A : name_known c (d_output c) = true |- _ => rename A into DK end.
    match goal with A : printable c (d_output_arg c) = true |- _ => rename A into DA end.
    assert (DEF : value_shape c (render_output c (set_output g (d_output c, d_output_arg c))) = true).
    { unfold render_output. cbn [set_output output output_arg fst snd].
      destruct (name_known_facts c OK _ DK) as [_ [_ [P _]]].
      destruct (d_output_arg c) as [|a0 a] eqn:A; [now apply printable_shape|].
      apply printable_shape. unfold printable in *. apply andb_prop in P as [P1 P2]. apply andb_prop in DA as [D1 D2].
      rewrite !clean_app, P1, D1, SEP. cbn [clean forallb]. change (negb (beq COLONB NL) && negb (beq COLONB NUL)) with true. cbn [andb].
      unfold no_inline in *. rewrite IC in *. apply negb_true_iff in P2, D2. now rewrite (no_inline_join _ _ P2 D2). }
    unfold parse_output, split_output. rewrite SEP.
    destruct (index COLONB v) as [k|] eqn:E.
    - destruct (name_known c (firstn k v)) eqn:KNW; [|split; [exact DEF|exact DK]].
      split; [|exact KNW]. unfold render_output. cbn [set_output output output_arg fst snd].
      destruct (skipn (S k) v) as [|a0 a] eqn:A.
      + destruct (name_known_facts c OK _ KNW) as [_ [_ [P _]]]. now apply printable_shape.
      + rewrite SEP. rewrite <- A. cbn [app]. now rewrite <- (index_decompose _ _ _ E).
    - destruct (name_known c v) eqn:KNW; [|split; [exact DEF|exact DK]].
      split; [|exact KNW]. unfold render_output. cbn [set_output output output_arg fst snd]. exact V.
  Qed.

  Lemma in_range_assoc t k n : assoc_str k t = Some n -> in_range t n = true.
  Proof. intros H. apply assoc_str_In in H. unfold in_range. apply existsb_exists. exists (k, n). split; [assumption|apply N.eqb_refl]. Qed.

  Lemma parse_value_wf o v g : registered c o -> cfg_wf c g = true -> value_shape c v = true -> cfg_wf c (parse_value c o v g) = true.
  Proof.
    intros R WF V. pose proof WF as WF0. unfold cfg_wf in WF. rewrite !andb_true_iff in WF.
    destruct WF as [[[[[[[[[[[S1 S2] S3] S4] KN] RF] RL] D1] D2] L1] L2] FC].
    destruct o; cbn [parse_value].
    - destruct (parse_bool c v); exact WF0.
    - (* filter_chain *)
      assert (RB : registered_b c OFilterChain = true).
      { unfold registered in R. apply in_map_iff in R as [r [E Hin]]. unfold registered_b. apply existsb_exists. exists r. split; [assumption|]. rewrite E. reflexivity. }
      unfold cfg_wf. cbn [set_filter_chain message_format filter_chain syslog_ident output output_arg syslog_facility syslog_level ds_max_len log_max_len].
      change (render_output c (set_filter_chain g v)) with (render_output c g).
      rewrite S1, V, S3, S4, KN, RF, RL, D1, D2, L1, L2, RB. reflexivity.
    - unfold cfg_wf. cbn [set_message_format message_format filter_chain syslog_ident output output_arg syslog_facility syslog_level ds_max_len log_max_len].
      change (render_output c (set_message_format g v)) with (render_output c g).
      rewrite V, S2, S3, S4, KN, RF, RL, D1, D2, L1, L2, FC. reflexivity.
    - destruct (output_shape g v V) as [A B].
      unfold cfg_wf. rewrite A, B.
      cbn [set_output message_format filter_chain syslog_ident syslog_facility syslog_level ds_max_len log_max_len].
      rewrite S1, S2, S3, RF, RL, D1, D2, L1, L2, FC. reflexivity.
    - (* facility *)
      assert (IR : in_range (fac_to_int c) (parse_facility c v) = true).
      { unfold parse_facility. destruct (assoc_str (syslog_key c v) (fac_to_int c)) eqn:E; [eapply in_range_assoc; eauto|].
        pose proof OK as H. split_ok H. match goal with A : table_ok (fac_to_int c) _ _ _ = true |- _ => unfold table_ok in A; apply andb_prop in A as [_ A]; exact A end. }
      unfold cfg_wf. cbn [set_facility message_format filter_chain syslog_ident output output_arg syslog_facility syslog_level ds_max_len log_max_len].
      change (render_output c (set_facility g (parse_facility c v))) with (render_output c g).
      rewrite S1, S2, S3, S4, KN, IR, RL, D1, D2, L1, L2, FC. reflexivity.
    - unfold cfg_wf. cbn [set_ident message_format filter_chain syslog_ident output output_arg syslog_facility syslog_level ds_max_len log_max_len].
      change (render_output c (set_ident g v)) with (render_output c g).
      rewrite S1, S2, V, S4, KN, RF, RL, D1, D2, L1, L2, FC. reflexivity.
    - (* level *)
      assert (IR : in_range (lvl_to_int c) (parse_level c v) = true).
      { unfold parse_level. destruct (assoc_str (syslog_key c v) (lvl_to_int c)) eqn:E; [eapply in_range_assoc; eauto|].
        pose proof OK as H. split_ok H. match goal with A : table_ok (lvl_to_int c) _ _ _ = true |- _ => unfold table_ok in A; apply andb_prop in A as [_ A]; exact A end. }
      unfold cfg_wf. cbn [set_level message_format filter_chain syslog_ident output output_arg syslog_facility syslog_level ds_max_len log_max_len].
      change (render_output c (set_level g (parse_level c v))) with (render_output c g).
      rewrite S1, S2, S3, S4, KN, RF, IR, D1, D2, L1, L2, FC. reflexivity.
    - (* datasource_message_max_length *)
      destruct (ok_ds c OK) as [M1 [M2 [M3 _]]]. pose proof (len_in_range c OK (ds_min c) (ds_max c) (ds_def c) v M2 M3) as [B1 B2].
      apply N.leb_le in B1, B2.
      unfold cfg_wf. cbn [set_ds_len message_format filter_chain syslog_ident output output_arg syslog_facility syslog_level ds_max_len log_max_len].
      change (render_output c (set_ds_len g (bytelen c (ds_min c) (ds_max c) (ds_def c) v))) with (render_output c g).
      rewrite S1, S2, S3, S4, KN, RF, RL, B1, B2, L1, L2, FC. reflexivity.
    - (* log_message_max_length *)
      destruct (ok_log c OK) as [M1 [M2 [M3 _]]]. pose proof (len_in_range c OK (log_min c) (log_max c) (log_def c) v M2 M3) as [B1 B2].
      apply N.leb_le in B1, B2.
      unfold cfg_wf. cbn [set_log_len message_format filter_chain syslog_ident output output_arg syslog_facility syslog_level ds_max_len log_max_len].
      change (render_output c (set_log_len g (bytelen c (log_min c) (log_max c) (log_def c) v))) with (render_output c g).
      rewrite S1, S2, S3, S4, KN, RF, RL, D1, D2, B1, B2, FC. reflexivity.
    - exact WF0.
  Qed.

  Lemma handler_wf g e : cfg_wf c g = true -> value_shape c (snd e) = true -> cfg_wf c (handler c g e) = true.
  Proof.
    intros WF V. destruct e as [[sec name] v]. unfold handler. destruct (list_eqb sec (section_name c)); [|exact WF].
    destruct (find_row name (options c)) as [r|] eqn:F; [|exact WF].
    destruct (find_other c OK _ _ F) as [_ R]. now apply parse_value_wf.
  Qed.

  Lemma defaults_wf : cfg_wf c (defaults c) = true.
  Proof.
    pose proof OK as H. split_ok H.
    match goal with A : name_known c (d_output c) = true |- _ => rename A into DK end.
    match goal with A : printable c (d_output_arg c) = true |- _ => rename A into DA end.
    match goal with A : beq (output_sep c) COLONB = true |- _ => pose proof (proj1 (beq_eq _ _) A) as SEP end.
    assert (RO : value_shape c (render_output c (defaults c)) = true).
    { unfold render_output. cbn [defaults output output_arg].
      destruct (name_known_facts c OK _ DK) as [_ [_ [P _]]]. pose proof DA as DA'.
      destruct (d_output_arg c) as [|a0 a] eqn:A; [now apply printable_shape|].
      apply printable_shape. unfold printable in *. apply andb_prop in P as [P1 P2]. apply andb_prop in DA' as [D1 D2].
      rewrite !clean_app, P1, D1, SEP. cbn [clean forallb]. change (negb (beq COLONB NL) && negb (beq COLONB NUL)) with true. cbn [andb].
      unfold no_inline in *. rewrite IC in *. apply negb_true_iff in P2, D2. now rewrite (no_inline_join _ _ P2 D2). }
    unfold cfg_wf. rewrite RO. cbn [defaults message_format filter_chain syslog_ident output output_arg syslog_facility syslog_level ds_max_len log_max_len].
    rewrite DK.
    repeat match goal with A : printable c _ = true |- _ => apply printable_shape in A end.
    repeat match goal with A : value_shape c _ = true |- _ => rewrite A; clear A end.
    repeat match goal with A : table_ok _ _ _ _ = true |- _ => unfold table_ok in A; apply andb_prop in A as [_ A]; unfold in_range; rewrite A; clear A end.
    destruct (ok_ds c OK) as [_ [_ [[A1 A2] _]]]. destruct (ok_log c OK) as [_ [_ [[B1 B2] _]]].
    apply N.leb_le in A1, A2, B1, B2. rewrite A1, A2, B1, B2, list_eqb_refl, orb_true_r. reflexivity.
  Qed.

  Theorem load_wf data : cfg_wf c (load c (defaults c) data) = true.
  Proof.
    unfold load. pose proof (ini_values_shape data) as SH.
    assert (G : forall evs g, (forall e, In e evs -> value_shape c (snd e) = true) -> cfg_wf c g = true -> cfg_wf c (fold_left (handler c) evs g) = true).
    { induction evs as [|e evs IH]; intros g S W; [exact W|]. simpl. apply IH; [intros x Hx; apply S; now right|]. apply handler_wf; [exact W|apply S; now left]. }
    apply G; [exact SH|exact defaults_wf].
  Qed.

  (** ** C08_conf_roundtrip *)
  Theorem conf_roundtrip file path : let g := load c (defaults c) file in
    conf_ok c path g = true -> load c (defaults c) (conf_print c path g) = g.
  Proof. intros g CO. apply (conf_roundtrip_wf c OK); [apply load_wf|exact CO]. Qed.
End Reach.
