(** C08_grammar_roundtrip: for every abstract file [f] of the supported grammar,
    [ini_events c (render f) = (meaning c f, 0)] — decode after encode is the identity on meanings. *)
From Coq Require Import Strings.String.
From Snoopy Require Import Lib.CStr Config.Model Config.Grammar Config.Exec Config.Values Config.IniLemmas Config.IniLines.
From Coq Require Import ZifyBool ZifyN ZifyNat.
Local Open Scope nat_scope.

Definition item_effect (c : config_consts) (sec prev : list byte) (it : item) : (list byte * list byte) * list event :=
  match it with
  | IBlank _ | IComment _ _ _ => ((sec, prev), [])
  | ISection _ n _ => ((takeN (ini_max_section c - 1) n, []), [])
  | IKeyValue _ k _ _ _ _ v _ _ => ((sec, takeN (ini_max_name c - 1) k), [(sec, k, v)])
  | ICont _ v => ((sec, prev), [(sec, prev, v)])
  end.

Lemma meaning_step c sec prev it e rest :
  meaning_items c sec prev ((it, e) :: rest) =
  snd (item_effect c sec prev it) ++ meaning_items c (fst (fst (item_effect c sec prev it))) (snd (fst (item_effect c sec prev it))) rest.
Proof. destruct it; reflexivity. Qed.

Definition nonulb' (s : list byte) : bool := forallb (fun b => negb (beq b NUL)) s.
Definition nonlb (s : list byte) : bool := forallb (fun b => negb (beq b NL)) s.

Lemma clean_split t : clean t = true -> nonulb' t = true /\ nonlb t = true.
Proof.
  unfold clean, nonulb', nonlb. rewrite !forallb_forall. intros H. split; intros x Hx; specialize (H x Hx); apply andb_prop in H; tauto.
Qed.
Lemma ws_split w : inline_ws w = true -> nonulb' w = true /\ nonlb w = true.
Proof.
  unfold inline_ws, nonulb', nonlb. rewrite !forallb_forall. intros H. split; intros x Hx; specialize (H x Hx); apply andb_prop in H as [A B]; [|assumption].
  apply negb_true_iff, beq_neq. intros ->. discriminate.
Qed.
Lemma nonulb'_app a b : nonulb' (a ++ b) = nonulb' a && nonulb' b.  Proof. apply forallb_app. Qed.
Lemma nonlb_app a b : nonlb (a ++ b) = nonlb a && nonlb b.  Proof. apply forallb_app. Qed.
Lemma nonlb_notin s : nonlb s = true -> ~ In NL s.
Proof. unfold nonlb. rewrite forallb_forall. intros H Hin. specialize (H _ Hin). rewrite beq_refl in H. discriminate. Qed.

Section RoundTrip.
  Variable c : config_consts.
  Hypothesis OK : config_consts_ok c = true.

  Let SC : ini_start_comment c = [SEMI; HASH] := proj1 (ok_ini c OK).
  Let n := N.to_nat (ini_max_line c - 1).
  Lemma n_big : 7 <= n.
  Proof. unfold n. pose proof (ok_ini c OK) as [_ [_ [L _]]]. lia. Qed.

  Lemma quote_clean q v : clean v = true -> nonulb' (quote q v) = true /\ nonlb (quote q v) = true.
  Proof.
    intros H. destruct (clean_split v H) as [A B]. unfold nonulb', nonlb in *.
    destruct q; cbn [quote]; repeat (rewrite ?forallb_app; cbn [forallb app]); rewrite ?A, ?B; auto.
  Qed.

  (** the text of a well-formed item holds neither NUL nor newline *)
  Ltac crunch := unfold nonulb', nonlb in *; repeat (rewrite ?forallb_app; cbn [forallb app]).

  Lemma item_clean ps it : wf_item c ps it = true -> nonulb' (render_item it) = true /\ nonlb (render_item it) = true.
  Proof.
    destruct it as [w|w m t|w nm t|w1 k w2 sep w3 q v w4 cm|w v]; cbn [wf_item render_item]; intros H; rewrite ?andb_true_iff in H.
    - now apply ws_split.
    - destruct H as [[W M] T]. destruct (ws_split _ W) as [A1 A2]. destruct (clean_split _ T) as [B1 B2].
      assert (Mn : negb (beq m NUL) = true /\ negb (beq m NL) = true).
      { rewrite SC in M. unfold memb in M. simpl in M. rewrite orb_false_r in M. apply orb_prop in M as [M|M]; apply beq_eq in M; subst; split; reflexivity. }
      destruct Mn as [M1 M2]. crunch. now rewrite A1, A2, B1, B2, M1, M2.
    - destruct H as [[[[[W Cn] Ct] _] _] _]. destruct (ws_split _ W) as [A1 A2]. destruct (clean_split _ Cn) as [B1 B2]. destruct (clean_split _ Ct) as [C1 C2].
      crunch. now rewrite A1, A2, B1, B2, C1, C2.
    - destruct H as [[[[[[[[[[[[[[[[W1 W2] W3] W4] Ck] K1] K2] K3] K4] K5] K6] Pw] Sp] Cv] Iv] Qv] Cm].
      destruct (ws_split _ W1) as [A1 A2]. destruct (ws_split _ W2) as [B1 B2]. destruct (ws_split _ W3) as [C1 C2]. destruct (ws_split _ W4) as [D1 D2].
      destruct (clean_split _ Ck) as [E1 E2]. destruct (quote_clean q v Cv) as [F1 F2].
      assert (Sn : negb (beq sep NUL) = true /\ negb (beq sep NL) = true) by (apply orb_prop in Sp as [E|E]; apply beq_eq in E; subst; split; reflexivity).
      destruct Sn as [S1 S2].
      assert (G : nonulb' (match cm with Some t => SEMI :: t | None => [] end) = true /\ nonlb (match cm with Some t => SEMI :: t | None => [] end) = true).
      { destruct cm as [t|]; [|split; reflexivity]. apply andb_prop in Cm as [_ Ct]. destruct (clean_split _ Ct) as [G1 G2]. crunch. now rewrite G1, G2. }
      destruct G as [G1 G2].
      crunch. rewrite A1, A2, B1, B2, C1, C2, D1, D2, E1, E2, F1, F2, S1, S2, G1, G2. auto.
    - destruct H as [[[[[[_ W] _] Cv] _] _] _]. destruct (ws_split _ W) as [A1 A2]. destruct (clean_split _ Cv) as [B1 B2].
      crunch. now rewrite A1, A2, B1, B2.
  Qed.

  (** ** one physical line of the file *)
  Lemma item_step st ln bom it e : wf_item c (nonempty (st_prev st)) it = true -> (bom = true -> st_prev st = []) ->
    ini_body c st ln bom (render_item it ++ render_eol e) =
    ({| st_section := fst (fst (item_effect c (st_section st) (st_prev st) it)); st_prev := snd (fst (item_effect c (st_section st) (st_prev st) it));
        st_error := st_error st; st_lineno := ln |}, snd (item_effect c (st_section st) (st_prev st) it)).
  Proof.
    intros WF Bom. destruct it as [w|w m t|w nm t|w1 k w2 sep w3 q v w4 cm|w v].
    - simpl in *. first [apply (blank_line c OK)|apply (blank_line c)]; assumption.
    - simpl in WF. rewrite !andb_true_iff in WF. destruct WF as [[W M] T]. cbn [render_item]. rewrite <- !app_assoc.
      apply (comment_line_no_event c OK); assumption.
    - simpl in WF. rewrite !andb_true_iff in WF. destruct WF as [[[[[W Cn] Ct] Nr] Ni] Pw]. cbn [render_item]. rewrite <- !app_assoc.
      apply (section_line c OK); try assumption.
      destruct (nonempty (st_prev st)) eqn:P; [|reflexivity]. destruct bom; [rewrite (Bom eq_refl) in P; discriminate|].
      simpl in Pw. simpl. now apply negb_true_iff in Pw.
    - cbn [render_item]. rewrite <- !app_assoc.
      change (w4 ++ match cm with Some t => SEMI :: t | None => [] end ++ render_eol e) with (kv_tail w4 cm e).
      apply (kv_line_event c OK); assumption.
    - simpl in WF. rewrite !andb_true_iff in WF. destruct WF as [[[[[[P W] Wn] Cv] Vn] Vo] Hd]. cbn [render_item]. rewrite <- !app_assoc.
      first [apply (cont_line_event c OK)|apply (cont_line_event c)]; assumption.
  Qed.

  Lemma prev_after_effect ps sec prev it : nonempty prev = ps ->
    nonempty (snd (fst (item_effect c sec prev it))) = prev_after ps it.
  Proof.
    intros P. destruct it; simpl; try assumption; try reflexivity.
    pose proof (ok_ini c OK) as [_ [_ [_ [_ L]]]]. unfold takeN. destruct key as [|b k]; [now rewrite firstn_nil|].
    destruct (N.to_nat (ini_max_name c - 1)) eqn:E; [lia|reflexivity].
  Qed.

  Lemma prefixb_app_false p a b : prefixb p (a ++ b) = false -> prefixb p a = false.
  Proof.
    intros H. destruct (prefixb p a) eqn:E; [|reflexivity]. apply prefixb_app in E as [r ->].
    rewrite <- app_assoc, prefixb_refl_app in H. discriminate.
  Qed.

  (** ini_line on a buffer [pre ++ X] where [pre] is the BOM on the first line of the file, or nothing *)
  Lemma ini_line_norm st pre X : nonulb' X = true ->
    (pre = [] /\ (st_lineno st = 0%N -> prefixb BOM X = false)) \/ (pre = BOM /\ st_lineno st = 0%N) ->
    ini_line c st (pre ++ X) = ini_body c st (st_lineno st + 1) (nonempty pre) X.
  Proof.
    intros NX [[-> H]|[-> L]]; unfold ini_line.
    - simpl app. rewrite (cstr_nonul X NX). destruct (N.eqb_spec (st_lineno st + 1) 1) as [E|E].
      + rewrite H by lia. reflexivity.
      + reflexivity.
    - rewrite cstr_nonul by (rewrite nonulb'_app, NX; reflexivity). rewrite L. simpl N.eqb. rewrite prefixb_refl_app. reflexivity.
  Qed.

  Lemma len_nat s : len s = N.of_nat (length s).  Proof. reflexivity. Qed.

  Lemma eol_nonul e : nonulb' (render_eol e) = true.  Proof. destruct e; reflexivity. Qed.

  (** ** the whole file *)
  Lemma items_ok : forall items st pre,
    (pre = [] \/ (pre = BOM /\ st_lineno st = 0%N /\ st_prev st = [])) ->
    (st_lineno st = 0%N -> pre = [] -> prefixb BOM (render_items items) = false) ->
    wf_items c (nonempty (st_prev st)) (len pre) items = true ->
    exists st', ini_lines c st (chunks n n (pre ++ render_items items)) = (st', meaning_items c (st_section st) (st_prev st) items)
                /\ st_error st' = st_error st.
  Proof.
    pose proof n_big as NB.
    induction items as [|[it e] rest IH]; intros st pre PRE NOBOM WF.
    - unfold render_items. simpl. rewrite app_nil_r. destruct PRE as [->|[-> [L P]]].
      + simpl. eauto.
      + rewrite chunks_last; [|intros [H|[H|[H|[]]]]; discriminate|simpl; lia|lia]. simpl ini_lines.
        rewrite <- (app_nil_r BOM). rewrite ini_line_norm; [|reflexivity|right; auto].
        simpl. eexists. split; reflexivity.
    - simpl in WF. rewrite !andb_true_iff in WF. destruct WF as [[[WFi LEN] LAST] WFr].
      destruct (item_clean _ _ WFi) as [NU NN].
      assert (PRE' : (pre = [] /\ (st_lineno st = 0%N -> prefixb BOM (render_item it ++ render_eol e) = false)) \/ (pre = BOM /\ st_lineno st = 0%N)).
      { destruct PRE as [->|[-> [L P]]]; [left|right; auto]. split; [reflexivity|]. intros L. specialize (NOBOM L eq_refl).
        change (render_items ((it, e) :: rest)) with ((render_item it ++ render_eol e) ++ render_items rest) in NOBOM. now apply prefixb_app_false in NOBOM. }
      assert (BOMP : nonempty pre = true -> st_prev st = []).
      { destruct PRE as [->|[-> [L P]]]; [discriminate|auto]. }
      assert (LINE : ini_line c st (pre ++ render_item it ++ render_eol e) =
                     ({| st_section := fst (fst (item_effect c (st_section st) (st_prev st) it)); st_prev := snd (fst (item_effect c (st_section st) (st_prev st) it));
                         st_error := st_error st; st_lineno := st_lineno st + 1 |}, snd (item_effect c (st_section st) (st_prev st) it))).
      { rewrite ini_line_norm; [|rewrite nonulb'_app, NU, eol_nonul; reflexivity|exact PRE']. now apply item_step. }
      set (st1 := {| st_section := fst (fst (item_effect c (st_section st) (st_prev st) it)); st_prev := snd (fst (item_effect c (st_section st) (st_prev st) it));
                     st_error := st_error st; st_lineno := (st_lineno st + 1)%N |}) in *.
      assert (PNL : ~ In NL pre) by (destruct PRE as [->|[-> _]]; [tauto|intros [H|[H|[H|[]]]]; discriminate]).
      apply N.leb_le in LEN. unfold render_line in LEN. simpl fst in LEN. simpl snd in LEN. rewrite !len_nat in LEN. rewrite app_length in LEN.
      rewrite meaning_step.
      assert (REST : wf_items c (nonempty (st_prev st1)) (len []) rest = true).
      { simpl st_prev. rewrite (prev_after_effect (nonempty (st_prev st)) _ _ _ eq_refl). exact WFr. }
      destruct e.
      + (* "\n" *)
        unfold render_items. simpl map. simpl concat. unfold render_line at 1. simpl fst. simpl snd. simpl render_eol in *.
        replace (pre ++ (render_item it ++ [NL]) ++ concat (map render_line rest)) with ((pre ++ render_item it) ++ NL :: render_items rest)
          by (unfold render_items; now rewrite <- !app_assoc).
        rewrite chunks_line; [|intros H; apply in_app_or in H as [H|H]; [now apply PNL|now apply (nonlb_notin _ NN)]|rewrite app_length; simpl in LEN; unfold n; lia].
        simpl ini_lines. rewrite <- app_assoc, LINE.
        destruct (IH st1 [] (or_introl eq_refl)) as [st' [E1 E2]]; [simpl; lia|exact REST|].
        simpl app in E1. rewrite E1. eexists. split; [reflexivity|]. rewrite E2. reflexivity.
      + (* "\r\n" *)
        unfold render_items. simpl map. simpl concat. unfold render_line at 1. simpl fst. simpl snd. simpl render_eol in *.
        replace (pre ++ (render_item it ++ [CR; NL]) ++ concat (map render_line rest)) with ((pre ++ render_item it ++ [CR]) ++ NL :: render_items rest)
          by (unfold render_items; rewrite <- !app_assoc; reflexivity).
        rewrite chunks_line; [|intros H; apply in_app_or in H as [H|H]; [now apply PNL|apply in_app_or in H as [H|[H|[]]]; [now apply (nonlb_notin _ NN)|discriminate]]
                              |rewrite !app_length; simpl in LEN; simpl; unfold n; lia].
        simpl ini_lines. replace ((pre ++ render_item it ++ [CR]) ++ [NL]) with (pre ++ render_item it ++ [CR; NL]) by (now rewrite <- !app_assoc).
        rewrite LINE.
        destruct (IH st1 [] (or_introl eq_refl)) as [st' [E1 E2]]; [simpl; lia|exact REST|].
        simpl app in E1. rewrite E1. eexists. split; [reflexivity|]. rewrite E2. reflexivity.
      + (* last line without a newline *)
        destruct rest; [|discriminate]. unfold render_items. simpl. unfold render_line. simpl. rewrite !app_nil_r in *.
        rewrite chunks_last; [|intros H; apply in_app_or in H as [H|H]; [now apply PNL|now apply (nonlb_notin _ NN)]|rewrite app_length; simpl in LEN; unfold n; lia|lia].
        destruct (pre ++ render_item it) as [|b l] eqn:E.
        * (* nothing at all: the item is an empty blank line *)
          apply app_eq_nil in E as [-> E]. simpl. exists st. split; [|reflexivity]. f_equal.
          destruct it as [w|w m t|w nm t|w1 k w2 sep w3 q v w4 cm|w v]; try reflexivity; exfalso.
          -- cbn [render_item app] in E. repeat (try discriminate E; apply app_eq_nil in E as [_ E]; cbn [app] in E).
          -- cbn [wf_item] in WFi. rewrite !andb_true_iff in WFi. destruct WFi as [[[[[[_ _] Wn] _] _] _] _].
             destruct w; [discriminate|]. discriminate E.
        * simpl ini_lines. rewrite LINE. rewrite ?app_nil_r. eexists. split; [reflexivity|reflexivity].
  Qed.

  Theorem grammar_roundtrip : forall f, wf c f = true -> ini_events c (render f) = (meaning c f, 0%N).
  Proof.
    intros f WF. unfold wf in WF. apply andb_prop in WF as [WFi NB]. unfold ini_events, file_chunks, render, meaning. fold n.
    destruct (f_bom f) eqn:B.
    - destruct (items_ok (f_items f) ini_init BOM) as [st' [E1 E2]]; [right; auto|discriminate|exact WFi|].
      rewrite E1. simpl. now rewrite E2.
    - destruct (items_ok (f_items f) ini_init []) as [st' [E1 E2]]; [now left| |exact WFi|].
      + intros _ _. simpl in NB. now apply negb_true_iff in NB.
      + cbn [app] in *. rewrite E1. simpl. now rewrite E2.
  Qed.
End RoundTrip.
