(** C08, value level: each of the nine value parsers of configfile.c computes the documentation-level
    reading of Exec.v ([doc_bool], [doc_syslog], [doc_output], [doc_len]) for EVERY value string,
    for every constant record with [config_consts_ok c = true]. *)
From Coq Require Import Strings.String.
From Snoopy Require Import Lib.CStr Config.Model Config.Grammar Config.Exec.
From Coq Require Import ZifyBool ZifyN ZifyNat.
Local Open Scope N_scope.

Ltac split_ok H := unfold config_consts_ok in H; repeat (apply andb_prop in H; let H' := fresh "K" in destruct H as [H H']).

(** * sets of letters *)
Lemma memb_In b l : memb b l = true <-> In b l.
Proof.
  unfold memb. rewrite existsb_exists. split.
  - intros [x [Hx E]]. apply beq_eq in E. now subst.
  - intros H. exists b. split; [assumption|apply beq_refl].
Qed.
Lemma same_set_memb a b x : same_set a b = true -> memb x a = memb x b.
Proof.
  unfold same_set. rewrite andb_true_iff, !forallb_forall. intros [H1 H2].
  destruct (memb x a) eqn:Ea.
  - apply memb_In in Ea. symmetry. now apply H1.
  - destruct (memb x b) eqn:Eb; [|reflexivity]. apply memb_In in Eb. apply H2 in Eb. congruence.
Qed.

(** * booleans by first letter *)
Theorem bool_first_letter c : config_consts_ok c = true -> forall v, parse_bool c v = doc_bool v.
Proof.
  intros H v. split_ok H. unfold parse_bool, doc_bool. destruct v as [|b v]; [reflexivity|].
  match goal with A : same_set (bool_true c) _ = true, B : same_set (bool_false c) _ = true |- _ =>
    rewrite (same_set_memb _ _ b A), (same_set_memb _ _ b B) end. reflexivity.
Qed.

(** * association lists *)
Lemma assoc_str_In k t v : assoc_str k t = Some v -> In (k, v) t.
Proof.
  induction t as [|[n x] t IH]; simpl; [discriminate|].
  destruct (list_eqb n k) eqn:E.
  - apply list_eqb_eq in E. intros Hx; injection Hx as ->. subst. now left.
  - intros Hx. right. now apply IH.
Qed.
Lemma assoc_str_None k t : assoc_str k t = None -> forall v, ~ In (k, v) t.
Proof.
  induction t as [|[n x] t IH]; simpl; [tauto|].
  destruct (list_eqb n k) eqn:E; [discriminate|]. intros Hn v [Hv|Hv].
  - injection Hv as -> ->. rewrite list_eqb_refl in E. discriminate.
  - now apply (IH Hn v).
Qed.

(** two tables that include each other pointwise are the same function *)
Lemma table_sub_spec a b : table_sub a b = true -> forall k v, In (k, v) a -> assoc_str k b = Some v.
Proof.
  unfold table_sub. rewrite forallb_forall. intros H k v Hin. specialize (H _ Hin). simpl in H.
  destruct (assoc_str k b) as [w|]; [|discriminate]. apply N.eqb_eq in H. now subst.
Qed.
Lemma table_equiv a b : table_sub a b = true -> table_sub b a = true -> forall k, assoc_str k a = assoc_str k b.
Proof.
  intros H1 H2 k. destruct (assoc_str k a) as [v|] eqn:Ea.
  - apply assoc_str_In in Ea. symmetry. now apply (table_sub_spec _ _ H1).
  - destruct (assoc_str k b) as [w|] eqn:Eb; [|reflexivity].
    apply assoc_str_In in Eb. apply (table_sub_spec _ _ H2) in Eb. congruence.
Qed.

Lemma assoc_noprefix t k : forallb (fun p => upper_name (fst p)) t = true -> prefixb LOG_ k = true -> assoc_str k t = None.
Proof.
  intros H P. destruct (assoc_str k t) as [v|] eqn:E; [|reflexivity].
  apply assoc_str_In in E. rewrite forallb_forall in H. specialize (H _ E). simpl in H.
  unfold upper_name in H. rewrite !andb_true_iff, negb_true_iff in H. destruct H as [[_ H] _]. congruence.
Qed.

(** * syslog names *)
Lemma strip_prefix_no p s : prefixb p s = false -> strip_prefix p s = s.
Proof. unfold strip_prefix. now intros ->. Qed.
Lemma strip_prefix_yes p s : prefixb p s = true -> strip_prefix p s = skipn (length p) s.
Proof. unfold strip_prefix. now intros ->. Qed.

(** the key compared by the ladders, when exactly one layer strips the prefix *)
Lemma syslog_key_single c v : list_eqb (log_prefix c) LOG_ = true -> single_strip c = true ->
  syslog_key c v = strip_prefix LOG_ (map to_upper v).
Proof.
  intros P S. apply list_eqb_eq in P. unfold syslog_key, single_strip, strip_if in *. rewrite P.
  destruct (cfg_strips c), (util_strips c); simpl in S; try discriminate; reflexivity.
Qed.
(** with both layers stripping, the result is the same unless the upper-cased value starts with LOG_LOG_ *)
Lemma syslog_key_double c v : list_eqb (log_prefix c) LOG_ = true -> (cfg_strips c || util_strips c) = true ->
  prefixb (LOG_ ++ LOG_) (map to_upper v) = false ->
  syslog_key c v = strip_prefix LOG_ (map to_upper v).
Proof.
  intros P S N. apply list_eqb_eq in P. unfold syslog_key, strip_if in *. rewrite P.
  destruct (cfg_strips c), (util_strips c); simpl in S; try discriminate; try reflexivity.
  set (u := map to_upper v) in *.
  destruct (prefixb LOG_ u) eqn:E.
  - rewrite (strip_prefix_yes _ _ E). apply strip_prefix_no.
    apply prefixb_app in E as [r ->]. change LOG_ with [x4c; x4f; x47; x5f] in *.
    simpl in N. simpl. exact N.
  - rewrite (strip_prefix_no _ _ E). now apply strip_prefix_no.
Qed.

Lemma doc_syslog_strip t v : forallb (fun p => upper_name (fst p)) t = true ->
  doc_syslog t v = assoc_str (strip_prefix LOG_ (map to_upper v)) t.
Proof.
  intros U. unfold doc_syslog. set (u := map to_upper v).
  destruct (prefixb LOG_ u) eqn:E.
  - rewrite (assoc_noprefix _ _ U E), (strip_prefix_yes _ _ E). reflexivity.
  - rewrite (strip_prefix_no _ _ E). now destruct (assoc_str u t).
Qed.

Definition no_double_prefix (v : list byte) : bool := negb (prefixb (LOG_ ++ LOG_) (map to_upper v)).

Theorem syslog_facility_names c : config_consts_ok c = true -> forall v,
  single_strip c = true \/ no_double_prefix v = true ->
  parse_facility c v = match doc_syslog (doc_fac c) v with Some n => n | None => d_facility c end.
Proof.
  intros H v D. split_ok H.
  match goal with A : table_ok (fac_to_int c) _ _ _ = true |- _ => unfold table_ok in A; repeat (apply andb_prop in A; let A' := fresh "T" in destruct A as [A A']) end.
  assert (KEY : syslog_key c v = strip_prefix LOG_ (map to_upper v)).
  { destruct D as [D|D]; [now apply syslog_key_single|]. apply syslog_key_double; try assumption. unfold no_double_prefix in D. now apply negb_true_iff in D. }
  unfold parse_facility. rewrite KEY.
  assert (U : forallb (fun p => upper_name (fst p)) (doc_fac c) = true).
  { rewrite forallb_forall. intros [n x] Hin. simpl.
    match goal with A : table_sub (doc_fac c) (fac_to_int c) = true |- _ => pose proof (table_sub_spec _ _ A _ _ Hin) as Q end.
    apply assoc_str_In in Q. match goal with A : forallb (fun p => upper_name (fst p)) (fac_to_int c) = true |- _ => rewrite forallb_forall in A; apply (A _ Q) end. }
  rewrite (doc_syslog_strip _ _ U). erewrite table_equiv; [reflexivity| |]; assumption.
Qed.

Theorem syslog_level_names c : config_consts_ok c = true -> forall v,
  single_strip c = true \/ no_double_prefix v = true ->
  parse_level c v = match doc_syslog (doc_lvl c) v with Some n => n | None => d_level c end.
Proof.
  intros H v D. split_ok H.
  match goal with A : table_ok (lvl_to_int c) _ _ _ = true |- _ => unfold table_ok in A; repeat (apply andb_prop in A; let A' := fresh "T" in destruct A as [A A']) end.
  assert (KEY : syslog_key c v = strip_prefix LOG_ (map to_upper v)).
  { destruct D as [D|D]; [now apply syslog_key_single|]. apply syslog_key_double; try assumption. unfold no_double_prefix in D. now apply negb_true_iff in D. }
  unfold parse_level. rewrite KEY.
  assert (U : forallb (fun p => upper_name (fst p)) (doc_lvl c) = true).
  { rewrite forallb_forall. intros [n x] Hin. simpl.
    match goal with A : table_sub (doc_lvl c) (lvl_to_int c) = true |- _ => pose proof (table_sub_spec _ _ A _ _ Hin) as Q end.
    apply assoc_str_In in Q. match goal with A : forallb (fun p => upper_name (fst p)) (lvl_to_int c) = true |- _ => rewrite forallb_forall in A; apply (A _ Q) end. }
  rewrite (doc_syslog_strip _ _ U). erewrite table_equiv; [reflexivity| |]; assumption.
Qed.

(** on the tree with both strips, LOG_LOG_NAME is read as NAME: the exclusion is not vacuous *)
Lemma double_prefix_witness c : config_consts_ok c = true -> single_strip c = false ->
  forall n x, In (n, x) (fac_to_int c) -> parse_facility c (LOG_ ++ LOG_ ++ n) = x.
Proof.
  intros H S n x Hin. split_ok H.
  match goal with A : table_ok (fac_to_int c) _ _ _ = true |- _ => unfold table_ok in A; repeat (apply andb_prop in A; let A' := fresh "T" in destruct A as [A A']) end.
  match goal with A : list_eqb (log_prefix c) LOG_ = true |- _ => apply list_eqb_eq in A; rename A into P end.
  assert (B : cfg_strips c = true /\ util_strips c = true).
  { unfold single_strip in S. destruct (cfg_strips c), (util_strips c); simpl in *; try discriminate; auto. }
  destruct B as [B1 B2].
  match goal with A : forallb (fun p => upper_name (fst p)) (fac_to_int c) = true |- _ => rewrite forallb_forall in A; pose proof (A _ Hin) as U end.
  simpl in U. unfold upper_name in U. rewrite !andb_true_iff in U. destruct U as [[U _] _]. apply list_eqb_eq in U.
  unfold parse_facility, syslog_key, strip_if. rewrite B1, B2, P, !map_app, U.
  change (map to_upper LOG_) with LOG_.
  unfold strip_prefix. rewrite prefixb_refl_app. change (length LOG_) with 4%nat. change (skipn 4 (LOG_ ++ LOG_ ++ n)) with (LOG_ ++ n).
  rewrite prefixb_refl_app. change (skipn 4 (LOG_ ++ n)) with n.
  destruct (assoc_str n (fac_to_int c)) as [y|] eqn:E.
  - apply assoc_str_In in E.
    match goal with A : table_sub (fac_to_int c) (doc_fac c) = true |- _ => pose proof (table_sub_spec _ _ A _ _ E) as Q1; pose proof (table_sub_spec _ _ A _ _ Hin) as Q2 end.
    congruence.
  - exfalso. eapply assoc_str_None; eauto.
Qed.

(** * output = name[:argument] *)
Lemma split_on_index_none c s : index c s = None -> split_on c s = [s].
Proof.
  induction s as [|b s IH]; simpl; [reflexivity|].
  destruct (beq b c) eqn:E; [discriminate|]. destruct (index c s); simpl; [discriminate|].
  intros _. now rewrite IH.
Qed.
Lemma split_on_index_some c s : forall k, index c s = Some k ->
  exists rest, split_on c s = firstn k s :: rest /\ join [c] rest = skipn (S k) s.
Proof.
  induction s as [|b s IH]; simpl; [discriminate|]. intros k.
  destruct (beq b c) eqn:E.
  - intros Hk; injection Hk as <-. exists (split_on c s). split; [reflexivity|apply join_split].
  - destruct (index c s) as [j|]; simpl; [|discriminate]. intros Hk; injection Hk as <-.
    destruct (IH j eq_refl) as [rest [E1 E2]]. rewrite E1. exists rest. split; [reflexivity|exact E2].
Qed.

Theorem output_split c : config_consts_ok c = true -> forall v,
  parse_output c v = match doc_output c v with Some p => p | None => (d_output c, d_output_arg c) end.
Proof.
  intros H v. split_ok H.
  match goal with A : beq (output_sep c) COLONB = true |- _ => apply beq_eq in A; rename A into S end.
  unfold parse_output, doc_output, split_output, name_known. rewrite S.
  destruct (index COLONB v) as [k|] eqn:E.
  - destruct (split_on_index_some _ _ _ E) as [rest [E1 E2]]. rewrite E1.
    destruct (existsb (list_eqb (firstn k v)) (output_names c)); [|reflexivity]. now rewrite E2.
  - rewrite (split_on_index_none _ _ E). destruct (existsb (list_eqb v) (output_names c)); reflexivity.
Qed.

(** * lengths: digits with optional k/m suffix, clamped; never decreasing *)
(** the value of the digit prefix, accumulated from [acc] *)
Fixpoint value_from (acc : N) (s : list byte) : N :=
  match s with
  | b :: s' => if is_digit b then value_from (acc * 10 + digit_val b) s' else acc
  | [] => acc
  end.
Lemma value_from_span s : forall acc, value_from acc s = fold_left (fun a d => a * 10 + digit_val d) (fst (span_digits s)) acc.
Proof.
  induction s as [|b s IH]; intros acc; simpl; [reflexivity|].
  destruct (is_digit b); [|reflexivity]. destruct (span_digits s) as [d r] eqn:E. simpl in *. apply IH.
Qed.
Lemma value_from_mono s : forall a b, a <= b -> value_from a s <= value_from b s.
Proof. induction s as [|x s IH]; intros a b H; simpl; [assumption|]. destruct (is_digit x); [apply IH; lia|assumption]. Qed.
Lemma value_from_ge s : forall a, a <= value_from a s.
Proof. induction s as [|x s IH]; intros a; simpl; [lia|]. destruct (is_digit x); [|lia]. etransitivity; [|apply IH]. lia. Qed.

Lemma acc_digits_rest sat vmax s : forall acc, snd (acc_digits sat vmax acc s) = snd (span_digits s).
Proof.
  induction s as [|b s IH]; intros acc; simpl; [reflexivity|].
  destruct (is_digit b); [|reflexivity]. rewrite IH. now destruct (span_digits s).
Qed.

(** saturating accumulation: exact while at most vmax, otherwise both above vmax *)
Lemma acc_digits_spec vmax s : forall acc v, (acc <= vmax -> acc = v) -> (vmax < acc -> acc <= v) ->
  let a := fst (acc_digits true vmax acc s) in let w := value_from v s in (a <= vmax -> a = w) /\ (vmax < a -> a <= w).
Proof.
  induction s as [|b s IH]; intros acc v H1 H2; simpl.
  - split; assumption.
  - destruct (is_digit b); [|simpl; split; assumption].
    apply IH.
    + destruct (N.leb_spec acc vmax) as [Hle|Hgt]; intros Hx; [rewrite (H1 Hle); reflexivity|lia].
    + destruct (N.leb_spec acc vmax) as [Hle|Hgt]; intros Hx; [rewrite (H1 Hle); lia|specialize (H2 Hgt); lia].
Qed.

Lemma doc_factor_eq c rest : same_set (suffix_k c) (bytes "kK") = true -> same_set (suffix_m c) (bytes "mM") = true ->
  (factor_k c =? 1024) = true -> (factor_m c =? 1048576) = true -> len_factor c rest = doc_factor rest.
Proof.
  intros A B Fk Fm. apply N.eqb_eq in Fk, Fm. unfold len_factor, doc_factor. destruct rest as [|b r]; [reflexivity|].
  rewrite (same_set_memb _ _ b A), (same_set_memb _ _ b B), Fk, Fm. reflexivity.
Qed.
Lemma doc_factor_pos rest : 1 <= doc_factor rest.
Proof. unfold doc_factor. destruct rest as [|b r]; [lia|]. destruct (memb b _); [lia|]. destruct (memb b _); lia. Qed.

Lemma ok_len c : config_consts_ok c = true -> len_saturating c = true /\ forall rest, len_factor c rest = doc_factor rest.
Proof.
  intros H. split_ok H. split; [assumption|]. intros rest. apply doc_factor_eq; assumption.
Qed.

Lemma len_ok_spec c vmin vmax vdef dmin dmax ddef : len_ok c vmin vmax vdef dmin dmax ddef = true ->
  1 <= vmin /\ vmin <= vmax /\ vmin <= vdef <= vmax /\ vmin = dmin /\ vmax = dmax /\ vdef = ddef.
Proof. unfold len_ok. rewrite !andb_true_iff. lia. Qed.
Lemma ok_ds c : config_consts_ok c = true ->
  1 <= ds_min c /\ ds_min c <= ds_max c /\ ds_min c <= ds_def c <= ds_max c /\ ds_min c = doc_ds_min c /\ ds_max c = doc_ds_max c /\ ds_def c = doc_ds_def c.
Proof. intros H. split_ok H. eapply (len_ok_spec c); eassumption. Qed.
Lemma ok_log c : config_consts_ok c = true ->
  1 <= log_min c /\ log_min c <= log_max c /\ log_min c <= log_def c <= log_max c /\ log_min c = doc_log_min c /\ log_max c = doc_log_max c /\ log_def c = doc_log_def c.
Proof. intros H. split_ok H. eapply (len_ok_spec c); eassumption. Qed.

Theorem bytelen_doc c : config_consts_ok c = true -> forall vmin vmax vdef v, vmin <= vmax ->
  bytelen c vmin vmax vdef v = match doc_len vmin vmax v with Some n => n | None => vdef end.
Proof.
  intros H vmin vmax vdef v Hmm. destruct (ok_len c H) as [SAT FAC]. clear H.
  unfold bytelen, doc_len. rewrite SAT.
  pose proof (acc_digits_rest true vmax v 0) as R.
  pose proof (acc_digits_spec vmax v 0 0 (fun _ => eq_refl) (fun _ => N.le_refl 0)) as [Ha Hb].
  rewrite value_from_span in Ha, Hb.
  destruct (acc_digits true vmax 0 v) as [a rest] eqn:E1. destruct (span_digits v) as [ds rest'] eqn:E2. simpl in *. subst rest'.
  change (fold_left (fun a d => a * 10 + digit_val d) ds 0) with (digits_val ds) in *.
  rewrite FAC. clear FAC SAT E1 E2.
  pose proof (doc_factor_pos rest) as Fp. set (f := doc_factor rest) in *. set (w := digits_val ds) in *.
  destruct (N.le_gt_cases a vmax) as [Hle|Hgt].
  - rewrite (Ha Hle). destruct (N.eqb_spec w 0); [reflexivity|]. unfold clamp. clear Ha Hb.
    destruct (N.ltb_spec (w * f) vmin); destruct (N.ltb_spec vmax vmin); destruct (N.ltb_spec vmax (w * f)); lia.
  - specialize (Hb Hgt). destruct (N.eqb_spec a 0); [lia|]. destruct (N.eqb_spec w 0); [lia|]. unfold clamp. clear Ha.
    destruct (N.ltb_spec (a * f) vmin); [nia|]. destruct (N.ltb_spec vmax (a * f)); [|nia]. nia.
Qed.

Lemma span_digits_app ds suf : forallb is_digit ds = true -> (match suf with b :: _ => is_digit b = false | [] => True end) ->
  span_digits (ds ++ suf) = (ds, suf).
Proof.
  intros D S. induction ds as [|d ds IH]; simpl in *.
  - destruct suf as [|b r]; [reflexivity|]. simpl. now rewrite S.
  - apply andb_prop in D as [D1 D2]. rewrite D1, (IH D2). reflexivity.
Qed.

Definition suffix_ok (suf : list byte) : Prop := match suf with b :: _ => is_digit b = false | [] => True end.

(** [n >= 1 -> result = clamp HARDMIN HARDMAX (n * factor)] for decimal numerals of any length *)
Theorem len_clamp c : config_consts_ok c = true -> forall vmin vmax vdef ds suf, vmin <= vmax ->
  forallb is_digit ds = true -> suffix_ok suf -> 1 <= digits_val ds ->
  bytelen c vmin vmax vdef (ds ++ suf) = clamp vmin vmax (digits_val ds * doc_factor suf).
Proof.
  intros H vmin vmax vdef ds suf Hmm D S V. rewrite (bytelen_doc c H) by assumption.
  unfold doc_len. rewrite (span_digits_app ds suf D S).
  destruct (N.eqb_spec (digits_val ds) 0); [lia|reflexivity].
Qed.

Theorem len_monotone c : config_consts_ok c = true -> forall vmin vmax vdef d1 d2 suf, vmin <= vmax ->
  forallb is_digit d1 = true -> forallb is_digit d2 = true -> suffix_ok suf ->
  1 <= digits_val d1 -> digits_val d1 <= digits_val d2 ->
  bytelen c vmin vmax vdef (d1 ++ suf) <= bytelen c vmin vmax vdef (d2 ++ suf).
Proof.
  intros H vmin vmax vdef d1 d2 suf Hmm D1 D2 S V1 V12.
  rewrite !(len_clamp c H) by (try assumption; lia).
  pose proof (doc_factor_pos suf). unfold clamp. nia.
Qed.

(** all-zero numerals and text without a leading digit leave the built-in default in force *)
Theorem len_zero_default c : config_consts_ok c = true -> forall vmin vmax vdef v, vmin <= vmax ->
  digits_val (fst (span_digits v)) = 0 -> bytelen c vmin vmax vdef v = vdef.
Proof.
  intros H vmin vmax vdef v Hmm Z. rewrite (bytelen_doc c H) by assumption.
  unfold doc_len. destruct (span_digits v) as [ds rest]. simpl in Z. rewrite Z. reflexivity.
Qed.

Theorem len_in_range c : config_consts_ok c = true -> forall vmin vmax vdef v, vmin <= vmax -> vmin <= vdef <= vmax ->
  vmin <= bytelen c vmin vmax vdef v <= vmax.
Proof.
  intros H vmin vmax vdef v Hmm Hd. rewrite (bytelen_doc c H) by assumption.
  destruct (doc_len vmin vmax v) as [n|] eqn:E; [|assumption].
  unfold doc_len in E. destruct (span_digits v) as [ds rest]. destruct (digits_val ds =? 0); [discriminate|].
  injection E as <-. unfold clamp. lia.
Qed.

(** * the statements of Properties_C08.v, for both syslog options and both length options at once *)
Theorem syslog_names c : config_consts_ok c = true -> forall v, single_strip c = true \/ no_double_prefix v = true ->
  parse_facility c v = match doc_syslog (doc_fac c) v with Some n => n | None => d_facility c end
  /\ parse_level c v = match doc_syslog (doc_lvl c) v with Some n => n | None => d_level c end.
Proof. intros H v D. split; [exact (syslog_facility_names c H v D)|exact (syslog_level_names c H v D)]. Qed.

Theorem len_clamp_both c : config_consts_ok c = true -> forall ds suf, forallb is_digit ds = true -> suffix_ok suf -> 1 <= digits_val ds ->
  bytelen c (ds_min c) (ds_max c) (ds_def c) (ds ++ suf) = clamp (doc_ds_min c) (doc_ds_max c) (digits_val ds * doc_factor suf)
  /\ bytelen c (log_min c) (log_max c) (log_def c) (ds ++ suf) = clamp (doc_log_min c) (doc_log_max c) (digits_val ds * doc_factor suf).
Proof.
  intros H ds suf D S V. destruct (ok_ds c H) as [_ [A [_ [A1 [A2 _]]]]]. destruct (ok_log c H) as [_ [B [_ [B1 [B2 _]]]]].
  rewrite <- A1, <- A2, <- B1, <- B2. split; apply (len_clamp c H); assumption.
Qed.

Theorem len_monotone_both c : config_consts_ok c = true -> forall d1 d2 suf, forallb is_digit d1 = true -> forallb is_digit d2 = true -> suffix_ok suf ->
  1 <= digits_val d1 -> digits_val d1 <= digits_val d2 ->
  bytelen c (ds_min c) (ds_max c) (ds_def c) (d1 ++ suf) <= bytelen c (ds_min c) (ds_max c) (ds_def c) (d2 ++ suf)
  /\ bytelen c (log_min c) (log_max c) (log_def c) (d1 ++ suf) <= bytelen c (log_min c) (log_max c) (log_def c) (d2 ++ suf).
Proof.
  intros H d1 d2 suf D1 D2 S V1 V2. destruct (ok_ds c H) as [_ [A _]]. destruct (ok_log c H) as [_ [B _]].
  split; apply (len_monotone c H); assumption.
Qed.

Theorem len_zero_default_both c : config_consts_ok c = true -> forall v, digits_val (fst (span_digits v)) = 0 ->
  bytelen c (ds_min c) (ds_max c) (ds_def c) v = doc_ds_def c /\ bytelen c (log_min c) (log_max c) (log_def c) v = doc_log_def c.
Proof.
  intros H v Z. destruct (ok_ds c H) as [_ [A [_ [_ [_ A3]]]]]. destruct (ok_log c H) as [_ [B [_ [_ [_ B3]]]]].
  rewrite <- A3, <- B3. split; apply (len_zero_default c H); assumption.
Qed.
