(** Model of src/datasource/cmdline.c and filename.c, and of the input-data
    storage life cycle (src/inputdatastorage.c as driven by init-deinit.c and
    the exec wrappers).  Sizes are [N]. *)
From Snoopy Require Import Lib.CStr.
From Coq Require Import ZifyBool ZifyN ZifyNat.
Local Open Scope N_scope.

Record cmdline_consts := {
  sep      : list byte;    (* " "  printed before every non-first argument *)
  unknown  : list byte     (* "(unknown)" when argv and filename are both missing *)
}.
Definition cmdline_consts_ok (c : cmdline_consts) : bool := list_eqb (sep c) [SP].
(** the text printed when path and arguments are both missing is passed to snprintf as the FORMAT: it must be non-empty
    (a reader can tell the record from an empty command line) and free of '%' (snprintf prints it as it stands) *)
Definition cmdline_unknown_ok (c : cmdline_consts) : bool :=
  negb (list_eqb (unknown c) []) && forallb (fun b => negb (beq b x25)) (unknown c).

Section Cmdline.
  Variable c : cmdline_consts.

  (** [if (bytes < size) bytes += snprintf(buf + bytes, size - bytes, "%s", s);]
      state = (bytes actually in the buffer, the accumulated return values) *)
  Definition snprintf_at (sz : N) (st : list byte * N) (s : list byte) : list byte * N :=
    let '(w, b) := st in
    if b <? sz then (w ++ takeN (sz - b - 1) s, b + len s) else (w, b).

  Fixpoint rest (sz : N) (st : list byte * N) (args : list (list byte)) : list byte * N :=
    match args with
    | [] => st
    | a :: args' => rest sz (snprintf_at sz (snprintf_at sz st (sep c)) a) args'
    end.

  (** bytes in the result buffer up to the terminator; [sz >= 1] *)
  Definition cmdline (filename : option (list byte)) (argv : option (list (list byte))) (sz : N) : list byte :=
    match argv with
    | None | Some [] =>
      match filename with
      | None => snprintf_s sz (unknown c)
      | Some f => snprintf_s sz f
      end
    | Some (a0 :: args) => fst (rest sz (snprintf_at sz ([], 0) a0) args)
    end.

  Definition filename_ds (filename : list byte) (sz : N) : list byte := snprintf_s sz filename.

  Definition joined (a0 : list byte) (args : list (list byte)) : list byte :=
    a0 ++ flat_map (fun a => sep c ++ a) args.

  (** invariant of the running-offset loop *)
  Definition Inv (sz : N) (st : list byte * N) (j : list byte) : Prop :=
    let '(w, b) := st in
    (b < sz -> w = j /\ len j = b) /\ (sz <= b -> w = takeN (sz - 1) j /\ sz - 1 <= len j).

  Lemma takeN_app_ge n (l m : list byte) : n <= len l -> takeN n (l ++ m) = takeN n l.
  Proof.
    unfold takeN, len. intros H. rewrite firstn_app.
    replace (N.to_nat n - length l)%nat with 0%nat by lia. simpl. apply app_nil_r.
  Qed.
  Lemma takeN_app_lt n (l m : list byte) : len l <= n -> takeN n (l ++ m) = l ++ takeN (n - len l) m.
  Proof.
    unfold takeN, len. intros H. rewrite firstn_app. rewrite firstn_all2 by lia. f_equal. f_equal. lia.
  Qed.

  Lemma step_inv sz st j s : 0 < sz -> Inv sz st j -> Inv sz (snprintf_at sz st s) (j ++ s).
  Proof.
    destruct st as [w b]. unfold Inv, snprintf_at. intros Hsz [H1 H2].
    destruct (N.ltb_spec b sz) as [Hlt|Hge].
    - destruct (H1 Hlt) as [-> Hlen]. split.
      + intros Hb. subst b. rewrite takeN_all by lia. split; [reflexivity|]. rewrite len_app. lia.
      + intros Hb. subst b. split.
        * rewrite takeN_app_lt by lia. f_equal. f_equal. lia.
        * rewrite len_app. lia.
    - destruct (H2 Hge) as [-> Hlen]. split; [lia|]. intros _. split.
      + symmetry. apply takeN_app_ge. exact Hlen.
      + rewrite len_app. lia.
  Qed.

  Lemma rest_inv sz : 0 < sz -> forall args st j, Inv sz st j ->
      Inv sz (rest sz st args) (j ++ flat_map (fun a => sep c ++ a) args).
  Proof.
    intros Hsz. induction args as [|a args IH]; intros st j H; simpl.
    - now rewrite app_nil_r.
    - replace (j ++ (sep c ++ a) ++ flat_map (fun a0 => sep c ++ a0) args)
        with (((j ++ sep c) ++ a) ++ flat_map (fun a0 => sep c ++ a0) args)
        by (rewrite <- !app_assoc; reflexivity).
      apply IH. apply step_inv; [assumption|]. apply step_inv; assumption.
  Qed.

  Theorem cmdline_join sz f a0 args : 0 < sz ->
    cmdline f (Some (a0 :: args)) sz = takeN (sz - 1) (joined a0 args).
  Proof.
    intros Hsz. unfold cmdline, joined.
    assert (H0 : Inv sz ([], 0) []) by (simpl; split; [intros _; split; reflexivity | lia]).
    pose proof (step_inv sz _ _ a0 Hsz H0) as H1. simpl app in H1.
    pose proof (rest_inv sz Hsz args _ _ H1) as H.
    destruct (rest sz (snprintf_at sz ([], 0) a0) args) as [w b]. simpl fst. destruct H as [Ha Hb].
    destruct (N.lt_ge_cases b sz) as [Hlt|Hge].
    - destruct (Ha Hlt) as [-> Hlen]. symmetry. apply takeN_all. lia.
    - now destruct (Hb Hge) as [-> _].
  Qed.

  Theorem cmdline_fallback sz f : cmdline (Some f) None sz = takeN (sz - 1) f /\ cmdline (Some f) (Some []) sz = takeN (sz - 1) f.
  Proof. split; reflexivity. Qed.

  Theorem cmdline_fits sz f argv : 0 < sz -> len (cmdline f argv sz) < sz.
  Proof.
    intros H. destruct argv as [[|a0 args]|].
    - simpl. destruct f; apply snprintf_s_len; lia.
    - rewrite cmdline_join by assumption. rewrite len_takeN. lia.
    - simpl. destruct f; apply snprintf_s_len; lia.
  Qed.

  Theorem filename_prefix sz f : filename_ds f sz = takeN (sz - 1) f.
  Proof. reflexivity. Qed.

  (** with the single-space separator the join is the documented one *)
  Lemma joined_join a0 args : sep c = [SP] -> joined a0 args = join [SP] (a0 :: args).
  Proof.
    intros E. unfold joined. rewrite E. revert a0. induction args as [|a args IH]; intros a0.
    - simpl. now rewrite app_nil_r.
    - rewrite join_cons2. rewrite <- IH. reflexivity.
  Qed.
End Cmdline.

(** * Input-data storage across a history of calls (C06 second half)

    One wrapped call = ctor (defaults) ; store filename/argv/envp ; log (reads) ; dtor (defaults).
    [NTS]: one global record that persists between calls.  [TS]: the record lives in the
    thread's repository entry, allocated per call and marked uninitialised before the ctor.  *)
Record ids := { i_init : bool; i_file : option (list byte); i_argv : option (list (list byte)); i_envp : option (list (list byte)) }.
Definition ids_defaults : ids := {| i_init := true; i_file := Some []; i_argv := Some []; i_envp := Some [] |}.
Definition ids_garbage (f : option (list byte)) (a e : option (list (list byte))) : ids :=
  {| i_init := false; i_file := f; i_argv := a; i_envp := e |}.

Record call := { c_file : option (list byte); c_argv : option (list (list byte)); c_envp : option (list (list byte)) }.

Inductive variant := TS | NTS.

(** facts about the life cycle read from the generated skeletons (Wrapper/Ids.v computes them) *)
Record ids_facts := {
  ctor_resets : bool;      (* snoopy_init -> inputdatastorage_ctor -> setDefaults assigns all three fields *)
  dtor_resets : bool;      (* snoopy_cleanup -> inputdatastorage_dtor -> setDefaults *)
  stores_file : bool; stores_argv : bool; stores_envp : bool   (* wrapper_init stores its own parameter into the field, after snoopy_init *)
}.
Definition ids_facts_ok (f : ids_facts) : bool :=
  (ctor_resets f || (stores_file f && stores_argv f)) && stores_file f && stores_argv f.

(** what the data sources see during the logging of [cl], given the record [st] left behind
    by the history (NTS) or freshly allocated with arbitrary content (TS) *)
Definition during (f : ids_facts) (st : ids) (cl : call) : ids :=
  let s1 := if ctor_resets f then ids_defaults else st in
  {| i_init := true;
     i_file := if stores_file f then c_file cl else i_file s1;
     i_argv := if stores_argv f then c_argv cl else i_argv s1;
     i_envp := if stores_envp f then c_envp cl else i_envp s1 |}.
Definition after (f : ids_facts) (st : ids) : ids := if dtor_resets f then ids_defaults else st.

Section History.
  Variable c : cmdline_consts.
  Variable f : ids_facts.
  (** the record of a call: (cmdline, filename) at some buffer size *)
  Definition record_of (sz : N) (st : ids) : list byte * list byte :=
    (cmdline c (i_file st) (i_argv st) sz,
     match i_file st with Some fl => filename_ds fl sz | None => [] end).

  Fixpoint records (v : variant) (sz : N) (st : ids) (h : list call) : list (list byte * list byte) :=
    match h with
    | [] => []
    | cl :: h' =>
      let st0 := match v with TS => ids_garbage (i_file st) (i_argv st) (i_envp st) | NTS => st end in
      let d := during f st0 cl in
      record_of sz d :: records v sz (after f d) h'
    end.

  Definition record_alone (sz : N) (cl : call) : list byte * list byte :=
    record_of sz (during f ids_defaults cl).

  Theorem no_leftover v sz : ids_facts_ok f = true -> forall h st, records v sz st h = map (record_alone sz) h.
  Proof.
    intros Hok. unfold ids_facts_ok in Hok. repeat (apply andb_true_iff in Hok as [Hok ?]).
    induction h as [|cl h IH]; intros st; [reflexivity|]. cbn [records map]. f_equal; [|apply IH].
    unfold record_alone, record_of, during.
    match goal with H : stores_file f = true |- _ => rewrite H end.
    match goal with H : stores_argv f = true |- _ => rewrite H end. reflexivity.
  Qed.

  (** the record of a call is exactly its own path and its own arguments *)
  Theorem record_is_own sz cl : ids_facts_ok f = true ->
    record_alone sz cl = (cmdline c (c_file cl) (c_argv cl) sz, match c_file cl with Some fl => filename_ds fl sz | None => [] end).
  Proof.
    intros Hok. unfold ids_facts_ok in Hok. repeat (apply andb_true_iff in Hok as [Hok ?]).
    unfold record_alone, record_of, during.
    match goal with H : stores_file f = true |- _ => rewrite H end.
    match goal with H : stores_argv f = true |- _ => rewrite H end. reflexivity.
  Qed.
End History.
