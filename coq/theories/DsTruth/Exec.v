(** Executable instances for the extracted model driver (C12): a process state built from
    first-order data, the data-source level outcome of cgroup / rpname, the spec checker. *)
From Coq Require Import String ZArith NArith List Bool.
From Snoopy Require Import Lib.CStr Datasource.Cmdline DsTruth.Model.
Import ListNotations.
Local Open Scope Z_scope.

Fixpoint zassoc {A} (k : Z) (l : list (Z * A)) : option A :=
  match l with [] => None | (k', v) :: l' => if k =? k' then Some v else zassoc k l' end.
Fixpoint bassoc {A} (k : list byte) (l : list (list byte * A)) : option A :=
  match l with [] => None | (k', v) :: l' => if list_eqb k k' then Some v else bassoc k l' end.

Record pstate_data := {
  d_ids : list Z;     (* ruid euid suid rgid egid sgid pid ppid sid pgid pthread ktid sec usec *)
  d_cwd : option (list byte); d_hostname : list byte;
  d_ttys : list (Z * tty_res); d_owners : list (list byte * Z);
  d_login : option (list byte); d_environ : option (list (list byte));
  d_passwd : list (Z * list byte); d_group : list (Z * list byte);
  d_cgroup : option (list byte); d_status : list (Z * list byte);
  d_strftime : list (list byte * list byte);
  d_file : option (list byte); d_argv : option (list (list byte))
}.

Definition idn (d : pstate_data) (i : nat) : Z := nth i (d_ids d) 0.

Definition mk_pstate (d : pstate_data) : pstate :=
  {| ruid := idn d 0; euid := idn d 1; suid := idn d 2; rgid := idn d 3; egid := idn d 4; sgid := idn d 5;
     pid := idn d 6; ppid := idn d 7; sid := idn d 8; pgid := idn d 9; pthread_id := idn d 10; ktid := idn d 11;
     cwd := d_cwd d; hostname := d_hostname d;
     fd_tty := fun fd => match zassoc fd (d_ttys d) with Some r => r | None => TtyErr EBADF end;
     file_owner := fun p => bassoc p (d_owners d);
     login_name := d_login d; environ := d_environ d;
     passwd := fun u => zassoc u (d_passwd d); groupdb := fun g => zassoc g (d_group d);
     cgroup_file := d_cgroup d; proc_status := fun p => zassoc p (d_status d);
     clock_sec := idn d 12; clock_usec := idn d 13;
     tz_strftime := fun _ fmt => match bassoc fmt (d_strftime d) with Some r => r | None => [] end;
     exec_file := d_file d; exec_argv := d_argv d |}.

Fixpoint until_nul (t : list byte) : list byte := match t with [] => [] | b :: t' => if beq b x00 then [] else b :: until_nul t' end.

(** cgroup.c at the data source level *)
Definition cgroup_ds (c : ds_consts) (st : pstate) (arg : list byte) (sz : N) : option outcome :=
  match arg with
  | [] => Some {| o_ret := -1; o_buf := Some (takeN (sz - 1) (cg_missing_arg c)) |}
  | _ =>
    match cgroup_file st with
    | None => Some {| o_ret := -1; o_buf := None |}
    | Some text =>
      if (cg_file_max c <=? len text)%N then Some {| o_ret := -1; o_buf := None |}
      else Some (print_out sz (match cgroup_select (until_nul text) arg with Some l => l | None => cg_none c end))
    end
  end.
Definition cgroup_doc (c : ds_consts) (st : pstate) (arg : list byte) (sz : N) : option outcome :=
  match arg with
  | [] => Some {| o_ret := -1; o_buf := Some (takeN (sz - 1) (cg_missing_arg c)) |}
  | _ =>
    match cgroup_file st with
    | None => Some {| o_ret := -1; o_buf := None |}
    | Some text =>
      if (cg_file_max c <=? len text)%N then Some {| o_ret := -1; o_buf := None |}
      else Some (print_out sz (match cgroup_spec (until_nul text) arg with Some l => l | None => cg_none c end))
    end
  end.

(** rpname.c at the data source level: fuel = number of status files known + 1 bounds every acyclic chain *)
Definition rpname_ds (c : ds_consts) (fuel : nat) (st : pstate) (sz : N) : option outcome :=
  match rpname_walk c (proc_status st) fuel (pid st) with
  | Some n => Some (print_out sz n)
  | None => None
  end.

Definition out_eqb (a b : option outcome) : bool :=
  match a, b with
  | Some x, Some y => (o_ret x =? o_ret y) && match o_buf x, o_buf y with Some p, Some q => list_eqb p q | None, None => true | _, _ => false end
  | None, None => true
  | _, _ => false
  end.

(** entry points of the driver: names arrive as bytes *)
Definition run_eval (c : ds_consts) (ts_wide : bool) (cc : cmdline_consts) (name : list byte) (d : pstate_data) (arg : list byte) (sz : N) : option outcome :=
  let n := string_of_list_byte name in
  let st := mk_pstate d in
  if seq n "cgroup" then cgroup_ds c st arg sz
  else if seq n "rpname" then rpname_ds c (S (length (d_status d))) st sz
  else eval_ds (expected_gen c ts_wide) cc n st arg sz.

Definition run_doc (c : ds_consts) (name : list byte) (d : pstate_data) (arg : list byte) (sz : N) : option outcome :=
  let n := string_of_list_byte name in
  let st := mk_pstate d in
  if seq n "cgroup" then cgroup_doc c st arg sz
  else if seq n "rpname" then rpname_ds c (S (length (d_status d))) st sz      (* Procfs.rpname_root: the walk is the root ancestor's name *)
  else documented c st arg sz n.
