(** C12 — identity and environment data sources report the process's true state.

    [pstate]      the abstract state of the calling process (what the OS would answer).
    [sx], [dtree] the language in which vlib/tr_ds.py writes down, from clang's AST, what each data
                  source asks the OS and how it prints the answer (Gen_Ds.v).
    [ev], [eval_tree]  the meaning of those queries on a [pstate] (printf's %u/%d/%lu/%0Nd with the
                  two's-complement reading of ids >= 2^31 written out).
    [expected]    the tree each name of the table class must have (what the repaired sources say).
    [documented]  the hand-written table taken from etc/snoopy.ini.in and the headers of the sources.
    [env_all], [cgroup_ds], [rpname] own path-by-path models of the loop-based sources.
    Stdlib only, no axioms. *)
From Coq Require Import String ZArith NArith List Bool Lia.
From Snoopy Require Import Lib.CStr Datasource.Cmdline.
Import ListNotations.
Local Open Scope Z_scope.

(** * Process state *)
Inductive tty_res :=
| TtyName (path : list byte)      (* the descriptor is a terminal with this device path *)
| TtyErr (code : Z).              (* ttyname_r's error number: EBADF, ENOTTY, ... *)

Record pstate := {
  ruid : Z; euid : Z; suid : Z; rgid : Z; egid : Z; sgid : Z;
  pid : Z; ppid : Z; sid : Z; pgid : Z;
  pthread_id : Z; ktid : Z;
  cwd : option (list byte);                    (* None: no path (deleted / unreachable directory) *)
  hostname : list byte;
  fd_tty : Z -> tty_res;                       (* per file descriptor *)
  file_owner : list byte -> option Z;          (* st_uid of a path; None: stat fails *)
  login_name : option (list byte);             (* what getlogin_r finds (loginuid / utmp) *)
  environ : option (list (list byte));         (* None: environ == NULL *)
  passwd : Z -> option (list byte);            (* uid -> pw_name *)
  groupdb : Z -> option (list byte);           (* gid -> gr_name *)
  cgroup_file : option (list byte);            (* text of /proc/<pid>/cgroup; None: unreadable *)
  proc_status : Z -> option (list byte);       (* text of /proc/<n>/status *)
  clock_sec : Z; clock_usec : Z;
  tz_strftime : Z -> list byte -> list byte;   (* ORACLE (glibc): strftime(fmt, localtime(t)) with an unbounded buffer *)
  exec_file : option (list byte);              (* the exec call being logged *)
  exec_argv : option (list (list byte))
}.

(** Z <-> N (own names: the extracted Z.to_N / Z.of_N would take the top-level names the shared OCaml helpers use for Byte.to_N / Byte.of_N) *)
Definition zn (z : Z) : N := match z with Zpos p => Npos p | _ => 0%N end.
Definition nz (n : N) : Z := match n with N0 => 0 | Npos p => Zpos p end.
Lemma zn_eq z : zn z = Z.to_N z.  Proof. destruct z; reflexivity. Qed.
Lemma nz_eq n : nz n = Z.of_N n.  Proof. destruct n; reflexivity. Qed.

Definition two32 : Z := 4294967296.
Definition two31 : Z := 2147483648.
Definition two64 : Z := 18446744073709551616.
Definition two63 : Z := 9223372036854775808.

Definition is_id (z : Z) : Prop := 0 <= z < two32.
Definition is_pid (z : Z) : Prop := 0 <= z < two31.

(** ranges the kernel guarantees for the fields (uid_t/gid_t are 32-bit unsigned, pid_t positive int, ...) *)
Record wf_pstate (st : pstate) : Prop := {
  wf_ruid : is_id (ruid st); wf_euid : is_id (euid st); wf_rgid : is_id (rgid st); wf_egid : is_id (egid st);
  wf_pid : 0 < pid st < two31; wf_ppid : is_pid (ppid st); wf_sid : is_pid (sid st); wf_pgid : is_pid (pgid st);
  wf_pthread : 0 < pthread_id st < two64; wf_ktid : 0 < ktid st < two31;
  wf_usec : 0 <= clock_usec st < 1000000; wf_sec : 0 <= clock_sec st < two63;
  wf_owner : forall p u, file_owner st p = Some u -> is_id u;
  wf_tty : forall fd, fd_tty st fd <> TtyErr 0;                      (* an error has a non-zero number *)
  wf_host : 0 <= Z.of_N (len (hostname st)) <= 64;                     (* HOST_NAME_MAX *)
  wf_env : forall env e, environ st = Some env -> In e env -> Z.of_N (len e) < two31
}.

(** Linux ABI constants that appear (macro-expanded) in the translated trees *)
Definition EBADF : Z := 9.   Definition ENOTTY : Z := 25.  Definition ERANGE : Z := 34.
Definition ENAMETOOLONG : Z := 36.  Definition ENOENT : Z := 2.
Definition SYS_gettid : Z := 186.

(** * The description language written by the translator *)
Inductive fn :=
| F_getuid | F_geteuid | F_getgid | F_getegid | F_getpid | F_getppid | F_getsid | F_getpgrp | F_getpgid
| F_pthread_self | F_syscall | F_getpwuid_r | F_getgrgid_r | F_getcwd | F_gethostname | F_getenv
| F_ttyname_r | F_stat | F_getlogin_r | F_gettimeofday | F_time | F_localtime_r | F_strftime | F_sysconf
| F_strlen | F_strcmp | F_strncmp | F_strcpy | F_strncpy | F_atoi | F_snoopy_inputdatastorage_get
| F_other (name : string).

Inductive sx :=
| ECall (f : fn) (args : list sx)                 (* value returned by an external call *)
| EOut (f : fn) (args : list sx) (i : nat)        (* what the call stored through its i-th argument *)
| EErrno (f : fn) (args : list sx)                (* errno after the call *)
| EInt (z : Z)
| EStr (s : list byte)
| EArg | ESize | EBuf0                            (* the data source's argument, resultBufSize, the untouched resultBuf *)
| ECast (signed : bool) (bits : N) (e : sx)       (* integral conversion that changes width or signedness *)
| EOp (op : string) (args : list sx)
| EFmt (cap : sx) (fmt : list byte) (args : list sx)   (* string stored by snprintf(_, cap, fmt, args) *)
| ERet (cap : sx) (fmt : list byte) (args : list sx)   (* value returned by that snprintf *)
| EField (e : sx) (name : string)
| EIds (name : string)                            (* snoopy_inputdatastorage_get()->name *)
| EUnknown (why : string).

Inductive dtree :=
| TPrint (fmt : list byte) (args : list sx)       (* return snprintf(resultBuf, resultBufSize, fmt, args) *)
| TRet (ret buf : sx)                             (* return ret; with resultBuf holding buf *)
| TIf (c : sx) (t e : dtree)
| TOther (why : string).                          (* loop / not understood *)

Record ds_entry := { de_name : string; de_symbol : string; de_calls : list string; de_tree : dtree }.

(** constants of the loop-based sources and of the build configuration (T1) *)
Record ds_consts := {
  ea_comma_min : N; ea_sep : list byte; ea_whole_margin : N; ea_cut_margin : N; ea_marker_size : N; ea_marker : list byte;
  ea_null_guard : bool;
  cg_path_fmt : list byte; cg_pid_is_getpid : bool; cg_none : list byte; cg_missing_arg : list byte; cg_num_fmt : list byte;
  cg_line_sep : list byte; cg_file_max : N;
  rp_key_name : list byte; rp_key_ppid : list byte; rp_unknown : list byte; rp_root_pid : N; rp_zero_pid : N; rp_val_max : N;
  rp_path_fmt : list byte; rp_start_is_getpid : bool;
  dt_default_fmt : list byte; dt_buf : N;
  cfg_version : list byte; cfg_configure_command : list byte; path_max : N; login_name_max : N
}.

Record ds_gen := { g_consts : ds_consts; g_table : list ds_entry }.

(** * Values and printf *)
Inductive value :=
| VI (z : Z)                 (* an integer object, by its mathematical value *)
| VS (s : list byte)         (* a NUL-terminated string (pointer to it / buffer holding it) *)
| VNull
| VRec (name : list byte)    (* a found passwd / group entry *)
| VTv (sec usec : Z)
| VSt (uid : Z)
| VTm (t : Z)                (* broken-down local time of the instant t; only strftime reads it *)
| VBad.

Definition zlen (s : list byte) : Z := nz (len s).
Definition takeZ (n : Z) (s : list byte) : list byte := takeN (zn n) s.

(** conversion to a [bits]-wide integer type (two's complement, as gcc defines it) *)
Definition wrap (signed : bool) (bits : N) (z : Z) : Z :=
  let m := 2 ^ nz bits in
  let r := z mod m in
  if signed && (m / 2 <=? r) then r - m else r.

(** C integer division (truncation toward zero) *)
Definition cdiv (x y : Z) : Z := Z.sgn x * Z.sgn y * (Z.abs x / Z.abs y).

Definition decz (z : Z) : list byte := dec (zn z).
Definition MINUS : byte := x2d.  Definition PCT : byte := x25.  Definition ZERO : byte := x30.
(** digits of a signed number, zero padded to [width] characters *)
Definition render_int (width : N) (z : Z) : list byte :=
  let ds := decz (Z.abs z) in
  let sign := if z <? 0 then [MINUS] else [] in
  let padn := (width - len sign - len ds)%N in
  sign ++ repeat ZERO (N.to_nat padn) ++ ds.

(** conversion specification after the '%': zero flag, width, length modifier, conversion *)
Fixpoint read_width (s : list byte) (acc : N) : N * list byte :=
  match s with
  | b :: s' => if is_digit b then read_width s' (acc * 10 + digit_val b)%N else (acc, s)
  | [] => (acc, s)
  end.

Definition conv_arg (lng : bool) (c : byte) (width : N) (v : value) : option (list byte) :=
  let bits := if lng then 64%N else 32%N in
  match v with
  | VI z =>
    if beq c x75 (* u *) then Some (render_int width (wrap false bits z))
    else if beq c x64 (* d *) then Some (render_int width (wrap true bits z))
    else None
  | VS s => if beq c x73 (* s *) && negb lng then Some s else None
  | _ => None
  end.

Fixpoint printf (fuel : nat) (fmt : list byte) (args : list value) : option (list byte) :=
  match fuel with
  | O => None
  | S fuel' =>
    match fmt with
    | [] => Some []
    | b :: rest =>
      if beq b PCT then
        match rest with
        | [] => None
        | p :: rest1 =>
          if beq p PCT then option_map (cons PCT) (printf fuel' rest1 args) else
          let '(width, r2) := read_width rest 0%N in
          let '(lng, r3) := match r2 with
                             | l :: l2 :: r => if beq l x6c then (if beq l2 x6c then (true, r) else (true, l2 :: r)) else (false, r2)
                             | l :: r => if beq l x6c then (true, r) else (false, r2)
                             | [] => (false, r2) end in
          match r3, args with
          | c :: r4, v :: args' =>
            match conv_arg lng c width v, printf fuel' r4 args' with
            | Some a, Some t => Some (a ++ t)
            | _, _ => None
            end
          | _, _ => None
          end
        end
      else option_map (cons b) (printf fuel' rest args)
    end
  end.
Definition cprintf (fmt : list byte) (args : list value) : option (list byte) := printf (S (length fmt)) fmt args.

(** * Meaning of the queries on a process state *)
(** getenv: first entry "name=value" for exactly this name *)
Fixpoint env_lookup (name : list byte) (env : list (list byte)) : option (list byte) :=
  match env with
  | [] => None
  | e :: env' => if prefixb (name ++ [x3d]) e then Some (skipn (length name + 1) e) else env_lookup name env'
  end.
Definition getenv_model (st : pstate) (name : list byte) : option (list byte) :=
  match name, environ st with
  | [], _ | _, None => None
  | _, Some env => env_lookup name env
  end.

Definition signed_char (b : byte) : Z := let n := nz (Byte.to_N b) in if 128 <=? n then n - 256 else n.

(** what a data source leaves behind: its return value and the string in resultBuf
    ([None]: the buffer was not written, its content is unspecified) *)
Record outcome := { o_ret : Z; o_buf : option (list byte) }.

Section Eval.
  Variable st : pstate.
  Variable arg : list byte.
  Variable sz : N.

  Definition fits (s : list byte) (cap : Z) : bool := zlen s + 1 <=? cap.

  Definition ev_call (f : fn) (a : list value) : value :=
    match f, a with
    | F_getuid, [] => VI (ruid st)   | F_geteuid, [] => VI (euid st)
    | F_getgid, [] => VI (rgid st)   | F_getegid, [] => VI (egid st)
    | F_getpid, [] => VI (pid st)    | F_getppid, [] => VI (ppid st)
    | F_getsid, [VI z] => if z =? 0 then VI (sid st) else VBad
    | F_getpgrp, [] => VI (pgid st)
    | F_getpgid, [VI z] => if z =? 0 then VI (pgid st) else VBad
    | F_pthread_self, [] => VI (pthread_id st)
    | F_syscall, [VI n] => if n =? SYS_gettid then VI (ktid st) else VBad
    | F_getpwuid_r, [VI _; _; _] => VI 0          (* the lookup itself does not fail (NSS errors are not modelled) *)
    | F_getgrgid_r, [VI _; _; _] => VI 0
    | F_getcwd, [_; VI cap] => match cwd st with Some p => if fits p cap then VS p else VNull | None => VNull end
    | F_gethostname, [_; VI cap] => if fits (hostname st) cap then VI 0 else VI (-1)
    | F_getenv, [VS name] => match getenv_model st name with Some v => VS v | None => VNull end
    | F_ttyname_r, [VI fd; _; VI cap] =>
      match fd_tty st fd with TtyName p => if fits p cap then VI 0 else VI ERANGE | TtyErr c => VI c end
    | F_stat, [VS p; _] => match file_owner st p with Some _ => VI 0 | None => VI (-1) end
    | F_getlogin_r, [_; VI cap] => match login_name st with Some l => if fits l cap then VI 0 else VI ERANGE | None => VI ENOENT end
    | F_gettimeofday, [_; VI _] => VI 0
    | F_time, [_] => VI (clock_sec st)
    | F_localtime_r, [VI t; _] => VTm t
    | F_strftime, [_; VI cap; VS fmt; VTm t] =>
      let r := tz_strftime st t fmt in if fits r cap then VI (zlen r) else VI 0
    | F_strlen, [VS s] => VI (zlen s)
    | _, _ => VBad
    end.

  Definition ev_out (f : fn) (a : list value) (i : nat) : value :=
    match f, a, i with
    | F_getpwuid_r, [VI u; _; _], 4%nat => match passwd st u with Some n => VRec n | None => VNull end
    | F_getgrgid_r, [VI g; _; _], 4%nat => match groupdb st g with Some n => VRec n | None => VNull end
    | F_getcwd, [_; VI cap], 0%nat => match cwd st with Some p => if fits p cap then VS p else VBad | None => VBad end
    | F_gethostname, [_; VI cap], 0%nat => if fits (hostname st) cap then VS (hostname st) else VBad
    | F_ttyname_r, [VI fd; _; VI cap], 1%nat =>
      match fd_tty st fd with TtyName p => if fits p cap then VS p else VBad | TtyErr _ => VBad end
    | F_stat, [VS p; _], 1%nat => match file_owner st p with Some u => VSt u | None => VBad end
    | F_getlogin_r, [_; VI cap], 0%nat => match login_name st with Some l => if fits l cap then VS l else VBad | None => VBad end
    | F_gettimeofday, [_; VI _], 0%nat => VTv (clock_sec st) (clock_usec st)
    | F_time, [_], 0%nat => VI (clock_sec st)
    | F_strftime, [_; VI cap; VS fmt; VTm t], 0%nat =>
      let r := tz_strftime st t fmt in if fits r cap then VS r else VBad
    | _, _, _ => VBad
    end.

  Definition ev_errno (f : fn) (a : list value) : value :=
    match f, a with
    | F_gethostname, [_; VI cap] => if fits (hostname st) cap then VBad else VI ENAMETOOLONG
    | _, _ => VBad
    end.

  Definition ev_field (v : value) (name : string) : value :=
    match v with
    | VRec n => if (String.eqb name "pw_name" || String.eqb name "gr_name")%bool then VS n else VBad
    | VTv s u => if String.eqb name "tv_sec" then VI s else if String.eqb name "tv_usec" then VI u else VBad
    | VSt u => if String.eqb name "st_uid" then VI u else VBad
    | _ => VBad
    end.

  Definition vbool (b : bool) : value := VI (if b then 1 else 0).
  Definition is_ptr (v : value) : option bool :=    (* Some true: non-null pointer *)
    match v with VS _ | VRec _ | VTm _ => Some true | VNull => Some false | _ => None end.

  Definition ev_op (op : string) (a : list value) : value :=
    match a with
    | [VI x; VI y] =>
      if String.eqb op "==" then vbool (x =? y) else if String.eqb op "!=" then vbool (negb (x =? y))
      else if String.eqb op "<" then vbool (x <? y) else if String.eqb op ">" then vbool (y <? x)
      else if String.eqb op "<=" then vbool (x <=? y) else if String.eqb op ">=" then vbool (y <=? x)
      else if String.eqb op "+" then VI (x + y) else if String.eqb op "-" then VI (x - y)
      else if String.eqb op "*" then VI (x * y)
      else if String.eqb op "/" then (if y =? 0 then VBad else VI (cdiv x y))
      else VBad
    | [VS s; VI n] =>
      if (String.eqb op "setnul" || String.eqb op "strncpy")%bool then (if 0 <=? n then VS (takeZ n s) else VBad)
      else if String.eqb op "byteat" then
        (if (0 <=? n) && (n <=? zlen s) then VI (signed_char (nth (Z.to_nat n) s x00)) else VBad)
      else if String.eqb op "==" then (if n =? 0 then vbool false else VBad)
      else if String.eqb op "!=" then (if n =? 0 then vbool true else VBad)
      else VBad
    | [p; VI n] =>
      match is_ptr p with
      | Some nn => if n =? 0 then (if String.eqb op "==" then vbool (negb nn) else if String.eqb op "!=" then vbool nn else VBad) else VBad
      | None => VBad
      end
    | _ => VBad
    end.

  Fixpoint ev (e : sx) : value :=
    match e with
    | ECall f args => ev_call f (map ev args)
    | EOut f args i => ev_out f (map ev args) i
    | EErrno f args => ev_errno f (map ev args)
    | EInt z => VI z
    | EStr s => VS s
    | EArg => VS arg
    | ESize => VI (nz sz)
    | EBuf0 => VBad
    | ECast s b e' => match ev e' with VI z => VI (wrap s b z) | _ => VBad end
    | EOp op args => ev_op op (map ev args)
    | EFmt cap fmt args =>
      match ev cap, cprintf fmt (map ev args) with
      | VI c, Some s => if 0 <? c then VS (takeZ (c - 1) s) else VBad
      | _, _ => VBad
      end
    | ERet cap fmt args => match cprintf fmt (map ev args) with Some s => VI (zlen s) | None => VBad end
    | EField e' name => ev_field (ev e') name
    | EIds name => if String.eqb name "filename" then match exec_file st with Some f => VS f | None => VBad end else VBad
    | EUnknown _ => VBad
    end.


  Definition print_out (s : list byte) : outcome := {| o_ret := zlen s; o_buf := Some (takeN (sz - 1) s) |}.

  Fixpoint eval_tree (t : dtree) : option outcome :=
    match t with
    | TPrint fmt args => option_map print_out (cprintf fmt (map ev args))
    | TRet r b =>
      match ev r with
      | VI z => Some {| o_ret := z; o_buf := match ev b with VS s => Some s | _ => None end |}
      | _ => None
      end
    | TIf c t1 t2 => match ev c with VI z => if z =? 0 then eval_tree t2 else eval_tree t1 | _ => None end
    | TOther _ => None
    end.
End Eval.

(** * env_all.c, path by path (sizes in N; [rs] = resultSize, [w] = bytes in the buffer) *)
Section EnvAll.
  Variable c : ds_consts.
  Local Open Scope N_scope.

  (** one iteration for the [first] / a later entry; [Some (w, true)] = loop ended with the marker.
      [None]: the C arithmetic leaves the buffer (only reachable with resultBufSize < 4). *)
  Definition ea_step (sz : N) (first : bool) (w : list byte) (item : list byte) : option (list byte * bool) :=
    let rem0 := sz - len w in
    let '(w1, rem) := if negb first && (ea_comma_min c <=? rem0) then (w ++ ea_sep c, rem0 - 1) else (w, rem0) in
    if len item + ea_whole_margin c <? rem then Some (w1 ++ takeN (rem - 1) item, false)
    else if rem <? ea_cut_margin c + 1 then None     (* remResultSize - 3 wraps around / copies nothing and steps back *)
    else
      let cp := rem - ea_cut_margin c in
      Some (w1 ++ takeN (cp - 1) item ++ takeN (ea_marker_size c - 1) (ea_marker c), true).

  Fixpoint ea_loop (sz : N) (first : bool) (w : list byte) (items : list (list byte)) : option (list byte) :=
    match items with
    | [] => Some w
    | it :: rest =>
      match ea_step sz first w it with
      | None => None
      | Some (w', true) => Some w'
      | Some (w', false) => ea_loop sz false w' rest
      end
    end.

  Definition env_all (env : option (list (list byte))) (sz : N) : option (list byte) :=
    match env with
    | None => if ea_null_guard c then Some [] else None     (* environ == NULL: D8 *)
    | Some items => ea_loop sz true [] items
    end.

  (** the documented content: all entries joined by commas, cut with "..." when the buffer is short *)
  Definition env_all_spec (env : option (list (list byte))) (sz : N) : list byte :=
    match env with
    | None | Some [] => []
    | Some items =>
      let j := join [COMMA] items in
      if len j + 4 <? sz then j else takeN (sz - 4) j ++ [x2e; x2e; x2e]
    end.
End EnvAll.

(** * cgroup.c *)
Section Cgroup.
  Variable c : ds_consts.

  (** the line that starts at offset 0 of [s] (up to, not including, the newline) *)
  Definition line_at (s : list byte) : list byte := match index NL s with Some k => firstn k s | None => s end.

  (** snoopy_util_string_findLineStartingWith: strstr loop with the start-of-line test *)
  Fixpoint find_line (fuel : nat) (content : list byte) (off : nat) (needle : list byte) : option nat :=
    match fuel with
    | O => None
    | S fuel' =>
      match strstr (skipn off content) needle with
      | None => None
      | Some k =>
        let p := (off + k)%nat in
        if (p =? 0)%nat || beq (nth (p - 1) content x00) NL then Some p
        else find_line fuel' content (p + length needle)%nat needle
      end
    end.

  (** doesCgroupEntryContainController: SNOOPY_TRUE only *)
  Definition entry_has_controller (entry name : list byte) : bool :=
    match index COLONB entry with
    | None => false
    | Some k1 =>
      let rest := skipn (S k1) entry in
      match index COLONB rest with
      | None => false
      | Some k2 =>
        let ctl := firstn k2 rest in
        match ctl with
        | [] => false                                   (* empty controller list *)
        | _ => list_eqb ctl name                        (* whole literal match *)
               || (existsb (beq COMMA) ctl               (* no comma: nothing more to try *)
                   && existsb (list_eqb name) (split_on COMMA ctl))
        end
      end
    end.

  (** strtok_r(content, "\n"): the non-empty lines *)
  Definition tok_lines (content : list byte) : list (list byte) :=
    filter (fun l => negb (Nat.eqb (length l) 0)) (split_on NL content).

  Definition all_digits (s : list byte) : bool := forallb is_digit s.

  (** the entry selected from the file text ([None]: "(none)") *)
  Definition cgroup_select (content arg : list byte) : option (list byte) :=
    if all_digits arg then
      match find_line (S (length content)) content 0 (arg ++ [COLONB]) with
      | Some p => Some (line_at (skipn p content))
      | None => None
      end
    else find (fun l => entry_has_controller l arg) (tok_lines content).

  (** documented selection: the first line "N:..." for a hierarchy number, the first line whose
      controller list (second colon-separated field of at least three) names the controller (or is the pattern) otherwise *)
  Definition cgroup_spec (content arg : list byte) : option (list byte) :=
    if all_digits arg then find (fun l => prefixb (arg ++ [COLONB]) l) (split_on NL content)
    else find (fun l => match split_on COLONB l with
                        | _ :: ctl :: _ :: _ => negb (Nat.eqb (length ctl) 0) && (list_eqb ctl arg || existsb (list_eqb arg) (split_on COMMA ctl))
                        | _ => false end) (split_on NL content).
End Cgroup.

(** * rpname.c *)
Section Rpname.
  Variable c : ds_consts.
  Variable status_of : Z -> option (list byte).

  (** atoi on the value text: optional blanks, digits (pids are small) *)
  Fixpoint skip_space (s : list byte) : list byte := match s with b :: s' => if is_space b then skip_space s' else s | [] => [] end.
  Fixpoint take_digits (s : list byte) : list byte := match s with b :: s' => if is_digit b then b :: take_digits s' else [] | [] => [] end.
  Definition atoi_pid (s : list byte) : Z := nz (digits_val (take_digits (skip_space s))).

  (** read_proc_property over the lines (each with its newline stripped by the caller's reading of getline):
      [Some v] value found; [None] missing / malformed file.  A line without ':' ends the search. *)
  Fixpoint prop_lines (lines : list (list byte)) (key : list byte) : option (list byte) :=
    match lines with
    | [] => None
    | l :: rest =>
      match index COLONB l with
      | None => None
      | Some k =>
        if list_eqb (firstn k l) key then
          (* v++ skips the tab; the final byte (newline) is cut; at most NAME_MAX bytes are kept *)
          Some (takeN (rp_val_max c) (skipn (S (S k)) l))
        else prop_lines rest key
      end
    end.

  (** getline() lines: text split after each newline, newline removed; a final unterminated piece only if non-empty *)
  Definition status_lines (text : list byte) : list (list byte) :=
    let ls := split_on NL text in
    match rev ls with
    | [] :: r => rev r
    | _ => ls
    end.

  Definition read_prop (p : Z) (key : list byte) : option (list byte) :=
    match status_of p with
    | None => None
    | Some text => prop_lines (status_lines text) key
    end.

  Fixpoint rpname_walk (fuel : nat) (p : Z) : option (list byte) :=     (* None: recursion does not end *)
    match fuel with
    | O => None
    | S fuel' =>
      match read_prop p (rp_key_ppid c) with
      | None => Some (rp_unknown c)
      | Some v =>
        let pp := atoi_pid v in
        if (pp =? nz (rp_root_pid c)) || (pp =? nz (rp_zero_pid c)) then
          Some (match read_prop p (rp_key_name c) with Some n => n | None => rp_unknown c end)
        else rpname_walk fuel' pp
      end
    end.
End Rpname.

Definition seq (a b : string) : bool := String.eqb a b.
Arguments seq _%string_scope _%string_scope.

(** * The expected trees (what the repaired sources say), by name *)
Definition lit (x : string) : list byte := bytes x.
Definition P (fmt : string) (args : list sx) : dtree := TPrint (lit fmt) args.
Definition OUT : sx := EOp "out" [].
Definition eq0 (e : sx) : sx := EOp "==" [e; EInt 0].
Definition ne0 (e : sx) : sx := EOp "!=" [e; EInt 0].

Definition t_id (f : fn) : dtree := P "%u" [ECall f []].
Definition q_pw (u : sx) : sx := ECall F_getpwuid_r [u; OUT; OUT].
Definition r_pw (u : sx) : sx := EOut F_getpwuid_r [u; OUT; OUT] 4.
Definition q_gr (g : sx) : sx := ECall F_getgrgid_r [g; OUT; OUT].
Definition r_gr (g : sx) : sx := EOut F_getgrgid_r [g; OUT; OUT] 4.

(** snoopy_util_pwd_convertUidToUsername(u), then snprintf "%s" of the result *)
Definition t_username (c : ds_consts) (u : sx) : dtree :=
  let cap := EInt (nz (login_name_max c)) in
  TIf (ne0 (q_pw u)) (P "Unable to convert UID to username" [])
   (TIf (eq0 (r_pw u))
     (P "%s" [EOp "setnul" [EFmt cap (lit "user-%u") [u]; cap]])
     (P "%s" [EOp "setnul" [EFmt cap (lit "%s") [EField (r_pw u) "pw_name"]; cap]])).

Definition t_group (g : sx) : dtree :=
  TIf (ne0 (q_gr g)) (P "ERROR(getgrgid_r)" [])
   (TIf (eq0 (r_gr g)) (P "(undefined)" []) (P "%s" [EField (r_gr g) "gr_name"])).

Definition q_tty : sx := ECall F_ttyname_r [EInt 0; OUT; EInt 4096].
Definition r_tty : sx := EOut F_ttyname_r [EInt 0; OUT; EInt 4096] 1.
Definition t_tty_err : dtree :=
  TIf (EOp "==" [q_tty; EInt EBADF]) (P "ERROR(ttyname_r->EBADF)" [])
   (TIf (EOp "==" [q_tty; EInt ERANGE]) (P "ERROR(ttyname_r->ERANGE)" [])
     (TIf (EOp "==" [q_tty; EInt ENOTTY]) (P "(none)" []) (P "(unknown)" []))).
Definition q_stat : sx := ECall F_stat [r_tty; OUT].
Definition r_stat_uid : sx := EField (EOut F_stat [r_tty; OUT] 1) "st_uid".
Definition t_tty_owner (k : dtree) : dtree :=
  TIf (ne0 q_tty) t_tty_err
   (TIf (EOp "==" [q_stat; EInt (-1)]) (P "ERROR(unable to stat() %s)" [r_tty]) k).

Definition q_tod : sx := ECall F_gettimeofday [OUT; EInt 0].
Definition r_tod (f : string) : sx := EField (EOut F_gettimeofday [OUT; EInt 0] 0) f.
Definition t_time (fmt : string) (e : sx) : dtree :=
  TIf (eq0 q_tod) (P fmt [e]) (P "(error: %d)" [EErrno F_gettimeofday [OUT; EInt 0]]).

Definition q_env (n : sx) : sx := ECall F_getenv [n].
Definition t_login_env (n : string) : dtree :=
  let v := q_env (EStr (lit n)) in
  TIf (EOp ">" [ECast true 32 (ECall F_strlen [v]); EInt 254])
    (P "%s" [EOp "setnul" [EOp "strncpy" [v; EInt 254]; EInt 254]])
    (P "%s" [EOp "strncpy" [v; EInt 254]]).

Definition q_time : sx := ECall F_time [OUT].
Definition r_lt : sx := ECall F_localtime_r [EOut F_time [OUT] 0; OUT].
Definition t_strftime (c : ds_consts) (fmt : sx) : dtree :=
  let a := [OUT; EInt (nz (dt_buf c)); fmt; r_lt] in
  TIf (eq0 (ECall F_strftime a)) (P "(error @ strftime())" []) (P "%s" [EOut F_strftime a 0]).

Definition expected (c : ds_consts) (name : string) : option dtree :=
  if seq name "uid" then Some (t_id F_getuid) else if seq name "euid" then Some (t_id F_geteuid)
  else if seq name "gid" then Some (t_id F_getgid) else if seq name "egid" then Some (t_id F_getegid)
  else if seq name "pid" then Some (t_id F_getpid) else if seq name "ppid" then Some (t_id F_getppid)
  else if seq name "sid" then Some (P "%u" [ECall F_getsid [EInt 0]])
  else if seq name "tid" then
    Some (TIf (eq0 (ECall F_pthread_self [])) (P "(error @ pthread_self())" []) (P "%lu" [ECall F_pthread_self []]))
  else if seq name "tid_kernel" then
    let t := ECast false 64 (ECall F_syscall [EInt SYS_gettid]) in
    Some (TIf (eq0 t) (P "(error @ syscall(SYS_gettid))" []) (P "%lu" [t]))
  else if seq name "username" then Some (t_username c (ECall F_getuid []))
  else if seq name "eusername" then
    let u := ECall F_geteuid [] in
    Some (TIf (ne0 (q_pw u)) (P "ERROR(getpwuid_r)" [])
           (TIf (eq0 (r_pw u)) (P "(undefined)" []) (P "%s" [EField (r_pw u) "pw_name"])))
  else if seq name "group" then Some (t_group (ECall F_getgid []))
  else if seq name "egroup" then Some (t_group (ECall F_getegid []))
  else if seq name "cwd" then
    let a := [OUT; EInt (nz (path_max c) + 1)] in
    Some (TIf (ne0 (ECall F_getcwd a)) (P "%s" [EOut F_getcwd a 0]) (TRet (EInt (-1)) EBuf0))
  else if seq name "hostname" then
    let a := [OUT; ESize] in
    let b := EOp "setnul" [EOut F_gethostname a 0; EOp "-" [ESize; EInt 1]] in
    Some (TIf (ne0 (ECall F_gethostname a)) (P "(error @ gethostname(): %d)" [EErrno F_gethostname a])
           (TRet (ECast true 32 (ECall F_strlen [b])) b))
  else if seq name "env" then Some (TIf (eq0 (q_env EArg)) (P "(undefined)" []) (P "%s" [q_env EArg]))
  else if seq name "tty" then Some (TIf (ne0 q_tty) t_tty_err (P "%s" [r_tty]))
  else if seq name "tty_uid" then Some (t_tty_owner (P "%u" [r_stat_uid]))
  else if seq name "tty_username" then Some (t_tty_owner (t_username c r_stat_uid))
  else if seq name "login" then
    Some (TIf (ne0 (ECall F_getlogin_r [OUT; EInt 255]))
           (TIf (eq0 (q_env (EStr (lit "SUDO_USER"))))
             (TIf (eq0 (q_env (EStr (lit "LOGNAME")))) (P "%s" [EStr (lit "(unknown)")]) (t_login_env "LOGNAME"))
             (t_login_env "SUDO_USER"))
           (P "%s" [EOut F_getlogin_r [OUT; EInt 255] 0]))
  else if seq name "timestamp" then Some (t_time "%d" (ECast true 32 (r_tod "tv_sec")))
  else if seq name "timestamp_ms" then Some (t_time "%03d" (EOp "/" [ECast true 32 (r_tod "tv_usec"); EInt 1000]))
  else if seq name "timestamp_us" then Some (t_time "%06d" (ECast true 32 (r_tod "tv_usec")))
  else if seq name "snoopy_version" then Some (P "%s" [EStr (cfg_version c)])
  else if seq name "snoopy_configure_command" then Some (P "%s" [EStr (cfg_configure_command c)])
  else if seq name "snoopy_literal" then Some (P "%s" [EArg])
  else if seq name "filename" then Some (P "%s" [EIds "filename"])
  else if seq name "datetime" then
    Some (TIf (EOp "==" [q_time; EInt (-1)]) (P "(error @ time(): %d)" [EErrno F_time [OUT]])
           (TIf (eq0 r_lt) (P "(error @ localtime_r())" [])
             (TIf (ne0 (ECast true 32 (EOp "byteat" [EArg; EInt 0]))) (t_strftime c EArg) (t_strftime c (EStr (dt_default_fmt c))))))
  else None.

(** names decided by a tree / by an own model *)
Definition tree_class : list string :=
  ["uid"; "euid"; "gid"; "egid"; "pid"; "ppid"; "sid"; "tid"; "tid_kernel"; "username"; "eusername"; "group"; "egroup";
   "cwd"; "hostname"; "env"; "tty"; "tty_uid"; "tty_username"; "login"; "timestamp"; "timestamp_ms"; "timestamp_us";
   "snoopy_version"; "snoopy_configure_command"; "snoopy_literal"; "filename"; "datetime"]%string.
Definition simple_class : list string := tree_class ++ ["env_all"%string; "cmdline"%string].

(** * Equality test of trees (nested lists: explicit list recursion) *)
Definition fn_eqb (a b : fn) : bool :=
  match a, b with
  | F_getuid, F_getuid | F_geteuid, F_geteuid | F_getgid, F_getgid | F_getegid, F_getegid | F_getpid, F_getpid
  | F_getppid, F_getppid | F_getsid, F_getsid | F_getpgrp, F_getpgrp | F_getpgid, F_getpgid | F_pthread_self, F_pthread_self
  | F_syscall, F_syscall | F_getpwuid_r, F_getpwuid_r | F_getgrgid_r, F_getgrgid_r | F_getcwd, F_getcwd
  | F_gethostname, F_gethostname | F_getenv, F_getenv | F_ttyname_r, F_ttyname_r | F_stat, F_stat | F_getlogin_r, F_getlogin_r
  | F_gettimeofday, F_gettimeofday | F_time, F_time | F_localtime_r, F_localtime_r | F_strftime, F_strftime
  | F_sysconf, F_sysconf | F_strlen, F_strlen | F_strcmp, F_strcmp | F_strncmp, F_strncmp | F_strcpy, F_strcpy
  | F_strncpy, F_strncpy | F_atoi, F_atoi | F_snoopy_inputdatastorage_get, F_snoopy_inputdatastorage_get => true
  | F_other x, F_other y => String.eqb x y
  | _, _ => false
  end.

Fixpoint sx_eqb (a b : sx) {struct a} : bool :=
  let fix l_eqb (l m : list sx) {struct l} : bool :=
    match l, m with
    | [], [] => true
    | x :: l', y :: m' => sx_eqb x y && l_eqb l' m'
    | _, _ => false
    end in
  match a, b with
  | ECall f l, ECall g m => fn_eqb f g && l_eqb l m
  | EOut f l i, EOut g m j => fn_eqb f g && l_eqb l m && Nat.eqb i j
  | EErrno f l, EErrno g m => fn_eqb f g && l_eqb l m
  | EInt x, EInt y => Z.eqb x y
  | EStr x, EStr y => list_eqb x y
  | EArg, EArg | ESize, ESize | EBuf0, EBuf0 => true
  | ECast s1 b1 e1, ECast s2 b2 e2 => Bool.eqb s1 s2 && N.eqb b1 b2 && sx_eqb e1 e2
  | EOp o l, EOp p m => String.eqb o p && l_eqb l m
  | EFmt c1 f1 l, EFmt c2 f2 m => sx_eqb c1 c2 && list_eqb f1 f2 && l_eqb l m
  | ERet c1 f1 l, ERet c2 f2 m => sx_eqb c1 c2 && list_eqb f1 f2 && l_eqb l m
  | EField e1 n1, EField e2 n2 => sx_eqb e1 e2 && String.eqb n1 n2
  | EIds n1, EIds n2 => String.eqb n1 n2
  | _, _ => false            (* EUnknown equals nothing, not even itself *)
  end.
Fixpoint sxl_eqb (l m : list sx) : bool :=
  match l, m with
  | [], [] => true
  | x :: l', y :: m' => sx_eqb x y && sxl_eqb l' m'
  | _, _ => false
  end.

Fixpoint tree_eqb (a b : dtree) : bool :=
  match a, b with
  | TPrint f l, TPrint g m => list_eqb f g && sxl_eqb l m
  | TRet r1 b1, TRet r2 b2 => sx_eqb r1 r2 && sx_eqb b1 b2
  | TIf c1 t1 e1, TIf c2 t2 e2 => sx_eqb c1 c2 && tree_eqb t1 t2 && tree_eqb e1 e2
  | _, _ => false
  end.

(** the same decision written with the negated test and swapped arms is the same tree *)
Fixpoint norm_tree (t : dtree) : dtree :=
  match t with
  | TIf (EOp op [a; b]) t1 t2 =>
    if String.eqb op "!=" then TIf (EOp "==" [a; b]) (norm_tree t2) (norm_tree t1) else TIf (EOp op [a; b]) (norm_tree t1) (norm_tree t2)
  | TIf c t1 t2 => TIf c (norm_tree t1) (norm_tree t2)
  | _ => t
  end.
Definition same_tree (a b : dtree) : bool := tree_eqb (norm_tree a) (norm_tree b).

Definition lookup (g : ds_gen) (name : string) : option ds_entry := find (fun e => String.eqb (de_name e) name) (g_table g).

(** accepted second form: the timestamp printed at its full width ("%lld", (long long) tv.tv_sec) *)
Definition t_timestamp_wide : dtree := t_time "%lld" (r_tod "tv_sec").
Definition alternatives (name : string) : list dtree := if seq name "timestamp" then [t_timestamp_wide] else [].

Definition entry_ok (g : ds_gen) (name : string) : bool :=
  match lookup g name, expected (g_consts g) name with
  | Some e, Some t => same_tree (de_tree e) t || existsb (same_tree (de_tree e)) (alternatives name)
  | _, _ => false
  end.

(** the timestamp is exact for clock values below this bound (the int cast of the current source wraps at 2^31) *)
Definition ts_exact_below (g : ds_gen) : Z :=
  match lookup g "timestamp" with
  | Some e => if same_tree (de_tree e) t_timestamp_wide then two63 else two31
  | None => two31
  end.

Definition calls_within (g : ds_gen) (name : string) (allowed : list string) : bool :=
  match lookup g name with
  | Some e => forallb (fun c => existsb (String.eqb c) allowed) (de_calls e)
  | None => false
  end.

Definition ea_consts_ok (c : ds_consts) : bool :=
  N.eqb (ea_comma_min c) 5 && list_eqb (ea_sep c) [COMMA] && N.eqb (ea_whole_margin c) 4 && N.eqb (ea_cut_margin c) 3
  && N.eqb (ea_marker_size c) 4 && list_eqb (ea_marker c) [x2e; x2e; x2e] && ea_null_guard c.

Definition cg_consts_ok (c : ds_consts) : bool :=
  list_eqb (cg_path_fmt c) (lit "/proc/%d/cgroup") && cg_pid_is_getpid c && list_eqb (cg_none c) (lit "(none)")
  && list_eqb (cg_num_fmt c) (lit "%s:") && list_eqb (cg_line_sep c) [NL] && N.ltb 0 (cg_file_max c).

Definition rp_consts_ok (c : ds_consts) : bool :=
  list_eqb (rp_key_name c) (lit "Name") && list_eqb (rp_key_ppid c) (lit "PPid") && list_eqb (rp_unknown c) (lit "(unknown)")
  && N.eqb (rp_root_pid c) 1 && N.eqb (rp_zero_pid c) 0 && list_eqb (rp_path_fmt c) (lit "/proc/%d/status") && rp_start_is_getpid c
  && N.leb 65 (rp_val_max c).

Definition misc_consts_ok (c : ds_consts) : bool :=
  (N.ltb 0 (path_max c) && N.ltb 1 (login_name_max c) && N.ltb 1 (dt_buf c) && negb (Nat.eqb (length (dt_default_fmt c)) 0))%bool.

(** the obligation re-checked on every run against the regenerated Gen_Ds.v *)
Definition ds_consts_ok (g : ds_gen) : bool :=
  forallb (entry_ok g) tree_class
  && ea_consts_ok (g_consts g) && calls_within g "env_all" ["strlen"]%string
  && calls_within g "cmdline" ["snoopy_inputdatastorage_get"]%string
  && cg_consts_ok (g_consts g) && rp_consts_ok (g_consts g) && misc_consts_ok (g_consts g).

(** * eval_ds: what the generated description says a data source returns in a state *)
Definition opt_print (sz : N) (o : option (list byte)) : option outcome :=
  match o with Some w => Some {| o_ret := zlen w; o_buf := Some w |} | None => None end.

Definition eval_ds (g : ds_gen) (cc : cmdline_consts) (name : string) (st : pstate) (arg : list byte) (sz : N) : option outcome :=
  if String.eqb name "env_all" then opt_print sz (env_all (g_consts g) (environ st) sz)
  else if String.eqb name "cmdline" then
    (let w := cmdline cc (exec_file st) (exec_argv st) sz in Some {| o_ret := zlen w; o_buf := Some w |})
  else match lookup g name with
       | Some e => eval_tree st arg sz (de_tree e)
       | None => None
       end.

(** the table the model driver runs: every name bound to its expected tree *)
Definition expected_gen (c : ds_consts) (ts_wide : bool) : ds_gen :=
  {| g_consts := c;
     g_table := map (fun n => {| de_name := n; de_symbol := ""; de_calls := [];
                                 de_tree := if ts_wide && seq n "timestamp" then t_timestamp_wide
                                            else match expected c n with Some t => t | None => TOther "no expected tree" end |}) tree_class |}.

(** * The documented table (etc/snoopy.ini.in, headers of the data source files, util/pwd.c's contract) *)
Section Documented.
  Variable c : ds_consts.
  Variable st : pstate.
  Variable arg : list byte.
  Variable sz : N.

  Definition say (w : list byte) : option outcome := Some (print_out sz w).
  Definition failure : option outcome := Some {| o_ret := -1; o_buf := None |}.

  (** "Username ...": the passwd name of the uid, "user-UID" for a uid without entry (pwd.c), at most LOGIN_NAME_MAX-1 bytes *)
  Definition name_of_uid (u : Z) : list byte :=
    takeN (login_name_max c - 1) (match passwd st u with Some n => n | None => lit "user-" ++ decz u end).
  Definition name_or_undefined (db : Z -> option (list byte)) (i : Z) : list byte :=
    match db i with Some n => n | None => lit "(undefined)" end.

  Definition tty_text (k : list byte -> option outcome) : option outcome :=
    match fd_tty st 0 with
    | TtyName p => if zlen p <? 4096 then k p else say (lit "ERROR(ttyname_r->ERANGE)")
    | TtyErr e => if e =? 0 then None else
                  if e =? EBADF then say (lit "ERROR(ttyname_r->EBADF)") else if e =? ERANGE then say (lit "ERROR(ttyname_r->ERANGE)")
                  else if e =? ENOTTY then say (lit "(none)") else say (lit "(unknown)")
    end.
  Definition tty_owner_text (k : Z -> option outcome) : option outcome :=
    tty_text (fun p => match file_owner st p with Some u => k u | None => say (lit "ERROR(unable to stat() " ++ p ++ lit ")") end).

  Definition login_fallback : list byte :=
    match getenv_model st (lit "SUDO_USER") with
    | Some v => takeN 254 v
    | None => match getenv_model st (lit "LOGNAME") with Some v => takeN 254 v | None => lit "(unknown)" end
    end.
  Definition login_text : list byte :=
    match login_name st with
    | Some l => if zlen l <? 255 then l else login_fallback
    | None => login_fallback
    end.

  Definition pad (w : N) (z : Z) : list byte := render_int w z.

  Definition documented (name : string) : option outcome :=
      if seq name "uid" then say (decz (ruid st)) else if seq name "euid" then say (decz (euid st))
    else if seq name "gid" then say (decz (rgid st)) else if seq name "egid" then say (decz (egid st))
    else if seq name "pid" then say (decz (pid st)) else if seq name "ppid" then say (decz (ppid st))
    else if seq name "sid" then say (decz (sid st))
    else if seq name "tid" then say (decz (pthread_id st))
    else if seq name "tid_kernel" then say (decz (ktid st))
    else if seq name "username" then say (name_of_uid (ruid st))
    else if seq name "eusername" then say (name_or_undefined (passwd st) (euid st))
    else if seq name "group" then say (name_or_undefined (groupdb st) (rgid st))
    else if seq name "egroup" then say (name_or_undefined (groupdb st) (egid st))
    else if seq name "cwd" then
      match cwd st with Some p => if zlen p <=? nz (path_max c) then say p else failure | None => failure end
    else if seq name "hostname" then
      (if zlen (hostname st) <? nz sz then Some {| o_ret := zlen (hostname st); o_buf := Some (hostname st) |}
       else say (lit "(error @ gethostname(): " ++ decz ENAMETOOLONG ++ lit ")"))
    else if seq name "env" then say (match getenv_model st arg with Some v => v | None => lit "(undefined)" end)
    else if seq name "env_all" then (let w := env_all_spec (environ st) sz in Some {| o_ret := zlen w; o_buf := Some w |})
    else if seq name "tty" then tty_text say
    else if seq name "tty_uid" then tty_owner_text (fun u => say (decz u))
    else if seq name "tty_username" then tty_owner_text (fun u => say (name_of_uid u))
    else if seq name "login" then say login_text
    else if seq name "timestamp" then say (decz (clock_sec st))
    else if seq name "timestamp_ms" then say (pad 3 (clock_usec st / 1000))
    else if seq name "timestamp_us" then say (pad 6 (clock_usec st))
    else if seq name "snoopy_version" then say (cfg_version c)
    else if seq name "snoopy_configure_command" then say (cfg_configure_command c)
    else if seq name "snoopy_literal" then say arg
    else if seq name "filename" then match exec_file st with Some f => say f | None => None end
    else if seq name "cmdline" then
      (let w := match exec_argv st, exec_file st with
                | Some (a0 :: args), _ => Some (takeN (sz - 1) (join [SP] (a0 :: args)))
                | _, Some f => Some (takeN (sz - 1) f)
                | _, None => None
                end in
       match w with Some w => Some {| o_ret := zlen w; o_buf := Some w |} | None => None end)
    else if seq name "datetime" then
      (let fmt := match arg with [] => dt_default_fmt c | _ => arg end in
       let r := tz_strftime st (clock_sec st) fmt in
       if (0 <? zlen r) && (zlen r <? nz (dt_buf c)) then say r else say (lit "(error @ strftime())"))
    else None.
End Documented.
