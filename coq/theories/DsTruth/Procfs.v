(** C12, procfs-reading data sources: parse theorems over the TEXT of the files.

    rpname.c  — [read_status]: from a status text "Name:\t<name>\n ... PPid:\t<n>\n ..." the two properties are read back;
                [rpname_root]: along any ancestor chain whose last member has parent 1 or 0 the walk returns that member's name.
    cgroup.c  — [cgroup_select_spec]: for every file text and every pattern the selected entry is the first line "N:..." (number)
                / the first line whose controller list names the pattern (name); the strstr loop of
                snoopy_util_string_findLineStartingWith is related to the lines of the text ([find_line_lines]).
    Stdlib only, no axioms. *)
From Coq Require Import String ZArith NArith List Bool Lia ZifyBool ZifyN ZifyNat.
From Snoopy Require Import Lib.CStr Datasource.Cmdline DsTruth.Model DsTruth.Proofs.
Import ListNotations.

(** * split_on and index *)
Lemma split_on_index_none c s : index c s = None -> split_on c s = [s].
Proof.
  induction s as [|b s IH]; [reflexivity|]. simpl. destruct (beq b c); [discriminate|].
  destruct (index c s); [discriminate|]. intros _. now rewrite IH.
Qed.
Lemma split_on_index_some c s k : index c s = Some k -> split_on c s = firstn k s :: split_on c (skipn (S k) s).
Proof.
  revert k. induction s as [|b s IH]; intros k; [discriminate|]. cbn [index split_on]. destruct (beq b c) eqn:E.
  - intros H. injection H as <-. reflexivity.
  - destruct (index c s) as [j|]; [|discriminate]. cbn [option_map]. intros H. injection H as <-.
    rewrite (IH j eq_refl). reflexivity.
Qed.
Lemma index_app_notin c a b : ~ In c a -> index c (a ++ c :: b) = Some (length a).
Proof.
  induction a as [|x a IH]; intros H; cbn [app index length].
  - now rewrite beq_refl.
  - destruct (beq x c) eqn:E; [apply beq_eq in E; subst; exfalso; apply H; now left|].
    rewrite IH by (intros I; apply H; now right). reflexivity.
Qed.
Lemma firstn_app_exact {A} (a b : list A) : firstn (length a) (a ++ b) = a.
Proof. rewrite firstn_app, Nat.sub_diag, firstn_all. simpl. apply app_nil_r. Qed.
Lemma skipn_app_exact {A} (a b : list A) n : n = length a -> skipn n (a ++ b) = b.
Proof. intros ->. rewrite skipn_app, Nat.sub_diag, skipn_all. reflexivity. Qed.

Lemma skipn_cons_app {A} (l : list A) b rest : skipn (S (length l)) (l ++ b :: rest) = rest.
Proof. induction l as [|x l IH]; [reflexivity|exact IH]. Qed.

(** * rpname: reading a property out of a status text, walking to the root ancestor *)
Section RpnameProof.
  Variable c : ds_consts.
  Hypothesis OK : rp_consts_ok c = true.
  Lemma rp_facts : rp_key_name c = lit "Name" /\ rp_key_ppid c = lit "PPid" /\ rp_unknown c = lit "(unknown)" /\ rp_root_pid c = 1%N /\ rp_zero_pid c = 0%N /\ (65 <= rp_val_max c)%N.
  Proof.
    unfold rp_consts_ok in OK. do 7 (apply andb_true_iff in OK as [OK ?]).
    repeat split; try (now apply list_eqb_eq); try (now apply N.eqb_eq). now apply N.leb_le.
  Qed.

  (** a status line "key:\tvalue" *)
  Definition sline (key value : list byte) : list byte := key ++ [COLONB; TAB] ++ value.
  Definition clean (s : list byte) : Prop := ~ In NL s.
  Definition keyok (k : list byte) : Prop := ~ In COLONB k /\ ~ In NL k.

  Lemma prop_lines_skip key k v rest : keyok k -> k <> key -> prop_lines c (sline k v :: rest) key = prop_lines c rest key.
  Proof.
    intros [K1 K2] NE. cbn [prop_lines]. unfold sline. cbn [app]. rewrite (index_app_notin COLONB k (TAB :: v) K1).
    rewrite firstn_app_exact. destruct (list_eqb k key) eqn:E; [apply list_eqb_eq in E; contradiction|reflexivity].
  Qed.
  Lemma prop_lines_hit key v rest : ~ In COLONB key -> prop_lines c (sline key v :: rest) key = Some (takeN (rp_val_max c) v).
  Proof.
    intros K. cbn [prop_lines]. unfold sline. cbn [app]. rewrite (index_app_notin COLONB key (TAB :: v) K).
    rewrite firstn_app_exact, list_eqb_refl. do 2 f_equal.
    replace (S (S (length key))) with (length (key ++ [COLONB; TAB])) by (rewrite app_length; simpl; lia).
    change (key ++ COLONB :: TAB :: v) with (key ++ ([COLONB; TAB] ++ v)). rewrite app_assoc. now apply skipn_app_exact.
  Qed.

  (** text made of newline-terminated lines *)
  Definition render (lines : list (list byte)) : list byte := flat_map (fun l => l ++ [NL]) lines.
  Lemma split_render lines : Forall clean lines -> split_on NL (render lines) = lines ++ [[]].
  Proof.
    induction 1 as [|l lines Hl _ IH]; [reflexivity|]. cbn [render flat_map]. rewrite <- app_assoc. cbn [app].
    rewrite (split_on_index_some NL _ (length l)) by (now apply index_app_notin).
    rewrite firstn_app_exact, skipn_cons_app. fold (render lines). rewrite IH. reflexivity.
  Qed.
  Lemma status_lines_render lines : Forall clean lines -> status_lines (render lines) = lines.
  Proof. intros H. unfold status_lines. rewrite (split_render lines H). rewrite rev_app_distr. cbn [rev app]. apply rev_involutive. Qed.

  (** digits *)
  Lemma digit_byte_is_digit d : (d < 10)%N -> is_digit (digit_byte d) = true /\ is_space (digit_byte d) = false.
  Proof.
    intros H. assert (C : (d = 0 \/ d = 1 \/ d = 2 \/ d = 3 \/ d = 4 \/ d = 5 \/ d = 6 \/ d = 7 \/ d = 8 \/ d = 9)%N) by lia.
    repeat (destruct C as [->|C]; [split; reflexivity|]). subst. split; reflexivity.
  Qed.
  Lemma dec_aux_digits fuel : forall n acc, forallb is_digit acc = true -> forallb is_digit (dec_aux fuel n acc) = true.
  Proof.
    induction fuel as [|f IH]; intros n acc H; cbn [dec_aux]; [exact H|].
    assert (D : forallb is_digit (digit_byte (n mod 10) :: acc) = true).
    { cbn [forallb]. rewrite H. destruct (digit_byte_is_digit (n mod 10)%N) as [-> _]; [apply N.mod_lt; lia|reflexivity]. }
    destruct (n <? 10)%N; [exact D|now apply IH].
  Qed.
  Lemma dec_digits n : forallb is_digit (dec n) = true.
  Proof. unfold dec. now apply dec_aux_digits. Qed.
  Lemma dec_aux_nonempty fuel n acc : dec_aux (S fuel) n acc <> [].
  Proof.
    revert n acc. induction fuel as [|f IH]; intros n acc; cbn [dec_aux].
    - destruct (n <? 10)%N; discriminate.
    - destruct (n <? 10)%N; [discriminate|]. apply IH.
  Qed.
  Lemma take_digits_all s : forallb is_digit s = true -> take_digits s = s.
  Proof. induction s as [|b s IH]; [reflexivity|]. cbn [forallb take_digits]. intros H. apply andb_true_iff in H as [H1 H2]. rewrite H1. now rewrite IH. Qed.
  Lemma digit_not_space b : is_digit b = true -> is_space b = false.
  Proof. destruct b; try reflexivity; discriminate. Qed.
  Lemma atoi_dec n : atoi_pid (dec n) = Z.of_N n.
  Proof.
    unfold atoi_pid. pose proof (dec_digits n) as D.
    assert (S : skip_space (dec n) = dec n).
    { destruct (dec n) as [|b s] eqn:E; [reflexivity|]. cbn [forallb] in D. apply andb_true_iff in D as [D1 _]. cbn [skip_space]. now rewrite (digit_not_space b D1). }
    rewrite S, take_digits_all by assumption. now rewrite dec_value.
  Qed.

  (** a well-formed status file: Name first, then fields other than PPid, PPid, anything after *)
  Definition field_ok (kv : list byte * list byte) : Prop := keyok (fst kv) /\ clean (snd kv) /\ fst kv <> lit "PPid".
  Definition status_text (name : list byte) (mid : list (list byte * list byte)) (ppid : N) (tail : list (list byte)) : list byte :=
    render (sline (lit "Name") name :: map (fun kv => sline (fst kv) (snd kv)) mid ++ sline (lit "PPid") (dec ppid) :: tail).

  Lemma clean_sline k v : keyok k -> clean v -> clean (sline k v).
  Proof. intros [_ K] V. unfold clean, sline. rewrite in_app_iff. cbn [app In]. intros [I|[I|[I|I]]]; try discriminate; auto. Qed.
  Lemma dec_clean n : clean (dec n).
  Proof.
    unfold clean. intros I. pose proof (dec_digits n) as D. rewrite forallb_forall in D. specialize (D NL I). discriminate.
  Qed.

  Variable status_of : Z -> option (list byte).

  Lemma read_status p name mid ppid tail : clean name -> Forall field_ok mid -> Forall clean tail -> (ppid < 2 ^ 64)%N ->
    status_of p = Some (status_text name mid ppid tail) ->
    read_prop c status_of p (lit "Name") = Some (takeN (rp_val_max c) name) /\
    read_prop c status_of p (lit "PPid") = Some (dec ppid).
  Proof.
    intros Hn Hm Ht Hp E. destruct rp_facts as (_ & _ & _ & _ & _ & MX). unfold read_prop. rewrite E. unfold status_text.
    assert (KN : keyok (lit "Name")) by (split; intros I; cbn in I; intuition discriminate).
    assert (KP : keyok (lit "PPid")) by (split; intros I; cbn in I; intuition discriminate).
    rewrite status_lines_render.
    - split.
      + apply prop_lines_hit. apply KN.
      + rewrite prop_lines_skip; [|exact KN|discriminate]. clear E.
        induction Hm as [|[k v] mid (K & V & NE) _ IH]; cbn [map app fst snd].
        * rewrite prop_lines_hit by apply KP. f_equal. apply takeN_all. pose proof (dec_len64 ppid Hp). lia.
        * rewrite prop_lines_skip; [exact IH|exact K|exact NE].
    - constructor; [now apply clean_sline|]. apply Forall_app. split.
      + clear E. induction Hm as [|[k v] mid (K & V & NE) _ IH]; cbn [map]; constructor; [now apply clean_sline|exact IH].
      + constructor; [apply clean_sline; [exact KP|apply dec_clean]|exact Ht].
  Qed.

  (** an ancestor chain: node i has parent node i+1; the last node's parent is pid 1 or 0 *)
  Record node := { n_pid : Z; n_name : list byte; n_mid : list (list byte * list byte); n_tail : list (list byte) }.
  Definition node_ok (nd : node) (parent : N) : Prop :=
    clean (n_name nd) /\ Forall field_ok (n_mid nd) /\ Forall clean (n_tail nd) /\ (parent < 2 ^ 64)%N /\
    status_of (n_pid nd) = Some (status_text (n_name nd) (n_mid nd) parent (n_tail nd)).
  Fixpoint chain_ok (ch : list node) (top : N) : Prop :=
    match ch with
    | [] => False
    | [nd] => node_ok nd top /\ (top = 1 \/ top = 0)%N
    | nd :: ((nx :: _) as rest) => node_ok nd (Z.to_N (n_pid nx)) /\ 1 < n_pid nx /\ chain_ok rest top
    end%Z.

  Theorem rpname_root : forall ch top, chain_ok ch top -> forall fuel, (length ch <= fuel)%nat ->
    rpname_walk c status_of fuel (n_pid (hd {| n_pid := 0; n_name := []; n_mid := []; n_tail := [] |} ch)) =
    Some (takeN (rp_val_max c) (n_name (last ch {| n_pid := 0; n_name := []; n_mid := []; n_tail := [] |}))).
  Proof.
    destruct rp_facts as (KN & KP & _ & R1 & R0 & _).
    induction ch as [|nd rest IH]; intros top H fuel Hf; [contradiction|].
    destruct fuel as [|fuel]; [cbn in Hf; lia|]. cbn [hd rpname_walk]. rewrite KP, KN, R1, R0.
    destruct rest as [|nx rest].
    - destruct H as [(Hn & Hm & Ht & Hp & E) Htop]. destruct (read_status _ _ _ _ _ Hn Hm Ht Hp E) as [RN RP].
      rewrite RP, atoi_dec. cbn [last].
      destruct Htop as [->| ->]; cbn [Z.of_N Z.eqb orb Pos.eqb]; now rewrite RN.
    - destruct H as [(Hn & Hm & Ht & Hp & E) [Hgt Hrest]]. destruct (read_status _ _ _ _ _ Hn Hm Ht Hp E) as [RN RP].
      rewrite RP, atoi_dec. rewrite Z2N.id by lia.
      destruct (Z.eqb_spec (n_pid nx) (nz 1)); [cbn in *; lia|]. destruct (Z.eqb_spec (n_pid nx) (nz 0)); [cbn in *; lia|]. cbn [orb].
      specialize (IH top Hrest fuel). cbn [hd] in IH. rewrite IH by (cbn [length] in *; lia). destruct rest; reflexivity.
  Qed.
End RpnameProof.

(** * cgroup.c: which line is selected (controller-name patterns) *)
Lemma list_eqb_sym a b : list_eqb a b = list_eqb b a.
Proof.
  destruct (list_eqb a b) eqn:E.
  - apply list_eqb_eq in E. subst. symmetry. apply list_eqb_refl.
  - symmetry. apply list_eqb_neq. apply list_eqb_neq in E. congruence.
Qed.
Lemma no_comma_split ctl : existsb (beq COMMA) ctl = false -> split_on COMMA ctl = [ctl].
Proof.
  intros H. apply split_on_index_none. apply index_None. intros I.
  assert (existsb (beq COMMA) ctl = true) by (apply existsb_exists; exists COMMA; split; [exact I|apply beq_refl]). congruence.
Qed.

Definition ctl_pred (arg l : list byte) : bool :=
  match split_on COLONB l with
  | _ :: ctl :: _ :: _ => negb (Nat.eqb (length ctl) 0) && (list_eqb ctl arg || existsb (list_eqb arg) (split_on COMMA ctl))
  | _ => false
  end.

Lemma entry_has_controller_spec l arg : entry_has_controller l arg = ctl_pred arg l.
Proof.
  unfold entry_has_controller, ctl_pred.
  destruct (index COLONB l) as [k1|] eqn:E1; [|now rewrite (split_on_index_none _ _ E1)].
  rewrite (split_on_index_some _ _ _ E1). set (rest := skipn (S k1) l).
  destruct (index COLONB rest) as [k2|] eqn:E2; [|now rewrite (split_on_index_none _ _ E2)].
  rewrite (split_on_index_some _ _ _ E2). pose proof (split_on_nonnil COLONB (skipn (S k2) rest)) as NN.
  destruct (split_on COLONB (skipn (S k2) rest)) as [|x xs]; [congruence|].
  destruct (firstn k2 rest) as [|b ctl] eqn:EC; [reflexivity|]. cbn [length Nat.eqb negb andb].
  destruct (existsb (beq COMMA) (b :: ctl)) eqn:HC; [reflexivity|].
  rewrite (no_comma_split _ HC). cbn [existsb andb]. rewrite (list_eqb_sym arg). destruct (list_eqb (b :: ctl) arg); reflexivity.
Qed.

Lemma find_filter {A} (p q : A -> bool) l : (forall x, p x = true -> q x = true) -> find p (filter q l) = find p l.
Proof.
  intros H. induction l as [|x l IH]; [reflexivity|]. cbn [filter find]. destruct (q x) eqn:Q.
  - cbn [find]. now rewrite IH.
  - destruct (p x) eqn:P; [rewrite (H x P) in Q; discriminate|exact IH].
Qed.

Lemma find_ext' {A} (p q : A -> bool) l : (forall x, p x = q x) -> find p l = find q l.
Proof. intros H. induction l as [|x l IH]; [reflexivity|]. cbn [find]. now rewrite H, IH. Qed.

Theorem cgroup_select_by_name content arg : all_digits arg = false -> cgroup_select content arg = cgroup_spec content arg.
Proof.
  intros D. unfold cgroup_select, cgroup_spec. rewrite D. unfold tok_lines.
  rewrite find_filter.
  - apply find_ext'. intros l. apply entry_has_controller_spec.
  - intros l H. rewrite entry_has_controller_spec in H. destruct l; [discriminate|reflexivity].
Qed.

(** * cgroup.c: which line is selected (hierarchy-number patterns): the strstr loop of findLineStartingWith *)
Lemma split_at_index c s : forall k, index c s = Some k -> s = firstn k s ++ c :: skipn (S k) s.
Proof.
  induction s as [|b s IH]; intros k; [discriminate|]. cbn [index]. destruct (beq b c) eqn:E.
  - intros H. injection H as <-. apply beq_eq in E. now subst.
  - destruct (index c s) as [j|]; [|discriminate]. cbn [option_map]. intros H. injection H as <-. cbn [firstn skipn app]. f_equal. now apply IH.
Qed.

Section FindLine.
  Variable needle : list byte.
  Hypothesis needle_nonempty : needle <> [].
  Hypothesis needle_clean : ~ In NL needle.

  Definition occ (content : list byte) (q : nat) : Prop := prefixb needle (skipn q content) = true.
  Definition lstart (content : list byte) (q : nat) : bool := (q =? 0)%nat || beq (nth (q - 1) content x00) NL.

  Lemma occ_nth content p i : occ content p -> (i < length needle)%nat -> nth (p + i) content x00 = nth i needle x00.
  Proof.
    unfold occ. intros H Hi. apply prefixb_app in H as [r E]. rewrite <- nth_skipn, E. now apply app_nth1.
  Qed.
  Lemma occ_beyond content q : (length content < q)%nat -> ~ occ content q.
  Proof.
    unfold occ. intros H. rewrite skipn_all2 by lia. destruct needle; [congruence|]. simpl. discriminate.
  Qed.

  Lemma find_line_sound content : forall fuel off p, find_line fuel content off needle = Some p ->
    (off <= p)%nat /\ occ content p /\ lstart content p = true /\ forall q, (off <= q < p)%nat -> ~ (occ content q /\ lstart content q = true).
  Proof.
    induction fuel as [|fuel IH]; intros off p; cbn [find_line]; [discriminate|].
    destruct (strstr (skipn off content) needle) as [k|] eqn:HS; [|discriminate].
    destruct (strstr_Some _ _ _ HS) as [Hocc Hmin]. rewrite skipn_skipn in Hocc.
    fold (lstart content (off + k)). destruct (lstart content (off + k)) eqn:L.
    - intros H. injection H as <-. split; [lia|]. split; [unfold occ; now rewrite Nat.add_comm|]. split; [exact L|].
      intros q Hq [O _]. unfold occ in O. specialize (Hmin (q - off)%nat). rewrite skipn_skipn in Hmin.
      replace (q - off + off)%nat with q in Hmin by lia. rewrite Hmin in O by lia. discriminate.
    - intros H. destruct (IH _ _ H) as (Hle & Ho & Hl & Hm). split; [lia|]. split; [exact Ho|]. split; [exact Hl|].
      intros q Hq [O Lq].
      assert (Op : occ content (off + k)) by (unfold occ; now rewrite Nat.add_comm).
      destruct (Nat.lt_ge_cases q (off + k)) as [C1|C1].
      + unfold occ in O. specialize (Hmin (q - off)%nat). rewrite skipn_skipn in Hmin.
        replace (q - off + off)%nat with q in Hmin by lia. rewrite Hmin in O by lia. discriminate.
      + destruct (Nat.eq_dec q (off + k)) as [->|NE]; [congruence|].
        destruct (Nat.lt_ge_cases q (off + k + length needle)) as [C2|C2]; [|apply (Hm q); [lia|now split]].
        (* a line start strictly inside the occurrence at off+k: the needle would contain a newline *)
        unfold lstart in Lq. apply orb_true_iff in Lq as [Z|N]; [apply Nat.eqb_eq in Z; lia|]. apply beq_eq in N.
        replace (q - 1)%nat with ((off + k) + (q - 1 - (off + k)))%nat in N by lia. rewrite (occ_nth content _ _ Op) in N by lia.
        apply needle_clean. rewrite <- N. apply nth_In. lia.
  Qed.

  Lemma find_line_complete content : forall fuel off, (length content < fuel + off)%nat ->
    find_line fuel content off needle = None -> forall q, (off <= q)%nat -> ~ (occ content q /\ lstart content q = true).
  Proof.
    induction fuel as [|fuel IH]; intros off Hf; cbn [find_line].
    - intros _ q Hq [O _]. apply (occ_beyond content q); [lia|exact O].
    - destruct (strstr (skipn off content) needle) as [k|] eqn:HS.
      + fold (lstart content (off + k)). destruct (lstart content (off + k)) eqn:L; [discriminate|].
        intros H q Hq [O Lq]. pose proof (strstr_bound _ _ _ HS) as B. rewrite skipn_length in B.
        destruct (strstr_Some _ _ _ HS) as [Hocc Hmin]. rewrite skipn_skipn in Hocc.
        assert (Op : occ content (off + k)) by (unfold occ; now rewrite Nat.add_comm).
        destruct (Nat.lt_ge_cases q (off + k)) as [C1|C1].
        * unfold occ in O. specialize (Hmin (q - off)%nat). rewrite skipn_skipn in Hmin.
          replace (q - off + off)%nat with q in Hmin by lia. rewrite Hmin in O by lia. discriminate.
        * destruct (Nat.eq_dec q (off + k)) as [->|NE]; [congruence|].
          destruct (Nat.lt_ge_cases q (off + k + length needle)) as [C2|C2].
          -- unfold lstart in Lq. apply orb_true_iff in Lq as [Z|N]; [apply Nat.eqb_eq in Z; lia|]. apply beq_eq in N.
             replace (q - 1)%nat with ((off + k) + (q - 1 - (off + k)))%nat in N by lia. rewrite (occ_nth content _ _ Op) in N by lia.
             apply needle_clean. rewrite <- N. apply nth_In. lia.
          -- assert (NZ : (0 < length needle)%nat) by (destruct needle; [congruence|simpl; lia]).
             refine (IH (off + k + length needle)%nat _ H q C2 _); [lia|now split].
      + intros _ q Hq [O _]. unfold occ in O. pose proof (strstr_None _ _ HS (q - off)%nat) as N. rewrite skipn_skipn in N.
        replace (q - off + off)%nat with q in N by lia. congruence.
  Qed.

  (** the least line-start occurrence, read as a line of the text *)
  Lemma prefix_line l rest : ~ In NL l -> prefixb needle (l ++ NL :: rest) = prefixb needle l.
  Proof.
    intros Hl. destruct (prefixb needle l) eqn:P.
    - apply prefixb_app in P as [r ->]. rewrite <- app_assoc. apply prefixb_refl_app.
    - destruct (prefixb needle (l ++ NL :: rest)) eqn:Q; [|reflexivity]. exfalso.
      apply prefixb_app in Q as [r E].
      (* needle is a prefix of l ++ NL :: rest and has no newline: it is a prefix of l *)
      assert (LE : (length needle <= length l)%nat).
      { destruct (Nat.le_gt_cases (length needle) (length l)) as [?|G]; [assumption|]. exfalso. apply needle_clean.
        assert (N : nth (length l) (needle ++ r) x00 = NL) by (rewrite <- E, app_nth2, Nat.sub_diag by lia; reflexivity).
        rewrite app_nth1 in N by lia. rewrite <- N. apply nth_In. lia. }
      assert (F : firstn (length needle) l = needle).
      { assert (firstn (length needle) (l ++ NL :: rest) = firstn (length needle) (needle ++ r)) by now rewrite E.
        rewrite firstn_app in H. replace (length needle - length l)%nat with 0%nat in H by lia. cbn [firstn] in H. rewrite app_nil_r in H.
        rewrite H. apply firstn_app_exact. }
      assert (prefixb needle l = true) by (apply prefixb_app; exists (skipn (length needle) l); rewrite <- F at 1; symmetry; apply firstn_skipn).
      congruence.
  Qed.

  Definition Least (content : list byte) (p : nat) : Prop :=
    occ content p /\ lstart content p = true /\ forall q, (q < p)%nat -> ~ (occ content q /\ lstart content q = true).
  Definition NoLine (content : list byte) : Prop := forall q, ~ (occ content q /\ lstart content q = true).

  Lemma lines_spec : forall n content, (length content <= n)%nat ->
    (forall p, Least content p -> find (prefixb needle) (split_on NL content) = Some (line_at (skipn p content))) /\
    (NoLine content -> find (prefixb needle) (split_on NL content) = None).
  Proof.
    induction n as [|n IH]; intros content Hn.
    - destruct content; [|cbn in Hn; lia]. cbn [split_on find]. split.
      + intros p (O & _ & _). unfold occ in O. rewrite skipn_nil in O. destruct needle; [congruence|simpl in O; discriminate].
      + intros N. destruct (prefixb needle []) eqn:P; [|reflexivity]. exfalso. apply (N 0%nat). split; [exact P|reflexivity].
    - destruct (index NL content) as [k|] eqn:EI.
      + (* first line l, then the rest *)
        destruct (index_Some _ _ _ EI) as (Hnth & Hk & Hclean). unfold NUL in Hnth.
        set (l := firstn k content). set (rest := skipn (S k) content).
        assert (EC : content = l ++ NL :: rest).
        { unfold l, rest. now apply split_at_index. }
        assert (Ll : length l = k) by (unfold l; rewrite firstn_length; lia).
        assert (Lr : (length rest <= n)%nat) by (unfold rest; rewrite skipn_length; lia).
        rewrite (split_on_index_some _ _ _ EI). fold l rest. cbn [find].
        assert (P0 : prefixb needle (skipn 0 content) = prefixb needle l) by (cbn [skipn]; rewrite EC at 1; now apply prefix_line).
        (* offsets after the first line are offsets of the rest *)
        assert (SH : forall q, skipn (S k + q) content = skipn q rest) by (intros q; unfold rest; now rewrite skipn_skipn, Nat.add_comm).
        assert (LS : forall q, lstart content (S k + q) = lstart rest q).
        { intros q. unfold lstart. destruct q as [|q].
          - replace (S k + 0 - 1)%nat with k by lia. rewrite Hnth, beq_refl.
            replace (S k + 0 =? 0)%nat with false by (symmetry; apply Nat.eqb_neq; lia). reflexivity.
          - replace (S k + S q - 1)%nat with (S k + q)%nat by lia. replace (S q - 1)%nat with q by lia.
            replace (S k + S q =? 0)%nat with false by (symmetry; apply Nat.eqb_neq; lia).
            replace (S q =? 0)%nat with false by reflexivity. cbn [orb]. unfold rest. now rewrite nth_skipn. }
        assert (MID : forall q, (0 < q <= k)%nat -> lstart content q = false).
        { intros q Hq. unfold lstart. replace (q =? 0)%nat with false by (symmetry; apply Nat.eqb_neq; lia). cbn [orb].
          apply beq_neq. intros N. apply Hclean. rewrite <- N. rewrite <- (nth_firstn_lt k) by lia. apply nth_In. rewrite firstn_length. lia. }
        destruct (prefixb needle l) eqn:PL.
        * split.
          -- intros p (O & L & M). destruct p as [|p]; [cbn [skipn]; unfold line_at; now rewrite EI|].
             exfalso. apply (M 0%nat); [lia|]. split; [unfold occ; now rewrite P0|reflexivity].
          -- intros N. exfalso. apply (N 0%nat). split; [unfold occ; now rewrite P0|reflexivity].
        * destruct (IH rest Lr) as [IH1 IH2]. split.
          -- intros p (O & L & M).
             assert (Hp : (S k <= p)%nat).
             { destruct (Nat.le_gt_cases (S k) p) as [?|G]; [assumption|]. exfalso. destruct p as [|p]; [unfold occ in O; rewrite P0 in O; congruence|].
               rewrite MID in L by lia. discriminate. }
             replace p with (S k + (p - S k))%nat by lia. rewrite SH. apply IH1. split; [|split].
             ++ unfold occ. rewrite <- SH. now replace (S k + (p - S k))%nat with p by lia.
             ++ rewrite <- LS. now replace (S k + (p - S k))%nat with p by lia.
             ++ intros q Hq [O' L']. apply (M (S k + q)%nat); [lia|]. split; [unfold occ; now rewrite SH|now rewrite LS].
          -- intros N. apply IH2. intros q [O' L']. apply (N (S k + q)%nat). split; [unfold occ; now rewrite SH|now rewrite LS].
      + (* a single line *)
        rewrite (split_on_index_none _ _ EI). cbn [find].
        assert (NONL : ~ In NL content) by (now apply index_None).
        assert (ONLY0 : forall q, lstart content q = true -> q = 0%nat).
        { intros q L. unfold lstart in L. apply orb_true_iff in L as [Z|N]; [now apply Nat.eqb_eq in Z|]. apply beq_eq in N.
          destruct (Nat.lt_ge_cases (q - 1) (length content)) as [C|C]; [exfalso; apply NONL; rewrite <- N; now apply nth_In|].
          rewrite nth_overflow in N by lia. discriminate. }
        split.
        * intros p (O & L & _). rewrite (ONLY0 p L) in *. unfold occ in O. cbn [skipn] in *. rewrite O. unfold line_at. now rewrite EI.
        * intros N. destruct (prefixb needle content) eqn:P; [|reflexivity]. exfalso. apply (N 0%nat). split; [exact P|reflexivity].
  Qed.

  Theorem find_line_lines content :
    match find_line (S (length content)) content 0 needle with
    | Some p => Some (line_at (skipn p content))
    | None => None
    end = find (prefixb needle) (split_on NL content).
  Proof.
    destruct (lines_spec (length content) content (le_n _)) as [A B].
    destruct (find_line (S (length content)) content 0 needle) as [p|] eqn:F.
    - symmetry. apply A. destruct (find_line_sound content _ _ _ F) as (_ & O & L & M). repeat split; try assumption. intros q Hq. apply M. lia.
    - symmetry. apply B. intros q. refine (find_line_complete content (S (length content)) 0 _ F q _); lia.
  Qed.
End FindLine.

Theorem cgroup_select_by_number content arg : all_digits arg = true -> cgroup_select content arg = cgroup_spec content arg.
Proof.
  intros D. unfold cgroup_select, cgroup_spec. rewrite D. apply find_line_lines.
  - destruct arg; discriminate.
  - rewrite in_app_iff. intros [I|[I|[]]]; [|discriminate]. unfold all_digits in D. rewrite forallb_forall in D. specialize (D NL I). discriminate.
Qed.

(** the selected entry is the documented one, for every text of /proc/<pid>/cgroup and every pattern *)
Theorem cgroup_select_spec content arg : cgroup_select content arg = cgroup_spec content arg.
Proof. destruct (all_digits arg) eqn:D; [now apply cgroup_select_by_number|now apply cgroup_select_by_name]. Qed.

(** for a generated description that passes the check *)
Theorem rpname_general g : ds_consts_ok g = true -> forall status_of ch top, chain_ok status_of ch top -> forall fuel, (length ch <= fuel)%nat ->
  rpname_walk (g_consts g) status_of fuel (n_pid (hd {| n_pid := 0; n_name := []; n_mid := []; n_tail := [] |} ch)) =
  Some (takeN (rp_val_max (g_consts g)) (n_name (last ch {| n_pid := 0; n_name := []; n_mid := []; n_tail := [] |}))).
Proof. intros OK. destruct (ok_parts g OK) as (_ & _ & _ & RP & _). exact (rpname_root (g_consts g) RP). Qed.
