From Coq Require Import String ZArith NArith List Bool Lia ZifyBool ZifyN ZifyNat.
From Snoopy Require Import Lib.CStr Datasource.Cmdline DsTruth.Model.
Import ListNotations.
Local Open Scope Z_scope.

Section sx_ind'.
  Variable P : sx -> Prop.
  Hypothesis HCall : forall f l, Forall P l -> P (ECall f l).
  Hypothesis HOut : forall f l i, Forall P l -> P (EOut f l i).
  Hypothesis HErrno : forall f l, Forall P l -> P (EErrno f l).
  Hypothesis HInt : forall z, P (EInt z).
  Hypothesis HStr : forall s, P (EStr s).
  Hypothesis HArg : P EArg.  Hypothesis HSize : P ESize.  Hypothesis HBuf0 : P EBuf0.
  Hypothesis HCast : forall s b e, P e -> P (ECast s b e).
  Hypothesis HOp : forall o l, Forall P l -> P (EOp o l).
  Hypothesis HFmt : forall c f l, P c -> Forall P l -> P (EFmt c f l).
  Hypothesis HRet : forall c f l, P c -> Forall P l -> P (ERet c f l).
  Hypothesis HField : forall e n, P e -> P (EField e n).
  Hypothesis HIds : forall n, P (EIds n).
  Hypothesis HUnknown : forall w, P (EUnknown w).
  Fixpoint sx_ind' (e : sx) : P e :=
    let fix go (l : list sx) : Forall P l := match l with [] => Forall_nil P | x :: r => Forall_cons x (sx_ind' x) (go r) end in
    match e with
    | ECall f l => HCall f l (go l) | EOut f l i => HOut f l i (go l) | EErrno f l => HErrno f l (go l)
    | EInt z => HInt z | EStr s => HStr s | EArg => HArg | ESize => HSize | EBuf0 => HBuf0
    | ECast s b e' => HCast s b e' (sx_ind' e') | EOp o l => HOp o l (go l)
    | EFmt c f l => HFmt c f l (sx_ind' c) (go l) | ERet c f l => HRet c f l (sx_ind' c) (go l)
    | EField e' n => HField e' n (sx_ind' e') | EIds n => HIds n | EUnknown w => HUnknown w
    end.
End sx_ind'.

Lemma fn_eqb_eq a b : fn_eqb a b = true -> a = b.
Proof. destruct a, b; simpl; try discriminate; try reflexivity. intros H. apply String.eqb_eq in H. now subst. Qed.

Lemma sx_eqb_call f l g m : sx_eqb (ECall f l) (ECall g m) = fn_eqb f g && sxl_eqb l m.  Proof. reflexivity. Qed.
Lemma sx_eqb_out f l i g m j : sx_eqb (EOut f l i) (EOut g m j) = fn_eqb f g && sxl_eqb l m && Nat.eqb i j.  Proof. reflexivity. Qed.
Lemma sx_eqb_errno f l g m : sx_eqb (EErrno f l) (EErrno g m) = fn_eqb f g && sxl_eqb l m.  Proof. reflexivity. Qed.
Lemma sx_eqb_op f l g m : sx_eqb (EOp f l) (EOp g m) = String.eqb f g && sxl_eqb l m.  Proof. reflexivity. Qed.
Lemma sx_eqb_fmt c f l d g m : sx_eqb (EFmt c f l) (EFmt d g m) = sx_eqb c d && list_eqb f g && sxl_eqb l m.  Proof. reflexivity. Qed.
Lemma sx_eqb_ret c f l d g m : sx_eqb (ERet c f l) (ERet d g m) = sx_eqb c d && list_eqb f g && sxl_eqb l m.  Proof. reflexivity. Qed.

Lemma sxl_eqb_eq l : Forall (fun a => forall b, sx_eqb a b = true -> a = b) l -> forall m, sxl_eqb l m = true -> l = m.
Proof.
  induction 1 as [|x l Hx Hl IH]; intros [|y m]; simpl; try discriminate; [reflexivity|].
  intros H. apply andb_true_iff in H as [H1 H2]. f_equal; [now apply Hx | now apply IH].
Qed.

Lemma sx_eqb_eq a : forall y, sx_eqb a y = true -> a = y.
Proof.
  induction a using sx_ind'; intros y; destruct y; try (simpl; discriminate).
  - rewrite sx_eqb_call. intros E. apply andb_true_iff in E as [E1 E2]. apply fn_eqb_eq in E1. apply (sxl_eqb_eq _ H) in E2. now subst.
  - rewrite sx_eqb_out. intros E. apply andb_true_iff in E as [E E3]. apply andb_true_iff in E as [E1 E2].
    apply fn_eqb_eq in E1. apply (sxl_eqb_eq _ H) in E2. apply Nat.eqb_eq in E3. now subst.
  - rewrite sx_eqb_errno. intros E. apply andb_true_iff in E as [E1 E2]. apply fn_eqb_eq in E1. apply (sxl_eqb_eq _ H) in E2. now subst.
  - simpl. intros E. apply Z.eqb_eq in E. now subst.
  - simpl. intros E. apply list_eqb_eq in E. now subst.
  - reflexivity.
  - reflexivity.
  - reflexivity.
  - simpl. intros E. apply andb_true_iff in E as [E E3]. apply andb_true_iff in E as [E1 E2].
    apply Bool.eqb_prop in E1. apply N.eqb_eq in E2. apply IHa in E3. now subst.
  - rewrite sx_eqb_op. intros E. apply andb_true_iff in E as [E1 E2]. apply String.eqb_eq in E1. apply (sxl_eqb_eq _ H) in E2. now subst.
  - rewrite sx_eqb_fmt. intros E. apply andb_true_iff in E as [E E3]. apply andb_true_iff in E as [E1 E2].
    apply IHa in E1. apply list_eqb_eq in E2. apply (sxl_eqb_eq _ H) in E3. now subst.
  - rewrite sx_eqb_ret. intros E. apply andb_true_iff in E as [E E3]. apply andb_true_iff in E as [E1 E2].
    apply IHa in E1. apply list_eqb_eq in E2. apply (sxl_eqb_eq _ H) in E3. now subst.
  - simpl. intros E. apply andb_true_iff in E as [E1 E2]. apply IHa in E1. apply String.eqb_eq in E2. now subst.
  - simpl. intros E. apply String.eqb_eq in E. now subst.
Qed.
Lemma sxl_eqb_eq' l m : sxl_eqb l m = true -> l = m.
Proof. apply sxl_eqb_eq. apply Forall_forall. intros a _. apply sx_eqb_eq. Qed.
Lemma tree_eqb_eq a : forall b, tree_eqb a b = true -> a = b.
Proof.
  induction a; intros b; destruct b; simpl; try discriminate.
  - intros E. apply andb_true_iff in E as [E1 E2]. apply list_eqb_eq in E1. apply sxl_eqb_eq' in E2. now subst.
  - intros E. apply andb_true_iff in E as [E1 E2]. apply sx_eqb_eq in E1. apply sx_eqb_eq in E2. now subst.
  - intros E. apply andb_true_iff in E as [E E3]. apply andb_true_iff in E as [E1 E2].
    apply sx_eqb_eq in E1. apply IHa1 in E2. apply IHa2 in E3. now subst.
Qed.


(** * arithmetic of the renderings *)
Lemma zn_nz n : zn (nz n) = n.  Proof. destruct n; reflexivity. Qed.
Lemma nz_zn z : 0 <= z -> nz (zn z) = z.  Proof. destruct z; simpl; lia. Qed.
Lemma zlen_nonneg s : 0 <= zlen s.  Proof. unfold zlen. rewrite nz_eq. lia. Qed.
Lemma zlen_len s : zlen s = Z.of_N (len s).  Proof. unfold zlen. apply nz_eq. Qed.

Lemma wrap_u32 z : is_id z -> wrap false 32 z = z.
Proof. unfold is_id, two32, wrap. intros H. cbn [andb]. change (2 ^ nz 32) with 4294967296. now rewrite Z.mod_small. Qed.
Lemma wrap_u32_pid z : 0 <= z < two31 -> wrap false 32 z = z.
Proof. intros H. apply wrap_u32. unfold is_id, two32, two31 in *. lia. Qed.
Lemma wrap_u64 z : 0 <= z < two64 -> wrap false 64 z = z.
Proof. unfold two64, wrap. intros H. cbn [andb]. change (2 ^ nz 64) with 18446744073709551616. now rewrite Z.mod_small. Qed.
Lemma wrap_s32 z : - two31 <= z < two31 -> wrap true 32 z = z.
Proof.
  unfold two31, wrap. intros H. change (2 ^ nz 32) with 4294967296. change (4294967296 / 2) with 2147483648. cbn [andb].
  destruct (Z_lt_le_dec z 0).
  - assert (E : z mod 4294967296 = z + 4294967296) by (symmetry; apply (Z.mod_unique_pos _ _ (-1)); lia).
    rewrite E. destruct (Z.leb_spec 2147483648 (z + 4294967296)); lia.
  - rewrite Z.mod_small by lia. destruct (Z.leb_spec 2147483648 z); lia.
Qed.
Lemma wrap_s64 z : - two63 <= z < two63 -> wrap true 64 z = z.
Proof.
  unfold two63, wrap. intros H. change (2 ^ nz 64) with 18446744073709551616. change (18446744073709551616 / 2) with 9223372036854775808. cbn [andb].
  destruct (Z_lt_le_dec z 0).
  - assert (E : z mod 18446744073709551616 = z + 18446744073709551616) by (symmetry; apply (Z.mod_unique_pos _ _ (-1)); lia).
    rewrite E. destruct (Z.leb_spec 9223372036854775808 (z + 18446744073709551616)); lia.
  - rewrite Z.mod_small by lia. destruct (Z.leb_spec 9223372036854775808 z); lia.
Qed.
Lemma render0 z : 0 <= z -> render_int 0 z = decz z.
Proof.
  intros H. unfold render_int. destruct (Z.ltb_spec z 0); [lia|]. rewrite Z.abs_eq by lia. simpl.
  replace (0 - 0 - len (decz z))%N with 0%N by lia. reflexivity.
Qed.
Lemma cdiv_nonneg x y : 0 <= x -> 0 < y -> cdiv x y = x / y.
Proof.
  intros Hx Hy. unfold cdiv. rewrite (Z.abs_eq x), (Z.abs_eq y) by lia. rewrite (Z.sgn_pos y) by lia.
  destruct (Z.eq_dec x 0) as [->|N]; [reflexivity|]. rewrite Z.sgn_pos by lia. lia.
Qed.

(** * the normaliser of decision trees preserves their meaning *)
Lemma ne_eq_flip st arg sz a b :
  match ev st arg sz (EOp "!=" [a; b]), ev st arg sz (EOp "==" [a; b]) with
  | VI x, VI y => (x =? 0) = negb (y =? 0)
  | VI _, _ | _, VI _ => False
  | _, _ => True
  end.
Proof.
  cbn [ev map]. destruct (ev st arg sz a) as [x|s| |n|se us|u|tm|]; destruct (ev st arg sz b) as [y|s'| |n'|se' us'|u'|tm'|]; cbn; auto;
    try (destruct (x =? y); reflexivity); try (destruct (y =? 0); cbn; auto).
Qed.
Lemma eval_norm st arg sz t : eval_tree st arg sz (norm_tree t) = eval_tree st arg sz t.
Proof.
  induction t as [f l|r b|c t1 IH1 t2 IH2|w]; try reflexivity.
  assert (D : eval_tree st arg sz (TIf c (norm_tree t1) (norm_tree t2)) = eval_tree st arg sz (TIf c t1 t2)) by (cbn [eval_tree]; now rewrite IH1, IH2).
  destruct c as [ | | | | | | | | |op args| | | | | ]; try exact D. destruct args as [|a [|b [|x l]]]; try exact D.
  cbn [norm_tree]. destruct (String.eqb_spec op "!=") as [->|NE]; [|exact D].
  pose proof (ne_eq_flip st arg sz a b) as F. cbn [eval_tree]. rewrite IH1, IH2.
  destruct (ev st arg sz (EOp "!=" [a; b])) as [x| | | | | | |]; destruct (ev st arg sz (EOp "==" [a; b])) as [y| | | | | | |]; try contradiction; try reflexivity.
  rewrite F. destruct (y =? 0); reflexivity.
Qed.
Lemma same_tree_eval st arg sz a b : same_tree a b = true -> eval_tree st arg sz a = eval_tree st arg sz b.
Proof. unfold same_tree. intros H. apply tree_eqb_eq in H. rewrite <- (eval_norm st arg sz a), <- (eval_norm st arg sz b). now rewrite H. Qed.

(** * the translated trees of the table class mean what the documentation says *)
Ltac crunch := cbn -[decz render_int wrap takeZ takeN Z.add Z.sub nz zn zlen print_out cdiv fits name_of_uid t_strftime].

Section Table.
  Variable c : ds_consts.
  Variable st : pstate.
  Variable arg : list byte.
  Variable sz : N.
  Hypothesis WF : wf_pstate st.


  Ltac fin := rewrite ?app_nil_r; try reflexivity.

  Lemma doc_uid t : expected c "uid" = Some t -> eval_tree st arg sz t = documented c st arg sz "uid".
  Proof. intros E. cbn in E. injection E as <-. crunch. rewrite app_nil_r, wrap_u32, render0 by (apply WF). reflexivity. Qed.
  Lemma doc_euid t : expected c "euid" = Some t -> eval_tree st arg sz t = documented c st arg sz "euid".
  Proof. intros E. cbn in E. injection E as <-. crunch. rewrite app_nil_r, wrap_u32, render0 by (apply WF). reflexivity. Qed.
  Lemma doc_gid t : expected c "gid" = Some t -> eval_tree st arg sz t = documented c st arg sz "gid".
  Proof. intros E. cbn in E. injection E as <-. crunch. rewrite app_nil_r, wrap_u32, render0 by (apply WF). reflexivity. Qed.
  Lemma doc_egid t : expected c "egid" = Some t -> eval_tree st arg sz t = documented c st arg sz "egid".
  Proof. intros E. cbn in E. injection E as <-. crunch. rewrite app_nil_r, wrap_u32, render0 by (apply WF). reflexivity. Qed.
  Lemma doc_pid t : expected c "pid" = Some t -> eval_tree st arg sz t = documented c st arg sz "pid".
  Proof. intros E. cbn in E. injection E as <-. crunch. pose proof (wf_pid st WF). rewrite app_nil_r, wrap_u32_pid, render0 by lia. reflexivity. Qed.
  Lemma doc_ppid t : expected c "ppid" = Some t -> eval_tree st arg sz t = documented c st arg sz "ppid".
  Proof. intros E. cbn in E. injection E as <-. crunch. pose proof (wf_ppid st WF) as H. unfold is_pid in H. rewrite app_nil_r, wrap_u32_pid, render0 by lia. reflexivity. Qed.
  Lemma doc_sid t : expected c "sid" = Some t -> eval_tree st arg sz t = documented c st arg sz "sid".
  Proof. intros E. cbn in E. injection E as <-. crunch. pose proof (wf_sid st WF) as H. unfold is_pid in H. rewrite app_nil_r, wrap_u32_pid, render0 by lia. reflexivity. Qed.
  Lemma doc_tid t : expected c "tid" = Some t -> eval_tree st arg sz t = documented c st arg sz "tid".
  Proof.
    intros E. cbn in E. injection E as <-. crunch. pose proof (wf_pthread st WF) as H.
    destruct (Z.eqb_spec (pthread_id st) 0); [lia|]. crunch. rewrite app_nil_r, wrap_u64, render0 by lia. reflexivity.
  Qed.
  Lemma doc_tid_kernel t : expected c "tid_kernel" = Some t -> eval_tree st arg sz t = documented c st arg sz "tid_kernel".
  Proof.
    intros E. cbn in E. injection E as <-. crunch. pose proof (wf_ktid st WF) as H. unfold two31 in H.
    rewrite !wrap_u64 by (unfold two64; lia). destruct (Z.eqb_spec (ktid st) 0); [lia|]. crunch. rewrite app_nil_r, render0 by lia. reflexivity.
  Qed.

  Hypothesis CONSTS : misc_consts_ok c = true.
  Lemma lnm_gt1 : (1 < login_name_max c)%N.
  Proof. unfold misc_consts_ok in CONSTS. repeat (apply andb_true_iff in CONSTS as [CONSTS ?]). now apply N.ltb_lt. Qed.

  Lemma takeZ_takeZ a b w : 0 <= a <= b -> takeZ b (takeZ a w) = takeZ a w.
  Proof. intros H. unfold takeZ. apply takeN_all. rewrite len_takeN. rewrite (zn_eq a), (zn_eq b). lia. Qed.

  Lemma zn_nz_pred n : zn (nz n - 1) = (n - 1)%N.
  Proof. rewrite zn_eq, nz_eq. lia. Qed.

  (** snoopy_util_pwd_convertUidToUsername + snprintf "%s" *)
  Lemma username_tree u uz : ev st arg sz u = VI uz -> is_id uz ->
    eval_tree st arg sz (t_username c u) = say sz (name_of_uid c st uz).
  Proof.
    intros Hu Hid. pose proof lnm_gt1 as L. unfold t_username. crunch. rewrite Hu. crunch. unfold name_of_uid.
    destruct (passwd st uz) as [n|] eqn:E; crunch.
    - destruct (Z.ltb_spec 0 (nz (login_name_max c))) as [H|H]; [|rewrite nz_eq in H; lia]. crunch.
      destruct (Z.leb_spec 0 (nz (login_name_max c))) as [H2|H2]; [|lia]. crunch. rewrite !app_nil_r.
      rewrite takeZ_takeZ by lia. unfold takeZ. rewrite zn_nz_pred. reflexivity.
    - destruct (Z.ltb_spec 0 (nz (login_name_max c))) as [H|H]; [|rewrite nz_eq in H; lia]. crunch.
      destruct (Z.leb_spec 0 (nz (login_name_max c))) as [H2|H2]; [|lia]. crunch. rewrite !app_nil_r.
      rewrite takeZ_takeZ by lia. rewrite wrap_u32, render0 by (auto; apply Hid). unfold takeZ. rewrite zn_nz_pred. reflexivity.
  Qed.

  Lemma doc_username t : expected c "username" = Some t -> eval_tree st arg sz t = documented c st arg sz "username".
  Proof. intros E. cbn in E. injection E as <-. apply username_tree; [reflexivity | apply WF]. Qed.

  Lemma doc_eusername t : expected c "eusername" = Some t -> eval_tree st arg sz t = documented c st arg sz "eusername".
  Proof.
    intros E. cbn in E. injection E as <-. crunch. unfold name_or_undefined.
    destruct (passwd st (euid st)); crunch; now rewrite ?app_nil_r.
  Qed.
  Lemma group_tree g gz : ev st arg sz g = VI gz -> eval_tree st arg sz (t_group g) = say sz (name_or_undefined (groupdb st) gz).
  Proof. intros Hg. unfold t_group. crunch. rewrite Hg. crunch. unfold name_or_undefined. destruct (groupdb st gz); crunch; now rewrite ?app_nil_r. Qed.
  Lemma doc_group t : expected c "group" = Some t -> eval_tree st arg sz t = documented c st arg sz "group".
  Proof. intros E. cbn in E. injection E as <-. now apply group_tree. Qed.
  Lemma doc_egroup t : expected c "egroup" = Some t -> eval_tree st arg sz t = documented c st arg sz "egroup".
  Proof. intros E. cbn in E. injection E as <-. now apply group_tree. Qed.

  Lemma fits_spec w cap : fits w cap = (zlen w + 1 <=? cap).  Proof. reflexivity. Qed.

  Lemma doc_cwd t : expected c "cwd" = Some t -> eval_tree st arg sz t = documented c st arg sz "cwd".
  Proof.
    intros E. cbn in E. injection E as <-. crunch. destruct (cwd st) as [p|]; crunch; [|reflexivity].
    rewrite fits_spec. rewrite nz_eq.
    destruct (Z.leb_spec (zlen p + 1) (Z.of_N (path_max c) + 1)), (Z.leb_spec (zlen p) (Z.of_N (path_max c))); try lia; crunch; [|reflexivity].
    now rewrite app_nil_r.
  Qed.

  Lemma doc_hostname t : expected c "hostname" = Some t -> eval_tree st arg sz t = documented c st arg sz "hostname".
  Proof.
    intros E. cbn in E. injection E as <-. crunch. rewrite fits_spec. pose proof (wf_host st WF) as HH. rewrite <- zlen_len in HH.
    destruct (Z.leb_spec (zlen (hostname st) + 1) (nz sz)), (Z.ltb_spec (zlen (hostname st)) (nz sz)); try lia; crunch.
    - destruct (Z.leb_spec 0 (nz sz - 1)); [|lia]. crunch.
      assert (T : takeZ (nz sz - 1) (hostname st) = hostname st).
      { unfold takeZ. apply takeN_all. rewrite zn_eq. rewrite zlen_len in *. lia. }
      rewrite T. rewrite wrap_s32 by (unfold two31; lia). reflexivity.
    - reflexivity.
  Qed.

  Lemma doc_env t : expected c "env" = Some t -> eval_tree st arg sz t = documented c st arg sz "env".
  Proof. intros E. cbn in E. injection E as <-. crunch. destruct (getenv_model st arg); crunch; now rewrite ?app_nil_r. Qed.

  (** ttyname_r(0, ...) and its error mapping *)
  Lemma tty_tree (k : dtree) (kd : list byte -> option outcome) :
    (forall p, fd_tty st 0 = TtyName p -> zlen p < 4096 -> eval_tree st arg sz k = kd p) ->
    eval_tree st arg sz (TIf (ne0 q_tty) t_tty_err k) = tty_text st sz kd.
  Proof.
    intros Hk. unfold tty_text. crunch. pose proof (wf_tty st WF 0) as NZ.
    destruct (fd_tty st 0) as [p|e] eqn:E.
    - rewrite fits_spec. destruct (Z.leb_spec (zlen p + 1) 4096), (Z.ltb_spec (zlen p) 4096); try lia; crunch.
      + apply Hk; [reflexivity | assumption].
      + reflexivity.
    - crunch. destruct (Z.eqb_spec e 0) as [->|N0]; [congruence|]. crunch.
      destruct (Z.eqb_spec e EBADF); crunch; [reflexivity|].
      destruct (Z.eqb_spec e ERANGE); crunch; [reflexivity|].
      destruct (Z.eqb_spec e ENOTTY); crunch; reflexivity.
  Qed.
  Lemma ev_r_tty p : fd_tty st 0 = TtyName p -> zlen p < 4096 -> ev st arg sz r_tty = VS p.
  Proof. intros E H. crunch. rewrite E. rewrite fits_spec. destruct (Z.leb_spec (zlen p + 1) 4096); [reflexivity|lia]. Qed.

  Lemma doc_tty t : expected c "tty" = Some t -> eval_tree st arg sz t = documented c st arg sz "tty".
  Proof.
    intros E. cbn in E. injection E as <-. change (documented c st arg sz "tty") with (tty_text st sz (say sz)).
    apply tty_tree. intros p Ep Hp. unfold P. cbn [eval_tree map]. rewrite (ev_r_tty p Ep Hp). crunch. now rewrite app_nil_r.
  Qed.

  Lemma tty_owner_tree (k : dtree) (kd : Z -> option outcome) :
    (forall p u, fd_tty st 0 = TtyName p -> zlen p < 4096 -> file_owner st p = Some u -> eval_tree st arg sz k = kd u) ->
    eval_tree st arg sz (t_tty_owner k) = tty_owner_text st sz kd.
  Proof.
    intros Hk. unfold t_tty_owner, tty_owner_text. apply tty_tree. intros p Ep Hp.
    cbn [eval_tree]. unfold q_stat. cbn [ev map]. fold r_tty. rewrite (ev_r_tty p Ep Hp). crunch. fold r_tty.
    destruct (file_owner st p) as [u|] eqn:Eo; crunch.
    - now apply (Hk p u).
    - rewrite Ep. assert (F : fits p 4096 = true) by (rewrite fits_spec; destruct (Z.leb_spec (zlen p + 1) 4096); [reflexivity|lia]).
      crunch. rewrite F. crunch. reflexivity.
  Qed.
  Lemma ev_stat_uid p u : fd_tty st 0 = TtyName p -> zlen p < 4096 -> file_owner st p = Some u -> ev st arg sz r_stat_uid = VI u.
  Proof. intros E H Eo. unfold r_stat_uid. cbn [ev map]. fold r_tty. rewrite (ev_r_tty p E H). crunch. now rewrite Eo. Qed.

  Lemma doc_tty_uid t : expected c "tty_uid" = Some t -> eval_tree st arg sz t = documented c st arg sz "tty_uid".
  Proof.
    intros E. cbn in E. injection E as <-. change (documented c st arg sz "tty_uid") with (tty_owner_text st sz (fun u => say sz (decz u))).
    apply tty_owner_tree. intros p u Ep Hp Eo. unfold P. cbn [eval_tree map]. rewrite (ev_stat_uid p u Ep Hp Eo). crunch.
    rewrite app_nil_r, wrap_u32, render0; try reflexivity; pose proof (wf_owner st WF p u Eo) as I; unfold is_id in I; [lia|exact I].
  Qed.
  Lemma doc_tty_username t : expected c "tty_username" = Some t -> eval_tree st arg sz t = documented c st arg sz "tty_username".
  Proof.
    intros E. cbn in E. injection E as <-. change (documented c st arg sz "tty_username") with (tty_owner_text st sz (fun u => say sz (name_of_uid c st u))).
    apply tty_owner_tree. intros p u Ep Hp Eo. apply username_tree; [now apply (ev_stat_uid p u) | exact (wf_owner st WF p u Eo)].
  Qed.

  (** getenv never returns something longer than its entry *)
  Lemma env_lookup_len name env v : env_lookup name env = Some v -> exists e, In e env /\ zlen v <= zlen e.
  Proof.
    induction env as [|e env IH]; simpl; [discriminate|].
    destruct (prefixb (name ++ [x3d]) e).
    - intros H. injection H as <-. exists e. split; [now left|]. rewrite !zlen_len. unfold len. rewrite skipn_length. lia.
    - intros H. destruct (IH H) as [e' [I L]]. exists e'. split; [now right|assumption].
  Qed.
  Lemma getenv_small name v : getenv_model st name = Some v -> zlen v < two31.
  Proof.
    unfold getenv_model. destruct name as [|b name]; [discriminate|]. destruct (environ st) as [env|] eqn:E; [|discriminate].
    intros H. destruct (env_lookup_len _ _ _ H) as [e [I L]]. pose proof (wf_env st WF env e E I) as B. rewrite <- zlen_len in B. lia.
  Qed.

  Lemma login_env_tree n v : getenv_model st (lit n) = Some v -> eval_tree st arg sz (t_login_env n) = say sz (takeN 254 v).
  Proof.
    intros E. pose proof (getenv_small _ _ E) as S. pose proof (zlen_nonneg v) as NN. unfold t_login_env, q_env. crunch. rewrite E. crunch.
    rewrite wrap_s32 by (unfold two31 in *; lia).
    destruct (Z.ltb_spec 254 (zlen v)); crunch; rewrite ?app_nil_r.
    - change (takeZ 254 (takeZ 254 v)) with (takeN 254 (takeN 254 v)). unfold say. rewrite (takeN_all 254 (takeN 254 v)) by (rewrite len_takeN; lia). reflexivity.
    - reflexivity.
  Qed.

  Lemma doc_login t : expected c "login" = Some t -> eval_tree st arg sz t = documented c st arg sz "login".
  Proof.
    intros E. cbn in E. injection E as <-. change (documented c st arg sz "login") with (say sz (login_text st)).
    assert (FB : eval_tree st arg sz
                  (TIf (eq0 (q_env (EStr (lit "SUDO_USER"))))
                    (TIf (eq0 (q_env (EStr (lit "LOGNAME")))) (P "%s" [EStr (lit "(unknown)")]) (t_login_env "LOGNAME"))
                    (t_login_env "SUDO_USER")) = say sz (login_fallback st)).
    { unfold login_fallback. cbn [eval_tree]. unfold eq0 at 1, q_env at 1. cbn [ev map ev_call].
      destruct (getenv_model st (lit "SUDO_USER")) as [v|] eqn:E1.
      - cbn [ev_op is_ptr Z.eqb String.eqb Ascii.eqb Bool.eqb vbool negb]. apply login_env_tree. exact E1.
      - cbn [ev_op is_ptr Z.eqb String.eqb Ascii.eqb Bool.eqb vbool negb eval_tree]. unfold eq0 at 1, q_env at 1. cbn [ev map ev_call].
        destruct (getenv_model st (lit "LOGNAME")) as [v|] eqn:E2.
        + cbn [ev_op is_ptr Z.eqb String.eqb Ascii.eqb Bool.eqb vbool negb]. apply login_env_tree. exact E2.
        + crunch. reflexivity. }
    cbn [eval_tree]. unfold ne0 at 1. cbn [ev map ev_call ev_op]. unfold login_text.
    destruct (login_name st) as [l|] eqn:EL.
    - rewrite fits_spec. destruct (Z.leb_spec (zlen l + 1) 255), (Z.ltb_spec (zlen l) 255); try lia.
      + crunch. rewrite EL. rewrite fits_spec. destruct (Z.leb_spec (zlen l + 1) 255); [|lia]. crunch. now rewrite app_nil_r.
      + cbn -[eval_tree]. exact FB.
    - cbn -[eval_tree]. exact FB.
  Qed.

  Lemma doc_timestamp_int : clock_sec st < two31 ->
    eval_tree st arg sz (t_time "%d" (ECast true 32 (r_tod "tv_sec"))) = documented c st arg sz "timestamp".
  Proof.
    intros B. pose proof (wf_sec st WF) as S. crunch. rewrite !(wrap_s32 (clock_sec st)) by (unfold two31 in *; lia).
    rewrite app_nil_r, render0 by lia. reflexivity.
  Qed.
  Lemma doc_timestamp_wide : eval_tree st arg sz t_timestamp_wide = documented c st arg sz "timestamp".
  Proof.
    pose proof (wf_sec st WF) as S. crunch. rewrite wrap_s64 by (unfold two63 in *; lia). rewrite app_nil_r, render0 by lia. reflexivity.
  Qed.
  Lemma doc_timestamp_ms t : expected c "timestamp_ms" = Some t -> eval_tree st arg sz t = documented c st arg sz "timestamp_ms".
  Proof.
    intros E. cbn in E. injection E as <-. pose proof (wf_usec st WF) as U. crunch.
    rewrite (wrap_s32 (clock_usec st)) by (unfold two31; lia). rewrite cdiv_nonneg by lia.
    assert (0 <= clock_usec st / 1000 < 1000) by (split; [apply Z.div_pos; lia | apply Z.div_lt_upper_bound; lia]).
    rewrite wrap_s32 by (unfold two31; lia). rewrite app_nil_r. reflexivity.
  Qed.
  Lemma doc_timestamp_us t : expected c "timestamp_us" = Some t -> eval_tree st arg sz t = documented c st arg sz "timestamp_us".
  Proof.
    intros E. cbn in E. injection E as <-. pose proof (wf_usec st WF) as U. crunch.
    rewrite !(wrap_s32 (clock_usec st)) by (unfold two31; lia). rewrite app_nil_r. reflexivity.
  Qed.
  Lemma doc_version t : expected c "snoopy_version" = Some t -> eval_tree st arg sz t = documented c st arg sz "snoopy_version".
  Proof. intros E. cbn in E. injection E as <-. crunch. now rewrite app_nil_r. Qed.
  Lemma doc_configure t : expected c "snoopy_configure_command" = Some t -> eval_tree st arg sz t = documented c st arg sz "snoopy_configure_command".
  Proof. intros E. cbn in E. injection E as <-. crunch. now rewrite app_nil_r. Qed.
  Lemma doc_literal t : expected c "snoopy_literal" = Some t -> eval_tree st arg sz t = documented c st arg sz "snoopy_literal".
  Proof. intros E. cbn in E. injection E as <-. crunch. now rewrite app_nil_r. Qed.
  Lemma doc_filename t : expected c "filename" = Some t -> exec_file st <> None -> eval_tree st arg sz t = documented c st arg sz "filename".
  Proof. intros E NN. cbn in E. injection E as <-. crunch. destruct (exec_file st); [|congruence]. crunch. now rewrite app_nil_r. Qed.

  Lemma signed_char_nz b : b <> x00 -> (wrap true 32 (signed_char b) =? 0) = false.
  Proof. intros H. destruct b; try reflexivity. congruence. Qed.

  Lemma strftime_tree fmt f : ev st arg sz fmt = VS f ->
    eval_tree st arg sz (t_strftime c fmt) =
    (let r := tz_strftime st (clock_sec st) f in
     if (0 <? zlen r) && (zlen r <? nz (dt_buf c)) then say sz r else say sz (lit "(error @ strftime())")).
  Proof.
    intros Hf. unfold t_strftime. cbn [eval_tree]. unfold eq0 at 1. cbn [ev map]. rewrite Hf. crunch.
    rewrite fits_spec. pose proof (zlen_nonneg (tz_strftime st (clock_sec st) f)) as NN.
    destruct (Z.leb_spec (zlen (tz_strftime st (clock_sec st) f) + 1) (nz (dt_buf c))), (Z.ltb_spec (zlen (tz_strftime st (clock_sec st) f)) (nz (dt_buf c))); try lia; crunch.
    - destruct (Z.eqb_spec (zlen (tz_strftime st (clock_sec st) f)) 0) as [Z0|NZ0], (Z.ltb_spec 0 (zlen (tz_strftime st (clock_sec st) f))); try lia; crunch; [reflexivity|].
      rewrite Hf. crunch. rewrite fits_spec. destruct (Z.leb_spec (zlen (tz_strftime st (clock_sec st) f) + 1) (nz (dt_buf c))); [|lia]. crunch. now rewrite app_nil_r.
    - rewrite andb_false_r. reflexivity.
  Qed.

  Lemma doc_datetime t : expected c "datetime" = Some t -> nonul arg -> eval_tree st arg sz t = documented c st arg sz "datetime".
  Proof.
    intros E NA. cbn in E. injection E as <-. pose proof (wf_sec st WF) as S.
    cbn [eval_tree]. unfold q_time at 1. cbn [ev map ev_call ev_op String.eqb Ascii.eqb Bool.eqb].
    destruct (Z.eqb_spec (clock_sec st) (-1)); [lia|]. cbn [vbool Z.eqb eval_tree]. unfold eq0 at 1, r_lt at 1. crunch.
    destruct arg as [|b rest] eqn:EA.
    - crunch. rewrite <- EA. rewrite (strftime_tree (EStr (dt_default_fmt c)) (dt_default_fmt c)) by reflexivity. rewrite EA. reflexivity.
    - crunch. pose proof (zlen_nonneg (b :: rest)). destruct (Z.leb_spec 0 (zlen (b :: rest))); [|lia]. crunch. rewrite signed_char_nz by (intros ->; apply NA; now left). crunch. rewrite <- EA.
      rewrite (strftime_tree EArg arg) by reflexivity. rewrite EA. reflexivity.
  Qed.
End Table.

(** * env_all.c = the comma-joined environment, cut with the marker *)
Local Open Scope N_scope.
Lemma join_flat b a0 args : join [b] (a0 :: args) = a0 ++ flat_map (fun a => [b] ++ a) args.
Proof.
  revert a0. induction args as [|a args IH]; intros a0.
  - simpl. now rewrite app_nil_r.
  - rewrite join_cons2, IH. reflexivity.
Qed.

Lemma takeN_app_l n (l m : list byte) : n <= len l -> takeN n (l ++ m) = takeN n l.
Proof. unfold takeN, len. intros H. rewrite firstn_app. replace (N.to_nat n - length l)%nat with 0%nat by lia. simpl. apply app_nil_r. Qed.
Lemma takeN_app_r n (l m : list byte) : len l <= n -> takeN n (l ++ m) = l ++ takeN (n - len l) m.
Proof. unfold takeN, len. intros H. rewrite firstn_app. rewrite firstn_all2 by lia. f_equal. f_equal. lia. Qed.

Lemma takeN_succ_cons n (b : byte) l : takeN (N.succ n) (b :: l) = b :: takeN n l.
Proof. unfold takeN. rewrite N2Nat.inj_succ. reflexivity. Qed.

Section EnvAllProof.
  Variable c : ds_consts.
  Hypothesis OK : ea_consts_ok c = true.

  Lemma ea_facts : ea_comma_min c = 5 /\ ea_sep c = [COMMA] /\ ea_whole_margin c = 4 /\ ea_cut_margin c = 3 /\ ea_marker_size c = 4
                   /\ ea_marker c = [x2e; x2e; x2e] /\ ea_null_guard c = true.
  Proof.
    unfold ea_consts_ok in OK. repeat (apply andb_true_iff in OK as [OK ?]).
    repeat split; try (now apply N.eqb_eq); try (now apply list_eqb_eq); assumption.
  Qed.

  Definition cut (sz : N) (j : list byte) : list byte := if len j + 4 <? sz then j else takeN (sz - 4) j ++ [x2e; x2e; x2e].

  Lemma ea_loop_later sz : forall rest w, len w + 4 < sz ->
    ea_loop c sz false w rest = Some (cut sz (w ++ flat_map (fun a => [COMMA] ++ a) rest)).
  Proof.
    destruct ea_facts as (F1 & F2 & F3 & F4 & F5 & F6 & F7).
    induction rest as [|it rest IH]; intros w Hw.
    - simpl. rewrite app_nil_r. unfold cut. destruct (N.ltb_spec (len w + 4) sz); [reflexivity|lia].
    - cbn [ea_loop flat_map]. unfold ea_step. rewrite F1, F2, F3, F4, F5, F6. cbn [negb andb].
      destruct (N.leb_spec 5 (sz - len w)) as [H5|H5]; [|lia].
      destruct (N.ltb_spec (len it + 4) (sz - len w - 1)) as [Hfit|Hcut].
      + rewrite takeN_all by lia. rewrite IH.
        2:{ rewrite !len_app. unfold len in *. simpl length. lia. }
        f_equal. f_equal. rewrite <- !app_assoc. reflexivity.
      + destruct (N.ltb_spec (sz - len w - 1) (3 + 1)) as [Hs|Hs]; [lia|].
        f_equal. unfold cut.
        match goal with |- context[if ?b then _ else _] => assert (X : b = false) by (apply N.ltb_ge; rewrite !len_app; unfold len in *; simpl length; lia); rewrite X end.
        change (takeN (4 - 1) [x2e; x2e; x2e]) with [x2e; x2e; x2e].
        set (k := sz - len w - 1 - 3 - 1).
        rewrite (takeN_app_r (sz - 4) w) by (unfold len in *; lia).
        replace (sz - 4 - len w) with (N.succ k) by (unfold k, len in *; lia).
        change (([COMMA] ++ it) ++ flat_map (fun a => [COMMA] ++ a) rest) with (COMMA :: (it ++ flat_map (fun a => [COMMA] ++ a) rest)).
        rewrite takeN_succ_cons. rewrite takeN_app_l by (unfold k, len in *; lia).
        rewrite <- !app_assoc. reflexivity.
  Qed.

  Theorem env_all_spec_ok env sz : 4 <= sz -> env_all c env sz = Some (env_all_spec env sz).
  Proof.
    destruct ea_facts as (F1 & F2 & F3 & F4 & F5 & F6 & F7). intros Hsz.
    destruct env as [[|it rest]|]; [reflexivity| |simpl; now rewrite F7].
    unfold env_all, env_all_spec. cbn [ea_loop]. unfold ea_step. rewrite F3, F4, F5, F6. cbn [negb andb app]. change (len []) with 0. rewrite N.sub_0_r.
    rewrite join_flat. fold (cut sz (it ++ flat_map (fun a => [COMMA] ++ a) rest)).
    destruct (N.ltb_spec (len it + 4) sz) as [Hfit|Hcut].
    - rewrite takeN_all by (unfold len in *; lia). apply ea_loop_later. lia.
    - destruct (N.ltb_spec sz (3 + 1)); [lia|]. f_equal. unfold cut.
      match goal with |- context[if ?b then _ else _] => assert (X : b = false) by (apply N.ltb_ge; rewrite !len_app; unfold len in *; simpl length; lia); rewrite X end.
      change (takeN (4 - 1) [x2e; x2e; x2e]) with [x2e; x2e; x2e]. rewrite takeN_app_l by (unfold len in *; lia). f_equal. f_equal. lia.
  Qed.

  (** never beyond the buffer, terminator included *)
  Theorem env_all_fits env sz : 4 <= sz -> len (env_all_spec env sz) < sz.
  Proof.
    intros H. destruct env as [[|it rest]|].
    - cbn [env_all_spec]. change (len []) with 0. lia.
    - cbn [env_all_spec]. destruct (N.ltb_spec (len (join [COMMA] (it :: rest)) + 4) sz); [lia|].
      rewrite len_app, len_takeN. change (len [x2e; x2e; x2e]) with 3. lia.
    - cbn [env_all_spec]. change (len []) with 0. lia.
  Qed.
End EnvAllProof.
Local Close Scope N_scope.

(** * decimal rendering is injective *)
Local Open Scope N_scope.
Definition dstep (acc : N) (d : byte) : N := acc * 10 + digit_val d.
Lemma digits_val_fold ds : digits_val ds = fold_left dstep ds 0.  Proof. reflexivity. Qed.
Lemma fold_val ds : forall a, fold_left dstep ds a = a * 10 ^ N.of_nat (length ds) + fold_left dstep ds 0.
Proof.
  induction ds as [|d ds IH]; intros a.
  - simpl. lia.
  - cbn [fold_left length]. rewrite IH. rewrite (IH (dstep 0 d)). unfold dstep. rewrite Nat2N.inj_succ, N.pow_succ_r'. lia.
Qed.
Lemma digit_roundtrip d : d < 10 -> digit_val (digit_byte d) = d.
Proof.
  intros H. assert (C : d = 0 \/ d = 1 \/ d = 2 \/ d = 3 \/ d = 4 \/ d = 5 \/ d = 6 \/ d = 7 \/ d = 8 \/ d = 9) by lia.
  repeat (destruct C as [->|C]; [reflexivity|]). subst. reflexivity.
Qed.
Lemma dec_aux_val fuel : forall n acc, n < 2 ^ N.of_nat fuel ->
  fold_left dstep (dec_aux fuel n acc) 0 = n * 10 ^ N.of_nat (length acc) + fold_left dstep acc 0.
Proof.
  induction fuel as [|f IH]; intros n acc H.
  - simpl in H. assert (n = 0) by lia. subst. simpl. lia.
  - cbn [dec_aux]. assert (M : n mod 10 < 10) by (apply N.mod_lt; lia).
    assert (V : fold_left dstep (digit_byte (n mod 10) :: acc) 0 = (n mod 10) * 10 ^ N.of_nat (length acc) + fold_left dstep acc 0).
    { cbn [fold_left]. rewrite fold_val. unfold dstep at 1. rewrite digit_roundtrip by assumption. lia. }
    destruct (N.ltb_spec n 10) as [L|L].
    + rewrite V. rewrite N.mod_small by assumption. reflexivity.
    + rewrite IH.
      * rewrite V. cbn [length]. rewrite Nat2N.inj_succ, N.pow_succ_r'. pose proof (N.div_mod n 10). lia.
      * rewrite Nat2N.inj_succ, N.pow_succ_r' in H. apply N.div_lt_upper_bound; lia.
Qed.
Lemma dec_value n : digits_val (dec n) = n.
Proof.
  rewrite digits_val_fold. unfold dec. rewrite dec_aux_val.
  - simpl. lia.
  - rewrite Nat2N.inj_succ, N2Nat.id. destruct (N.eq_dec n 0) as [->|NZ]; [reflexivity|]. apply N.log2_spec. lia.
Qed.
Lemma dec_inj a b : dec a = dec b -> a = b.
Proof. intros H. rewrite <- (dec_value a), <- (dec_value b). now rewrite H. Qed.
Lemma dec_aux_len fuel : forall n acc, (length (dec_aux fuel n acc) <= fuel + length acc)%nat.
Proof.
  induction fuel as [|f IH]; intros n acc; cbn [dec_aux]; [lia|].
  destruct (n <? 10); [cbn [length]; lia|]. specialize (IH (n / 10) (digit_byte (n mod 10) :: acc)). cbn [length] in IH. lia.
Qed.
Lemma dec_len64 n : n < 2 ^ 64 -> len (dec n) <= 65.
Proof.
  intros H. unfold dec, len. pose proof (dec_aux_len (S (N.to_nat (N.log2 n))) n []) as L. cbn [length] in L.
  assert (N.log2 n < 64). { destruct (N.eq_dec n 0) as [->|Hn]; [cbn; lia|]. apply N.log2_lt_pow2; lia. }
  lia.
Qed.
Local Close Scope N_scope.
Lemma decz_inj a b : 0 <= a -> 0 <= b -> decz a = decz b -> a = b.
Proof. unfold decz. intros Ha Hb H. apply dec_inj in H. rewrite (zn_eq a), (zn_eq b) in H. lia. Qed.

(** * The table theorem, for every generated description that passes [ds_consts_ok] *)
Definition in_domain (g : ds_gen) (name : string) (st : pstate) (arg : list byte) (sz : N) : Prop :=
  wf_pstate st /\ nonul arg /\
  (name = "timestamp"%string -> clock_sec st < ts_exact_below g) /\                 (* the int cast of timestamp.c *)
  (name = "env_all"%string -> (4 <= sz)%N) /\                                       (* room for the marker *)
  (name = "filename"%string -> exec_file st <> None) /\                             (* an exec call is being logged *)
  (name = "cmdline"%string -> (0 < sz)%N /\ (exec_file st <> None \/ exists a0 args, exec_argv st = Some (a0 :: args))).

Section General.
  Variable g : ds_gen.
  Variable cc : cmdline_consts.
  Hypothesis OK : ds_consts_ok g = true.
  Hypothesis CCOK : cmdline_consts_ok cc = true.
  Let c := g_consts g.

  Lemma ok_parts : forallb (entry_ok g) tree_class = true /\ ea_consts_ok c = true /\ cg_consts_ok c = true /\ rp_consts_ok c = true /\ misc_consts_ok c = true.
  Proof. unfold ds_consts_ok in OK. do 6 (apply andb_true_iff in OK as [OK ?]). unfold c; repeat split; assumption. Qed.

  Lemma entry_of name : In name tree_class ->
    exists e t, lookup g name = Some e /\ expected c name = Some t /\
      (same_tree (de_tree e) t = true \/ exists a, In a (alternatives name) /\ same_tree (de_tree e) a = true).
  Proof.
    intros I. destruct ok_parts as [A _]. pose proof (proj1 (forallb_forall _ _) A name I) as E. unfold entry_ok in E. fold c in E.
    destruct (lookup g name) as [e|]; [|discriminate]. destruct (expected c name) as [t|]; [|discriminate].
    exists e, t. repeat split. apply orb_true_iff in E as [E|E]; [now left|].
    right. apply existsb_exists in E as [x [Ix Ex]]. now exists x.
  Qed.

  Lemma sep_space : sep cc = [SP].  Proof. apply list_eqb_eq. exact CCOK. Qed.

  Ltac by_tree lem :=
    match goal with
    | |- eval_ds _ _ ?n ?st ?arg ?sz = _ =>
      let e := fresh "e" in let t := fresh "t" in let L := fresh "L" in let X := fresh "X" in let T := fresh "T" in
      destruct (entry_of n) as (e & t & L & X & [T|(? & T & _)]); [cbn; tauto | | cbn in T; contradiction];
      change (eval_ds g cc n st arg sz) with (match lookup g n with Some e => eval_tree st arg sz (de_tree e) | None => None end);
      rewrite L, (same_tree_eval st arg sz _ _ T); apply lem; auto
    end.

  Theorem table_general : forall name st arg sz, In name simple_class -> in_domain g name st arg sz ->
    eval_ds g cc name st arg sz = documented c st arg sz name.
  Proof.
    intros name st arg sz I (WF & NA & Dts & Dea & Dfn & Dcl). destruct ok_parts as (A & EA & CG & RP & MC).
    unfold simple_class, tree_class in I. cbn [app] in I.
    repeat (destruct I as [<-|I]); try contradiction.
    - by_tree doc_uid.
    - by_tree doc_euid.
    - by_tree doc_gid.
    - by_tree doc_egid.
    - by_tree doc_pid.
    - by_tree doc_ppid.
    - by_tree doc_sid.
    - by_tree doc_tid.
    - by_tree doc_tid_kernel.
    - by_tree doc_username.
    - by_tree doc_eusername.
    - by_tree doc_group.
    - by_tree doc_egroup.
    - by_tree doc_cwd.
    - by_tree doc_hostname.
    - by_tree doc_env.
    - by_tree doc_tty.
    - by_tree doc_tty_uid.
    - by_tree doc_tty_username.
    - by_tree doc_login.
    - (* timestamp: the int form below 2^31, the wide form everywhere *)
      destruct (entry_of "timestamp") as (e & t & L & X & T); [cbn; tauto|].
      change (eval_ds g cc "timestamp" st arg sz) with (match lookup g "timestamp" with Some e => eval_tree st arg sz (de_tree e) | None => None end).
      specialize (Dts eq_refl). unfold ts_exact_below in Dts. rewrite L in *.
      destruct (same_tree (de_tree e) t_timestamp_wide) eqn:W.
      + rewrite (same_tree_eval st arg sz _ _ W). now apply doc_timestamp_wide.
      + destruct T as [T|(a & Ia & T)].
        * cbn in X. injection X as <-. rewrite (same_tree_eval st arg sz _ _ T). now apply doc_timestamp_int.
        * cbn in Ia. destruct Ia as [<-|[]]. congruence.
    - by_tree doc_timestamp_ms.
    - by_tree doc_timestamp_us.
    - by_tree doc_version.
    - by_tree doc_configure.
    - by_tree doc_literal.
    - by_tree doc_filename.
    - by_tree doc_datetime.
    - (* env_all *)
      change (eval_ds g cc "env_all" st arg sz) with (opt_print sz (env_all c (environ st) sz)).
      rewrite (env_all_spec_ok c EA) by (now apply Dea). reflexivity.
    - (* cmdline: the join law of C06 *)
      destruct (Dcl eq_refl) as [Hsz Hsrc].
      change (eval_ds g cc "cmdline" st arg sz) with (let w := cmdline cc (exec_file st) (exec_argv st) sz in Some {| o_ret := zlen w; o_buf := Some w |}).
      change (documented c st arg sz "cmdline") with
        (match match exec_argv st, exec_file st with
               | Some (a0 :: args), _ => Some (takeN (sz - 1) (join [SP] (a0 :: args)))
               | _, Some f => Some (takeN (sz - 1) f)
               | _, None => None
               end with Some w => Some {| o_ret := zlen w; o_buf := Some w |} | None => None end).
      destruct (exec_argv st) as [[|a0 args]|] eqn:EA'.
      + destruct (exec_file st) as [f|]; [reflexivity|]. destruct Hsrc as [H|[? [? H]]]; congruence.
      + cbv zeta. rewrite (cmdline_join cc sz (exec_file st) a0 args Hsz). rewrite (joined_join cc a0 args sep_space). reflexivity.
      + destruct (exec_file st) as [f|]; [reflexivity|]. destruct Hsrc as [H|[? [? H]]]; congruence.
  Qed.

  (** ** independence: the numeric identity sources read exactly their own field *)
  Definition id_field (name : string) : option (pstate -> Z) :=
    if seq name "uid" then Some ruid else if seq name "euid" then Some euid else if seq name "gid" then Some rgid
    else if seq name "egid" then Some egid else if seq name "pid" then Some pid else if seq name "ppid" then Some ppid
    else if seq name "sid" then Some sid else if seq name "tid" then Some pthread_id else if seq name "tid_kernel" then Some ktid
    else None.

  Lemma id_field_cases name f : id_field name = Some f ->
    In name tree_class /\ (forall st arg sz, documented c st arg sz name = say sz (decz (f st))) /\ (forall st, wf_pstate st -> 0 <= f st < two64).
  Proof.
    unfold id_field, seq.
    repeat match goal with
           | |- (if String.eqb name ?s then _ else _) = _ -> _ =>
             destruct (String.eqb_spec name s) as [->|?];
             [intros H; injection H as <-; split; [cbn; tauto|split; [reflexivity|intros st W; destruct W; unfold is_id, is_pid, two32, two31, two64 in *; lia]]|]
           end.
    discriminate.
  Qed.

  Lemma wf_domain name st arg sz : wf_pstate st -> nonul arg -> name <> "timestamp"%string -> name <> "env_all"%string ->
    name <> "filename"%string -> name <> "cmdline"%string -> in_domain g name st arg sz.
  Proof. intros W NA N1 N2 N3 N4. unfold in_domain. split; [assumption|]. split; [assumption|]. split; [intros E; congruence|]. split; [intros E; congruence|]. split; intros E; congruence. Qed.

  Lemma id_value name f : id_field name = Some f -> forall st arg sz, wf_pstate st -> nonul arg ->
    eval_ds g cc name st arg sz = say sz (decz (f st)).
  Proof.
    intros F st arg sz W NA. destruct (id_field_cases name f F) as (I & D & _). rewrite <- (D st arg sz).
    apply table_general; [unfold simple_class; apply in_or_app; now left|].
    apply wf_domain; auto; intros ->; cbn in F; discriminate.
  Qed.

  (** constant in every other field of the state (and in the argument) *)
  Theorem id_only_own_field : forall name f, id_field name = Some f -> forall st1 st2 a1 a2 sz,
    wf_pstate st1 -> wf_pstate st2 -> nonul a1 -> nonul a2 -> f st1 = f st2 ->
    eval_ds g cc name st1 a1 sz = eval_ds g cc name st2 a2 sz.
  Proof. intros name f F st1 st2 a1 a2 sz W1 W2 N1 N2 E. rewrite (id_value name f F st1), (id_value name f F st2) by assumption. now rewrite E. Qed.

  (** injective in its own field (buffer large enough for 20 digits: snoopy passes at least 256 bytes) *)
  Theorem id_injective : forall name f, id_field name = Some f -> forall st1 st2 a1 a2 sz,
    wf_pstate st1 -> wf_pstate st2 -> nonul a1 -> nonul a2 -> (66 <= sz)%N ->
    eval_ds g cc name st1 a1 sz = eval_ds g cc name st2 a2 sz -> f st1 = f st2.
  Proof.
    intros name f F st1 st2 a1 a2 sz W1 W2 N1 N2 Hsz E.
    rewrite (id_value name f F st1), (id_value name f F st2) in E by assumption.
    destruct (id_field_cases name f F) as (_ & _ & R). pose proof (R st1 W1) as R1. pose proof (R st2 W2) as R2.
    unfold say, print_out in E. injection E as _ E.
    assert (L : forall z, 0 <= z < two64 -> takeN (sz - 1) (decz z) = decz z).
    { intros z Hz. apply takeN_all. unfold decz. pose proof (dec_len64 (zn z)) as B. rewrite zn_eq in *. unfold two64 in Hz.
      assert (Z.to_N z < 2 ^ 64)%N by lia. specialize (B H). lia. }
    rewrite !L in E by assumption. apply decz_inj in E; lia.
  Qed.
End General.

(** env_all for a generated description that passes the check; the bound below which [timestamp] is exact *)
Theorem env_all_general g : ds_consts_ok g = true -> forall env sz, (4 <= sz)%N ->
  env_all (g_consts g) env sz = Some (env_all_spec env sz) /\ (len (env_all_spec env sz) < sz)%N.
Proof.
  intros OK env sz H. destruct (ok_parts g OK) as (_ & EA & _). split; [now apply (env_all_spec_ok (g_consts g) EA) | now apply (env_all_fits (g_consts g) EA)].
Qed.
Lemma ts_bound_general g : two31 <= ts_exact_below g.
Proof. unfold ts_exact_below. destruct (lookup g "timestamp") as [e|]; [destruct (same_tree _ _)|]; unfold two31, two63; lia. Qed.
