(** Refused appends of the bounded expansion (message.c: snoopy_message_append calls
    snoopy_error_handler("Maximum destination string size exceeded") for every piece that
    util/string.c refuses).  The sequence of pieces the loop ATTEMPTS to append does not depend
    on the buffer: it is the unbounded run.  The bounded run is the fold of the refusing
    [append] over that sequence; the number of error-handler calls is the number of refusals
    along that fold. *)
From Snoopy Require Import Lib.CStr Expand.Model Expand.Proofs.
From Coq Require Import ZifyBool ZifyN ZifyNat.
Local Open Scope N_scope.
Local Open Scope list_scope.

Section Errors.
  Variable c : expand_consts.
  Variable known : list byte -> bool.
  Variable ds : list byte -> list byte -> N -> bool * list byte.

  Definition refuses (cap : N) (out : list piece) (p : piece) : bool :=
    match str_append c cap (flat out) (snd p) with None => true | Some _ => false end.

  (** bounded fold with the refusal count *)
  Fixpoint fold_count (cap : N) (ps : list piece) (out : list piece) (n : nat) : list piece * nat :=
    match ps with
    | [] => (out, n)
    | p :: ps' => fold_count cap ps' (append c (Some cap) out p) (if refuses cap out p then S n else n)
    end.

  Lemma fold_count_fst cap ps : forall out n, fst (fold_count cap ps out n) = fold_left (append c (Some cap)) ps out.
  Proof. induction ps as [|p ps IH]; intros out n; cbn [fold_count fold_left]; [reflexivity|apply IH]. Qed.

  Lemma fold_count_app cap ps qs : forall out n,
      fold_count cap (ps ++ qs) out n = let '(o, m) := fold_count cap ps out n in fold_count cap qs o m.
  Proof. induction ps as [|p ps IH]; intros out n; cbn [fold_count app]; [reflexivity|apply IH]. Qed.

  Lemma fold_left_append_app cap ps qs out :
    fold_left (append c (Some cap)) (ps ++ qs) out = fold_left (append c (Some cap)) qs (fold_left (append c (Some cap)) ps out).
  Proof. apply fold_left_app. Qed.

  (** the unbounded run only ever appends: its result is [out] followed by the attempted pieces *)
  Lemma expand_None_app fuel dsbuf : forall out fmt,
      expand_aux c known ds fuel None dsbuf out fmt = out ++ expand_aux c known ds fuel None dsbuf [] fmt.
  Proof.
    induction fuel as [|fuel IH]; intros out fmt; cbn [expand_aux]; [now rewrite app_nil_r|].
    destruct (strstr fmt (tag_open c)) as [i|]; [|reflexivity].
    destruct (strstr (skipn i fmt) (tag_close c)) as [j|].
    2:{ cbn [append]. now rewrite <- !app_assoc. }
    destruct (split_colon c _) as [name arg].
    destruct (negb (known name)).
    { cbn [append]. now rewrite <- !app_assoc. }
    destruct (ds name arg dsbuf) as [failed txt].
    rewrite IH. symmetry. rewrite IH. symmetry.
    destruct failed; cbn [append app]; rewrite <- !app_assoc; reflexivity.
  Qed.

  (** the bounded run is the refusing fold over the attempted pieces *)
  Lemma expand_is_fold fuel cap dsbuf : forall out fmt,
      expand_aux c known ds fuel (Some cap) dsbuf out fmt
      = fold_left (append c (Some cap)) (expand_aux c known ds fuel None dsbuf [] fmt) out.
  Proof.
    induction fuel as [|fuel IH]; intros out fmt; cbn [expand_aux]; [reflexivity|].
    destruct (strstr fmt (tag_open c)) as [i|]; [|reflexivity].
    destruct (strstr (skipn i fmt) (tag_close c)) as [j|].
    2:{ reflexivity. }
    destruct (split_colon c _) as [name arg].
    destruct (negb (known name)).
    { reflexivity. }
    destruct (ds name arg dsbuf) as [failed txt].
    rewrite IH. rewrite (expand_None_app fuel dsbuf (if failed then _ else _)).
    rewrite fold_left_app. f_equal.
    destruct failed; reflexivity.
  Qed.

  (** pieces attempted / result / number of error-handler calls of one generateFromFormat call *)
  Definition attempts (third : N) (fmt : list byte) : list piece := full_pieces c known ds third fmt.
  Definition generate_count (bufsize third : N) (fmt : list byte) : list piece * nat :=
    fold_count bufsize (attempts third fmt) [] 0.
  Definition generate_errors (bufsize third : N) (fmt : list byte) : nat := snd (generate_count bufsize third fmt).

  Theorem generate_count_result bufsize third fmt :
    fst (generate_count bufsize third fmt) = generate_pieces c known ds bufsize third fmt.
  Proof.
    unfold generate_count, attempts, full_pieces, generate_pieces. rewrite fold_count_fst.
    destruct fmt as [|b fmt]; [reflexivity|]. symmetry. apply expand_is_fold.
  Qed.

  (** no refusal (hence no error record) whenever everything attempted fits *)
  Hypothesis Hok : expand_consts_ok c = true.
  Lemma fold_count_fits cap : forall ps out n,
      len (flat out) + len (flat ps) < cap -> fold_count cap ps out n = (out ++ ps, n).
  Proof.
    induction ps as [|p ps IH]; intros out n H; cbn [fold_count]; [now rewrite app_nil_r|].
    assert (E : flat (p :: ps) = snd p ++ flat ps) by reflexivity.
    rewrite E, len_app in H.
    assert (F : str_append c cap (flat out) (snd p) = Some (flat out ++ snd p)).
    { apply (str_append_fits c Hok known ds). rewrite len_app. lia. }
    unfold refuses, append. rewrite F.
    rewrite IH.
    - now rewrite <- app_assoc.
    - rewrite flat_app, flat_one, len_app. lia.
  Qed.

  Theorem no_errors_when_fits bufsize third fmt :
    len (full c known ds third fmt) < bufsize -> generate_errors bufsize third fmt = 0%nat.
  Proof.
    intros H. unfold generate_errors, generate_count. rewrite fold_count_fits; [reflexivity|].
    unfold full in H. unfold attempts. cbn. exact H.
  Qed.
End Errors.
