(** Executable instantiation of the expansion model with Gallina models of the
    deterministic data sources (snoopy_literal, env, filename, cmdline, failure, noop),
    used by the correspondence run; and the boolean form of the C05 specification. *)
From Snoopy Require Import Lib.CStr Expand.Model Expand.Proofs Expand.Errors Datasource.Cmdline.
From Coq Require Import Strings.String.
Local Open Scope N_scope.

Record world := {
  w_env  : list (list byte);                 (* environ entries "NAME=VALUE" *)
  w_file : option (list byte);
  w_argv : option (list (list byte))
}.

Record ds_consts := {
  env_undefined : list byte;   (* "(undefined)" *)
  failure_text  : list byte    (* "Artificial datasource failure triggered" *)
}.

(** glibc getenv: NULL for the empty name; first entry beginning with name followed by '=' *)
Fixpoint getenv (env : list (list byte)) (name : list byte) : option (list byte) :=
  match env with
  | [] => None
  | e :: env' =>
    if prefixb name e then
      match skipn (List.length name) e with
      | b :: v => if beq b x3d then Some v else getenv env' name
      | [] => getenv env' name
      end
    else getenv env' name
  end.

Definition n_literal := bytes "snoopy_literal".
Definition n_env := bytes "env".
Definition n_filename := bytes "filename".
Definition n_cmdline := bytes "cmdline".
Definition n_failure := bytes "failure".
Definition n_noop := bytes "noop".

Definition known_det (n : list byte) : bool :=
  list_eqb n n_literal || list_eqb n n_env || list_eqb n n_filename || list_eqb n n_cmdline
  || list_eqb n n_failure || list_eqb n n_noop.

Definition ds_det (dc : ds_consts) (cc : cmdline_consts) (w : world) (n a : list byte) (sz : N) : bool * list byte :=
  if list_eqb n n_literal then (false, snprintf_s sz a)
  else if list_eqb n n_env then
    (false, match a with
            | [] => snprintf_s sz (env_undefined dc)
            | _ => match getenv (w_env w) a with
                   | None => snprintf_s sz (env_undefined dc)
                   | Some v => snprintf_s sz v
                   end
            end)
  else if list_eqb n n_filename then (false, match w_file w with Some f => filename_ds f sz | None => [] end)
  else if list_eqb n n_cmdline then (false, cmdline cc (w_file w) (w_argv w) sz)
  else if list_eqb n n_failure then (true, snprintf_s sz (failure_text dc))
  else (false, []).

Definition generate_det (c : expand_consts) (dc : ds_consts) (cc : cmdline_consts) (w : world) (bufsize third : N) (fmt : list byte) : list byte :=
  generate c known_det (ds_det dc cc w) bufsize third fmt.

(** C05 as a checker on an observed output: bounded by the buffer, and exact whenever the
    ideal expansion (data sources called with a buffer of exactly [third] bytes, i.e. at most
    [third - 1] bytes each) fits.  Uses the ideal expansion, not the bounded run. *)
Definition spec_C05_ok (c : expand_consts) (known : list byte -> bool) (ds : list byte -> list byte -> N -> bool * list byte)
           (bufsize third : N) (fmt out : list byte) : bool :=
  let ideal := flat (match fmt with [] => [] | _ => expand_aux c known ds (S (List.length fmt)) None third [] fmt end) in
  (len out <? bufsize) && (if len ideal <? bufsize then list_eqb out ideal else true).

Definition spec_det (c : expand_consts) (dc : ds_consts) (cc : cmdline_consts) (w : world) (bufsize third : N) (fmt out : list byte) : bool :=
  spec_C05_ok c known_det (ds_det dc cc w) bufsize third fmt out.

(** number of error-handler calls (refused appends) of one generateFromFormat call, for the correspondence of C04's error records *)
Definition errors_det (c : expand_consts) (dc : ds_consts) (cc : cmdline_consts) (w : world) (bufsize third : N) (fmt : list byte) : nat :=
  generate_errors c known_det (ds_det dc cc w) bufsize third fmt.
