(** The error texts of the expansion are recognisable markers: every one of them starts with "[ERROR: " and the text that replaces a
    tag ends with "]", whatever name or data-source message is spliced in between.  A reader of a log line (and the translator: a
    source whose error texts are not of this shape is not the code the model describes) can tell an error marker from data. *)
From Snoopy Require Import Lib.CStr Expand.Model.

Definition err_open : list byte := [x5b; x45; x52; x52; x4f; x52; x3a; x20].      (* "[ERROR: " *)
Definition ends_with (l : list byte) (x : byte) : bool :=
  match rev l with y :: _ => beq y x | [] => false end.

Definition error_texts_ok (c : expand_consts) : bool :=
  prefixb err_open (e_close c) && ends_with (skipn (length err_open) (e_close c)) x5d
  && prefixb err_open (e_nf1 c) && ends_with (e_nf2 c) x5d
  && prefixb err_open (e_f1 c) && negb (list_eqb (e_f2 c) []) && ends_with (e_f3 c) x5d.

Definition bracketed (l : list byte) : Prop := exists m, l = err_open ++ m ++ [x5d].

Lemma ends_with_app l x : ends_with l x = true -> exists m, l = m ++ [x].
Proof.
  unfold ends_with. destruct (rev l) as [|y r] eqn:E; [discriminate|]. intros H.
  apply beq_eq in H. subst y.
  exists (rev r). rewrite <- (rev_involutive l), E. reflexivity.
Qed.

Lemma bracketed_of p s : prefixb err_open p = true -> ends_with s x5d = true -> forall mid, bracketed (p ++ mid ++ s).
Proof.
  intros Hp Hs mid. apply prefixb_app in Hp as [r ->]. apply ends_with_app in Hs as [m ->].
  exists (r ++ mid ++ m). now rewrite <- !app_assoc.
Qed.

Theorem error_markers c : error_texts_ok c = true ->
  bracketed (e_close c) /\ (forall name, bracketed (e_nf1 c ++ name ++ e_nf2 c))
  /\ (forall name txt, bracketed (e_f1 c ++ name ++ e_f2 c ++ txt ++ e_f3 c)) /\ e_f2 c <> [].
Proof.
  unfold error_texts_ok. rewrite !andb_true_iff. intros [[[[[[H1 H2] H3] H4] H5] H6] H7]. repeat split.
  - apply prefixb_app in H1 as [r E]. rewrite E in H2. change (skipn (length err_open) (err_open ++ r)) with r in H2.
    apply ends_with_app in H2 as [m ->]. now exists m.
  - intros name. now apply bracketed_of.
  - intros name txt. replace (e_f1 c ++ name ++ e_f2 c ++ txt ++ e_f3 c) with (e_f1 c ++ (name ++ e_f2 c ++ txt) ++ e_f3 c) by now rewrite <- !app_assoc.
    now apply bracketed_of.
  - intros E. rewrite E in H6. discriminate H6.
Qed.
