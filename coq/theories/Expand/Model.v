(** Model of src/message.c (snoopy_message_generateFromFormat, snoopy_message_append)
    and src/util/string.c (snoopy_util_string_append), path by path.

    Sizes are [N].  Every string literal and size adjustment the C code uses
    is a field of [consts], regenerated from the source on every run
    (Gen_Expand.v); the data-source registry is the pair ([known], [ds]). *)
From Snoopy Require Import Lib.CStr.
Local Open Scope N_scope.

Record expand_consts := {
  tag_open   : list byte;   (* "%{"  first strstr needle *)
  tag_close  : list byte;   (* "}"   second strstr needle *)
  tag_colon  : list byte;   (* ":"   name/arg separator   *)
  e_close    : list byte;   (* "[ERROR: Closing data source tag ('}') not found.]" *)
  e_nf1      : list byte;   (* "[ERROR: Data source '" (not found, part 1) *)
  e_nf2      : list byte;   (* "' not found.]" *)
  e_f1       : list byte;   (* "[ERROR: Data source '" (failure, part 1) *)
  e_f2       : list byte;   (* "' failed with the following error message: '" *)
  e_f3       : list byte;   (* "']" *)
  ds_buf_adj : N;           (* dataSourceMsgBufSize = <3rd parameter> + ds_buf_adj *)
  append_strict : bool;     (* true: refuse when remaining <= len; false: when remaining < len *)
  (* what the callers pass: buffer size = limit + adj *)
  call_log_adj : N;         (* log-syscall-exec.c: log_message_max_length + call_log_adj *)
  call_ds_adj  : N;         (* log-syscall-exec.c: datasource_message_max_length + call_ds_adj *)
  hardmin_log : N; hardmax_log : N; hardmin_ds : N; hardmax_ds : N;
  ident_buf : N;            (* SNOOPY_SYSLOG_IDENT_FORMAT_BUF_SIZE, passed as both sizes *)
  path_buf  : N             (* PATH_MAX, passed as both sizes *)
}.

(** What the theorems need from the constants (checked by computation on Gen). *)
Definition expand_consts_ok (c : expand_consts) : bool :=
  append_strict c && (ds_buf_adj c =? 0) && (call_log_adj c =? 1) && (call_ds_adj c =? 1)
  && list_eqb (tag_open c) [x25; x7b] && list_eqb (tag_close c) [x7d] && list_eqb (tag_colon c) [x3a]
  && (1 <=? hardmin_log c) && (1 <=? hardmin_ds c) && (1 <=? ident_buf c) && (1 <=? path_buf c).

(** piece kinds, for stating which bytes of the message came from where *)
Inductive kind := KLit | KDs | KErr | KName.
Definition piece := (kind * list byte)%type.
Definition flat (ps : list piece) : list byte := concat (map snd ps).

Section Expand.
  Variable c : expand_consts.
  Variable known : list byte -> bool.
  (** [ds name arg size] = (failed?, bytes left in the result buffer) *)
  Variable ds : list byte -> list byte -> N -> bool * list byte.

  (** util/string.c: [None] = SNOOPY_ERROR (nothing written) *)
  Definition str_append (cap : N) (dst app : list byte) : option (list byte) :=
    let remaining := cap - len dst in
    if (if append_strict c then remaining <=? len app else remaining <? len app)
    then None else Some (dst ++ app).

  (** message.c snoopy_message_append on the piece list: a refused piece is dropped
      (the error handler is a separate concern: Model of error.c).  [cap = None] is the
      ideal, unbounded expansion used as the reference. *)
  Definition append (cap : option N) (out : list piece) (p : piece) : list piece :=
    match cap with
    | None => out ++ [p]
    | Some cp => match str_append cp (flat out) (snd p) with
                 | None => out
                 | Some _ => out ++ [p]
                 end
    end.

  Definition split_colon (tag : list byte) : list byte * list byte :=
    match strstr tag (tag_colon c) with
    | None => (tag, [])
    | Some i => (firstn i tag, skipn (i + length (tag_colon c)) tag)
    end.

  Fixpoint expand_aux (fuel : nat) (cap : option N) (dsbuf : N) (out : list piece) (fmt : list byte) : list piece :=
    match fuel with
    | O => out
    | S fuel' =>
      match strstr fmt (tag_open c) with
      | None => append cap out (KLit, fmt)
      | Some i =>
        let out1 := append cap out (KLit, firstn i fmt) in
        let rest := skipn i fmt in                       (* starts with "%{" *)
        match strstr rest (tag_close c) with
        | None => append cap out1 (KErr, e_close c)
        | Some j =>
          let tag := firstn (j - length (tag_open c)) (skipn (length (tag_open c)) rest) in
          let '(name, arg) := split_colon tag in
          if negb (known name) then
            append cap (append cap (append cap out1 (KErr, e_nf1 c)) (KName, name)) (KErr, e_nf2 c)
          else
            let '(failed, txt) := ds name arg dsbuf in
            let out2 :=
              if failed
              then append cap (append cap (append cap (append cap (append cap out1
                     (KErr, e_f1 c)) (KName, name)) (KErr, e_f2 c)) (KDs, txt)) (KErr, e_f3 c)
              else append cap out1 (KDs, txt) in
            expand_aux fuel' cap dsbuf out2 (skipn (j + length (tag_close c)) rest)
        end
      end
    end.

  (** snoopy_message_generateFromFormat(logMessage (empty), bufsize, third, fmt) *)
  Definition generate_pieces (bufsize third : N) (fmt : list byte) : list piece :=
    match fmt with
    | [] => []            (* while (strlen(...) > 0) not entered *)
    | _ => expand_aux (S (length fmt)) (Some bufsize) (third + ds_buf_adj c) [] fmt
    end.
  Definition generate (bufsize third : N) (fmt : list byte) : list byte := flat (generate_pieces bufsize third fmt).

  (** the ideal expansion (no message limit) with the same data-source buffer *)
  Definition full_pieces (third : N) (fmt : list byte) : list piece :=
    match fmt with
    | [] => []
    | _ => expand_aux (S (length fmt)) None (third + ds_buf_adj c) [] fmt
    end.
  Definition full (third : N) (fmt : list byte) : list byte := flat (full_pieces third fmt).

  (** the three call sites *)
  Definition log_message (Llog Lds : N) (fmt : list byte) : list byte :=
    generate (Llog + call_log_adj c) (Lds + call_ds_adj c) fmt.
  Definition ident_message (fmt : list byte) : list byte := generate (ident_buf c) (ident_buf c) fmt.
  Definition path_message (fmt : list byte) : list byte := generate (path_buf c) (path_buf c) fmt.
End Expand.

(** * Independent token-level specification (reads the property text, not the C loop) *)
Inductive token := TLit (s : list byte) | TTag (name arg : list byte) | TUnterminated.

Section Spec.
  Variable c : expand_consts.
  Variable known : list byte -> bool.
  Variable ds : list byte -> list byte -> N -> bool * list byte.

  (** render one token; [None] = the expansion stops after this token's text *)
  Definition render_token (dsbuf : N) (t : token) : list byte * bool (* continue? *) :=
    match t with
    | TLit s => (s, true)
    | TUnterminated => (e_close c, false)
    | TTag name arg =>
      if negb (known name) then (e_nf1 c ++ name ++ e_nf2 c, false)
      else let '(failed, txt) := ds name arg dsbuf in
           if failed then (e_f1 c ++ name ++ e_f2 c ++ txt ++ e_f3 c, true) else (txt, true)
    end.

  Fixpoint render (dsbuf : N) (ts : list token) : list byte :=
    match ts with
    | [] => []
    | t :: ts' => let '(s, cont) := render_token dsbuf t in if cont then s ++ render dsbuf ts' else s
    end.
End Spec.
