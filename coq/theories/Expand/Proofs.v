(** Theorems about the expansion model, for every constant record with
    [expand_consts_ok c = true], every registry [known]/[ds], every format. *)
From Snoopy Require Import Lib.CStr Expand.Model.
From Coq Require Import ZifyBool ZifyN ZifyNat.
Local Open Scope N_scope.

Lemma flat_app a b : flat (a ++ b) = flat a ++ flat b.
Proof. unfold flat. now rewrite map_app, concat_app. Qed.
Lemma flat_one p : flat [p] = snd p.
Proof. unfold flat. simpl. now rewrite app_nil_r. Qed.

Section Proofs.
  Variable c : expand_consts.
  Hypothesis Hok : expand_consts_ok c = true.
  Variable known : list byte -> bool.
  Variable ds : list byte -> list byte -> N -> bool * list byte.

  Lemma ok_strict : append_strict c = true.
  Proof. unfold expand_consts_ok in Hok. repeat (apply andb_true_iff in Hok as [Hok ?]). assumption. Qed.
  Lemma ok_adj : ds_buf_adj c = 0 /\ call_log_adj c = 1 /\ call_ds_adj c = 1.
  Proof. unfold expand_consts_ok in Hok. repeat (apply andb_true_iff in Hok as [Hok ?]). lia. Qed.

  (** ** util/string.c append: never reaches the capacity *)
  Lemma str_append_lt cap dst app r : str_append c cap dst app = Some r -> r = dst ++ app /\ len r < cap.
  Proof.
    unfold str_append. rewrite ok_strict. destruct (N.leb_spec (cap - len dst) (len app)); [discriminate|].
    intros E; injection E as <-. split; [reflexivity|]. rewrite len_app. lia.
  Qed.
  Lemma str_append_fits cap dst app : len (dst ++ app) < cap -> str_append c cap dst app = Some (dst ++ app).
  Proof.
    intros H. unfold str_append. rewrite ok_strict. rewrite len_app in H.
    destruct (N.leb_spec (cap - len dst) (len app)); [lia|reflexivity].
  Qed.

  Lemma append_lt cap out p : len (flat out) < cap -> len (flat (append c (Some cap) out p)) < cap.
  Proof.
    intros H. unfold append. destruct (str_append c cap (flat out) (snd p)) eqn:E; [|exact H].
    apply str_append_lt in E as [-> E]. now rewrite flat_app, flat_one.
  Qed.

  (** ** C05_bounded *)
  Lemma expand_aux_lt fuel cap dsbuf : forall out fmt,
      len (flat out) < cap -> len (flat (expand_aux c known ds fuel (Some cap) dsbuf out fmt)) < cap.
  Proof.
    induction fuel as [|fuel IH]; intros out fmt H; cbn [expand_aux]; [exact H|].
    destruct (strstr fmt (tag_open c)) as [i|]; [|now apply append_lt].
    destruct (strstr (skipn i fmt) (tag_close c)) as [j|]; [|now repeat apply append_lt].
    destruct (split_colon c _) as [name arg].
    destruct (negb (known name)); [now repeat apply append_lt|].
    destruct (ds name arg dsbuf) as [failed txt].
    apply IH. destruct failed; now repeat apply append_lt.
  Qed.

  Theorem generate_lt bufsize third fmt : 1 <= bufsize -> len (generate c known ds bufsize third fmt) < bufsize.
  Proof.
    intros Hb. unfold generate, generate_pieces. destruct fmt as [|b fmt]; [cbn; lia|].
    apply expand_aux_lt. cbn. lia.
  Qed.

  Theorem log_message_bounded Llog Lds fmt : len (log_message c known ds Llog Lds fmt) <= Llog.
  Proof.
    unfold log_message. destruct ok_adj as [_ [E _]]. rewrite E.
    pose proof (generate_lt (Llog + 1) (Lds + call_ds_adj c) fmt). lia.
  Qed.

  (** ** C05_ds_bounded: every piece that came from a data source obeys the data-source contract
      at buffer size exactly Lds + 1 *)
  Definition ds_contract : Prop := forall name arg size, 1 <= size -> len (snd (ds name arg size)) < size.

  Definition pieces_ds_le (L : N) (ps : list piece) : Prop :=
    Forall (fun p => match fst p with KDs => len (snd p) <= L | _ => True end) ps.

  Lemma append_pieces L cap out p : pieces_ds_le L out ->
      match fst p with KDs => len (snd p) <= L | _ => True end -> pieces_ds_le L (append c cap out p).
  Proof.
    intros H Hp. unfold append. destruct cap as [cp|].
    - destruct (str_append c cp (flat out) (snd p)); [|exact H]. apply Forall_app. split; [exact H|now constructor].
    - apply Forall_app. split; [exact H|now constructor].
  Qed.

  Lemma expand_aux_pieces (Hds : ds_contract) fuel cap dsbuf : 1 <= dsbuf -> forall out fmt,
      pieces_ds_le (dsbuf - 1) out -> pieces_ds_le (dsbuf - 1) (expand_aux c known ds fuel cap dsbuf out fmt).
  Proof.
    intros Hb. induction fuel as [|fuel IH]; intros out fmt H; cbn [expand_aux]; [exact H|].
    destruct (strstr fmt (tag_open c)) as [i|]; [|now apply append_pieces].
    destruct (strstr (skipn i fmt) (tag_close c)) as [j|]; [|now repeat apply append_pieces].
    destruct (split_colon c _) as [name arg].
    destruct (negb (known name)); [now repeat apply append_pieces|].
    pose proof (Hds name arg dsbuf Hb) as Hc.
    destruct (ds name arg dsbuf) as [failed txt]. cbn [snd] in Hc.
    apply IH. destruct failed; repeat apply append_pieces; cbn [fst snd]; try exact I; try exact H; lia.
  Qed.

  Theorem log_message_ds_bounded (Hds : ds_contract) Llog Lds fmt :
    pieces_ds_le Lds (generate_pieces c known ds (Llog + call_log_adj c) (Lds + call_ds_adj c) fmt).
  Proof.
    unfold generate_pieces. destruct fmt as [|b fmt]; [constructor|].
    destruct ok_adj as [E0 [_ E1]]. rewrite E0, E1.
    replace Lds with (Lds + 1 + 0 - 1) at 1 by lia.
    apply expand_aux_pieces; [assumption|lia|constructor].
  Qed.

  (** ** C05_exact_when_fits *)
  Lemma append_None out p : append c None out p = out ++ [p].
  Proof. reflexivity. Qed.

  Lemma full_grows fuel dsbuf : forall out fmt, len (flat out) <= len (flat (expand_aux c known ds fuel None dsbuf out fmt)).
  Proof.
    induction fuel as [|fuel IH]; intros out fmt; cbn [expand_aux]; [lia|].
    destruct (strstr fmt (tag_open c)) as [i|]; [|rewrite append_None, flat_app, len_app; lia].
    destruct (strstr (skipn i fmt) (tag_close c)) as [j|].
    2:{ rewrite !append_None, !flat_app, !len_app. lia. }
    destruct (split_colon c _) as [name arg].
    destruct (negb (known name)).
    { rewrite !append_None, !flat_app, !len_app. lia. }
    destruct (ds name arg dsbuf) as [failed txt].
    etransitivity; [|apply IH].
    destruct failed; rewrite !append_None, !flat_app, !len_app; lia.
  Qed.

  Lemma append_same cap out p : len (flat (out ++ [p])) < cap -> append c (Some cap) out p = append c None out p.
  Proof.
    intros H. unfold append. rewrite flat_app, flat_one in H. now rewrite str_append_fits.
  Qed.

  Ltac inner_same :=
    match goal with
    | |- context [append c (Some ?cp) ?d ?a] =>
      lazymatch d with
      | context [append c (Some _) _ _] => fail
      | _ => rewrite (append_same cp d a) by (rewrite ?append_None in *; rewrite ?flat_app, ?len_app in *; lia)
      end
    end.

  Lemma expand_exact_aux fuel cap dsbuf : forall out fmt,
      len (flat (expand_aux c known ds fuel None dsbuf out fmt)) < cap ->
      expand_aux c known ds fuel (Some cap) dsbuf out fmt = expand_aux c known ds fuel None dsbuf out fmt.
  Proof.
    induction fuel as [|fuel IH]; intros out fmt H; cbn [expand_aux] in *; [reflexivity|].
    destruct (strstr fmt (tag_open c)) as [i|].
    2:{ apply append_same. rewrite append_None in H. exact H. }
    destruct (strstr (skipn i fmt) (tag_close c)) as [j|].
    2:{ repeat inner_same. reflexivity. }
    destruct (split_colon c _) as [name arg].
    destruct (negb (known name)).
    { repeat inner_same. reflexivity. }
    destruct (ds name arg dsbuf) as [failed txt].
    pose proof (full_grows fuel dsbuf) as G.
    destruct failed.
    - match type of H with len (flat (expand_aux _ _ _ _ _ _ ?o ?f)) < _ => pose proof (G o f) as G1 end.
      repeat inner_same. apply IH. exact H.
    - match type of H with len (flat (expand_aux _ _ _ _ _ _ ?o ?f)) < _ => pose proof (G o f) as G1 end.
      repeat inner_same. apply IH. exact H.
  Qed.

  Theorem generate_exact bufsize third fmt :
    len (full c known ds third fmt) < bufsize -> generate c known ds bufsize third fmt = full c known ds third fmt.
  Proof.
    unfold generate, full, generate_pieces, full_pieces. destruct fmt as [|b fmt]; [reflexivity|].
    intros H. f_equal. now apply expand_exact_aux.
  Qed.

  Theorem log_message_exact Llog Lds fmt :
    len (full c known ds (Lds + call_ds_adj c) fmt) <= Llog ->
    log_message c known ds Llog Lds fmt = full c known ds (Lds + call_ds_adj c) fmt.
  Proof.
    intros H. unfold log_message. apply generate_exact. destruct ok_adj as [_ [E _]]. lia.
  Qed.

  (** a message is NUL-free when the format, the constants and the data-source outputs are *)
End Proofs.
