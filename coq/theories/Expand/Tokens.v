(** Independent, character-level reading of the message-format grammar of the property text,
    and the theorem that the unbounded run of the C loop model ([full]) is the rendering of that
    token list.  Together with [generate_exact] this makes "emitted exactly" refer to the
    documented expansion, not to the loop itself. *)
From Snoopy Require Import Lib.CStr Expand.Model Expand.Proofs.
From Coq Require Import ZifyBool ZifyN ZifyNat.
Local Open Scope nat_scope.
Local Open Scope list_scope.

Definition PCT := x25. Definition LBR := x7b. Definition RBR := x7d.

(** bytes up to the first '}' and the rest after it *)
Fixpoint until_close (s : list byte) : option (list byte * list byte) :=
  match s with
  | [] => None
  | b :: s' => if beq b RBR then Some ([], s')
               else match until_close s' with Some (t, r) => Some (b :: t, r) | None => None end
  end.

Fixpoint split_first_colon (t : list byte) : list byte * list byte :=
  match t with
  | [] => ([], [])
  | b :: t' => if beq b COLONB then ([], t') else let '(n, a) := split_first_colon t' in (b :: n, a)
  end.

Definition flush (lit : list byte) : list token := match lit with [] => [] | _ => [TLit lit] end.

(** left-to-right scan: literal text until "%{", then a tag up to the first '}' *)
Fixpoint tokens (fuel : nat) (s lit : list byte) : list token :=
  match fuel with
  | O => flush lit
  | S f =>
    match s with
    | [] => flush lit
    | b :: s' =>
      match s' with
      | b2 :: rest =>
        if beq b PCT && beq b2 LBR then
          flush lit ++ match until_close rest with
                       | None => [TUnterminated]
                       | Some (tag, after) => let '(n, a) := split_first_colon tag in TTag n a :: tokens f after []
                       end
        else tokens f s' (lit ++ [b])
      | [] => flush (lit ++ [b])
      end
    end
  end.

(** * strstr against the character scanners *)
Lemma prefixb_open s : prefixb [PCT; LBR] s = match s with b :: b2 :: _ => beq PCT b && beq LBR b2 | _ => false end.
Proof. destruct s as [|b [|b2 r]]; cbn; try reflexivity. - now rewrite andb_false_r. - now rewrite andb_true_r. Qed.

Lemma beq_sym a b : beq a b = beq b a.
Proof. destruct (beq a b) eqn:E. - apply beq_eq in E. subst. symmetry. apply beq_refl. - apply beq_neq in E. symmetry. apply beq_neq. congruence. Qed.

(** until_close vs strstr "}" *)
Lemma until_close_strstr s : match strstr s [RBR] with
                             | None => until_close s = None
                             | Some j => until_close s = Some (firstn j s, skipn (S j) s)
                             end.
Proof.
  induction s as [|b s IH]; cbn [strstr until_close prefixb]; [reflexivity|].
  rewrite (beq_sym RBR b). destruct (beq b RBR) eqn:E; cbn [andb].
  - reflexivity.
  - destruct (strstr s [RBR]) as [j|]; cbn [option_map].
    + rewrite IH. reflexivity.
    + rewrite IH. reflexivity.
Qed.

Lemma split_first_colon_strstr t : match strstr t [COLONB] with
                                   | None => split_first_colon t = (t, [])
                                   | Some i => split_first_colon t = (firstn i t, skipn (S i) t)
                                   end.
Proof.
  induction t as [|b t IH]; cbn [strstr split_first_colon prefixb]; [reflexivity|].
  rewrite (beq_sym COLONB b). destruct (beq b COLONB) eqn:E; cbn [andb].
  - reflexivity.
  - destruct (strstr t [COLONB]) as [j|]; cbn [option_map]; rewrite IH; reflexivity.
Qed.

Section Render.
  Variable c : expand_consts.
  Hypothesis Hopen : tag_open c = [PCT; LBR].
  Hypothesis Hclose : tag_close c = [RBR].
  Hypothesis Hcolon : tag_colon c = [COLONB].
  Variable known : list byte -> bool.
  Variable ds : list byte -> list byte -> N -> bool * list byte.

  Lemma split_colon_eq tag : split_colon c tag = split_first_colon tag.
  Proof.
    unfold split_colon. rewrite Hcolon. pose proof (split_first_colon_strstr tag) as H.
    destruct (strstr tag [COLONB]) as [i|]; rewrite H; [|reflexivity]. cbn [length]. now rewrite Nat.add_1_r.
  Qed.

  (** the unbounded run appends to whatever is already there *)
  Lemma flat_append_None out p : flat (append c None out p) = flat out ++ snd p.
  Proof. unfold append. now rewrite flat_app, flat_one. Qed.

  Lemma expand_None_prefix fuel dsbuf : forall out fmt,
      flat (expand_aux c known ds fuel None dsbuf out fmt) = flat out ++ flat (expand_aux c known ds fuel None dsbuf [] fmt).
  Proof.
    induction fuel as [|fuel IH]; intros out fmt; cbn [expand_aux]; [cbn; now rewrite app_nil_r|].
    destruct (strstr fmt (tag_open c)) as [i|]; [|rewrite !flat_append_None; reflexivity].
    destruct (strstr (skipn i fmt) (tag_close c)) as [j|].
    2:{ rewrite !flat_append_None. cbn [flat map concat snd app]. now rewrite ?app_assoc. }
    destruct (split_colon c _) as [name arg].
    destruct (negb (known name)).
    { rewrite !flat_append_None. cbn [flat map concat snd app]. now rewrite ?app_assoc. }
    destruct (ds name arg dsbuf) as [failed txt].
    rewrite IH. symmetry. rewrite IH. symmetry.
    destruct failed; rewrite !flat_append_None; cbn [flat map concat snd app]; rewrite <- ?app_assoc; reflexivity.
  Qed.

  (** literal prefix: no "%{" at the front positions scanned so far *)
  Lemma tokens_lit_step f b s' lit : (match s' with b2 :: _ => beq b PCT && beq b2 LBR | [] => false end) = false ->
      tokens (S f) (b :: s') lit = match s' with [] => flush (lit ++ [b]) | _ => tokens f s' (lit ++ [b]) end.
  Proof. intros H. cbn [tokens]. destruct s' as [|b2 rest]; [reflexivity|]. now rewrite H. Qed.

  Lemma render_flush dsbuf lit ts : render c known ds dsbuf (flush lit ++ ts) = lit ++ render c known ds dsbuf ts.
  Proof. destruct lit; reflexivity. Qed.

  (** main lemma: the C loop on [fmt] with pending literal [lit] already accounted for *)
  Lemma full_tokens dsbuf : forall fuel fuel' fmt lit,
      length fmt < fuel -> length fmt < fuel' ->
      lit ++ flat (expand_aux c known ds fuel None dsbuf [] fmt) = render c known ds dsbuf (tokens fuel' fmt lit).
  Proof.
    (* strong induction on the length of fmt *)
    intros fuel fuel' fmt. remember (length fmt) as n eqn:En. revert fuel fuel' fmt En.
    induction n as [n IHn] using lt_wf_ind. intros fuel fuel' fmt En lit Hf Hf'.
    destruct fuel as [|fuel]; [lia|]. destruct fuel' as [|fuel']; [lia|].
    cbn [expand_aux]. rewrite Hopen.
    destruct fmt as [|b s'].
    { cbn. rewrite app_nil_r. destruct lit; cbn; now rewrite ?app_nil_r. }
    cbn [strstr]. rewrite prefixb_open.
    destruct s' as [|b2 rest].
    { (* single byte: no tag *)
      cbn [strstr prefixb option_map]. cbn [tokens]. rewrite flat_append_None. cbn [flat map concat snd app].
      unfold flush. destruct (lit ++ [b]) eqn:E; [destruct lit; discriminate|]. cbn [render render_token]. rewrite app_nil_r, <- E. reflexivity. }
    rewrite (beq_sym PCT b), (beq_sym LBR b2).
    destruct (beq b PCT && beq b2 LBR) eqn:Eopen.
    - (* tag starts here: i = 0 *)
      cbn [tokens]. rewrite Eopen. cbn [skipn firstn]. rewrite Hclose.
      apply andb_true_iff in Eopen as [E1 E2]. apply beq_eq in E1, E2. subst b b2.
      (* strstr ("%{" ++ rest) "}" = 2 + position in rest *)
      cbn [strstr prefixb]. change (beq RBR PCT) with false. cbn [andb]. change (beq RBR LBR) with false. cbn [andb].
      pose proof (until_close_strstr rest) as UC.
      destruct (strstr rest [RBR]) as [j|]; cbn [option_map].
      + rewrite UC. rewrite render_flush.
        cbn [length]. replace (S (S j) - 2) with j by lia. cbn [skipn].
        rewrite split_colon_eq. destruct (split_first_colon (firstn j rest)) as [name arg].
        cbn [render render_token].
        replace (S (S j) + 1) with (S (S (S j))) by lia. cbn [skipn].
        assert (Hlen : length (skipn (S j) rest) < n).
        { subst n. cbn [length]. rewrite skipn_length. lia. }
        destruct (negb (known name)).
        * rewrite !flat_append_None. cbn [flat map concat snd app]. rewrite <- ?app_assoc. rewrite ?app_nil_r. reflexivity.
        * destruct (ds name arg dsbuf) as [failed txt].
          rewrite expand_None_prefix.
          assert (Hf2 : length (skipn (S j) rest) < fuel) by (subst n; cbn [length] in *; rewrite skipn_length; lia).
          assert (Hf3 : length (skipn (S j) rest) < fuel') by (subst n; cbn [length] in *; rewrite skipn_length; lia).
          pose proof (IHn _ Hlen fuel fuel' (skipn (S j) rest) eq_refl [] Hf2 Hf3) as IH. cbn [app] in IH.
          destruct failed; rewrite !flat_append_None; cbn [flat map concat snd app]; rewrite <- ?app_assoc; rewrite ?app_nil_r; repeat (apply f_equal); exact IH.
      + rewrite UC. rewrite render_flush. rewrite !flat_append_None. cbn [flat map concat snd app render render_token]. now rewrite ?app_nil_r.
    - (* literal byte: the first "%{" (if any) lies further right *)
      rewrite tokens_lit_step by exact Eopen.
      assert (Hlen : length (b2 :: rest) < n) by (subst n; cbn [length]; lia).
      assert (Hf2 : length (b2 :: rest) < fuel) by (subst n; cbn [length] in *; lia).
      assert (Hf3 : length (b2 :: rest) < fuel') by (subst n; cbn [length] in *; lia).
      pose proof (IHn _ Hlen (S fuel) fuel' (b2 :: rest) eq_refl (lit ++ [b]) ltac:(lia) Hf3) as IH.
      rewrite <- IH. clear IH IHn.
      (* relate the run on (b :: b2 :: rest) to the run on (b2 :: rest) *)
      cbn [expand_aux]. rewrite Hopen.
      destruct (strstr (b2 :: rest) [PCT; LBR]) as [i|] eqn:Es; cbn [option_map].
      + cbn [skipn firstn].
        destruct (strstr (skipn i (b2 :: rest)) (tag_close c)) as [j|].
        * destruct (split_colon c _) as [name arg].
          destruct (negb (known name)).
          -- rewrite !flat_append_None. cbn [flat map concat snd app]. now rewrite <- ?app_assoc.
          -- destruct (ds name arg dsbuf) as [failed txt].
             rewrite expand_None_prefix. symmetry. rewrite expand_None_prefix. symmetry.
             destruct failed; rewrite !flat_append_None; cbn [flat map concat snd app]; rewrite <- ?app_assoc; reflexivity.
        * rewrite !flat_append_None. cbn [flat map concat snd app]. now rewrite <- ?app_assoc.
      + rewrite !flat_append_None. cbn [flat map concat snd app]. now rewrite <- app_assoc.
  Qed.

  (** the ideal expansion is the rendering of the token list *)
  Theorem full_is_render third fmt :
    full c known ds third fmt = render c known ds (third + ds_buf_adj c)%N (tokens (S (length fmt)) fmt []).
  Proof.
    unfold full, full_pieces. destruct fmt as [|b fmt]; [reflexivity|].
    pose proof (full_tokens (third + ds_buf_adj c)%N (S (length (b :: fmt))) (S (length (b :: fmt))) (b :: fmt) []) as H.
    cbn [app] in H. apply H; lia.
  Qed.
End Render.
