(** C03, executable side (extracted to OCaml, driven by ocaml/drv_fault.ml).

    [accept]: plays the model program against the call trace that libfault.so observed between the harness
    markers: at every step the model's next call must be the observed call (function, flag words, mode, path),
    the observed outcome is fed back as the oracle's answer, and the model must be at its RealExec exactly
    when the trace reaches the real exec.  [CPure] steps are answered from a table supplied with the case.

    [spec_trace_ok]: the property itself evaluated on the OBSERVED calls: one real exec, at the end, and every
    observed socket/connect/send/open/write classified non-blocking and signal-free by the table. *)
From Snoopy Require Import Lib.CStr Expand.Model Fault.IO Fault.Model Fault.Table.
From Coq Require Import ZArith.
From Coq Require Strings.String.
Local Open Scope string_scope.
Import Strings.String.StringSyntax.
Local Open Scope N_scope.
Local Open Scope list_scope.

(** one observed libc-boundary call: function name, the two logged arguments, and its outcome *)
Record obs := { ob_fn : list byte; ob_a1 : list byte; ob_a2 : list byte; ob_out : outcome }.

Definition decz (z : Z) : list byte := if (z <? 0)%Z then x2d :: dec (z2n (- z)) else dec (z2n z).

Section Exec.
  Variable c : fault_consts.
  Variable ec : expand_consts.
  Variable ini_path : list byte.

  Definition path_matches (p : path) (s : list byte) : bool :=
    match p with
    | PIni => list_eqb s ini_path
    | PLit l => list_eqb s l
    | PProc pid leaf => list_eqb s (bs "/proc/" ++ decz pid ++ [x2f] ++ leaf)
    | PTemplate => true
    end.

  Definition fn_is (o : obs) (s : String.string) : bool := list_eqb (ob_fn o) (bs s).

  Definition call_matches (cl : call) (o : obs) : bool :=
    match cl with
    | CFopen p m => fn_is o "fopen" && path_matches p (ob_a1 o) && list_eqb m (ob_a2 o)
    | CFread _ n => fn_is o "fread" && list_eqb (ob_a1 o) (dec n)
    | CFgets _ => fn_is o "fgets"
    | CGetline _ => fn_is o "getline"
    | CFclose _ => fn_is o "fclose"
    | COpen p fl => fn_is o "open" && path_matches p (ob_a1 o) && list_eqb (ob_a2 o) (dec fl)
    | CWrite _ _ => fn_is o "write"
    | CClose _ => fn_is o "close" && negb (list_eqb (ob_a1 o) (bs "sock"))
    | CSockClose => fn_is o "close" && list_eqb (ob_a1 o) (bs "sock")
    | CSocket d t => fn_is o "socket" && list_eqb (ob_a1 o) (dec d) && list_eqb (ob_a2 o) (dec t)
    | CConnect _ _ a => fn_is o "connect" && list_eqb (ob_a1 o) a
    | CSend _ _ fl => fn_is o "send" && list_eqb (ob_a1 o) (dec fl)
    | CDprintf fd => fn_is o "dprintf" && list_eqb (ob_a1 o) (dec fd)
    | CFprintf fd => fn_is o "fprintf" && list_eqb (ob_a1 o) (if fd =? 2 then bs "stderr" else if fd =? 1 then bs "stdout" else bs "file")
    | CStat => fn_is o "stat" | CTtyname => fn_is o "ttyname_r" | CGetcwd => fn_is o "getcwd" | CGethostname => fn_is o "gethostname"
    | CGetpwuid => fn_is o "getpwuid_r" | CGetgrgid => fn_is o "getgrgid_r" | CGetlogin => fn_is o "getlogin_r"
    | CTime => fn_is o "time" | CLocaltime => fn_is o "localtime_r" | CGettimeofday => fn_is o "gettimeofday"
    | CSetutent => fn_is o "setutent" | CGetutline => fn_is o "getutline_r" | CEndutent => fn_is o "endutent"
    | COpenlog => fn_is o "openlog" | CSyslog => fn_is o "syslog" | CCloselog => fn_is o "closelog"
    | CGetpid => fn_is o "getpid" | CGetppid => fn_is o "getppid"
    | CPure _ => false
    | CRealExec => fn_is o "REALEXEC"
    end.

  (** a short name of a model call, for mismatch reports *)
  Definition call_name (cl : call) : list byte :=
    match cl with
    | CFopen p m => bs "fopen:" ++ (match p with PIni => bs "<ini>" | PLit l => l | PProc pid leaf => bs "/proc/" ++ decz pid ++ [x2f] ++ leaf | PTemplate => bs "<template>" end) ++ [x3a] ++ m
    | CFread _ n => bs "fread:" ++ dec n | CFgets _ => bs "fgets" | CGetline _ => bs "getline" | CFclose _ => bs "fclose"
    | COpen p fl => bs "open:" ++ (match p with PLit l => l | _ => bs "<template>" end) ++ [x3a] ++ dec fl
    | CWrite _ _ => bs "write" | CClose _ => bs "close" | CSockClose => bs "close:sock"
    | CSocket d t => bs "socket:" ++ dec d ++ [x3a] ++ dec t | CConnect _ _ a => bs "connect:" ++ a | CSend _ _ fl => bs "send:" ++ dec fl
    | CDprintf fd => bs "dprintf:" ++ dec fd | CFprintf fd => bs "fprintf:" ++ dec fd
    | CStat => bs "stat" | CTtyname => bs "ttyname_r" | CGetcwd => bs "getcwd" | CGethostname => bs "gethostname"
    | CGetpwuid => bs "getpwuid_r" | CGetgrgid => bs "getgrgid_r" | CGetlogin => bs "getlogin_r"
    | CTime => bs "time" | CLocaltime => bs "localtime_r" | CGettimeofday => bs "gettimeofday"
    | CSetutent => bs "setutent" | CGetutline => bs "getutline_r" | CEndutent => bs "endutent"
    | COpenlog => bs "openlog" | CSyslog => bs "syslog" | CCloselog => bs "closelog"
    | CGetpid => bs "getpid" | CGetppid => bs "getppid"
    | CPure w => bs "pure:" ++ w
    | CRealExec => bs "REALEXEC"
    end.

  Inductive verdict :=
  | VAccept (ncalls : N) (npure : N)
  | VMismatch (at_ : N) (model_wants : list byte) (observed : list byte)
  | VModelEnded (at_ : N) (observed : list byte)       (* the model returned, the implementation made further calls *)
  | VModelWants (at_ : N) (model_wants : list byte)    (* the trace ended, the model still has calls to make *)
  | VHang (at_ : N).

  Fixpoint accept {R} (p : prog R) (pure : list byte -> outcome) (tr : list obs) (i np : N) : verdict :=
    match p with
    | Ret _ => match tr with [] => VAccept i np | o :: _ => VModelEnded i (ob_fn o) end
    | Hang => VHang i
    | Do (CPure w) k => accept (k (pure w)) pure tr i (np + 1)
    | Do cl k =>
      match tr with
      | [] => VModelWants i (call_name cl)
      | o :: tr' => if call_matches cl o then accept (k (ob_out o)) pure tr' (i + 1) np else VMismatch i (call_name cl) (ob_fn o ++ [x3a] ++ ob_a1 o ++ [x3a] ++ ob_a2 o)
      end
    end.

  (** the whole wrapped call against one observed trace *)
  Definition accept_wrapper (fuel : nat) (cfg_none cfg_some : config) (pure : list byte -> outcome) (tr : list obs) : verdict :=
    accept (wrapper c ec (fun l => match l with None => cfg_none | Some _ => cfg_some end) fuel) pure tr 0 0.

  (** * the property on the observed calls *)
  Definition numarg (s : list byte) : N := digits_val s.

  (** classify the observed calls with the table; the socket's creation word is remembered for connect/send *)
  Fixpoint observed_bad (w : world) (tr : list obs) (dom ty : N) : option (list byte) :=
    match tr with
    | [] => None
    | o :: tr' =>
      let cl : option call :=
        if fn_is o "socket" then Some (CSocket (numarg (ob_a1 o)) (numarg (ob_a2 o)))
        else if fn_is o "connect" then Some (CConnect dom ty (ob_a1 o))
        else if fn_is o "send" then Some (CSend dom ty (numarg (ob_a1 o)))
        else if fn_is o "open" then Some (COpen (PLit (ob_a1 o)) (numarg (ob_a2 o)))
        else if fn_is o "dprintf" then Some (CDprintf (numarg (ob_a1 o)))
        else if fn_is o "fprintf" then Some (CFprintf (if list_eqb (ob_a1 o) (bs "stderr") then 2 else 1))
        else if fn_is o "syslog" then Some CSyslog
        else None in
      let '(dom', ty') := if fn_is o "socket" then (numarg (ob_a1 o), numarg (ob_a2 o)) else (dom, ty) in
      match cl with
      | Some k => if may_block c w k then Some (bs "may-block:" ++ call_name k)
                  else if may_signal c w k then Some (bs "may-signal:" ++ call_name k)
                  else observed_bad w tr' dom' ty'
      | None => observed_bad w tr' dom' ty'
      end
    end.

  Definition count_exec (tr : list obs) : nat := List.length (filter (fun o => fn_is o "REALEXEC") tr).
  Definition last_is_exec (tr : list obs) : bool := match rev tr with o :: _ => fn_is o "REALEXEC" | [] => false end.

  (** [None] = the observed trace satisfies the property under world [w] *)
  Definition spec_trace_bad (w : world) (tr : list obs) : option (list byte) :=
    if negb (Nat.eqb (count_exec tr) 1) then Some (bs "real-exec-count")
    else if negb (last_is_exec tr) then Some (bs "calls-after-real-exec")
    else observed_bad w tr 0 0.
End Exec.
