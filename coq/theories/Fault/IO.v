(** Interaction programs over the libc boundary (DESIGN 3.4), for C03.

    [prog R] is a tree: return a value, issue one libc-boundary [call] and continue with whatever
    [outcome] the environment hands back, or [Hang] (the C program would still be looping: the model's
    fuel ran out).  [run p o i] plays [p] against an [oracle] that decides the outcome of the n-th call
    from its position and the call itself; quantifying over all oracles quantifies over every number
    and combination of failing calls, with every errno, and over every data a successful call may
    return.  Nothing here depends on the code under study. *)
From Snoopy Require Import Lib.CStr.
From Coq Require Import ZArith Lia.
Local Open Scope list_scope.

(** which object a path-taking call names *)
Inductive path :=
| PIni                                   (* the configuration file *)
| PLit (s : list byte)                   (* a path spelled in the source or given literally in the configuration *)
| PProc (pid : Z) (leaf : list byte)     (* /proc/<pid>/<leaf> *)
| PTemplate.                             (* the expansion of a configured path template that contains data-source tags *)

(** the libc-boundary operations the library issues.  Calls on an open stream / descriptor carry what
    the model knows about that stream (the path it was opened on, the flag words it was created with),
    so that the classification table can refer to it. *)
Inductive call :=
| CFopen (p : path) (mode : list byte)
| CFread (p : path) (n : N)
| CFgets (p : path)
| CGetline (p : path)
| CFclose (p : path)
| COpen (p : path) (flags : N)
| CWrite (p : path) (oflags : N)         (* write(2) on the descriptor open() returned for [p] with [oflags] *)
| CClose (p : path)
| CSocket (dom ty : N)                   (* ty = type | SOCK_* flags *)
| CConnect (dom ty : N) (addr : list byte)
| CSend (dom ty : N) (flags : N)
| CSockClose
| CDprintf (fd : N)                      (* on a descriptor of the CALLER (1) *)
| CFprintf (fd : N)                      (* on a stdio stream of the CALLER (stderr = 2) *)
| CStat | CTtyname | CGetcwd | CGethostname | CGetpwuid | CGetgrgid | CGetlogin
| CTime | CLocaltime | CGettimeofday
| CSetutent | CGetutline | CEndutent
| COpenlog | CSyslog | CCloselog
| CGetpid | CGetppid
| CPure (what : list byte)               (* a value computed inside the library that the model leaves open (no I/O) *)
| CRealExec.

(** success with a number and bytes (count, pid, flag / line, buffer contents), or failure with an errno *)
Inductive outcome := OOk (n : Z) (data : list byte) | OErr (e : N).

(* local conversions (not Z.to_N / Z.of_N, whose extracted names would shadow Byte.to_N / Byte.of_N in the shared OCaml prelude) *)
Definition z2n (z : Z) : N := match z with Zpos p => Npos p | _ => 0%N end.
Definition n2z (n : N) : Z := match n with N0 => Z0 | Npos p => Zpos p end.
Lemma z2n_eq z : z2n z = Z.to_N z.  Proof. destruct z; reflexivity. Qed.
Lemma n2z_eq n : n2z n = Z.of_N n.  Proof. destruct n; reflexivity. Qed.

Definition is_err (o : outcome) : bool := match o with OErr _ => true | OOk _ _ => false end.
Definition onum (o : outcome) : Z := match o with OOk n _ => n | OErr _ => 0%Z end.
Definition odata (o : outcome) : list byte := match o with OOk _ d => d | OErr _ => [] end.

Inductive prog (R : Type) : Type :=
| Ret (r : R)
| Do (c : call) (k : outcome -> prog R)
| Hang.
Arguments Ret {R} r.
Arguments Do {R} c k.
Arguments Hang {R}.

Fixpoint pbind {A B} (p : prog A) (f : A -> prog B) : prog B :=
  match p with
  | Ret a => f a
  | Do c k => Do c (fun o => pbind (k o) f)
  | Hang => Hang
  end.
Notation "'let*' x ':=' p 'in' k" := (pbind p (fun x => k)) (at level 200, x pattern, p at level 100, k at level 200, right associativity).
Definition pseq {A B} (p : prog A) (q : prog B) : prog B := pbind p (fun _ => q).
Notation "p ';;;' q" := (pseq p q) (at level 100, right associativity).

Definition oracle := nat -> call -> outcome.
Definition event := (call * outcome)%type.

(** [run p o i]: the trace of (call, outcome) pairs and the result ([None] = hang), the first call being number [i] *)
Fixpoint run {R} (p : prog R) (o : oracle) (i : nat) : list event * option R :=
  match p with
  | Ret r => ([], Some r)
  | Hang => ([], None)
  | Do c k => let r := o i c in let '(t, x) := run (k r) o (S i) in ((c, r) :: t, x)
  end.

Lemma run_bind {A B} (p : prog A) (f : A -> prog B) o : forall i,
  run (pbind p f) o i =
  match run p o i with
  | (t1, None) => (t1, None)
  | (t1, Some a) => let '(t2, r) := run (f a) o (i + length t1) in (t1 ++ t2, r)
  end.
Proof.
  induction p as [a|c k IH|]; intros i; cbn [pbind run].
  - rewrite Nat.add_0_r. destruct (run (f a) o i). reflexivity.
  - rewrite IH. destruct (run (k (o i c)) o (S i)) as [t1 [a|]]; [|reflexivity].
    cbn [length]. replace (i + S (length t1)) with (S i + length t1) by lia.
    destruct (run (f a) o (S i + length t1)). reflexivity.
  - reflexivity.
Qed.

(** * every call a program can ever issue (under any outcomes) satisfies [P] *)
Inductive all_calls {R} (P : call -> Prop) : prog R -> Prop :=
| AC_Ret r : all_calls P (Ret r)
| AC_Hang : all_calls P Hang
| AC_Do c k : P c -> (forall o, all_calls P (k o)) -> all_calls P (Do c k).

Lemma all_calls_bind {A B} P (p : prog A) (f : A -> prog B) :
  all_calls P p -> (forall a, all_calls P (f a)) -> all_calls P (pbind p f).
Proof. induction 1; intros Hf; cbn [pbind]; [apply Hf|constructor|constructor; auto]. Qed.

Lemma all_calls_seq {A B} P (p : prog A) (q : prog B) : all_calls P p -> all_calls P q -> all_calls P (p ;;; q).
Proof. intros. apply all_calls_bind; auto. Qed.

Lemma all_calls_impl {R} (P Q : call -> Prop) (p : prog R) : (forall c, P c -> Q c) -> all_calls P p -> all_calls Q p.
Proof. intros H. induction 1; constructor; auto. Qed.

Lemma all_calls_run {R} P (p : prog R) : all_calls P p -> forall o i, Forall (fun e => P (fst e)) (fst (run p o i)).
Proof.
  induction 1 as [r| |c k Hc Hk IH]; intros o i; cbn [run]; try constructor.
  specialize (IH (o i c) o (S i)). destruct (run (k (o i c)) o (S i)). cbn [fst] in *. constructor; [exact Hc|exact IH].
Qed.

(** * programs without [Hang]: they return under every oracle *)
Inductive hangfree {R} : prog R -> Prop :=
| HF_Ret r : hangfree (Ret r)
| HF_Do c k : (forall o, hangfree (k o)) -> hangfree (Do c k).

Lemma hangfree_bind {A B} (p : prog A) (f : A -> prog B) : hangfree p -> (forall a, hangfree (f a)) -> hangfree (pbind p f).
Proof. induction 1; intros Hf; cbn [pbind]; [apply Hf|constructor; auto]. Qed.

Lemma hangfree_seq {A B} (p : prog A) (q : prog B) : hangfree p -> hangfree q -> hangfree (p ;;; q).
Proof. intros. apply hangfree_bind; auto. Qed.

Lemma hangfree_run {R} (p : prog R) : hangfree p -> forall o i, exists r, snd (run p o i) = Some r.
Proof.
  induction 1 as [r|c k Hk IH]; intros o i; cbn [run]; [eexists; reflexivity|].
  destruct (IH (o i c) o (S i)) as [r Hr]. destruct (run (k (o i c)) o (S i)). cbn [snd] in *. eauto.
Qed.

(** returning under ONE given oracle from position [i] (used where termination needs facts about the oracle) *)
Definition returns {R} (p : prog R) (o : oracle) (i : nat) : Prop := exists r, snd (run p o i) = Some r.

Lemma returns_bind {A B} (p : prog A) (f : A -> prog B) o i :
  returns p o i -> (forall a t, run p o i = (t, Some a) -> returns (f a) o (i + length t)) -> returns (pbind p f) o i.
Proof.
  intros [a Ha] Hf. unfold returns. rewrite run_bind. destruct (run p o i) as [t1 r1] eqn:E. cbn [snd] in Ha. subst r1.
  destruct (Hf a t1 eq_refl) as [b Hb]. destruct (run (f a) o (i + length t1)). cbn [snd] in *. eauto.
Qed.

Lemma hangfree_returns {R} (p : prog R) o i : hangfree p -> returns p o i.
Proof. intros H. apply hangfree_run. exact H. Qed.

(** * "exactly one RealExec, and it is the last event" *)
Definition is_exec (c : call) : bool := match c with CRealExec => true | _ => false end.
Definition no_exec (c : call) : Prop := is_exec c = false.

Definition ends_in_one_exec (t : list event) (res : outcome) : Prop :=
  exists pre, t = pre ++ [(CRealExec, res)] /\ Forall (fun e => no_exec (fst e)) pre.

Lemma run_then_exec {A} (p : prog A) o i :
  all_calls no_exec p -> returns p o i ->
  exists pre, run (p ;;; Do CRealExec (fun r => Ret r)) o i = (pre ++ [(CRealExec, o (i + length pre) CRealExec)], Some (o (i + length pre) CRealExec))
              /\ Forall (fun e => no_exec (fst e)) pre /\ pre = fst (run p o i).
Proof.
  intros Hc [a Ha]. unfold pseq. rewrite run_bind. pose proof (all_calls_run _ _ Hc o i) as F.
  destruct (run p o i) as [t1 r1]. cbn [snd fst] in *. subst r1. exists t1. cbn [run]. repeat split; assumption.
Qed.

(** * returning, with a postcondition on the value, under ONE oracle from position [i] *)
Definition rets {R} (p : prog R) (o : oracle) (i : nat) (Q : R -> Prop) : Prop := exists r, snd (run p o i) = Some r /\ Q r.

Lemma rets_ret {R} (r : R) o i (Q : R -> Prop) : Q r -> rets (Ret r) o i Q.
Proof. intros. exists r. split; [reflexivity|assumption]. Qed.

Lemma rets_do {R} c (k : outcome -> prog R) o i Q : rets (k (o i c)) o (S i) Q -> rets (Do c k) o i Q.
Proof. intros [r [Hr Hq]]. exists r. cbn [run]. destruct (run (k (o i c)) o (S i)). cbn [snd] in *. auto. Qed.

Lemma rets_bind {A B} (p : prog A) (f : A -> prog B) o i (Q1 : A -> Prop) (Q : B -> Prop) :
  rets p o i Q1 -> (forall a j, Q1 a -> rets (f a) o j Q) -> rets (pbind p f) o i Q.
Proof.
  intros [a [Ha Hq]] Hf. unfold rets. rewrite run_bind. destruct (run p o i) as [t1 r1]. cbn [snd] in Ha. subst r1.
  destruct (Hf a (i + length t1) Hq) as [b [Hb Hqb]]. destruct (run (f a) o (i + length t1)). cbn [snd] in *. eauto.
Qed.

Lemma rets_seq {A B} (p : prog A) (q : prog B) o i (Q1 : A -> Prop) (Q : B -> Prop) :
  rets p o i Q1 -> (forall j, rets q o j Q) -> rets (p ;;; q) o i Q.
Proof. intros H1 H2. apply (rets_bind _ _ _ _ Q1); auto. Qed.

Lemma rets_weaken {R} (p : prog R) o i (Q Q' : R -> Prop) : rets p o i Q -> (forall r, Q r -> Q' r) -> rets p o i Q'.
Proof. intros [r [H1 H2]] H. exists r. auto. Qed.

Lemma rets_returns {R} (p : prog R) o i Q : rets p o i Q -> returns p o i.
Proof. intros [r [H _]]. exists r. exact H. Qed.

Lemma hangfree_rets {R} (p : prog R) o i : hangfree p -> rets p o i (fun _ => True).
Proof. intros H. destruct (hangfree_run p H o i) as [r Hr]. exists r. auto. Qed.
