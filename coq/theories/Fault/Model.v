(** C03: models, at libc-call granularity, of everything the library does between the entry of an exec
    wrapper and the real exec: configuration file read (ini.c), filter chain (filtering.c and the
    filters that perform I/O), message assembly (message.c) with every data source that performs I/O,
    the error handler (error.c), dispatch and all eight outputs.

    The programs follow the C code path by path: every failure branch, every early return, every
    close on an error path.  What is NOT decided here is left to the oracle: the outcome of each call
    (success data or errno) and, through [CPure], values the library computes without I/O (the length of
    a data-source result, the verdict of a uid filter); the theorems hold for all of them.

    Constants (flag words, fopen modes, sizes, paths) are regenerated from the source (Gen_Fault.v). *)
From Snoopy Require Import Lib.CStr Expand.Model Expand.Tokens Fault.IO.
From Coq Require Import ZArith String ZifyBool ZifyN ZifyNat.
Local Open Scope N_scope.
Local Open Scope list_scope.

Record fault_consts := {
  (* bit values of the platform headers the build uses (evaluated with the build's compiler) *)
  b_af_unix : N; b_sock_dgram : N; b_sock_typemask : N; b_sock_nonblock : N; b_sock_cloexec : N;
  b_msg_dontwait : N; b_msg_nosignal : N;
  b_o_accmode : N; b_o_wronly : N; b_o_creat : N; b_o_append : N; b_o_nonblock : N; b_o_trunc : N;
  (* socketoutput.c *)
  sock_dom : N; sock_ty : N; send_flags : N; sock_path_max : N;
  (* fileoutput.c and its two wrappers *)
  file_oflags : N; devtty_path : list byte; devnull_path : list byte;
  (* devlogoutput.c *)
  devlog_path : list byte;
  (* fopen modes of the five stdio readers, /etc/hosts *)
  mode_ini : list byte; mode_file : list byte; mode_rpname : list byte; mode_spawns : list byte; mode_domain : list byte;
  hosts_path : list byte;
  (* util/file.c *)
  file_max : N; file_fread : N;
  (* exclude_spawns_of.c: bytes requested by fread, minimum accepted, size of the command buffer *)
  sp_read : N; sp_min : N; sp_comm_max : N;
  (* rpname.c: bound of the copied property value *)
  rp_val_max : N;
  (* error.c: error logging switched off around the error record's own dispatch; length of the text message.c reports *)
  err_guarded : bool; err_msg_len : N;
  (* registries as compiled (names under the #ifdef guards that hold in config.h) *)
  outputs_enabled : list (list byte); datasources_enabled : list (list byte); filters_enabled : list (list byte);
  filtering_compiled : bool
}.

(** the same constants with the re-entrancy guard of error.c removed (the code before repair D9) *)
Definition unguard (c : fault_consts) : fault_consts :=
  {| b_af_unix := b_af_unix c; b_sock_dgram := b_sock_dgram c; b_sock_typemask := b_sock_typemask c; b_sock_nonblock := b_sock_nonblock c;
     b_sock_cloexec := b_sock_cloexec c; b_msg_dontwait := b_msg_dontwait c; b_msg_nosignal := b_msg_nosignal c; b_o_accmode := b_o_accmode c;
     b_o_wronly := b_o_wronly c; b_o_creat := b_o_creat c; b_o_append := b_o_append c; b_o_nonblock := b_o_nonblock c; b_o_trunc := b_o_trunc c;
     sock_dom := sock_dom c; sock_ty := sock_ty c; send_flags := send_flags c; sock_path_max := sock_path_max c; file_oflags := file_oflags c;
     devtty_path := devtty_path c; devnull_path := devnull_path c; devlog_path := devlog_path c; mode_ini := mode_ini c; mode_file := mode_file c;
     mode_rpname := mode_rpname c; mode_spawns := mode_spawns c; mode_domain := mode_domain c; hosts_path := hosts_path c; file_max := file_max c;
     file_fread := file_fread c; sp_read := sp_read c; sp_min := sp_min c; sp_comm_max := sp_comm_max c; rp_val_max := rp_val_max c;
     err_guarded := false; err_msg_len := err_msg_len c; outputs_enabled := outputs_enabled c; datasources_enabled := datasources_enabled c;
     filters_enabled := filters_enabled c; filtering_compiled := filtering_compiled c |}.

Definition has (bit w : N) : bool := negb (bit =? 0) && (N.land w bit =? bit).

(** what the theorems need from the constants (checked by computation on Gen_Fault) *)
Definition fault_consts_ok (c : fault_consts) : bool :=
  (* the datagram socket is created non-blocking and close-on-exec, of the local family *)
  (sock_dom c =? b_af_unix c) && (N.land (sock_ty c) (b_sock_typemask c) =? b_sock_dgram c)
  && has (b_sock_nonblock c) (sock_ty c) && has (b_sock_cloexec c) (sock_ty c)
  (* the record is sent without waiting and without SIGPIPE *)
  && has (b_msg_dontwait c) (send_flags c) && has (b_msg_nosignal c) (send_flags c)
  (* the file is opened write-only, created, appended to, never truncated *)
  && (N.land (file_oflags c) (b_o_accmode c) =? b_o_wronly c) && has (b_o_creat c) (file_oflags c) && has (b_o_append c) (file_oflags c)
  && negb (has (b_o_trunc c) (file_oflags c))
  (* all stdio readers open read-only *)
  && list_eqb (mode_ini c) [x72] && list_eqb (mode_file c) [x72] && list_eqb (mode_rpname c) [x72] && list_eqb (mode_spawns c) [x72] && list_eqb (mode_domain c) [x72]
  (* the read loop of util/file.c makes progress and is bounded *)
  && (1 <=? file_fread c) && (1 <=? file_max c)
  (* the error handler does not re-enter itself *)
  && err_guarded c.

Definition bs (s : string) : list byte := bytes s.

(** * small pure parsers the control flow depends on *)
Definition LPAR := x28. Definition RPAR := x29. Definition MINUS := x2d. Definition PLUS := x2b.

Fixpoint skip_spaces (s : list byte) : list byte :=
  match s with b :: s' => if is_space b then skip_spaces s' else s | [] => [] end.
Fixpoint take_digits (s : list byte) : list byte :=
  match s with b :: s' => if is_digit b then b :: take_digits s' else [] | [] => [] end.

(** atoi: isspace*, optional sign, digits (no digits: 0) *)
Definition atoi_z (s : list byte) : Z :=
  let s1 := skip_spaces s in
  match s1 with
  | b :: r => if beq b MINUS then (- n2z (digits_val (take_digits r)))%Z
              else if beq b PLUS then n2z (digits_val (take_digits r))
              else n2z (digits_val (take_digits s1))
  | [] => 0%Z
  end.

(** sscanf(s, " %c %d", ...) == 2: the int read *)
Definition scan_c_d (s : list byte) : option Z :=
  match skip_spaces s with
  | [] => None
  | _ :: r =>
    let r1 := skip_spaces r in
    match r1 with
    | [] => None
    | b :: r2 =>
      let digs := if beq b MINUS || beq b PLUS then take_digits r2 else take_digits r1 in
      match digs with [] => None | _ => Some (atoi_z r1) end
    end
  end.

Definition nonempty (s : list byte) : bool := match s with [] => false | _ => true end.
Definition mem_bytes (x : list byte) (l : list (list byte)) : bool := existsb (list_eqb x) l.

Definition to_lower (b : byte) : byte :=
  let n := byteN b in if (65 <=? n) && (n <=? 90) then match Byte.of_N (n + 32) with Some x => x | None => b end else b.
Definition strcasestr_b (hay needle : list byte) : bool :=
  match strstr (map to_lower hay) (map to_lower needle) with Some _ => true | None => false end.
Definition cut_at (c : byte) (s : list byte) : list byte := match CStr.index c s with Some i => firstn i s | None => s end.

Section Model.
  Variable c : fault_consts.
  Variable ec : expand_consts.

  (** exclude_spawns_of.c: the leading fields of /proc/<pid>/stat -> (command, parent pid); [None] = "return -1" *)
  Definition parse_stat (buf : list byte) : option (list byte * Z) :=
    if len buf <? sp_min c then None else
    match CStr.index LPAR buf, rindex RPAR buf with
    | Some l, Some r =>
      if (r <=? l)%nat then None else
      let n := (r - l - 1)%nat in
      if (n =? 0)%nat || (sp_comm_max c <=? N.of_nat n) then None else
      match scan_c_d (skipn (S r) buf) with
      | Some pp => Some (firstn n (skipn (S l) buf), pp)
      | None => None
      end
    | _, _ => None
    end.

  (** rpname.c: one line of /proc/<pid>/status -> (key, value) ; [None]: no ':' in the line *)
  Definition status_kv (line : list byte) : option (list byte * list byte) :=
    match CStr.index COLONB line with
    | None => None
    | Some i => Some (firstn i line, takeN (rp_val_max c) (removelast (skipn (S (S i)) line)))
    end.

  (** ** stdio helpers *)
  Definition close_ret {R} (p : path) (r : R) : prog R := Do (CFclose p) (fun _ => Ret r).

  (** util/file.c snoopy_util_file_getSmallTextFileContent: [Some n] = n bytes of content, [None] = error text *)
  Fixpoint file_loop (fuel : nat) (p : path) (total : N) : prog (option N) :=
    if total <? file_max c then
      match fuel with
      | O => Hang
      | S f =>
        Do (CFread p (file_fread c)) (fun o =>
          if is_err o then close_ret p None       (* ferror: message, clearerr, fclose, -1 *)
          else
            let now := N.min (len (odata o)) (file_fread c) in
            let total' := total + now in
            if (onum o =? 1)%Z || (now <? file_fread c)     (* feof || short read *)
            then (if total' <? file_max c then close_ret p (Some total') else close_ret p None)
            else file_loop f p total')
      end
    else close_ret p None.                          (* "File too large" *)

  Definition file_read (fuel : nat) (p : path) : prog (option N) :=
    Do (CFopen p (mode_file c)) (fun o => if is_err o then Ret None else file_loop fuel p 0).

  (** a data source returns (failed?, strlen of what it left in its buffer); the length is left to the oracle,
      bounded by the buffer as snprintf does *)
  Definition ds_ret (what : list byte) (failed : bool) (dsbuf : N) : prog (bool * N) :=
    Do (CPure what) (fun o => Ret (failed, N.min (z2n (onum o)) (dsbuf - 1))).
  Definition ds_data (failed : bool) (d : list byte) (dsbuf : N) : prog (bool * N) := Ret (failed, N.min (len d) (dsbuf - 1)).

  (** util/pwd.c / eusername.c / (e)group.c: one NSS lookup *)
  Definition pw_lookup (what : list byte) (dsbuf : N) : prog (bool * N) := Do CGetpwuid (fun _ => ds_ret what false dsbuf).
  Definition gr_lookup (what : list byte) (dsbuf : N) : prog (bool * N) := Do CGetgrgid (fun _ => ds_ret what false dsbuf).

  (** cgroup.c *)
  Definition ds_cgroup (fuel : nat) (arg : list byte) (dsbuf : N) : prog (bool * N * bool (* content was read *)) :=
    match arg with
    | [] => let* r := ds_ret (bs "cgroup") true dsbuf in Ret (r, false)
    | _ => Do CGetpid (fun o =>
           let* r := file_read fuel (PProc (onum o) (bs "cgroup")) in
           match r with
           | None => let* x := ds_ret (bs "cgroup") true dsbuf in Ret (x, false)
           | Some _ => let* x := ds_ret (bs "cgroup") false dsbuf in Ret (x, true)
           end)
    end.

  (** rpname.c read_proc_property *)
  Fixpoint prop_loop (fuel : nat) (p : path) (key : list byte) : prog (option (list byte)) :=
    match fuel with
    | O => Hang
    | S f =>
      Do (CGetline p) (fun o =>
        if is_err o then close_ret p None
        else match status_kv (odata o) with
             | None => close_ret p None                      (* goto RETURN_FREE_LINE_AND_CLOSE_FILE *)
             | Some (k, v) => if list_eqb key k then close_ret p (Some v) else prop_loop f p key
             end)
    end.
  Definition read_prop (fuel : nat) (pid : Z) (key : list byte) : prog (option (list byte)) :=
    let p := PProc pid (bs "status") in
    Do (CFopen p (mode_rpname c)) (fun o => if is_err o then Ret None else prop_loop fuel p key).

  Fixpoint rp_walk (fuel : nat) (lfuel : nat) (pid : Z) : prog unit :=
    match fuel with
    | O => Hang
    | S f =>
      let* pp := read_prop lfuel pid (bs "PPid") in
      match pp with
      | None => Ret tt                                     (* PID_UNKNOWN *)
      | Some v =>
        let ppid := atoi_z v in
        if (ppid =? 1)%Z || (ppid =? 0)%Z then (let* _ := read_prop lfuel pid (bs "Name") in Ret tt)
        else if (ppid =? -1)%Z then Ret tt
        else rp_walk f lfuel ppid
      end
    end.

  (** tty__common.c *)
  Definition tty_uid (k : prog (bool * N)) (dsbuf : N) : prog (bool * N) :=
    Do CTtyname (fun o => if is_err o then ds_ret (bs "tty") false dsbuf
                          else Do CStat (fun o2 => if is_err o2 then ds_ret (bs "tty") false dsbuf else k)).

  (** domain.c *)
  Fixpoint hosts_loop (fuel : nat) (p : path) (needle : list byte) : prog unit :=
    match fuel with
    | O => Hang
    | S f => Do (CFgets p) (fun o =>
               if is_err o then close_ret p tt
               else if strcasestr_b (cut_at HASH (odata o)) needle then close_ret p tt
               else hosts_loop f p needle)
    end.

  (** data sources; [None] = unknown name *)
  Definition ds_prog (fuel : nat) (name arg : list byte) (dsbuf : N) : option (prog (bool * N)) :=
    if negb (mem_bytes name (datasources_enabled c)) then None else Some (
    if list_eqb name (bs "cgroup") then let* r := ds_cgroup fuel arg dsbuf in Ret (fst r)
    else if list_eqb name (bs "systemd_unit_name") then
      let* r := ds_cgroup fuel (bs "name=systemd") dsbuf in
      if negb (snd r) then ds_ret (bs "systemd_unit_name") true dsbuf
      else Do (CPure (bs "systemd:entry")) (fun o =>          (* 0: no entry; 1: plain unit; 2: user slice -> uid lookup *)
             if (onum o =? 0)%Z then ds_ret (bs "systemd_unit_name") true dsbuf
             else if (onum o =? 2)%Z then pw_lookup (bs "systemd_unit_name") dsbuf
             else ds_ret (bs "systemd_unit_name") false dsbuf)
    else if list_eqb name (bs "cwd") then
      Do CGetcwd (fun o => if is_err o then Ret (true, 0) else ds_data false (odata o) dsbuf)
    else if list_eqb name (bs "datetime") then
      Do CTime (fun o => if is_err o then ds_ret name false dsbuf
                         else Do CLocaltime (fun o2 => ds_ret name false dsbuf))
    else if list_eqb name (bs "domain") then
      Do CGethostname (fun o =>
        if is_err o then ds_ret name false dsbuf
        else match odata o with
             | [] => ds_ret name true dsbuf
             | h => let p := PLit (hosts_path c) in
                    Do (CFopen p (mode_domain c)) (fun o2 =>
                      if is_err o2 then ds_ret name true dsbuf
                      else let* _ := hosts_loop fuel p (h ++ [x2e]) in ds_ret name false dsbuf)
             end)
    else if list_eqb name (bs "egroup") || list_eqb name (bs "group") then gr_lookup name dsbuf
    else if list_eqb name (bs "eusername") || list_eqb name (bs "username") then pw_lookup name dsbuf
    else if list_eqb name (bs "hostname") then
      Do CGethostname (fun o => if is_err o then ds_ret name false dsbuf else ds_data false (odata o) dsbuf)
    else if list_eqb name (bs "ipaddr") then
      Do CTtyname (fun o =>
        if is_err o then ds_ret name false dsbuf
        else if prefixb (bs "/dev/") (odata o)
             then Do CSetutent (fun _ => Do CGetutline (fun _ => Do CEndutent (fun _ => ds_ret name false dsbuf)))
             else ds_ret name false dsbuf)
    else if list_eqb name (bs "login") then Do CGetlogin (fun _ => ds_ret name false dsbuf)
    else if list_eqb name (bs "pid") then Do CGetpid (fun _ => ds_ret name false dsbuf)
    else if list_eqb name (bs "ppid") then Do CGetppid (fun _ => ds_ret name false dsbuf)
    else if list_eqb name (bs "rpname") then
      Do CGetpid (fun o => let* _ := rp_walk fuel fuel (onum o) in ds_ret name false dsbuf)
    else if list_eqb name (bs "timestamp") || list_eqb name (bs "timestamp_ms") || list_eqb name (bs "timestamp_us") then
      Do CGettimeofday (fun _ => ds_ret name false dsbuf)
    else if list_eqb name (bs "tty") then
      Do CTtyname (fun o => if is_err o then ds_ret name false dsbuf else ds_data false (odata o) dsbuf)
    else if list_eqb name (bs "tty_uid") then tty_uid (ds_ret name false dsbuf) dsbuf
    else if list_eqb name (bs "tty_username") then tty_uid (pw_lookup name dsbuf) dsbuf
    else (* no I/O: cmdline, env, uid, pid, ... — failure and length left open *)
      Do (CPure name) (fun o => Ret (is_err o, N.min (z2n (onum o)) (dsbuf - 1)))).

  (** ** message.c at call granularity: only the length of the message matters to what follows *)
  Definition app_io (errh : prog unit) (cap cur n : N) : prog N :=
    if (if append_strict ec then cap - cur <=? n else cap - cur <? n) then (errh ;;; Ret cur) else Ret (cur + n).

  Fixpoint app_list (errh : prog unit) (cap cur : N) (ns : list N) : prog N :=
    match ns with [] => Ret cur | n :: ns' => let* cur' := app_io errh cap cur n in app_list errh cap cur' ns' end.

  Fixpoint expand_io (fuel : nat) (errh : prog unit) (cap dsbuf : N) (ts : list token) (cur : N) : prog N :=
    match ts with
    | [] => Ret cur
    | TLit s :: ts' => let* cur' := app_io errh cap cur (len s) in expand_io fuel errh cap dsbuf ts' cur'
    | TUnterminated :: _ => app_io errh cap cur (len (e_close ec))
    | TTag name arg :: ts' =>
      match ds_prog fuel name arg dsbuf with
      | None => app_list errh cap cur [len (e_nf1 ec); len name; len (e_nf2 ec)]
      | Some p =>
        let* r := p in
        let* cur' := (if fst r then app_list errh cap cur [len (e_f1 ec); len name; len (e_f2 ec); snd r; len (e_f3 ec)]
                      else app_io errh cap cur (snd r)) in
        expand_io fuel errh cap dsbuf ts' cur'
      end
    end.

  Definition generate_io (fuel : nat) (errh : prog unit) (bufsize third : N) (fmt : list byte) : prog N :=
    expand_io fuel errh bufsize (third + ds_buf_adj ec) (tokens (S (List.length fmt)) fmt []) 0.

  (** ** outputs *)
  Definition is_literal (fmt : list byte) : bool := match strstr fmt (tag_open ec) with None => true | Some _ => false end.

  Definition out_socket (msglen : N) (addr : list byte) : prog unit :=
    if msglen =? 0 then Ret tt else
    Do (CSocket (sock_dom c) (sock_ty c)) (fun o =>
      if is_err o then Ret tt else
      Do (CConnect (sock_dom c) (sock_ty c) (takeN (sock_path_max c) addr)) (fun o2 =>
        if is_err o2 then Do CSockClose (fun _ => Ret tt) else
        Do (CSend (sock_dom c) (sock_ty c) (send_flags c)) (fun _ => Do CSockClose (fun _ => Ret tt)))).

  Definition out_file (fuel : nat) (errh : prog unit) (arg : list byte) : prog unit :=
    match arg with
    | [] => Ret tt
    | _ =>
      let* _ := generate_io fuel errh (path_buf ec) (path_buf ec) arg in
      let p := if is_literal arg then PLit arg else PTemplate in
      Do (COpen p (file_oflags c)) (fun o =>
        if is_err o then Ret tt else
        Do (CWrite p (file_oflags c)) (fun _ => Do (CClose p) (fun _ => Ret tt)))
    end.

  Definition out_devlog (fuel : nat) (errh : prog unit) (ident : list byte) (msglen : N) : prog unit :=
    if msglen =? 0 then Ret tt else
    let* _ := generate_io fuel errh (ident_buf ec) (ident_buf ec) ident in
    Do CGetpid (fun _ => out_socket (msglen + 1) (devlog_path c)).

  Definition out_syslog (fuel : nat) (errh : prog unit) (ident : list byte) (msglen : N) : prog unit :=
    if msglen =? 0 then Ret tt else
    let* _ := generate_io fuel errh (ident_buf ec) (ident_buf ec) ident in
    Do COpenlog (fun _ => Do CSyslog (fun _ => Do CCloselog (fun _ => Ret tt))).

  Record config := {
    cf_filtering : bool; cf_chain : list byte;
    cf_format : list byte; cf_logmax : N; cf_dsmax : N;
    cf_output : list byte; cf_output_arg : list byte;
    cf_ident : list byte; cf_errlog : bool
  }.

  (** outputregistry dispatch by name; an unknown / disabled name does nothing *)
  Definition output (fuel : nat) (errh : prog unit) (cf : config) (msglen : N) : prog unit :=
    let name := cf_output cf in
    if negb (mem_bytes name (outputs_enabled c)) then Ret tt
    else if list_eqb name (bs "file") then out_file fuel errh (cf_output_arg cf)
    else if list_eqb name (bs "devtty") then out_file fuel errh (devtty_path c)
    else if list_eqb name (bs "devnull") then out_file fuel errh (devnull_path c)
    else if list_eqb name (bs "socket") then out_socket msglen (cf_output_arg cf)
    else if list_eqb name (bs "devlog") then out_devlog fuel errh (cf_ident cf) msglen
    else if list_eqb name (bs "stdout") then Do (CDprintf 1) (fun _ => Ret tt)
    else if list_eqb name (bs "stderr") then Do (CFprintf 2) (fun _ => Ret tt)
    else if list_eqb name (bs "syslog") then out_syslog fuel errh (cf_ident cf) msglen
    else Ret tt.   (* noop *)

  (** log-message-dispatch.c *)
  Definition dispatch (fuel : nat) (errh : prog unit) (cf : config) (msglen : N) : prog unit :=
    if msglen =? 0 then Ret tt else output fuel errh cf msglen.

  (** error.c: with the guard, the error record is dispatched with error logging off (errors raised while it is
      being written are ignored); without it the handler re-enters itself through the output *)
  Fixpoint errh_unguarded (depth : nat) (fuel : nat) (cf : config) : prog unit :=
    match depth with
    | O => Hang
    | S d => dispatch fuel (errh_unguarded d fuel cf) cf (err_msg_len c)
    end.
  Definition error_handler (fuel : nat) (cf : config) : prog unit :=
    if negb (cf_errlog cf) then Ret tt
    else if err_guarded c then dispatch fuel (Ret tt) cf (err_msg_len c)
    else errh_unguarded fuel fuel cf.

  (** ** filters *)
  Fixpoint spawns_walk (fuel : nat) (names : list (list byte)) (ppid : Z) : prog Z :=
    if (ppid =? 0)%Z then Ret 0%Z else
    match fuel with
    | O => Hang
    | S f =>
      let p := PProc ppid (bs "stat") in
      Do (CFopen p (mode_spawns c)) (fun o =>
        if is_err o then Ret (-1)%Z else
        Do (CFread p (sp_read c)) (fun o2 =>
          Do (CFclose p) (fun _ =>
            match parse_stat (takeN (sp_read c) (odata o2)) with
            | None => Ret (-1)%Z
            | Some (comm, pp) => if mem_bytes comm names then Ret 1%Z else spawns_walk f names pp
            end)))
    end.

  (** one filter: [true] = DROP; [None] = unknown name (skipped) *)
  Definition filter_prog (fuel : nat) (name arg : list byte) : option (prog bool) :=
    if negb (mem_bytes name (filters_enabled c)) then None else Some (
    if list_eqb name (bs "exclude_spawns_of") then
      match arg with
      | [] => Ret false
      | _ => Do CGetppid (fun o => let* r := spawns_walk fuel (filter nonempty (split_on COMMA arg)) (onum o) in Ret (r =? 1)%Z)
      end
    else if list_eqb name (bs "only_tty") then Do CTtyname (fun o => Ret (is_err o))
    else Do (CPure name) (fun o => Ret (negb (onum o =? 0)%Z))).

  Definition split_spec (spec : list byte) : list byte * list byte :=
    match CStr.index COLONB spec with Some i => (firstn i spec, skipn (S i) spec) | None => (spec, []) end.

  Fixpoint chain_prog (fuel : nat) (specs : list (list byte)) : prog bool :=
    match specs with
    | [] => Ret false
    | s :: rest =>
      let '(name, arg) := split_spec s in
      match filter_prog fuel name arg with
      | None => chain_prog fuel rest
      | Some p => let* d := p in if d then Ret true else chain_prog fuel rest
      end
    end.

  (** ** log-syscall-exec.c *)
  Definition action (fuel : nat) (cf : config) : prog unit :=
    let* drop := (if filtering_compiled c && cf_filtering cf
                  then chain_prog fuel (filter nonempty (split_on SEMI (cf_chain cf))) else Ret false) in
    if drop then Ret tt else
    let* n := generate_io fuel (error_handler fuel cf) (cf_logmax cf + call_log_adj ec) (cf_dsmax cf + call_ds_adj ec) (cf_format cf) in
    dispatch fuel (error_handler fuel cf) cf n.

  (** ** configuration: ini.c reads the file line by line until fgets returns NULL; what the lines mean is C08's subject *)
  Variable cfg_of : option (list (list byte)) -> config.     (* None: the file could not be opened -> built-in defaults *)

  Fixpoint ini_loop (fuel : nat) (acc : list (list byte)) : prog (list (list byte)) :=
    match fuel with
    | O => Hang
    | S f => Do (CFgets PIni) (fun o => if is_err o then close_ret PIni (rev acc) else ini_loop f (odata o :: acc))
    end.
  Definition load_config (fuel : nat) : prog config :=
    Do (CFopen PIni (mode_ini c)) (fun o => if is_err o then Ret (cfg_of None) else let* ls := ini_loop fuel [] in Ret (cfg_of (Some ls))).

  (** ** the wrapped call: init (configuration), logging action, real exec, its result *)
  Definition logging (fuel : nat) : prog unit := let* cf := load_config fuel in action fuel cf.
  Definition wrapper (fuel : nat) : prog outcome := logging fuel ;;; Do CRealExec (fun r => Ret r).
End Model.
