(** C03: general theorems about the model of Fault/Model.v, for every constant record with
    [fault_consts_ok], every expansion-constant record, every reading of the configuration file
    ([cfg_of]), every configuration, every oracle.

    Part 1 (structure): every call the logging path can ever issue has one of the shapes [issuedb]
            accepts (the flag words being those of the constants) — one induction over the model;
    Part 2 (table):     every such shape is classified non-blocking and signal-free by the Linux table
            when the constants are ok and the world is one of the enumerated ones;
    Part 3 (termination): under an oracle that describes a finite world (files with finitely many lines,
            a well-founded process tree) the logging path returns, whatever fails;
    Part 4: the wrapped call = logging, then exactly one RealExec, whose outcome is returned. *)
From Snoopy Require Import Lib.CStr Expand.Model Expand.Tokens Fault.IO Fault.Model Fault.Table.
From Coq Require Import ZArith Lia ZifyBool ZifyN ZifyNat.
From Coq Require Strings.String.
Import Strings.String.StringSyntax.
Local Open Scope string_scope.
Local Open Scope N_scope.
Local Open Scope list_scope.

(** * Part 1: the shapes of the calls the library issues *)
Section Issued.
  Variable c : fault_consts.
  Variable ec : expand_consts.
  Variable cfg_of : option (list (list byte)) -> config.

  Definition syslog_on : bool := mem_bytes (bs "syslog") (outputs_enabled c).

  Definition issuedb (cl : call) : bool :=
    match cl with
    | CFopen p _ | CFread p _ | CFgets p | CGetline p | CFclose p => match p with PTemplate => false | _ => true end
    | COpen _ fl | CWrite _ fl => fl =? file_oflags c
    | CClose _ | CSockClose => true
    | CSocket d t | CConnect d t _ => (d =? sock_dom c) && (t =? sock_ty c)
    | CSend d t f => (d =? sock_dom c) && (t =? sock_ty c) && (f =? send_flags c)
    | CDprintf fd => fd =? 1
    | CFprintf fd => fd =? 2
    | COpenlog | CSyslog | CCloselog => syslog_on
    | CRealExec => false
    | _ => true
    end.
  Definition issued (cl : call) : Prop := issuedb cl = true.

  Lemma issued_no_exec cl : issued cl -> no_exec cl.
  Proof. destruct cl; cbn; intros H; try reflexivity; discriminate. Qed.

  Ltac leaf := unfold issued; cbn [issuedb]; rewrite ?N.eqb_refl; reflexivity.
  Ltac ac1 :=
    first [ apply AC_Ret | apply AC_Hang
          | apply AC_Do; [leaf | intros ?]
          | apply all_calls_bind; [| intros ?]
          | apply all_calls_seq
          | match goal with
            | |- all_calls _ (if ?b then _ else _) => destruct b
            | |- all_calls _ (match ?x with _ => _ end) => destruct x
            | |- all_calls _ (let '(_, _) := ?x in _) => destruct x
            end ].
  Ltac ac := repeat ac1.

  Lemma close_ret_ac {R} p (r : R) : p <> PTemplate -> all_calls issued (close_ret p r).
  Proof. intros Hp. unfold close_ret. apply AC_Do; [|intros; apply AC_Ret]. unfold issued. cbn. destruct p; congruence. Qed.

  Lemma file_loop_ac fuel p : p <> PTemplate -> forall total, all_calls issued (file_loop c fuel p total).
  Proof.
    intros Hp. induction fuel as [|f IH]; intros total; cbn [file_loop].
    - destruct (total <? file_max c); [apply AC_Hang|apply close_ret_ac; assumption].
    - destruct (total <? file_max c); [|apply close_ret_ac; assumption].
      apply AC_Do; [unfold issued; cbn; destruct p; congruence|]. intros o.
      destruct (is_err o); [apply close_ret_ac; assumption|].
      destruct ((onum o =? 1)%Z || _); [|apply IH].
      destruct (_ <? file_max c); apply close_ret_ac; assumption.
  Qed.

  Lemma file_read_ac fuel pid leaf_ : all_calls issued (file_read c fuel (PProc pid leaf_)).
  Proof. unfold file_read. apply AC_Do; [reflexivity|]. intros o. destruct (is_err o); [apply AC_Ret|apply file_loop_ac; discriminate]. Qed.

  Lemma ds_ret_ac w f d : all_calls issued (ds_ret w f d).
  Proof. unfold ds_ret. ac. Qed.
  Lemma ds_data_ac f d b : all_calls issued (ds_data f d b).
  Proof. unfold ds_data. ac. Qed.
  Lemma pw_lookup_ac w d : all_calls issued (pw_lookup w d).
  Proof. unfold pw_lookup. apply AC_Do; [reflexivity|]. intros. apply ds_ret_ac. Qed.
  Lemma gr_lookup_ac w d : all_calls issued (gr_lookup w d).
  Proof. unfold gr_lookup. apply AC_Do; [reflexivity|]. intros. apply ds_ret_ac. Qed.

  Lemma ds_cgroup_ac fuel arg d : all_calls issued (ds_cgroup c fuel arg d).
  Proof.
    unfold ds_cgroup. destruct arg.
    - apply all_calls_bind; [apply ds_ret_ac|intros; apply AC_Ret].
    - apply AC_Do; [reflexivity|]. intros o. apply all_calls_bind; [apply file_read_ac|]. intros [n|]; (apply all_calls_bind; [apply ds_ret_ac|intros; apply AC_Ret]).
  Qed.

  Lemma prop_loop_ac fuel pid key : all_calls issued (prop_loop c fuel (PProc pid (bs "status")) key).
  Proof.
    induction fuel as [|f IH]; cbn [prop_loop]; [apply AC_Hang|].
    apply AC_Do; [reflexivity|]. intros o. destruct (is_err o); [apply close_ret_ac; discriminate|].
    destruct (status_kv c (odata o)) as [[k v]|]; [|apply close_ret_ac; discriminate].
    destruct (list_eqb key k); [apply close_ret_ac; discriminate|apply IH].
  Qed.
  Lemma read_prop_ac fuel pid key : all_calls issued (read_prop c fuel pid key).
  Proof. unfold read_prop. apply AC_Do; [reflexivity|]. intros o. destruct (is_err o); [apply AC_Ret|apply prop_loop_ac]. Qed.

  Lemma rp_walk_ac fuel lfuel : forall pid, all_calls issued (rp_walk c fuel lfuel pid).
  Proof.
    induction fuel as [|f IH]; intros pid; cbn [rp_walk]; [apply AC_Hang|].
    apply all_calls_bind; [apply read_prop_ac|]. intros [v|]; [|apply AC_Ret].
    destruct ((atoi_z v =? 1)%Z || (atoi_z v =? 0)%Z).
    - apply all_calls_bind; [apply read_prop_ac|intros; apply AC_Ret].
    - destruct (atoi_z v =? -1)%Z; [apply AC_Ret|apply IH].
  Qed.

  Lemma tty_uid_ac k d : all_calls issued k -> all_calls issued (tty_uid k d).
  Proof.
    intros Hk. unfold tty_uid. apply AC_Do; [reflexivity|]. intros o. destruct (is_err o); [apply ds_ret_ac|].
    apply AC_Do; [reflexivity|]. intros o2. destruct (is_err o2); [apply ds_ret_ac|exact Hk].
  Qed.

  Lemma hosts_loop_ac fuel needle : all_calls issued (hosts_loop fuel (PLit (hosts_path c)) needle).
  Proof.
    induction fuel as [|f IH]; cbn [hosts_loop]; [apply AC_Hang|].
    apply AC_Do; [reflexivity|]. intros o. destruct (is_err o); [apply close_ret_ac; discriminate|].
    destruct (strcasestr_b _ _); [apply close_ret_ac; discriminate|apply IH].
  Qed.

  Lemma Some_inj {A} (a b : A) : Some a = Some b -> a = b.
  Proof. congruence. Qed.

  Lemma ds_prog_ac fuel name arg d p : ds_prog c fuel name arg d = Some p -> all_calls issued p.
  Proof.
    unfold ds_prog. destruct (negb _); [discriminate|]. intros H. apply Some_inj in H. subst p.
    repeat match goal with |- all_calls _ (if ?b then _ else _) => destruct b end.
    - apply all_calls_bind; [apply ds_cgroup_ac|intros; apply AC_Ret].
    - apply all_calls_bind; [apply ds_cgroup_ac|]. intros r. destruct (negb (snd r)); [apply ds_ret_ac|].
      apply AC_Do; [reflexivity|]. intros o. destruct (onum o =? 0)%Z; [apply ds_ret_ac|]. destruct (onum o =? 2)%Z; [apply pw_lookup_ac|apply ds_ret_ac].
    - apply AC_Do; [reflexivity|]. intros o. destruct (is_err o); [apply AC_Ret|apply ds_data_ac].
    - apply AC_Do; [reflexivity|]. intros o. destruct (is_err o); [apply ds_ret_ac|]. apply AC_Do; [reflexivity|]. intros; apply ds_ret_ac.
    - apply AC_Do; [reflexivity|]. intros o. destruct (is_err o); [apply ds_ret_ac|]. destruct (odata o) eqn:E; [apply ds_ret_ac|].
      apply AC_Do; [reflexivity|]. intros o2. destruct (is_err o2); [apply ds_ret_ac|].
      apply all_calls_bind; [apply hosts_loop_ac|intros; apply ds_ret_ac].
    - apply gr_lookup_ac.
    - apply pw_lookup_ac.
    - apply AC_Do; [reflexivity|]. intros o. destruct (is_err o); [apply ds_ret_ac|apply ds_data_ac].
    - apply AC_Do; [reflexivity|]. intros o. destruct (is_err o); [apply ds_ret_ac|]. destruct (prefixb _ _); [|apply ds_ret_ac].
      apply AC_Do; [reflexivity|]. intros. apply AC_Do; [reflexivity|]. intros. apply AC_Do; [reflexivity|]. intros. apply ds_ret_ac.
    - apply AC_Do; [reflexivity|]. intros; apply ds_ret_ac.
    - apply AC_Do; [reflexivity|]. intros; apply ds_ret_ac.
    - apply AC_Do; [reflexivity|]. intros; apply ds_ret_ac.
    - apply AC_Do; [reflexivity|]. intros o. apply all_calls_bind; [apply rp_walk_ac|intros; apply ds_ret_ac].
    - apply AC_Do; [reflexivity|]. intros; apply ds_ret_ac.
    - apply AC_Do; [reflexivity|]. intros o. destruct (is_err o); [apply ds_ret_ac|apply ds_data_ac].
    - apply tty_uid_ac. apply ds_ret_ac.
    - apply tty_uid_ac. apply pw_lookup_ac.
    - apply AC_Do; [reflexivity|]. intros; apply AC_Ret.
  Qed.

  (** message assembly, for any error handler that itself issues only such calls *)
  Section WithHandler.
    Variable errh : prog unit.
    Hypothesis Herrh : all_calls issued errh.

    Lemma app_io_ac cap cur n : all_calls issued (app_io ec errh cap cur n).
    Proof. unfold app_io. destruct (if append_strict ec then _ else _); [apply all_calls_seq; [exact Herrh|apply AC_Ret]|apply AC_Ret]. Qed.

    Lemma app_list_ac cap ns : forall cur, all_calls issued (app_list ec errh cap cur ns).
    Proof. induction ns as [|n ns IH]; intros cur; cbn [app_list]; [apply AC_Ret|]. apply all_calls_bind; [apply app_io_ac|intros; apply IH]. Qed.

    Lemma expand_io_ac fuel cap dsbuf ts : forall cur, all_calls issued (expand_io c ec fuel errh cap dsbuf ts cur).
    Proof.
      induction ts as [|t ts IH]; intros cur; cbn [expand_io]; [apply AC_Ret|]. destruct t as [s|name arg|].
      - apply all_calls_bind; [apply app_io_ac|intros; apply IH].
      - destruct (ds_prog c fuel name arg dsbuf) as [p|] eqn:E; [|apply app_list_ac].
        apply all_calls_bind; [eapply ds_prog_ac; exact E|]. intros r.
        apply all_calls_bind; [destruct (fst r); [apply app_list_ac|apply app_io_ac]|intros; apply IH].
      - apply app_io_ac.
    Qed.

    Lemma generate_io_ac fuel b t fmt : all_calls issued (generate_io c ec fuel errh b t fmt).
    Proof. unfold generate_io. apply expand_io_ac. Qed.

    Lemma out_socket_ac n addr : all_calls issued (out_socket c n addr).
    Proof.
      unfold out_socket. destruct (n =? 0); [apply AC_Ret|].
      apply AC_Do; [leaf|]. intros o. destruct (is_err o); [apply AC_Ret|].
      apply AC_Do; [leaf|]. intros o2. destruct (is_err o2).
      - apply AC_Do; [reflexivity|]. intros; apply AC_Ret.
      - apply AC_Do; [leaf|]. intros. apply AC_Do; [reflexivity|]. intros; apply AC_Ret.
    Qed.

    Lemma out_file_ac fuel arg : all_calls issued (out_file c ec fuel errh arg).
    Proof.
      unfold out_file. destruct arg; [apply AC_Ret|]. apply all_calls_bind; [apply generate_io_ac|]. intros _.
      apply AC_Do; [leaf|]. intros o. destruct (is_err o); [apply AC_Ret|].
      apply AC_Do; [leaf|]. intros. apply AC_Do; [reflexivity|]. intros; apply AC_Ret.
    Qed.

    Lemma output_ac fuel cf n : all_calls issued (output c ec fuel errh cf n).
    Proof.
      unfold output. destruct (negb (mem_bytes (cf_output cf) (outputs_enabled c))) eqn:En; [apply AC_Ret|].
      repeat match goal with |- all_calls _ (if ?b then _ else _) => destruct b eqn:? end; try apply AC_Ret; try apply out_file_ac; try apply out_socket_ac.
      - unfold out_devlog. destruct (n =? 0); [apply AC_Ret|]. apply all_calls_bind; [apply generate_io_ac|]. intros _.
        apply AC_Do; [reflexivity|]. intros; apply out_socket_ac.
      - apply AC_Do; [reflexivity|]. intros; apply AC_Ret.
      - apply AC_Do; [reflexivity|]. intros; apply AC_Ret.
      - (* syslog: only when the registry as compiled contains it *)
        assert (Hs : syslog_on = true).
        { unfold syslog_on. match goal with H : list_eqb (cf_output cf) (bs "syslog") = true |- _ => apply list_eqb_eq in H; rewrite <- H end.
          apply negb_false_iff in En. exact En. }
        unfold out_syslog. destruct (n =? 0); [apply AC_Ret|]. apply all_calls_bind; [apply generate_io_ac|]. intros _.
        apply AC_Do; [exact Hs|]. intros. apply AC_Do; [exact Hs|]. intros. apply AC_Do; [exact Hs|]. intros; apply AC_Ret.
    Qed.

    Lemma dispatch_ac fuel cf n : all_calls issued (dispatch c ec fuel errh cf n).
    Proof. unfold dispatch. destruct (n =? 0); [apply AC_Ret|apply output_ac]. Qed.
  End WithHandler.

  Lemma errh_unguarded_ac depth fuel cf : all_calls issued (errh_unguarded c ec depth fuel cf).
  Proof. induction depth as [|d IH]; cbn [errh_unguarded]; [apply AC_Hang|]. apply dispatch_ac. exact IH. Qed.

  Lemma error_handler_ac fuel cf : all_calls issued (error_handler c ec fuel cf).
  Proof.
    unfold error_handler. destruct (negb (cf_errlog cf)); [apply AC_Ret|]. destruct (err_guarded c); [apply dispatch_ac; apply AC_Ret|apply errh_unguarded_ac].
  Qed.

  Lemma spawns_walk_ac fuel names : forall ppid, all_calls issued (spawns_walk c fuel names ppid).
  Proof.
    induction fuel as [|f IH]; intros ppid; cbn [spawns_walk]; destruct (ppid =? 0)%Z; try apply AC_Ret; [apply AC_Hang|].
    apply AC_Do; [reflexivity|]. intros o. destruct (is_err o); [apply AC_Ret|].
    apply AC_Do; [reflexivity|]. intros o2. apply AC_Do; [reflexivity|]. intros _.
    destruct (parse_stat c _) as [[comm pp]|]; [|apply AC_Ret]. destruct (mem_bytes comm names); [apply AC_Ret|apply IH].
  Qed.

  Lemma filter_prog_ac fuel name arg p : filter_prog c fuel name arg = Some p -> all_calls issued p.
  Proof.
    unfold filter_prog. destruct (negb _); [discriminate|]. intros H. apply Some_inj in H. subst p.
    destruct (list_eqb name (bs "exclude_spawns_of")).
    - destruct arg; [apply AC_Ret|]. apply AC_Do; [reflexivity|]. intros o. apply all_calls_bind; [apply spawns_walk_ac|intros; apply AC_Ret].
    - destruct (list_eqb name (bs "only_tty")); (apply AC_Do; [reflexivity|]; intros; apply AC_Ret).
  Qed.

  Lemma chain_prog_ac fuel specs : all_calls issued (chain_prog c fuel specs).
  Proof.
    induction specs as [|s rest IH]; cbn [chain_prog]; [apply AC_Ret|]. destruct (split_spec s) as [name arg].
    destruct (filter_prog c fuel name arg) as [p|] eqn:E; [|exact IH].
    apply all_calls_bind; [eapply filter_prog_ac; exact E|]. intros d. destruct d; [apply AC_Ret|exact IH].
  Qed.

  Lemma action_ac fuel cf : all_calls issued (action c ec fuel cf).
  Proof.
    unfold action. apply all_calls_bind.
    - destruct (filtering_compiled c && cf_filtering cf); [apply chain_prog_ac|apply AC_Ret].
    - intros drop. destruct drop; [apply AC_Ret|]. apply all_calls_bind; [apply generate_io_ac; apply error_handler_ac|]. intros n.
      apply dispatch_ac. apply error_handler_ac.
  Qed.

  Lemma ini_loop_ac fuel : forall acc, all_calls issued (ini_loop fuel acc).
  Proof.
    induction fuel as [|f IH]; intros acc; cbn [ini_loop]; [apply AC_Hang|].
    apply AC_Do; [reflexivity|]. intros o. destruct (is_err o); [apply close_ret_ac; discriminate|apply IH].
  Qed.

  Theorem logging_issued fuel : all_calls issued (logging c ec cfg_of fuel).
  Proof.
    unfold logging, load_config. apply all_calls_bind; [|intros; apply action_ac].
    apply AC_Do; [reflexivity|]. intros o. destruct (is_err o); [apply AC_Ret|]. apply all_calls_bind; [apply ini_loop_ac|intros; apply AC_Ret].
  Qed.
End Issued.

(** * Part 2: the table on the issued shapes *)
Section TableProofs.
  Variable c : fault_consts.
  Hypothesis Hok : fault_consts_ok c = true.
  Variable w : world.
  Hypothesis Hw : enumerated w = true.
  Hypothesis Hsys : syslog_on c = false.     (* glibc's syslog(3) is not among the compiled outputs *)

  Lemma ok_facts :
    sock_dom c = b_af_unix c /\ N.land (sock_ty c) (b_sock_typemask c) = b_sock_dgram c
    /\ has (b_sock_nonblock c) (sock_ty c) = true /\ has (b_sock_cloexec c) (sock_ty c) = true
    /\ has (b_msg_dontwait c) (send_flags c) = true /\ has (b_msg_nosignal c) (send_flags c) = true
    /\ err_guarded c = true /\ 1 <= file_fread c /\ 1 <= file_max c.
  Proof.
    unfold fault_consts_ok in Hok. repeat (apply andb_true_iff in Hok as [Hok ?]).
    repeat match goal with H : (_ =? _) = true |- _ => apply N.eqb_eq in H | H : (_ <=? _) = true |- _ => apply N.leb_le in H end.
    repeat split; assumption.
  Qed.

  Lemma world_facts : enumerated_sink (w_sink w) = true /\ w_fd1 w = FdPlain /\ w_fd2 w = FdPlain /\ w_nss_local w = true.
  Proof.
    unfold enumerated in Hw. repeat (apply andb_true_iff in Hw as [Hw ?]).
    repeat split; try assumption; [destruct (w_fd1 w)|destruct (w_fd2 w)]; try reflexivity; discriminate.
  Qed.

  Theorem issued_nonblocking cl : issued c cl -> may_block c w cl = false.
  Proof.
    destruct ok_facts as [Ed [Et [Hnb [_ [Hdw _]]]]]. destruct world_facts as [Hs [H1 [H2 Hn]]].
    unfold issued. destruct cl; cbn [issuedb may_block]; intros H; try reflexivity; try (rewrite Hn; reflexivity); try (rewrite Hsys in H; discriminate).
    - destruct (w_sink w); try reflexivity; discriminate.
    - destruct (w_sink w); try reflexivity; discriminate.
    - apply andb_true_iff in H as [Ha Hb]. apply N.eqb_eq in Ha, Hb. subst dom ty. rewrite Ed, Et, Hnb, !N.eqb_refl. reflexivity.
    - repeat (apply andb_true_iff in H as [H ?]). match goal with X : (flags =? _) = true |- _ => apply N.eqb_eq in X; subst flags end. rewrite Hdw. reflexivity.
    - apply N.eqb_eq in H. subst fd. unfold fd_state. cbn. rewrite H1. reflexivity.
    - apply N.eqb_eq in H. subst fd. unfold fd_state. cbn. rewrite H2. reflexivity.
  Qed.

  Theorem issued_nosignal cl : issued c cl -> may_signal c w cl = false.
  Proof.
    destruct ok_facts as [_ [_ [_ [_ [_ [Hns _]]]]]]. destruct world_facts as [Hs [H1 [H2 Hn]]].
    unfold issued. destruct cl; cbn [issuedb may_signal]; intros H; try reflexivity.
    - destruct (w_sink w); try reflexivity; discriminate.
    - repeat (apply andb_true_iff in H as [H ?]). match goal with X : (flags =? _) = true |- _ => apply N.eqb_eq in X; subst flags end. rewrite Hns. reflexivity.
    - apply N.eqb_eq in H. subst fd. unfold fd_state. cbn. rewrite H1. reflexivity.
    - apply N.eqb_eq in H. subst fd. unfold fd_state. cbn. rewrite H2. reflexivity.
  Qed.
End TableProofs.

(** * Part 3: termination under an oracle that describes a finite world *)
Definition is_line_read (cl : call) : bool := match cl with CFgets _ | CGetline _ => true | _ => false end.

Section Termination.
  Variable c : fault_consts.
  Variable ec : expand_consts.
  Variable cfg_of : option (list (list byte)) -> config.
  Hypothesis Hok : fault_consts_ok c = true.
  Variable o : oracle.

  (** every file the library reads line by line ends: among any [L] consecutive line reads one reports EOF / failure *)
  Variable L : nat.
  Hypothesis lines_finite : forall i cl, is_line_read cl = true -> exists j, (j < L)%nat /\ is_err (o (i + j)%nat cl) = true.

  (** the oracle's procfs describes a process tree: [parent], with a height that decreases towards the root; depth below [d] *)
  Variable parent : Z -> Z.
  Variable height : Z -> nat.
  Variable d : nat.
  Hypothesis tree_wf : forall p, parent p <> 0%Z -> (height (parent p) < height p)%nat.
  Hypothesis tree_depth : forall p, (height p < d)%nat.
  Hypothesis stat_consistent : forall i pid comm pp,
      parse_stat c (takeN (sp_read c) (odata (o i (CFread (PProc pid (bs "stat")) (sp_read c))))) = Some (comm, pp) -> pp = parent pid.
  Hypothesis status_consistent : forall i pid v,
      status_kv c (odata (o i (CGetline (PProc pid (bs "status"))))) = Some (bs "PPid", v) -> atoi_z v = parent pid.

  Variable fuel : nat.
  Hypothesis fuel_lines : (L <= fuel)%nat.
  Hypothesis fuel_tree : (d <= fuel)%nat.
  Hypothesis fuel_file : file_max c <= N.of_nat fuel * file_fread c.

  Notation T := (fun _ => True).

  Lemma close_ret_rets {R} p (r : R) i (Q : R -> Prop) : Q r -> rets (close_ret p r) o i Q.
  Proof. intros. unfold close_ret. apply rets_do. apply rets_ret. assumption. Qed.

  (** util/file.c: bounded by its own sizes, whatever the oracle answers *)
  Lemma file_loop_rets p : forall fl total i, file_max c <= total + N.of_nat fl * file_fread c -> rets (file_loop c fl p total) o i T.
  Proof.
    destruct (ok_facts c Hok) as [_ [_ [_ [_ [_ [_ [_ [Hfr _]]]]]]]].
    induction fl as [|f IH]; intros total i Hb; cbn [file_loop].
    - destruct (total <? file_max c) eqn:E; [lia|apply close_ret_rets; exact I].
    - destruct (total <? file_max c) eqn:E; [|apply close_ret_rets; exact I].
      apply rets_do. destruct (is_err _); [apply close_ret_rets; exact I|].
      match goal with |- context [N.min ?a ?b] => set (now := N.min a b) end.
      destruct ((_ =? 1)%Z || (now <? file_fread c)) eqn:E2.
      + match goal with |- rets (if ?b then _ else _) _ _ _ => destruct b end; apply close_ret_rets; exact I.
      + apply IH. apply orb_false_iff in E2 as [_ E2]. assert (now = file_fread c) by (unfold now in *; lia). lia.
  Qed.

  Lemma file_read_rets p i : rets (file_read c fuel p) o i T.
  Proof. unfold file_read. apply rets_do. destruct (is_err _); [apply rets_ret; exact I|]. apply file_loop_rets. lia. Qed.

  Lemma ds_ret_rets w f b i : rets (ds_ret w f b) o i T.
  Proof. unfold ds_ret. apply rets_do. apply rets_ret. exact I. Qed.
  Lemma ds_data_rets f x b i : rets (ds_data f x b) o i T.
  Proof. unfold ds_data. apply rets_ret. exact I. Qed.
  Lemma pw_lookup_rets w b i : rets (pw_lookup w b) o i T.
  Proof. unfold pw_lookup. apply rets_do. apply ds_ret_rets. Qed.
  Lemma gr_lookup_rets w b i : rets (gr_lookup w b) o i T.
  Proof. unfold gr_lookup. apply rets_do. apply ds_ret_rets. Qed.

  Lemma ds_cgroup_rets arg b i : rets (ds_cgroup c fuel arg b) o i T.
  Proof.
    unfold ds_cgroup. destruct arg.
    - eapply rets_bind; [apply ds_ret_rets|]. intros. apply rets_ret. exact I.
    - apply rets_do. eapply rets_bind; [apply file_read_rets|]. intros [n|] j _; (eapply rets_bind; [apply ds_ret_rets|]; intros; apply rets_ret; exact I).
  Qed.

  (** line loops: end within the file's line count; a returned property value is what the oracle answered for that file *)
  Lemma prop_loop_rets pid key : forall fl i,
      (exists j, (j < fl)%nat /\ is_err (o (i + j)%nat (CGetline (PProc pid (bs "status")))) = true) ->
      rets (prop_loop c fl (PProc pid (bs "status")) key) o i
           (fun r => forall v, r = Some v -> exists idx, status_kv c (odata (o idx (CGetline (PProc pid (bs "status"))))) = Some (key, v)).
  Proof.
    induction fl as [|f IH]; intros i [j [Hj He]]; [lia|]. cbn [prop_loop]. apply rets_do.
    destruct (is_err (o i _)) eqn:E; [apply close_ret_rets; discriminate|].
    destruct (status_kv c _) as [[k v]|] eqn:Ekv; [|apply close_ret_rets; discriminate].
    destruct (list_eqb key k) eqn:Ek.
    - apply close_ret_rets. intros v' Hv. injection Hv as <-. apply list_eqb_eq in Ek. subst k. exists i. exact Ekv.
    - apply IH. destruct j as [|j']; [rewrite Nat.add_0_r in He; congruence|]. exists j'. split; [lia|]. replace (S i + j')%nat with (i + S j')%nat by lia. exact He.
  Qed.

  Lemma read_prop_rets pid key i :
    rets (read_prop c fuel pid key) o i
         (fun r => forall v, r = Some v -> exists idx, status_kv c (odata (o idx (CGetline (PProc pid (bs "status"))))) = Some (key, v)).
  Proof.
    unfold read_prop. apply rets_do. destruct (is_err _); [apply rets_ret; discriminate|].
    apply prop_loop_rets. destruct (lines_finite (S i) (CGetline (PProc pid (bs "status"))) eq_refl) as [j [Hj He]]. exists j. split; [lia|exact He].
  Qed.

  Lemma rp_walk_rets : forall fl pid i, (height pid < fl)%nat -> rets (rp_walk c fl fuel pid) o i T.
  Proof.
    induction fl as [|f IH]; intros pid i Hh; [lia|]. cbn [rp_walk].
    eapply rets_bind; [apply read_prop_rets|]. intros [v|] j Hv; [|apply rets_ret; exact I].
    destruct (Hv v eq_refl) as [idx Hidx]. apply status_consistent in Hidx.
    destruct ((atoi_z v =? 1)%Z || (atoi_z v =? 0)%Z) eqn:E1.
    - eapply rets_bind; [apply read_prop_rets|]. intros. apply rets_ret. exact I.
    - destruct (atoi_z v =? -1)%Z; [apply rets_ret; exact I|]. apply IH.
      apply orb_false_iff in E1 as [_ E0]. apply Z.eqb_neq in E0. rewrite Hidx in *. specialize (tree_wf pid E0). lia.
  Qed.

  Lemma hosts_loop_rets p needle : forall fl i, (exists j, (j < fl)%nat /\ is_err (o (i + j)%nat (CFgets p)) = true) -> rets (hosts_loop fl p needle) o i T.
  Proof.
    induction fl as [|f IH]; intros i [j [Hj He]]; [lia|]. cbn [hosts_loop]. apply rets_do.
    destruct (is_err (o i _)) eqn:E; [apply close_ret_rets; exact I|].
    destruct (strcasestr_b _ _); [apply close_ret_rets; exact I|].
    apply IH. destruct j as [|j']; [rewrite Nat.add_0_r in He; congruence|]. exists j'. split; [lia|]. replace (S i + j')%nat with (i + S j')%nat by lia. exact He.
  Qed.

  Lemma tty_uid_rets k b i : (forall j, rets k o j T) -> rets (tty_uid k b) o i T.
  Proof. intros Hk. unfold tty_uid. apply rets_do. destruct (is_err _); [apply ds_ret_rets|]. apply rets_do. destruct (is_err _); [apply ds_ret_rets|apply Hk]. Qed.

  Lemma ds_prog_rets name arg b p i : ds_prog c fuel name arg b = Some p -> rets p o i T.
  Proof.
    unfold ds_prog. destruct (negb _); [discriminate|]. intros H. apply Some_inj in H. subst p.
    repeat match goal with |- rets (if ?b then _ else _) _ _ _ => destruct b end.
    - eapply rets_bind; [apply ds_cgroup_rets|]. intros; apply rets_ret; exact I.
    - eapply rets_bind; [apply ds_cgroup_rets|]. intros r j _. destruct (negb (snd r)); [apply ds_ret_rets|].
      apply rets_do. destruct (_ =? 0)%Z; [apply ds_ret_rets|]. destruct (_ =? 2)%Z; [apply pw_lookup_rets|apply ds_ret_rets].
    - apply rets_do. destruct (is_err _); [apply rets_ret; exact I|apply ds_data_rets].
    - apply rets_do. destruct (is_err _); [apply ds_ret_rets|]. apply rets_do. apply ds_ret_rets.
    - apply rets_do. destruct (is_err _); [apply ds_ret_rets|]. destruct (odata _) eqn:E; [apply ds_ret_rets|].
      apply rets_do. destruct (is_err _); [apply ds_ret_rets|].
      eapply rets_bind; [|intros; apply ds_ret_rets]. apply hosts_loop_rets.
      match goal with |- context [o (?k + _)%nat (CFgets ?p)] => destruct (lines_finite k (CFgets p) eq_refl) as [j [Hj He]] end.
      exists j. split; [lia|exact He].
    - apply gr_lookup_rets.
    - apply pw_lookup_rets.
    - apply rets_do. destruct (is_err _); [apply ds_ret_rets|apply ds_data_rets].
    - apply rets_do. destruct (is_err _); [apply ds_ret_rets|]. destruct (prefixb _ _); [|apply ds_ret_rets].
      apply rets_do. apply rets_do. apply rets_do. apply ds_ret_rets.
    - apply rets_do. apply ds_ret_rets.
    - apply rets_do. apply ds_ret_rets.
    - apply rets_do. apply ds_ret_rets.
    - apply rets_do. eapply rets_bind; [|intros; apply ds_ret_rets]. apply rp_walk_rets. specialize (tree_depth (onum (o i CGetpid))). lia.
    - apply rets_do. apply ds_ret_rets.
    - apply rets_do. destruct (is_err _); [apply ds_ret_rets|apply ds_data_rets].
    - apply tty_uid_rets. intros; apply ds_ret_rets.
    - apply tty_uid_rets. intros; apply pw_lookup_rets.
    - apply rets_do. apply rets_ret. exact I.
  Qed.

  Section WithHandler.
    Variable errh : prog unit.
    Hypothesis Herrh : forall i, rets errh o i T.

    Lemma app_io_rets cap cur n i : rets (app_io ec errh cap cur n) o i T.
    Proof. unfold app_io. destruct (if append_strict ec then _ else _); [|apply rets_ret; exact I]. eapply rets_seq; [apply Herrh|]. intros; apply rets_ret; exact I. Qed.

    Lemma app_list_rets cap ns : forall cur i, rets (app_list ec errh cap cur ns) o i T.
    Proof. induction ns as [|n ns IH]; intros cur i; cbn [app_list]; [apply rets_ret; exact I|]. eapply rets_bind; [apply app_io_rets|]. intros; apply IH. Qed.

    Lemma expand_io_rets cap dsbuf ts : forall cur i, rets (expand_io c ec fuel errh cap dsbuf ts cur) o i T.
    Proof.
      induction ts as [|t ts IH]; intros cur i; cbn [expand_io]; [apply rets_ret; exact I|]. destruct t as [s|name arg|].
      - eapply rets_bind; [apply app_io_rets|]. intros; apply IH.
      - destruct (ds_prog c fuel name arg dsbuf) as [p|] eqn:E; [|apply app_list_rets].
        eapply rets_bind; [eapply ds_prog_rets; exact E|]. intros r j _.
        eapply rets_bind; [destruct (fst r); [apply app_list_rets|apply app_io_rets]|]. intros; apply IH.
      - apply app_io_rets.
    Qed.

    Lemma generate_io_rets b t fmt i : rets (generate_io c ec fuel errh b t fmt) o i T.
    Proof. unfold generate_io. apply expand_io_rets. Qed.

    Lemma out_socket_rets n addr i : rets (out_socket c n addr) o i T.
    Proof.
      unfold out_socket. destruct (n =? 0); [apply rets_ret; exact I|]. apply rets_do. destruct (is_err _); [apply rets_ret; exact I|].
      apply rets_do. destruct (is_err _); [apply rets_do; apply rets_ret; exact I|]. apply rets_do. apply rets_do. apply rets_ret. exact I.
    Qed.

    Lemma out_file_rets arg i : rets (out_file c ec fuel errh arg) o i T.
    Proof.
      unfold out_file. destruct arg; [apply rets_ret; exact I|]. eapply rets_bind; [apply generate_io_rets|]. intros _ j _.
      apply rets_do. destruct (is_err _); [apply rets_ret; exact I|]. apply rets_do. apply rets_do. apply rets_ret. exact I.
    Qed.

    Lemma output_rets cf n i : rets (output c ec fuel errh cf n) o i T.
    Proof.
      unfold output. destruct (negb _); [apply rets_ret; exact I|].
      repeat match goal with |- rets (if ?b then _ else _) _ _ _ => destruct b end; try (apply rets_ret; exact I); try apply out_file_rets; try apply out_socket_rets.
      - unfold out_devlog. destruct (n =? 0); [apply rets_ret; exact I|]. eapply rets_bind; [apply generate_io_rets|]. intros _ j _. apply rets_do. apply out_socket_rets.
      - apply rets_do. apply rets_ret. exact I.
      - apply rets_do. apply rets_ret. exact I.
      - unfold out_syslog. destruct (n =? 0); [apply rets_ret; exact I|]. eapply rets_bind; [apply generate_io_rets|]. intros _ j _.
        apply rets_do. apply rets_do. apply rets_do. apply rets_ret. exact I.
    Qed.

    Lemma dispatch_rets cf n i : rets (dispatch c ec fuel errh cf n) o i T.
    Proof. unfold dispatch. destruct (n =? 0); [apply rets_ret; exact I|apply output_rets]. Qed.
  End WithHandler.

  (** the error handler: guarded, so its own record is written with the null handler — one level, no re-entry *)
  Theorem error_handler_rets cf i : rets (error_handler c ec fuel cf) o i T.
  Proof.
    destruct (ok_facts c Hok) as [_ [_ [_ [_ [_ [_ [Hg _]]]]]]].
    unfold error_handler. destruct (negb (cf_errlog cf)); [apply rets_ret; exact I|]. rewrite Hg. apply dispatch_rets. intros; apply rets_ret; exact I.
  Qed.

  Lemma spawns_walk_rets names : forall fl ppid i, (height ppid < fl)%nat -> rets (spawns_walk c fl names ppid) o i T.
  Proof.
    induction fl as [|f IH]; intros ppid i Hh; [lia|]. cbn [spawns_walk]. destruct (ppid =? 0)%Z; [apply rets_ret; exact I|].
    apply rets_do. destruct (is_err _); [apply rets_ret; exact I|]. apply rets_do. apply rets_do.
    destruct (parse_stat c _) as [[comm pp]|] eqn:E; [|apply rets_ret; exact I].
    destruct (mem_bytes comm names); [apply rets_ret; exact I|].
    apply stat_consistent in E. subst pp. cbn [spawns_walk].
    destruct f as [|f']; cbn [spawns_walk].
    - destruct (parent ppid =? 0)%Z eqn:E0; [apply rets_ret; exact I|]. apply Z.eqb_neq in E0. specialize (tree_wf ppid E0). lia.
    - destruct (parent ppid =? 0)%Z eqn:E0; [apply rets_ret; exact I|]. apply Z.eqb_neq in E0. specialize (tree_wf ppid E0).
      specialize (IH (parent ppid) (S (S (S i)))). cbn [spawns_walk] in IH. rewrite (proj2 (Z.eqb_neq _ _) E0) in IH. apply IH. lia.
  Qed.

  Lemma filter_prog_rets name arg p i : filter_prog c fuel name arg = Some p -> rets p o i T.
  Proof.
    unfold filter_prog. destruct (negb _); [discriminate|]. intros H. apply Some_inj in H. subst p.
    destruct (list_eqb name (bs "exclude_spawns_of")).
    - destruct arg; [apply rets_ret; exact I|]. apply rets_do. eapply rets_bind; [|intros; apply rets_ret; exact I].
      apply spawns_walk_rets. specialize (tree_depth (onum (o i CGetppid))). lia.
    - destruct (list_eqb name (bs "only_tty")); (apply rets_do; apply rets_ret; exact I).
  Qed.

  Lemma chain_prog_rets specs : forall i, rets (chain_prog c fuel specs) o i T.
  Proof.
    induction specs as [|s rest IH]; intros i; cbn [chain_prog]; [apply rets_ret; exact I|]. destruct (split_spec s) as [name arg].
    destruct (filter_prog c fuel name arg) as [p|] eqn:E; [|apply IH].
    eapply rets_bind; [eapply filter_prog_rets; exact E|]. intros dr j _. destruct dr; [apply rets_ret; exact I|apply IH].
  Qed.

  Lemma action_rets cf i : rets (action c ec fuel cf) o i T.
  Proof.
    unfold action. eapply rets_bind.
    - destruct (filtering_compiled c && cf_filtering cf); [apply chain_prog_rets|apply rets_ret; exact I].
    - intros drop j _. destruct drop; [apply rets_ret; exact I|]. eapply rets_bind; [apply generate_io_rets; intros; apply error_handler_rets|].
      intros n k _. apply dispatch_rets. intros; apply error_handler_rets.
  Qed.

  Lemma ini_loop_rets : forall fl acc i, (exists j, (j < fl)%nat /\ is_err (o (i + j)%nat (CFgets PIni)) = true) -> rets (ini_loop fl acc) o i T.
  Proof.
    induction fl as [|f IH]; intros acc i [j [Hj He]]; [lia|]. cbn [ini_loop]. apply rets_do.
    destruct (is_err (o i _)) eqn:E; [apply close_ret_rets; exact I|].
    apply IH. destruct j as [|j']; [rewrite Nat.add_0_r in He; congruence|]. exists j'. split; [lia|]. replace (S i + j')%nat with (i + S j')%nat by lia. exact He.
  Qed.

  Theorem logging_returns i : returns (logging c ec cfg_of fuel) o i.
  Proof.
    apply (rets_returns _ _ _ T). unfold logging, load_config. apply (rets_bind _ _ _ _ T); [|intros; apply action_rets].
    apply rets_do. destruct (is_err _); [apply rets_ret; exact I|]. apply (rets_bind _ _ _ _ T); [|intros; apply rets_ret; exact I].
    apply ini_loop_rets. destruct (lines_finite (S i) (CFgets PIni) eq_refl) as [j [Hj He]]. exists j. split; [lia|exact He].
  Qed.

  (** * Part 4: the wrapped call *)
  Theorem wrapper_reaches_exec :
    exists pre res, run (wrapper c ec cfg_of fuel) o 0 = (pre ++ [(CRealExec, res)], Some res)
                    /\ Forall (fun e => no_exec (fst e)) pre /\ Forall (fun e => issued c (fst e)) pre.
  Proof.
    pose proof (logging_issued c ec cfg_of fuel) as Hi.
    assert (Hn : all_calls no_exec (logging c ec cfg_of fuel)) by (eapply all_calls_impl; [apply issued_no_exec|exact Hi]).
    destruct (run_then_exec _ o 0 Hn (logging_returns 0)) as [pre [Hr [Hf Hp]]].
    exists pre, (o (0 + length pre)%nat CRealExec). split; [exact Hr|]. split; [exact Hf|].
    subst pre. apply (all_calls_run _ _ Hi).
  Qed.
End Termination.

(** * every call of every trace of the wrapped call is in the non-blocking, signal-free class — no assumption on the oracle *)
Section Classified.
  Variable c : fault_consts.
  Variable ec : expand_consts.
  Variable cfg_of : option (list (list byte)) -> config.
  Hypothesis Hok : fault_consts_ok c = true.
  Variable w : world.
  Hypothesis Hw : enumerated w = true.
  Hypothesis Hsys : syslog_on c = false.

  Theorem wrapper_classified fuel o i :
    Forall (fun e => may_block c w (fst e) = false /\ may_signal c w (fst e) = false) (fst (run (wrapper c ec cfg_of fuel) o i)).
  Proof.
    apply (all_calls_run (fun cl => may_block c w cl = false /\ may_signal c w cl = false)). unfold wrapper. apply all_calls_seq.
    - eapply all_calls_impl; [|apply logging_issued]. intros cl H. split; [eapply issued_nonblocking|eapply issued_nosignal]; eassumption.
    - apply AC_Do; [split; reflexivity|]. intros; apply AC_Ret.
  Qed.
End Classified.

(** * the read loop of util/file.c is bounded by its own sizes under EVERY oracle *)
Lemma file_read_bounded c (Hok : fault_consts_ok c = true) p o i fuel :
  file_max c <= N.of_nat fuel * file_fread c -> returns (file_read c fuel p) o i.
Proof.
  intros Hf. apply (rets_returns _ _ _ (fun _ => True)). unfold file_read. apply rets_do. destruct (is_err _); [apply rets_ret; exact I|].
  destruct (ok_facts c Hok) as [_ [_ [_ [_ [_ [_ [_ [Hfr _]]]]]]]].
  assert (G : forall fl total j, file_max c <= total + N.of_nat fl * file_fread c -> rets (file_loop c fl p total) o j (fun _ => True)).
  { induction fl as [|f IH]; intros total j Hb; cbn [file_loop].
    - destruct (total <? file_max c) eqn:E; [lia|]. unfold close_ret. apply rets_do. apply rets_ret. exact I.
    - destruct (total <? file_max c) eqn:E; [|unfold close_ret; apply rets_do; apply rets_ret; exact I].
      apply rets_do. destruct (is_err _); [unfold close_ret; apply rets_do; apply rets_ret; exact I|].
      match goal with |- context [N.min ?a ?b] => set (now := N.min a b) end.
      destruct ((_ =? 1)%Z || (now <? file_fread c)) eqn:E2.
      + match goal with |- rets (if ?b then _ else _) _ _ _ => destruct b end; unfold close_ret; apply rets_do; apply rets_ret; exact I.
      + apply IH. apply orb_false_iff in E2 as [_ E2]. assert (now = file_fread c) by (unfold now in *; lia). lia. }
  apply G. lia.
Qed.

(** * error.c: with the guard, the error record is dispatched with the NULL handler: one level, no re-entry *)
Lemma error_handler_guarded c ec (Hok : fault_consts_ok c = true) fuel cf :
  error_handler c ec fuel cf = if negb (cf_errlog cf) then Ret tt else dispatch c ec fuel (Ret tt) cf (err_msg_len c).
Proof. destruct (ok_facts c Hok) as [_ [_ [_ [_ [_ [_ [Hg _]]]]]]]. unfold error_handler. rewrite Hg. reflexivity. Qed.

(** without the guard: if one dispatch of the error record, handed a handler that never returns, never returns either
    (and makes no call first), then the unguarded handler never returns, for any fuel *)
Lemma unguarded_recurses c ec cf :
  err_guarded c = false -> cf_errlog cf = true ->
  (forall fuel, dispatch c ec fuel Hang cf (err_msg_len c) = Hang) ->
  forall fuel, error_handler c ec fuel cf = Hang.
Proof.
  intros Hg He Hd fuel. unfold error_handler. rewrite Hg, He. cbn [negb].
  generalize fuel at 1 as depth. induction depth as [|dp IH]; cbn [errh_unguarded]; [reflexivity|]. rewrite IH. apply Hd.
Qed.
