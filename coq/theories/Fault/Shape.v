(** C03, tie T2: the generated skeletons of the outputs / the error handler against the model.

    [paths]: every syntactic path through a loop-free skeleton, as the sequence of callee names in
    evaluation order (both arms of every [if], stopping at [return]).  A loop, a goto, an unrecognised
    statement or expression gives [None], which no predicate below accepts.  After dropping the callees
    that do no I/O ([quiet]), the set of paths must be EXACTLY the set of call sequences of the model
    program under all success/failure outcomes ([traces2]): so every failure branch of the C function
    closes and returns as the model says, there is no retry loop, and no further call of any kind.

    Second part: which libc symbols each object file of the library may reference. *)
From Snoopy Require Import Lib.CStr Lib.Skel Expand.Model Fault.IO Fault.Model.
From Coq Require Import String ZArith List Bool.
Import ListNotations.
Local Open Scope string_scope.
Local Open Scope list_scope.

(** callee names of an expression, arguments before the call *)
Fixpoint ecalls_post (e : sexpr) : list string :=
  match e with
  | XCall f args => flat_map ecalls_post args ++ [f]
  | XCallPtr p args => ecalls_post p ++ flat_map ecalls_post args ++ ["<indirect>"]
  | XCast e | XDeref e | XAddr e | XMember e _ => ecalls_post e
  | XIndex a b => ecalls_post a ++ ecalls_post b
  | XOp _ args => flat_map ecalls_post args
  | XOther w => [String.append "<other:" w]
  | _ => []
  end.

Fixpoint paths (fuel : nat) (stmts : list sstmt) (acc : list string) : option (list (list string)) :=
  match fuel with
  | O => None
  | S f =>
    match stmts with
    | [] => Some [acc]
    | s :: rest =>
      match s with
      | SExpr e => paths f rest (acc ++ ecalls_post e)
      | SDecl _ _ (Some e) => paths f rest (acc ++ ecalls_post e)
      | SDecl _ _ None => paths f rest acc
      | SAssign l r => paths f rest (acc ++ ecalls_post l ++ ecalls_post r)
      | SIf cnd t e =>
        match paths f (t ++ rest) (acc ++ ecalls_post cnd), paths f (e ++ rest) (acc ++ ecalls_post cnd) with
        | Some a, Some b => Some (a ++ b)
        | _, _ => None
        end
      | SSeq l => paths f (l ++ rest) acc
      | SReturn (Some e) => Some [acc ++ ecalls_post e]
      | SReturn None => Some [acc]
      | SLoop _ _ | SBreak | SContinue | SOther _ => None
      end
    end
  end.

(** callees that perform no I/O and cannot block: string/memory helpers, the configuration accessor *)
Definition quiet : list string :=
  ["strlen"; "strnlen"; "strncpy"; "strcmp"; "memcpy"; "malloc"; "free"; "snprintf"; "snoopy_configuration_get"; "snoopy_message_generateFromFormat"].

Definition io_paths (sk : fn_skel) : option (list (list string)) :=
  option_map (map (filter (fun s => negb (str_in s quiet)))) (paths 400 (sk_body sk) []).

Fixpoint list_str_eqb (a b : list string) : bool :=
  match a, b with [], [] => true | x :: a', y :: b' => String.eqb x y && list_str_eqb a' b' | _, _ => false end.
Definition incl_b (a b : list (list string)) : bool := forallb (fun x => existsb (list_str_eqb x) b) a.
Definition same_set (a b : list (list string)) : bool := incl_b a b && incl_b b a.

(** the libc name of a model call *)
Definition call_fn (cl : call) : string :=
  match cl with
  | CFopen _ _ => "fopen" | CFread _ _ => "fread" | CFgets _ => "fgets" | CGetline _ => "getline" | CFclose _ => "fclose"
  | COpen _ _ => "open" | CWrite _ _ => "write" | CClose _ => "close" | CSocket _ _ => "socket" | CConnect _ _ _ => "connect"
  | CSend _ _ _ => "send" | CSockClose => "close" | CDprintf _ => "dprintf" | CFprintf _ => "fprintf"
  | CStat => "stat" | CTtyname => "ttyname_r" | CGetcwd => "getcwd" | CGethostname => "gethostname" | CGetpwuid => "getpwuid_r"
  | CGetgrgid => "getgrgid_r" | CGetlogin => "getlogin_r" | CTime => "time" | CLocaltime => "localtime_r" | CGettimeofday => "gettimeofday"
  | CSetutent => "setutent" | CGetutline => "getutline_r" | CEndutent => "endutent" | COpenlog => "openlog" | CSyslog => "syslog"
  | CCloselog => "closelog" | CGetpid => "getpid" | CGetppid => "getppid" | CPure _ => "<pure>" | CRealExec => "<exec>"
  end.

(** all call sequences of a (loop-free) model program when each call may succeed or fail *)
Fixpoint traces2 {R} (p : prog R) : list (list string) :=
  match p with
  | Ret _ => [[]]
  | Hang => [["<hang>"]]
  | Do cl k => map (cons (call_fn cl)) (traces2 (k (OOk 1 [x61])) ++ traces2 (k (OErr 1)))
  end.

Definition matches_model {R} (sk : fn_skel) (progs : list (prog R)) : bool :=
  negb (existsb s_has_other (sk_body sk)) &&
  match io_paths sk with
  | Some ps => same_set ps (flat_map traces2 progs)
  | None => false
  end.
Definition matches_paths (sk : fn_skel) (expected : list (list string)) : bool :=
  negb (existsb s_has_other (sk_body sk)) &&
  match io_paths sk with Some ps => same_set ps expected | None => false end.

(** ** what the flag arguments are made of (T2 reading, cross-checks the T1 values) *)
Fixpoint evars (e : sexpr) : list string :=
  match e with
  | XVar n => [n]
  | XCall _ args | XOp _ args => flat_map evars args
  | XCallPtr p args => evars p ++ flat_map evars args
  | XCast e | XDeref e | XAddr e | XMember e _ => evars e
  | XIndex a b => evars a ++ evars b
  | _ => []
  end.
(** the argument lists of every call of [f] in an expression *)
Fixpoint ecall_args (f : string) (e : sexpr) : list (list sexpr) :=
  match e with
  | XCall g args => (if String.eqb f g then [args] else []) ++ flat_map (ecall_args f) args
  | XCallPtr p args => ecall_args f p ++ flat_map (ecall_args f) args
  | XCast e | XDeref e | XAddr e | XMember e _ => ecall_args f e
  | XIndex a b => ecall_args f a ++ ecall_args f b
  | XOp _ args => flat_map (ecall_args f) args
  | _ => []
  end.
Fixpoint scall_args (f : string) (s : sstmt) : list (list sexpr) :=
  match s with
  | SExpr e => ecall_args f e
  | SDecl _ _ (Some e) => ecall_args f e
  | SAssign l r => ecall_args f l ++ ecall_args f r
  | SIf cnd t e => ecall_args f cnd ++ flat_map (scall_args f) t ++ flat_map (scall_args f) e
  | SLoop cnd b => ecall_args f cnd ++ flat_map (scall_args f) b
  | SSeq l => flat_map (scall_args f) l
  | SReturn (Some e) => ecall_args f e
  | _ => []
  end.
Definition call_args (f : string) (sk : fn_skel) : list (list sexpr) := flat_map (scall_args f) (sk_body sk).

Definition arg_has_vars (f : string) (idx : nat) (vars : list string) (sk : fn_skel) : bool :=
  match call_args f sk with
  | [args] => match nth_error args idx with Some e => forallb (fun v => str_in v (evars e)) vars | None => false end
  | _ => false      (* exactly one call site *)
  end.

Definition socket_flags_shape (sk : fn_skel) : bool :=
  arg_has_vars "socket" 1 ["SOCK_DGRAM"; "SOCK_CLOEXEC"; "SOCK_NONBLOCK"] sk && arg_has_vars "send" 3 ["MSG_DONTWAIT"; "MSG_NOSIGNAL"] sk.

(** devtty / devnull: one return of the file output with the parameter and a literal path *)
(** the literal a local is initialised with / assigned once ([char const * const dest = "/dev/tty";]) *)
Fixpoint local_literal (v : string) (body : list sstmt) : option string :=
  match body with
  | [] => None
  | SDecl n _ (Some (XStr s)) :: rest => if String.eqb n v then Some s else local_literal v rest
  | SAssign (XVar n) (XStr s) :: rest => if String.eqb n v then Some s else local_literal v rest
  | _ :: rest => local_literal v rest
  end.
Definition assigned_times (v : string) (body : list sstmt) : nat :=
  List.length (filter (fun s => match s with
                                | SDecl n _ (Some _) => String.eqb n v
                                | SAssign (XVar n) _ => String.eqb n v
                                | _ => false end) body).
Definition resolve_literal (body : list sstmt) (e : sexpr) : option string :=
  match e with
  | XStr s => Some s
  | XVar v => if Nat.eqb (assigned_times v body) 1 then local_literal v body else None
  | _ => None
  end.
(** exactly one path, which calls the file output once and nothing else; its arguments are the message parameter and a literal path
    (spelled at the call or through a local that is set once) *)
Definition file_wrapper_shape (sk : fn_skel) (path : list byte) : bool :=
  negb (existsb s_has_other (sk_body sk)) &&
  match io_paths sk, call_args "snoopy_output_fileoutput" sk with
  | Some [["snoopy_output_fileoutput"]], [[XParam 0; e]] =>
    match resolve_literal (sk_body sk) e with Some s => list_eqb (bytes s) path | None => false end
  | _, _ => false
  end.

(** error.c: the dispatch of the error record sits between "error logging := off" and "error logging := on",
    after the early return when error logging is off *)
Definition is_errlog_assign (v : Z) (s : sstmt) : bool :=
  match s with
  | SAssign (XMember (XVar "CFG") "error_logging_enabled") (XInt z) => Z.eqb z v
  | _ => false
  end.
Fixpoint guarded_dispatch (body : list sstmt) : bool :=
  match body with
  | a :: ((SExpr (XCall "snoopy_action_log_message_dispatch" _) :: b :: _) as rest) =>
    (is_errlog_assign 0 a && is_errlog_assign 1 b) || guarded_dispatch rest
  | _ :: rest => guarded_dispatch rest
  | [] => false
  end.
Definition handler_guarded (sk : fn_skel) : bool :=
  guarded_dispatch (sk_body sk)
  && Nat.eqb (List.length (filter (String.eqb "snoopy_action_log_message_dispatch") (body_calls (sk_body sk)))) 1
  && matches_paths sk [[]; ["snoopy_action_log_message_dispatch"]].

(** * libc symbols per object file *)
(** no I/O, no waiting on a log sink: string / memory / number / time-format / identity / environment / thread bookkeeping
    (mutex waits are the subject of C09/C10) *)
Definition pure_syms : list string :=
  ["__ctype_b_loc"; "__errno_location"; "__isoc99_sscanf"; "sscanf"; "__xpg_strerror_r"; "strerror_r"; "calloc"; "malloc"; "free"; "memcpy"; "memset";
   "snprintf"; "strcasestr"; "strcat"; "strchr"; "strcmp"; "strdup"; "strftime"; "strlen"; "strncmp"; "strncpy"; "strndup"; "strnlen"; "strrchr";
   "strstr"; "strtok_r"; "strtol"; "atoi"; "atol"; "sysconf";
   "strcspn"; "strspn"; "strpbrk"; "strsep"; "strcpy"; "stpcpy"; "strncat"; "strcasecmp"; "strncasecmp"; "strtoul"; "strtoll"; "strtoull"; "strtok";
   "memmove"; "memchr"; "memcmp"; "memrchr"; "realloc"; "strerror"; "vsnprintf"; "sprintf"; "__ctype_tolower_loc"; "__ctype_toupper_loc"; "tolower"; "toupper"; "abs"; "labs"; "getenv"; "environ"; "getuid"; "geteuid"; "getgid"; "getegid"; "getsid"; "syscall"; "inet_ntop";
   "pthread_self"; "pthread_equal"; "pthread_once"; "pthread_atfork"; "pthread_mutex_init"; "pthread_mutex_lock"; "pthread_mutex_unlock";
   "pthread_mutexattr_init"; "pthread_mutexattr_settype"; "dlsym"; "stderr"; "clearerr"; "feof"; "ferror"].

(** the I/O symbols each object may reference: exactly those its model issues (plus two test-only helpers that no exec path reaches) *)
Definition io_allow : list (string * list string) :=
  [("lib/inih/src/ini", ["fopen"; "fgets"; "fclose"]);
   ("src/configuration", ["access"]);                         (* snoopy_configuration_preinit_setConfigFilePathFromEnv: test entry point only *)
   ("src/datasource/cgroup", ["getpid"]);
   ("src/datasource/cwd", ["getcwd"]);
   ("src/datasource/datetime", ["time"; "localtime_r"]);
   ("src/datasource/domain", ["gethostname"; "fopen"; "fgets"; "fclose"]);
   ("src/datasource/egroup", ["getgrgid_r"]); ("src/datasource/group", ["getgrgid_r"]);
   ("src/datasource/eusername", ["getpwuid_r"]);
   ("src/datasource/hostname", ["gethostname"]);
   ("src/datasource/ipaddr", ["ttyname_r"]);
   ("src/datasource/login", ["getlogin_r"]);
   ("src/datasource/pid", ["getpid"]); ("src/datasource/ppid", ["getppid"]);
   ("src/datasource/rpname", ["getpid"; "fopen"; "__getdelim"; "getline"; "fclose"]);
   ("src/datasource/timestamp", ["gettimeofday"]); ("src/datasource/timestamp_ms", ["gettimeofday"]); ("src/datasource/timestamp_us", ["gettimeofday"]);
   ("src/datasource/tty", ["ttyname_r"]); ("src/datasource/tty__common", ["ttyname_r"; "stat"]);
   ("src/filter/exclude_spawns_of", ["getppid"; "fopen"; "fread"; "fclose"]);
   ("src/filter/only_tty", ["ttyname_r"]);
   ("src/output/devlogoutput", ["getpid"]);
   ("src/output/fileoutput", ["open"; "write"; "close"]);
   ("src/output/socketoutput", ["socket"; "connect"; "send"; "close"]);
   ("src/output/stderroutput", ["fprintf"]);
   ("src/output/stdoutoutput", ["dprintf"]);
   ("src/output/syslogoutput", ["openlog"; "syslog"; "closelog"]);
   ("src/tsrm", ["localtime_r"; "setutent"; "getutline_r"; "endutent"]);   (* thread-safe build (fixes 6a78d5f, be92640): snoopy_tsrm_localtime_r / _strftime / _getutline run the
                                                                             libc calls of the datetime and ipaddr models under the library's own mutex; same calls, same order *)
   ("src/util/file", ["fopen"; "fread"; "fclose"]);
   ("src/util/pwd", ["getpwuid_r"]);
   ("src/util/utmp", ["setutent"; "getutline_r"; "endutent"; "utmpname"])].   (* utmpname: test helper only *)

Fixpoint allowed_for (o : string) (t : list (string * list string)) : list string :=
  match t with [] => [] | (k, l) :: t' => if String.eqb k o then l else allowed_for o t' end.

Definition object_ok (oc : string * list string) : bool :=
  forallb (fun s => str_in s pure_syms || str_in s (allowed_for (fst oc) io_allow)) (snd oc).
Definition objects_ok (ocs : list (string * list string)) : bool := forallb object_ok ocs.

Lemma objects_ok_spec ocs : objects_ok ocs = true ->
  forall o syms s, In (o, syms) ocs -> In s syms -> In s pure_syms \/ In s (allowed_for o io_allow).
Proof.
  unfold objects_ok. rewrite forallb_forall. intros H o syms s Ho Hs. specialize (H _ Ho). unfold object_ok in H. cbn [fst snd] in H.
  rewrite forallb_forall in H. specialize (H _ Hs). apply orb_true_iff in H as [H|H]; apply str_in_In in H; auto.
Qed.

(** no symbol of any object is in one of the given families *)
Definition avoids (families : list (list string)) (ocs : list (string * list string)) : bool :=
  forallb (fun oc => forallb (fun s => forallb (fun fam => negb (str_in s fam)) families) (snd oc)) ocs.
Lemma avoids_spec families ocs : avoids families ocs = true ->
  forall o syms s fam, In (o, syms) ocs -> In s syms -> In fam families -> ~ In s fam.
Proof.
  unfold avoids. rewrite forallb_forall. intros H o syms s fam Ho Hs Hf X. specialize (H _ Ho). cbn [snd] in H.
  rewrite forallb_forall in H. specialize (H _ Hs). rewrite forallb_forall in H. specialize (H _ Hf).
  apply str_in_In in X. rewrite X in H. discriminate.
Qed.
