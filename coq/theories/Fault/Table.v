(** C03: the classification table — which libc-boundary calls can block the caller or raise a signal
    in it, as a function of the call, its flag words, and the state of the world around the process.

    THIS TABLE IS AN ASSUMPTION ABOUT LINUX AND GLIBC ([linux_table]), not something proved: it is the
    named trusted input of [C03_nonblocking] / [C03_nosignal].  It is written to be conservative (a call is
    "may block" unless a stated reason excludes it) and honest about the cases the property does not
    enumerate: a FIFO or a stopped terminal as the file sink, a reader-less or full pipe as the CALLER's
    stdout/stderr, name-service lookups that leave the machine. *)
From Snoopy Require Import Lib.CStr Fault.IO Fault.Model.
From Coq Require Import ZArith.
Local Open Scope N_scope.

(** state of the configured log sink *)
Inductive sinkstate :=
| SkOk                   (* regular file / character device that accepts writes / datagram socket that is read *)
| SkAbsent               (* path or directory missing, nothing bound at the socket path *)
| SkNoPerm               (* no permission *)
| SkNoSpace              (* ENOSPC *)
| SkDgramFullUnread      (* bound datagram socket whose queue is full and which nobody reads *)
| SkFifoNoReader         (* file: pointed at a FIFO nobody reads — NOT among the enumerated states *)
| SkTtyStopped.          (* flow-controlled terminal — NOT among the enumerated states *)

(** what the CALLER's descriptor 1 / 2 is (stdout / stderr outputs write to descriptors the library does not own) *)
Inductive fdstate := FdPlain | FdPipeNoReader | FdPipeFullUnread.

Record world := { w_sink : sinkstate; w_fd1 : fdstate; w_fd2 : fdstate; w_nss_local : bool }.

Definition enumerated_sink (s : sinkstate) : bool :=
  match s with SkOk | SkAbsent | SkNoPerm | SkNoSpace | SkDgramFullUnread => true | _ => false end.
Definition plain (f : fdstate) : bool := match f with FdPlain => true | _ => false end.
(** the sink states the property enumerates, a caller whose own stdout/stderr are not broken pipes, local name service *)
Definition enumerated (w : world) : bool := enumerated_sink (w_sink w) && plain (w_fd1 w) && plain (w_fd2 w) && w_nss_local w.

Section Table.
  Variable c : fault_consts.
  Variable w : world.

  Definition fd_state (fd : N) : fdstate := if fd =? 1 then w_fd1 w else if fd =? 2 then w_fd2 w else FdPlain.
  Definition is_template_or_lit (p : path) : bool := match p with PLit _ | PTemplate => true | _ => false end.

  Definition may_block (cl : call) : bool :=
    match cl with
    (* stdio on the configuration file, procfs files and /etc/hosts: regular-file / procfs reads return *)
    | CFopen _ _ | CFread _ _ | CFgets _ | CGetline _ | CFclose _ => false
    (* open(2) without O_NONBLOCK blocks on a FIFO without a reader; on everything else it returns *)
    | COpen p fl => match w_sink w with SkFifoNoReader => negb (has (b_o_nonblock c) fl) | _ => false end
    (* write(2) on a regular file / null device returns (ENOSPC is an error, not a wait); a stopped terminal or a FIFO waits *)
    | CWrite p fl => match w_sink w with SkFifoNoReader | SkTtyStopped => negb (has (b_o_nonblock c) fl) | _ => false end
    | CClose _ | CSockClose | CSocket _ _ => false
    (* connect on a non-blocking AF_UNIX datagram socket *)
    | CConnect dom ty _ => negb ((dom =? b_af_unix c) && (N.land ty (b_sock_typemask c) =? b_sock_dgram c) && has (b_sock_nonblock c) ty)
    (* send returns at once only with MSG_DONTWAIT (a full unread queue gives EAGAIN) *)
    | CSend _ _ fl => negb (has (b_msg_dontwait c) fl)
    (* the caller's descriptors: a full pipe nobody drains makes write(2) wait *)
    | CDprintf fd | CFprintf fd => match fd_state fd with FdPipeFullUnread => true | _ => false end
    | CStat | CGetcwd | CGethostname | CTime | CGettimeofday | CGetpid | CGetppid | CPure _ => false
    (* glibc-internal work behind one abstract call: local files only when the name service is local *)
    | CTtyname | CLocaltime => false
    | CGetpwuid | CGetgrgid | CGetlogin | CSetutent | CGetutline | CEndutent => negb (w_nss_local w)
    (* glibc's syslog(3) connects and sends WITHOUT the non-blocking flags: it may wait for a stalled log daemon *)
    | COpenlog | CSyslog | CCloselog => true
    | CRealExec => false
    end.

  Definition may_signal (cl : call) : bool :=
    match cl with
    | CSend _ _ fl => negb (has (b_msg_nosignal c) fl)                                   (* SIGPIPE *)
    | CWrite _ _ => match w_sink w with SkFifoNoReader => true | _ => false end         (* reader gone after open: SIGPIPE *)
    | CDprintf fd | CFprintf fd => match fd_state fd with FdPipeNoReader => true | _ => false end
    | _ => false
    end.
End Table.
