(** C07, second half: what the logging action (log-syscall-exec.c, skeleton regenerated from clang's
    AST) executes for a given value of CFG->filtering_enabled and a given result of
    snoopy_filtering_check_chain.  The skeleton is run with the condition of the early return
    evaluated (short-circuit [&&]/[||] included), and yields the list of functions called, in order. *)
From Coq Require Import String ZArith List Bool.
From Snoopy Require Import Lib.Skel.
Import ListNotations.
Local Open Scope string_scope.
Local Open Scope list_scope.

Definition CHECK := "snoopy_filtering_check_chain".
Definition GETCFG := "snoopy_configuration_get".
Definition FORMAT := "snoopy_message_generateFromFormat".
Definition DISPATCH := "snoopy_action_log_message_dispatch".

Section Run.
  Variable fe : Z.     (* CFG->filtering_enabled *)
  Variable chk : Z.    (* value returned by snoopy_filtering_check_chain(CFG->filter_chain) *)

  (** value of a condition and the calls its evaluation performs; [None] = not in the fragment *)
  Fixpoint cev (e : sexpr) : option (Z * list string) :=
    match e with
    | XInt z => Some (z, [])
    | XCast a => cev a
    | XMember (XVar "CFG") "filtering_enabled" => Some (fe, [])
    | XCall f [XMember (XVar "CFG") "filter_chain"] => if String.eqb f CHECK then Some (chk, [CHECK]) else None
    | XOp op [a; b] =>
      match cev a with
      | None => None
      | Some (va, ca) =>
        if String.eqb op "&&" then
          if Z.eqb va 0 then Some (0%Z, ca)
          else match cev b with Some (vb, cb) => Some ((if Z.eqb vb 0 then 0 else 1)%Z, ca ++ cb) | None => None end
        else if String.eqb op "||" then
          if Z.eqb va 0 then match cev b with Some (vb, cb) => Some ((if Z.eqb vb 0 then 0 else 1)%Z, ca ++ cb) | None => None end
          else Some (1%Z, ca)
        else match cev b with
             | None => None
             | Some (vb, cb) =>
               if String.eqb op "==" then Some ((if Z.eqb va vb then 1 else 0)%Z, ca ++ cb)
               else if String.eqb op "!=" then Some ((if Z.eqb va vb then 0 else 1)%Z, ca ++ cb)
               else None
             end
      end
    | XOp "!" [a] => match cev a with Some (va, ca) => Some ((if Z.eqb va 0 then 1 else 0)%Z, ca) | None => None end
    | _ => None
    end.

  (** the functions called by the body until it returns, in order *)
  Fixpoint arun (body : list sstmt) : option (list string) :=
    match body with
    | [] => Some []
    | s :: rest =>
      match s with
      | SDecl _ _ None => arun rest
      | SDecl _ _ (Some e) => option_map (app (ecalls e)) (arun rest)
      | SAssign l r => option_map (app (ecalls l ++ ecalls r)) (arun rest)
      | SExpr e => option_map (app (ecalls e)) (arun rest)
      | SIf cnd [SReturn None] [] =>
        match cev cnd with
        | Some (v, cs) => if Z.eqb v 0 then option_map (app cs) (arun rest) else Some cs
        | None => None
        end
      | SReturn None => Some []
      | SReturn (Some e) => Some (ecalls e)
      | _ => None
      end
    end.
End Run.

(** with filtering enabled and a DROP decision the action calls nothing but the configuration
    getter and the chain check: no allocation, no formatting, no dispatch, hence no output *)
Definition action_drop_silent (true_val drop_val : Z) (sk : fn_skel) : bool :=
  match arun true_val drop_val (sk_body sk) with
  | Some cs => forallb (fun f => String.eqb f GETCFG || String.eqb f CHECK) cs && str_in CHECK cs
               && negb (existsb s_has_other (sk_body sk))
  | None => false
  end.

(** with a PASS decision the message is formatted and dispatched exactly once, after the check *)
Fixpoint after (x : string) (l : list string) : list string :=
  match l with [] => [] | y :: r => if String.eqb x y then r else after x r end.
Definition action_pass_logs (true_val pass_val : Z) (sk : fn_skel) : bool :=
  match arun true_val pass_val (sk_body sk) with
  | Some cs => let tail := after CHECK cs in
               Nat.eqb (count_occ string_dec tail DISPATCH) 1 && Nat.eqb (count_occ string_dec cs DISPATCH) 1
               && str_in DISPATCH (after FORMAT tail)
  | None => false
  end.

Lemma action_drop_silent_spec tv dv sk : action_drop_silent tv dv sk = true ->
  exists cs, arun tv dv (sk_body sk) = Some cs /\ In CHECK cs /\ forall f, In f cs -> f = GETCFG \/ f = CHECK.
Proof.
  unfold action_drop_silent. destruct (arun tv dv (sk_body sk)) as [cs|]; [|discriminate].
  intros H. apply andb_true_iff in H as [H _]. apply andb_true_iff in H as [H1 H2].
  exists cs. split; [reflexivity|]. split; [now apply str_in_In|].
  intros f Hf. rewrite forallb_forall in H1. specialize (H1 f Hf). apply orb_true_iff in H1 as [E|E]; apply String.eqb_eq in E; tauto.
Qed.
