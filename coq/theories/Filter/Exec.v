(** Executable instances of the filter model for the correspondence drivers, and the boolean
    specification checkers evaluated on implementation outputs (C07, C14). *)
From Snoopy Require Import Lib.CStr Filter.Model.
From Coq Require Import ZifyBool ZifyN ZifyNat.
Local Open Scope N_scope.
Local Open Scope list_scope.

Definition fimpl_tag (f : fimpl) : N :=
  match f with FOnlyUid => 1 | FExcludeUid => 2 | FOnlyRoot => 3 | FOnlyTty => 4 | FExcludeSpawnsOf => 5 | FNoop => 6 | FOther => 0 end.
Definition fimpl_eqb (a b : fimpl) : bool := fimpl_tag a =? fimpl_tag b.

(** ** C07: the chain combinator over MEASURED verdicts of the registered functions.
    [tbl] lists (function, argument, verdict) as observed from the implementation in the same
    process state; anything not listed passes. *)
Definition table_impl (tbl : list (fimpl * list byte * bool)) (f : fimpl) (arg : list byte) : bool :=
  match find (fun r => fimpl_eqb (fst (fst r)) f && list_eqb (snd (fst r)) arg) tbl with
  | Some r => snd r
  | None => true
  end.

(** elements of the chain as the specification reads them, with the registry binding of each name *)
Definition binding (c : filter_consts) (name : list byte) : option fimpl :=
  match get_id (reg_names c) name 0 with
  | Ok (Some i) => nth_error (reg_ptrs c) i
  | _ => None
  end.
Definition elems (c : filter_consts) (chain : list byte) : list (list byte * list byte * option fimpl) :=
  map (fun e => (fst e, snd e, binding c (fst e))) (elements chain).

Definition chain_tab (c : filter_consts) (tbl : list (fimpl * list byte * bool)) (chain : list byte) : res bool :=
  check_chain c (table_impl tbl) chain.

(** the property on one observation: a chain within the configuration-line length is decided as the
    conjunction of the known elements' own verdicts *)
Definition spec_C07_ok (c : filter_consts) (tbl : list (fimpl * list byte * bool)) (chain : list byte) (observed_pass : bool) : bool :=
  if len chain <? ini_max_line c
  then Bool.eqb observed_pass (forallb (eval c (table_impl tbl)) (elements chain))
  else true.

(** ** full model (built-in filters modelled), used by C14 and by the end-to-end predictions *)
Definition mk_ps (r e : N) (tty : bool) : pstate := {| ruid := r; euid := e; stdin_tty := tty; spawns := fun _ => true |}.
Definition chain_full (c : filter_consts) (r e : N) (tty : bool) (chain : list byte) : res bool :=
  check_chain c (builtin c (mk_ps r e tty)) chain.

Inductive uidfilter := UOnly | UExclude | URoot.
Definition uid_filter (c : filter_consts) (r e : N) (w : uidfilter) (arg : list byte) : bool :=
  match w with
  | UOnly => only_uid c (mk_ps r e false) arg
  | UExclude => exclude_uid c (mk_ps r e false) arg
  | URoot => only_root c (mk_ps r e false)
  end.

(** C14 on one observation: for a well-formed list the verdict is membership of the REAL uid *)
Definition wf_list (arg : list byte) : bool := forallb wf_uid_numeralb (split_on COMMA arg).
Definition listed (r : N) (arg : list byte) : bool := existsb (fun it => digits_val it =? r) (split_on COMMA arg).
Definition spec_C14_ok (r : N) (w : uidfilter) (arg : list byte) (observed_pass : bool) : bool :=
  match w with
  | URoot => Bool.eqb observed_pass (r =? 0)
  | UOnly => if wf_list arg then Bool.eqb observed_pass (listed r arg) else true
  | UExclude => if wf_list arg then Bool.eqb observed_pass (negb (listed r arg)) else true
  end.
(** ... and for EVERY argument the two list filters disagree *)
Definition spec_C14_complement (only_pass exclude_pass : bool) : bool := negb (Bool.eqb only_pass exclude_pass).

Definition csv (c : filter_consts) (raw : list byte) : nat * list (list byte) :=
  let r := csv_split (csv_delim c) raw in (csv_argc r, csv_items r).
