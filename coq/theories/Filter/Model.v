(** Model of the filter chain (src/filtering.c, src/filterregistry.c, src/genericregistry.c), of the
    uid filters (src/filter/only_uid.c, exclude_uid.c, only_root.c) and of the in-place CSV splitter
    (src/util/parser.c:snoopy_util_parser_csvToArgList), path by path, with the buffer sizes, literals,
    registry tables, id query and conversion/cast chain regenerated from the source (Gen_Filter.v).

    Byte strings are NUL-free [list byte]; sizes are [N]; integer conversions are done in [Z] with the
    C casts made explicit as reductions modulo 2^bits.  [Fault] = the C program would have undefined
    behaviour here. *)
From Snoopy Require Import Lib.CStr.
From Coq Require Import ZifyBool ZifyN ZifyNat.
Local Open Scope N_scope.
Local Open Scope list_scope.

(** which C function a row of [snoopy_filterregistry_ptrs] designates *)
Inductive fimpl := FOnlyUid | FExcludeUid | FOnlyRoot | FOnlyTty | FExcludeSpawnsOf | FNoop | FOther.
(** which id query a uid filter calls *)
Inductive idquery := QGetuid | QGeteuid | QOther.
(** which libc conversion a uid filter applies to a list item *)
Inductive convfn := ConvAtol | ConvAtoi | ConvOther.
(** one C integer conversion: to a signed / an unsigned type of that many bits *)
Inductive castk := CastS (bits : N) | CastU (bits : N).

Record filter_consts := {
  (* filtering.c *)
  chain_max : N;            (* char filterChainCopy[SNOOPY_FILTER_CHAIN_MAX_SIZE] *)
  copy_n : N;               (* strncpy(filterChainCopy, filterChain, <this>) *)
  term_idx : N;             (* filterChainCopy[<this>] = '\0' *)
  name_max : N;             (* char filterName[SNOOPY_FILTER_NAME_MAX_SIZE] *)
  arg_max : N;              (* char filterArg[SNOOPY_FILTER_ARG_MAX_SIZE] (only ever holds "") *)
  chain_delim : list byte;  (* strtok_r(str, ";", &rest): a SET of delimiter bytes *)
  name_delim : list byte;   (* strstr(filterSpec, ":") *)
  ini_max_line : N;         (* lib/inih: -DINI_MAX_LINE; no configured chain is longer than this *)
  default_chain : list byte;(* SNOOPY_FILTER_CHAIN (config.h), the compiled-in chain *)
  (* filterregistry.c, rows that survive the preprocessor under config.h, sentinel included *)
  reg_names : list (list byte);
  reg_ptrs : list fimpl;
  (* snoopy.h *)
  pass_val : Z; drop_val : Z; true_val : Z;
  (* uid filters *)
  long_bits : N; uid_bits : N;
  only_query : idquery; exclude_query : idquery; root_query : idquery;
  only_conv : convfn; exclude_conv : convfn;
  only_casts : list castk; exclude_casts : list castk;   (* innermost first, ending with the conversion to the compared type *)
  root_value : Z;           (* the constant only_root compares with *)
  csv_delim : byte          (* parser.c: countChars(.., ','), strchr(.., ',') *)
}.

Definition is_nil {A} (l : list A) : bool := match l with [] => true | _ => false end.
Definition memb (b : byte) (ds : list byte) : bool := existsb (beq b) ds.

(** * strtok_r with a delimiter set *)
Fixpoint skip_delims (ds s : list byte) : list byte :=
  match s with
  | [] => []
  | b :: s' => if memb b ds then skip_delims ds s' else s
  end.
(** token and the rest after the delimiter that ended it *)
Fixpoint span_tok (ds s : list byte) : list byte * list byte :=
  match s with
  | [] => ([], [])
  | b :: s' => if memb b ds then ([], s') else let (t, r) := span_tok ds s' in (b :: t, r)
  end.
Definition strtok_r (ds s : list byte) : option (list byte * list byte) :=
  match skip_delims ds s with
  | [] => None
  | s1 => Some (span_tok ds s1)
  end.

(** * genericregistry.c: getIdFromName — walk the array until the "" sentinel *)
Fixpoint get_id (names : list (list byte)) (name : list byte) (i : nat) : res (option nat) :=
  match names with
  | [] => Fault OOB_read                 (* ran off the array: no "" sentinel *)
  | n :: rest => if is_nil n then Ok None
                 else if list_eqb n name then Ok (Some i)
                 else get_id rest name (S i)
  end.

Section Chain.
  Variable c : filter_consts.
  (** the registered functions: pure functions of (argument, process state); [true] = PASS *)
  Variable impl : fimpl -> list byte -> bool.

  (** the name -> function binding that doesNameExist / callByName implement *)
  Definition known (name : list byte) : option (list byte -> bool) :=
    match get_id (reg_names c) name 0 with
    | Ok (Some i) => option_map impl (nth_error (reg_ptrs c) i)
    | _ => None
    end.

  (** split of one filter spec at the first occurrence of the name delimiter; the name is copied
      into [filterName] (strncpy of k bytes, then filterName[k] = 0), the argument is a pointer
      into the chain copy *)
  Definition split_spec (spec : list byte) : res (list byte * list byte) :=
    match strstr spec (name_delim c) with
    | None => if 1 <=? arg_max c then Ok (spec, []) else Fault OOB_write
    | Some k => if name_max c <=? N.of_nat k then Fault OOB_write
                else Ok (firstn k spec, skipn (S k) spec)
    end.

  Fixpoint chain_loop (fuel : nat) (s : list byte) : res bool :=
    match fuel with
    | O => Fault Out_of_fuel
    | S f =>
      match strtok_r (chain_delim c) s with
      | None => Ok true
      | Some (spec, rest) =>
        sp <- split_spec spec ;;
        id <- get_id (reg_names c) (fst sp) 0 ;;
        match id with
        | None => chain_loop f rest                       (* unknown name: continue *)
        | Some i =>
          match nth_error (reg_ptrs c) i with
          | None => Fault OOB_read
          | Some fi => if impl fi (snd sp) then chain_loop f rest else Ok false   (* first DROP returns *)
          end
        end
      end
    end.

  (** strncpy(copy, chain, copy_n); copy[term_idx] = 0 *)
  Definition chain_copy (chain : list byte) : res (list byte) :=
    if chain_max c <? copy_n c then Fault OOB_write          (* strncpy always writes copy_n bytes *)
    else if chain_max c <=? term_idx c then Fault OOB_write
    else if (copy_n c <? term_idx c) && (copy_n c <=? len chain) then Fault OOB_read   (* uninitialised gap *)
    else Ok (takeN (N.min (copy_n c) (term_idx c)) chain).

  Definition check_chain (chain : list byte) : res bool :=
    cp <- chain_copy chain ;;
    chain_loop (S (length cp)) cp.

  (** ** Specification: non-empty ';'-fields, each split at its first ':' *)
  Definition parse_elem (f : list byte) : list byte * list byte :=
    match index COLONB f with
    | None => (f, [])
    | Some k => (firstn k f, skipn (S k) f)
    end.
  Definition elements (chain : list byte) : list (list byte * list byte) :=
    map parse_elem (filter (fun f => negb (is_nil f)) (split_on SEMI chain)).
  Definition eval (e : list byte * list byte) : bool :=
    match known (fst e) with
    | None => true
    | Some f => f (snd e)
    end.
End Chain.

(** the int the C function returns for a decision *)
Definition verdict_val (c : filter_consts) (pass : bool) : Z := if pass then pass_val c else drop_val c.

Definition names_before_sentinel := fix go (names : list (list byte)) : nat :=
  match names with
  | [] => O
  | n :: rest => if is_nil n then O else S (go rest)
  end.

Definition query_eqb (a b : idquery) : bool :=
  match a, b with QGetuid, QGetuid | QGeteuid, QGeteuid | QOther, QOther => true | _, _ => false end.
Definition conv_is_atol (f : convfn) : bool := match f with ConvAtol => true | _ => false end.

(** a cast chain whose net effect is reduction modulo 2^b: every conversion is to a type of at
    least b bits and the last one is to the unsigned b-bit type *)
Definition cast_bits (k : castk) : N := match k with CastS b | CastU b => b end.
Fixpoint casts_mod (b : N) (l : list castk) : bool :=
  match l with
  | [] => false
  | k :: l' =>
    match l' with
    | [] => match k with CastU w => w =? b | CastS _ => false end
    | _ :: _ => (b <=? cast_bits k) && casts_mod b l'
    end
  end.

(** side conditions under which the general theorems hold; evaluated on the regenerated constants.
    One per property, so that a change that concerns only the uid filters does not touch C07's obligation and vice versa. *)
Definition chain_consts_ok (c : filter_consts) : bool :=
  (copy_n c =? chain_max c - 1) && (term_idx c =? chain_max c - 1) && (1 <=? chain_max c)
  && (ini_max_line c <=? chain_max c - 1) && (ini_max_line c <=? name_max c) && (1 <=? arg_max c)
  && (len (default_chain c) <? ini_max_line c)
  && list_eqb (chain_delim c) [SEMI] && list_eqb (name_delim c) [COLONB]
  && existsb is_nil (reg_names c)
  && (names_before_sentinel (reg_names c) <=? length (reg_ptrs c))%nat
  && negb (Z.eqb (pass_val c) (drop_val c)).

Definition uid_consts_ok (c : filter_consts) : bool :=
  (33 <=? long_bits c) && (uid_bits c =? 32)
  && query_eqb (only_query c) QGetuid && query_eqb (exclude_query c) QGetuid && query_eqb (root_query c) QGetuid
  && conv_is_atol (only_conv c) && conv_is_atol (exclude_conv c)
  && casts_mod (uid_bits c) (only_casts c) && casts_mod (uid_bits c) (exclude_casts c)
  && Z.eqb (root_value c) 0 && beq (csv_delim c) COMMA.

Definition filter_consts_ok (c : filter_consts) : bool := chain_consts_ok c && uid_consts_ok c.

(** * parser.c: csvToArgList — in-place split.  A pointer is an offset into the duplicated argument. *)
Definition count_byte (d : byte) (s : list byte) : nat := length (filter (beq d) s).
(** offsets stored by the strchr loop: one past every delimiter *)
Fixpoint delim_offsets (d : byte) (pos : nat) (s : list byte) : list nat :=
  match s with
  | [] => []
  | b :: s' => if beq b d then S pos :: delim_offsets d (S pos) s' else delim_offsets d (S pos) s'
  end.
(** the buffer after the loop: every delimiter overwritten with NUL *)
Definition mangle (d : byte) (s : list byte) : list byte := map (fun b => if beq b d then NUL else b) s.
(** the C string found at a pointer *)
Fixpoint cstr_of (s : list byte) : list byte :=
  match s with
  | [] => []
  | b :: s' => if beq b NUL then [] else b :: cstr_of s'
  end.
Definition cstr_at (buf : list byte) (off : nat) : list byte := cstr_of (skipn off buf).

Record csv_result := {
  csv_argc : nat;                   (* return value *)
  csv_items : list (list byte);     (* the strings at argListParsed[0 .. i-1] *)
  csv_sentinel : nat;               (* offset stored in the last slot: strlen+1, ONE PAST the terminating NUL *)
  csv_slots : nat                   (* slots allocated: (commaCount+1)+1 *)
}.
Definition csv_split (d : byte) (raw : list byte) : csv_result :=
  let cc := count_byte d raw in
  let offs := (if is_nil raw then [] else [O]) ++ (if (0 <? cc)%nat then delim_offsets d 0 raw else []) in
  let buf := if (0 <? cc)%nat then mangle d raw else raw in
  {| csv_argc := if is_nil raw then O else S cc;
     csv_items := map (cstr_at buf) offs;
     csv_sentinel := S (length raw);
     csv_slots := S (S cc) |}.

(** * atol / atoi (glibc: strtol base 10, saturating) and the C integer conversions *)
(** [Z.of_N], restated so that the extraction does not pull in a second [of_N] next to [Byte.of_N] *)
Definition zofN (n : N) : Z := match n with N0 => Z0 | Npos p => Zpos p end.
Lemma zofN_eq n : zofN n = Z.of_N n.
Proof. destruct n; reflexivity. Qed.
Definition MINUS := x2d.  Definition PLUS := x2b.
Fixpoint skip_space (s : list byte) : list byte :=
  match s with
  | [] => []
  | b :: s' => if is_space b then skip_space s' else s
  end.
Fixpoint digit_run (s : list byte) : list byte :=
  match s with
  | [] => []
  | b :: s' => if is_digit b then b :: digit_run s' else []
  end.
Definition strtol10 (bits : N) (s : list byte) : Z :=
  let s1 := skip_space s in
  let '(neg, s2) := match s1 with
                    | b :: r => if beq b MINUS then (true, r) else if beq b PLUS then (false, r) else (false, s1)
                    | [] => (false, [])
                    end in
  let v := zofN (digits_val (digit_run s2)) in
  let hi := (2 ^ (zofN bits - 1) - 1)%Z in
  let lo := (- 2 ^ (zofN bits - 1))%Z in
  if neg then Z.max lo (- v) else Z.min hi v.

Definition cast_u (bits : N) (z : Z) : Z := (z mod 2 ^ zofN bits)%Z.
Definition cast_s (bits : N) (z : Z) : Z :=
  let m := (z mod 2 ^ zofN bits)%Z in
  if (m <? 2 ^ (zofN bits - 1))%Z then m else (m - 2 ^ zofN bits)%Z.
Definition apply_cast (z : Z) (k : castk) : Z := match k with CastS b => cast_s b z | CastU b => cast_u b z end.

Definition convert (c : filter_consts) (f : convfn) (s : list byte) : Z :=
  match f with
  | ConvAtol => strtol10 (long_bits c) s
  | ConvAtoi => cast_s 32 (strtol10 (long_bits c) s)       (* glibc: (int) strtol(s, NULL, 10) *)
  | ConvOther => 0%Z
  end.

(** * process state seen by the filters *)
Record pstate := {
  ruid : N; euid : N;                    (* getuid(), geteuid() *)
  stdin_tty : bool;                      (* ttyname_r(0, ..) == 0 *)
  spawns : list byte -> bool             (* exclude_spawns_of(arg) == PASS: opaque here (C15) *)
}.
Definition query (q : idquery) (ps : pstate) : Z :=
  match q with QGetuid => zofN (ruid ps) | QGeteuid => zofN (euid ps) | QOther => (-1)%Z end.

Section Uid.
  Variable c : filter_consts.
  Variable ps : pstate.

  Definition item_uid (f : convfn) (casts : list castk) (item : list byte) : Z :=
    fold_left apply_cast casts (convert c f item).

  (** for (i = 0; i < argCount; i++) if ((uid_t) conv(argParsed[i]) == curUid) return <hit>; return <miss>; *)
  Definition uid_listed (q : idquery) (f : convfn) (casts : list castk) (arg : list byte) : bool :=
    let r := csv_split (csv_delim c) arg in
    existsb (fun it => Z.eqb (item_uid f casts it) (cast_u (uid_bits c) (query q ps))) (firstn (csv_argc r) (csv_items r)).

  Definition only_uid (arg : list byte) : bool := uid_listed (only_query c) (only_conv c) (only_casts c) arg.
  Definition exclude_uid (arg : list byte) : bool := negb (uid_listed (exclude_query c) (exclude_conv c) (exclude_casts c) arg).
  Definition only_root : bool := Z.eqb (root_value c) (cast_u (uid_bits c) (query (root_query c) ps)).

  (** the functions behind the registry rows *)
  Definition builtin (f : fimpl) (arg : list byte) : bool :=
    match f with
    | FOnlyUid => only_uid arg
    | FExcludeUid => exclude_uid arg
    | FOnlyRoot => only_root
    | FOnlyTty => stdin_tty ps
    | FExcludeSpawnsOf => spawns ps arg
    | FNoop => true
    | FOther => true
    end.
End Uid.

(** well-formed uid numeral: non-empty run of decimal digits (leading zeros allowed) with value < 2^32 *)
Definition wf_uid_numeral (s : list byte) : Prop :=
  s <> [] /\ forallb is_digit s = true /\ digits_val s < 2 ^ 32.
Definition wf_uid_numeralb (s : list byte) : bool :=
  negb (is_nil s) && forallb is_digit s && (digits_val s <? 2 ^ 32).
