(** C07: the chain loop of filtering.c computes the conjunction of the known elements' verdicts — for
    every chain, every registry and every behaviour of the registered functions, for all constant
    records with [chain_consts_ok]. *)
From Snoopy Require Import Lib.CStr Filter.Model.
From Coq Require Import ZifyBool ZifyN ZifyNat Permutation.
Local Open Scope N_scope.
Local Open Scope list_scope.

(** * generic list facts *)
Lemma beq_sym a b : beq a b = beq b a.
Proof.
  destruct (beq a b) eqn:E.
  - apply beq_eq in E. subst. symmetry. apply beq_refl.
  - apply beq_neq in E. symmetry. apply beq_neq. congruence.
Qed.

Lemma strstr_single s d : strstr s [d] = index d s.
Proof.
  induction s as [|b s IH]; [reflexivity|].
  cbn [strstr index prefixb]. rewrite andb_true_r, (beq_sym d b).
  destruct (beq b d); [reflexivity|]. now rewrite IH.
Qed.

Lemma forallb_perm {A} (f : A -> bool) l l' : Permutation l l' -> forallb f l = forallb f l'.
Proof.
  induction 1 as [|x l l' _ IH|x y l|l l' l'' _ IH1 _ IH2]; cbn [forallb].
  - reflexivity.
  - now rewrite IH.
  - destruct (f x), (f y); reflexivity.
  - now rewrite IH1.
Qed.

Lemma forallb_same_set {A} (f : A -> bool) l l' : (forall x, In x l <-> In x l') -> forallb f l = forallb f l'.
Proof.
  intros H. destruct (forallb f l) eqn:E, (forallb f l') eqn:E'; try reflexivity.
  - rewrite forallb_forall in E. assert (forallb f l' = true) by (apply forallb_forall; intros x Hx; apply E, H, Hx). congruence.
  - rewrite forallb_forall in E'. assert (forallb f l = true) by (apply forallb_forall; intros x Hx; apply E', H, Hx). congruence.
Qed.

Lemma Permutation_filter' {A} (p : A -> bool) l l' : Permutation l l' -> Permutation (filter p l) (filter p l').
Proof.
  induction 1 as [|x l l' _ IH|x y l|l l' l'' _ IH1 _ IH2]; cbn [filter].
  - constructor.
  - destruct (p x); [now constructor|assumption].
  - destruct (p x), (p y); try apply Permutation_refl. constructor.
  - eapply Permutation_trans; eassumption.
Qed.

(** ** [split_on] against [join] *)
Lemma split_on_nodelim d s : ~ In d s -> split_on d s = [s].
Proof.
  induction s as [|b s IH]; intros H; [reflexivity|]. cbn [split_on].
  destruct (beq b d) eqn:E; [apply beq_eq in E; subst; exfalso; apply H; now left|].
  rewrite IH by (intros F; apply H; now right). reflexivity.
Qed.
Lemma split_on_app d a s : ~ In d a -> split_on d (a ++ d :: s) = a :: split_on d s.
Proof.
  induction a as [|b a IH]; intros H; cbn [app split_on].
  - now rewrite beq_refl.
  - destruct (beq b d) eqn:E; [apply beq_eq in E; subst; exfalso; apply H; now left|].
    rewrite IH by (intros F; apply H; now right). reflexivity.
Qed.
Lemma split_on_join d L : L <> [] -> (forall x, In x L -> ~ In d x) -> split_on d (join [d] L) = L.
Proof.
  induction L as [|x L IH]; intros NE H; [congruence|].
  destruct L as [|y L].
  - cbn [join]. apply split_on_nodelim. apply H. now left.
  - rewrite join_cons2. cbn [app]. rewrite split_on_app by (apply H; now left).
    rewrite IH; [reflexivity|discriminate|]. intros z Hz. apply H. now right.
Qed.

(** * strtok_r against the non-empty fields *)
Definition nonempty (f : list byte) : bool := negb (is_nil f).
Definition ne_fields (s : list byte) : list (list byte) := filter nonempty (split_on SEMI s).

Lemma memb_semi b : memb b [SEMI] = beq b SEMI.
Proof. unfold memb. cbn [existsb]. now rewrite orb_false_r. Qed.

Lemma fields_skip s : ne_fields (skip_delims [SEMI] s) = ne_fields s.
Proof.
  induction s as [|b s IH]; [reflexivity|]. cbn [skip_delims]. rewrite memb_semi.
  destruct (beq b SEMI) eqn:E; [|reflexivity].
  unfold ne_fields at 2. cbn [split_on]. rewrite E. cbn [filter nonempty is_nil negb]. exact IH.
Qed.

Lemma skip_delims_head s b r : skip_delims [SEMI] s = b :: r -> beq b SEMI = false.
Proof.
  induction s as [|a s IH]; cbn [skip_delims]; [discriminate|]. rewrite memb_semi.
  destruct (beq a SEMI) eqn:E; [exact IH|]. intros H. injection H as <- _. exact E.
Qed.
Lemma skip_delims_len s : (length (skip_delims [SEMI] s) <= length s)%nat.
Proof. induction s as [|a s IH]; cbn [skip_delims length]; [lia|]. destruct (memb a [SEMI]); cbn [length]; lia. Qed.

Lemma span_fields s : forall t r, span_tok [SEMI] s = (t, r) ->
  (length t + length r <= length s)%nat /\ exists fs, split_on SEMI s = t :: fs /\ filter nonempty fs = ne_fields r.
Proof.
  induction s as [|b s IH]; intros t r; cbn [span_tok].
  - intros H. injection H as <- <-. split; [cbn; lia|]. exists []. split; reflexivity.
  - rewrite memb_semi. destruct (beq b SEMI) eqn:E.
    + intros H. injection H as <- <-. split; [cbn; lia|]. exists (split_on SEMI s). cbn [split_on]. rewrite E. split; reflexivity.
    + destruct (span_tok [SEMI] s) as [t' r'] eqn:S. intros H. injection H as <- <-.
      destruct (IH _ _ eq_refl) as [L [fs [E1 E2]]]. split; [cbn [length]; lia|].
      exists fs. cbn [split_on]. rewrite E, E1. split; [reflexivity|exact E2].
Qed.

Lemma span_head b s t r : beq b SEMI = false -> span_tok [SEMI] (b :: s) = (t, r) -> exists t', t = b :: t'.
Proof.
  cbn [span_tok]. rewrite memb_semi. intros ->. destruct (span_tok [SEMI] s) as [t' r']. intros H. injection H as <- _. now exists t'.
Qed.

(** * registry lookup never runs off a sentinel-terminated array *)
Lemma get_id_ok names name : existsb is_nil names = true ->
  forall i, exists o, get_id names name i = Ok o /\
    match o with Some j => (i <= j < i + names_before_sentinel names)%nat | None => True end.
Proof.
  induction names as [|n rest IH]; intros H i; [discriminate|]. cbn [get_id names_before_sentinel].
  destruct (is_nil n) eqn:E; [exists None; split; [reflexivity|exact I]|].
  destruct (list_eqb n name); [exists (Some i); split; [reflexivity|lia]|].
  cbn [existsb] in H. rewrite E in H. cbn [orb] in H.
  destruct (IH H (S i)) as [o [Ho Hb]]. exists o. split; [exact Ho|]. destruct o; [lia|exact I].
Qed.

Section Proofs.
  Variable c : filter_consts.
  Hypothesis Hok : chain_consts_ok c = true.
  Variable impl : fimpl -> list byte -> bool.

  Ltac split_ok := unfold chain_consts_ok in Hok; repeat (apply andb_true_iff in Hok as [Hok ?]).

  Lemma ok_delims : chain_delim c = [SEMI] /\ name_delim c = [COLONB].
  Proof. split_ok. split; now apply list_eqb_eq. Qed.
  Lemma ok_sizes : copy_n c = chain_max c - 1 /\ term_idx c = chain_max c - 1 /\ 1 <= chain_max c
                   /\ ini_max_line c <= chain_max c - 1 /\ ini_max_line c <= name_max c /\ 1 <= arg_max c.
  Proof.
    split_ok.
    repeat match goal with
           | H : (_ =? _) = true |- _ => apply N.eqb_eq in H
           | H : (_ <=? _) = true |- _ => apply N.leb_le in H
           end.
    repeat split; assumption.
  Qed.
  Lemma ok_registry : existsb is_nil (reg_names c) = true /\ (names_before_sentinel (reg_names c) <= length (reg_ptrs c))%nat.
  Proof. split_ok. split; [assumption|]. now apply Nat.leb_le. Qed.
  Lemma ok_default_chain : len (default_chain c) < ini_max_line c.
  Proof. split_ok. now apply N.ltb_lt. Qed.

  Notation known := (known c impl).
  Notation eval := (eval c impl).

  (** what the loop computes on a (copied) chain *)
  Definition sem (s : list byte) : bool := forallb eval (elements s).

  Lemma elements_fields s : elements s = map parse_elem (ne_fields s).
  Proof. reflexivity. Qed.

  (** the colon of every element lies inside the name buffer *)
  Definition names_fit (s : list byte) : Prop :=
    forall t k, In t (ne_fields s) -> index COLONB t = Some k -> N.of_nat k < name_max c.

  Lemma split_spec_ok t : (forall k, index COLONB t = Some k -> N.of_nat k < name_max c) -> split_spec c t = Ok (parse_elem t).
  Proof.
    intros H. unfold split_spec, parse_elem. destruct ok_delims as [_ ->]. rewrite strstr_single.
    destruct (index COLONB t) as [k|] eqn:E.
    - specialize (H k eq_refl). destruct (name_max c <=? N.of_nat k) eqn:L; [lia|reflexivity].
    - destruct ok_sizes as [_ [_ [_ [_ [_ A]]]]]. destruct (1 <=? arg_max c) eqn:L; [reflexivity|lia].
  Qed.

  Lemma loop_sem : forall fuel s, (length s < fuel)%nat -> names_fit s -> chain_loop c impl fuel s = Ok (sem s).
  Proof.
    induction fuel as [|f IH]; intros s L NF; [lia|]. cbn [chain_loop].
    destruct ok_delims as [-> _]. unfold strtok_r.
    pose proof (fields_skip s) as FS. pose proof (skip_delims_len s) as SL.
    destruct (skip_delims [SEMI] s) as [|b s1] eqn:SK.
    - unfold sem. rewrite elements_fields, <- FS. reflexivity.
    - pose proof (skip_delims_head _ _ _ SK) as HB.
      destruct (span_tok [SEMI] (b :: s1)) as [t r] eqn:SP.
      destruct (span_fields _ _ _ SP) as [LEN [fs [E1 E2]]].
      destruct (span_head _ _ _ _ HB SP) as [t' ->].
      assert (NE : ne_fields s = (b :: t') :: ne_fields r).
      { rewrite <- FS. unfold ne_fields at 1. rewrite E1. cbn [filter nonempty is_nil negb]. now rewrite E2. }
      assert (NFr : names_fit r). { intros u k Hu. apply NF. rewrite NE. now right. }
      assert (Lr : (length r < f)%nat). { cbn [length] in LEN, SL. lia. }
      rewrite split_spec_ok by (intros k; apply NF; rewrite NE; now left).
      cbn [bind]. unfold sem. rewrite elements_fields, NE. cbn [map forallb]. fold (elements r). fold (sem r).
      destruct ok_registry as [R1 R2].
      destruct (get_id_ok (reg_names c) (fst (parse_elem (b :: t'))) R1 0%nat) as [o [Ho Hb]].
      unfold Model.eval, Model.known. rewrite Ho. cbn [bind].
      destruct o as [i|].
      + destruct (nth_error (reg_ptrs c) i) as [fi|] eqn:NT.
        * cbn [option_map]. destruct (impl fi (snd (parse_elem (b :: t')))); [now apply IH|reflexivity].
        * apply nth_error_None in NT. lia.
      + now apply IH.
  Qed.

  Lemma chain_copy_ok chain : chain_copy c chain = Ok (takeN (chain_max c - 1) chain).
  Proof.
    unfold chain_copy. destruct ok_sizes as [-> [-> [H1 _]]].
    destruct (chain_max c <? chain_max c - 1) eqn:A; [lia|].
    destruct (chain_max c <=? chain_max c - 1) eqn:B; [lia|].
    destruct (chain_max c - 1 <? chain_max c - 1) eqn:D; [lia|]. cbn [andb].
    now rewrite N.min_id.
  Qed.

  (** every chain: the loop runs on the first [chain_max - 1] bytes *)
  Theorem check_chain_general chain : names_fit (takeN (chain_max c - 1) chain) ->
    check_chain c impl chain = Ok (sem (takeN (chain_max c - 1) chain)).
  Proof. intros NF. unfold check_chain. rewrite chain_copy_ok. cbn [bind]. apply loop_sem; [lia|exact NF]. Qed.

  Lemma ne_fields_len s t : In t (ne_fields s) -> (length t <= length s)%nat.
  Proof.
    unfold ne_fields. intros H0. apply filter_In in H0 as [H0 _]. revert t H0.
    induction s as [|b s IH]; intros t; cbn [split_on].
    - intros [<-|[]]. cbn; lia.
    - destruct (beq b SEMI).
      + intros [<-|H1]; [cbn; lia|]. specialize (IH _ H1). cbn [length]. lia.
      + pose proof (split_on_nonnil SEMI s) as NN. destruct (split_on SEMI s) as [|f fs]; [congruence|].
        intros [<-|H1]; [specialize (IH f (or_introl eq_refl)); cbn [length]; lia|].
        specialize (IH t (or_intror H1)). cbn [length]. lia.
  Qed.

  Lemma short_names_fit s : N.of_nat (length s) <= name_max c -> names_fit s.
  Proof.
    intros L t k Ht Hk. apply ne_fields_len in Ht. apply index_Some in Hk as [_ [Hk _]]. lia.
  Qed.

  (** C07: for chains the configuration line allows, the decision is the conjunction over the elements *)
  Theorem chain_conjunction chain : len chain < ini_max_line c ->
    check_chain c impl chain = Ok (forallb eval (elements chain)).
  Proof.
    intros L. destruct ok_sizes as [_ [_ [_ [A [B _]]]]].
    rewrite check_chain_general; rewrite takeN_all by lia; [reflexivity|].
    apply short_names_fit. unfold len in L. lia.
  Qed.

  Theorem chain_iff chain : len chain < ini_max_line c ->
    (check_chain c impl chain = Ok true <->
     forall n a f, In (n, a) (elements chain) -> known n = Some f -> f a = true).
  Proof.
    intros L. rewrite chain_conjunction by assumption. split.
    - intros H n a f Hin Hk. injection H as H. rewrite forallb_forall in H. specialize (H _ Hin).
      unfold Model.eval in H. cbn [fst snd] in H. now rewrite Hk in H.
    - intros H. f_equal. apply forallb_forall. intros [n a] Hin. unfold Model.eval. cbn [fst snd].
      destruct (known n) as [f|] eqn:K; [now apply (H n a f)|reflexivity].
  Qed.

  Theorem chain_empty : check_chain c impl [] = Ok true.
  Proof.
    rewrite chain_conjunction; [reflexivity|]. pose proof ok_default_chain. unfold len in *. cbn [length]. lia.
  Qed.

  (** empty elements: chains made of semicolons only pass *)
  Theorem chain_only_semicolons n : N.of_nat n < ini_max_line c -> check_chain c impl (repeat SEMI n) = Ok true.
  Proof.
    intros L. rewrite chain_conjunction by (unfold len; now rewrite repeat_length).
    f_equal. unfold elements. replace (filter _ (split_on SEMI (repeat SEMI n))) with (@nil (list byte)); [reflexivity|].
    induction n as [|n IH]; [reflexivity|]. cbn [repeat split_on]. rewrite beq_refl. cbn [filter is_nil negb]. apply IH. lia.
  Qed.

  (** unknown names are ignored *)
  Theorem unknown_ignored es : forallb eval es = forallb eval (filter (fun e => match known (fst e) with Some _ => true | None => false end) es).
  Proof.
    induction es as [|e es IH]; [reflexivity|]. cbn [forallb filter]. unfold Model.eval at 1.
    destruct (known (fst e)) eqn:K; cbn [forallb]; [|exact IH]. unfold Model.eval at 2. rewrite K, IH. reflexivity.
  Qed.

  (** order and repetition of elements do not matter *)
  Theorem eval_permutation es es' : Permutation es es' -> forallb eval es = forallb eval es'.
  Proof. apply forallb_perm. Qed.
  Theorem eval_same_set es es' : (forall e, In e es <-> In e es') -> forallb eval es = forallb eval es'.
  Proof. apply forallb_same_set. Qed.
  Theorem eval_duplication es : forallb eval (es ++ es) = forallb eval es.
  Proof. apply forallb_same_set. intros e. rewrite in_app_iff. tauto. Qed.

  Theorem chain_same_set ch ch' : len ch < ini_max_line c -> len ch' < ini_max_line c ->
    (forall e, In e (elements ch) <-> In e (elements ch')) -> check_chain c impl ch = check_chain c impl ch'.
  Proof. intros L L' H. rewrite !chain_conjunction by assumption. f_equal. now apply eval_same_set. Qed.
  Theorem chain_permutation ch ch' : len ch < ini_max_line c -> len ch' < ini_max_line c ->
    Permutation (elements ch) (elements ch') -> check_chain c impl ch = check_chain c impl ch'.
  Proof. intros L L' H. rewrite !chain_conjunction by assumption. f_equal. now apply eval_permutation. Qed.

  (** chains written as ';'-joined specs *)
  Definition semi_free (L : list (list byte)) : Prop := forall x, In x L -> ~ In SEMI x.
  Lemma elements_join L : semi_free L -> elements (join [SEMI] L) = map parse_elem (filter nonempty L).
  Proof.
    intros H. destruct L as [|x L]; [reflexivity|]. unfold elements. rewrite split_on_join; [reflexivity|discriminate|exact H].
  Qed.
  Theorem join_permutation L L' : semi_free L -> Permutation L L' ->
    len (join [SEMI] L) < ini_max_line c -> len (join [SEMI] L') < ini_max_line c ->
    check_chain c impl (join [SEMI] L) = check_chain c impl (join [SEMI] L').
  Proof.
    intros SF P A B. apply chain_permutation; try assumption.
    assert (SF' : semi_free L') by (intros x Hx; apply SF; eapply Permutation_in; [apply Permutation_sym; eassumption|assumption]).
    rewrite !elements_join by assumption. apply Permutation_map. now apply Permutation_filter'.
  Qed.
  Theorem join_duplication L : semi_free L ->
    len (join [SEMI] (L ++ L)) < ini_max_line c -> len (join [SEMI] L) < ini_max_line c ->
    check_chain c impl (join [SEMI] (L ++ L)) = check_chain c impl (join [SEMI] L).
  Proof.
    intros SF A B. apply chain_same_set; try assumption.
    assert (SF2 : semi_free (L ++ L)) by (intros x Hx; apply in_app_iff in Hx; apply SF; tauto).
    rewrite !elements_join by assumption. intros e. rewrite filter_app, map_app, in_app_iff. tauto.
  Qed.
End Proofs.
