(** C14: the uid filters decide by exact membership of the REAL uid — for every uid below 2^32 and every
    well-formed list (any length, order, duplicates, leading zeros); only_uid and exclude_uid disagree on
    EVERY argument; the decision does not depend on the effective uid.  For all constant records with
    [uid_consts_ok]. *)
From Snoopy Require Import Lib.CStr Filter.Model Filter.Proofs.
From Coq Require Import ZifyBool ZifyN ZifyNat Znumtheory.
Local Open Scope N_scope.
Local Open Scope list_scope.

(** * C integer conversions *)
Lemma pow2_divide (b k : N) : b <= k -> (2 ^ Z.of_N b | 2 ^ Z.of_N k)%Z.
Proof.
  intros H. exists (2 ^ (Z.of_N k - Z.of_N b))%Z. rewrite <- Z.pow_add_r by lia. f_equal. lia.
Qed.

Lemma cast_residue (b : N) (k : castk) z : b <= cast_bits k ->
  (apply_cast z k mod 2 ^ Z.of_N b = z mod 2 ^ Z.of_N b)%Z.
Proof.
  intros H. assert (P : (0 < 2 ^ Z.of_N b)%Z) by (apply Z.pow_pos_nonneg; lia).
  assert (Q : (0 < 2 ^ Z.of_N (cast_bits k))%Z) by (apply Z.pow_pos_nonneg; lia).
  pose proof (pow2_divide _ _ H) as D.
  destruct k as [w|w]; cbn [apply_cast cast_bits] in *; unfold cast_s, cast_u; repeat rewrite zofN_eq.
  - destruct (_ <? _)%Z.
    + symmetry. now apply Zmod_div_mod.
    + destruct D as [q D]. rewrite D. set (M := (2 ^ Z.of_N b)%Z) in *. set (A := (z mod (q * M))%Z).
      replace (A - q * M)%Z with (A + (- q) * M)%Z by ring.
      rewrite Z_mod_plus_full. unfold A. rewrite <- D. symmetry. apply Zmod_div_mod; try assumption. exists q. exact D.
  - symmetry. now apply Zmod_div_mod.
Qed.

Lemma casts_mod_spec (b : N) l : casts_mod b l = true -> forall z, fold_left apply_cast l z = (z mod 2 ^ Z.of_N b)%Z.
Proof.
  induction l as [|k l IH]; [discriminate|]. cbn [casts_mod]. destruct l as [|k' l'].
  - destruct k as [w|w]; [discriminate|]. intros E z. apply N.eqb_eq in E. subst w. cbn [fold_left apply_cast]. unfold cast_u. now repeat rewrite zofN_eq.
  - intros E z. apply andb_true_iff in E as [E1 E2]. apply N.leb_le in E1.
    change (fold_left apply_cast (k :: k' :: l') z) with (fold_left apply_cast (k' :: l') (apply_cast z k)).
    rewrite (IH E2). now apply cast_residue.
Qed.

(** * strtol on a well-formed numeral *)
Lemma digit_not_space b : is_digit b = true -> is_space b = false.
Proof. unfold is_digit, is_space. lia. Qed.
Lemma digit_not_sign b : is_digit b = true -> beq b MINUS = false /\ beq b PLUS = false.
Proof.
  intros H. split.
  - destruct (beq b MINUS) eqn:E; [apply beq_eq in E; subst; discriminate|reflexivity].
  - destruct (beq b PLUS) eqn:E; [apply beq_eq in E; subst; discriminate|reflexivity].
Qed.
Lemma digit_run_all s : forallb is_digit s = true -> digit_run s = s.
Proof.
  induction s as [|b s IH]; [reflexivity|]. cbn [forallb digit_run]. intros H. apply andb_true_iff in H as [H1 H2].
  rewrite H1, IH by assumption. reflexivity.
Qed.

Lemma strtol_numeral bits s : s <> [] -> forallb is_digit s = true -> (Z.of_N (digits_val s) <= 2 ^ (Z.of_N bits - 1) - 1)%Z ->
  strtol10 bits s = Z.of_N (digits_val s).
Proof.
  intros NE D B. destruct s as [|b s]; [congruence|]. unfold strtol10.
  pose proof D as D'. cbn [forallb] in D'. apply andb_true_iff in D' as [Db _].
  cbn [skip_space]. rewrite (digit_not_space _ Db).
  destruct (digit_not_sign _ Db) as [-> ->]. rewrite digit_run_all by assumption. repeat rewrite zofN_eq. apply Z.min_r. exact B.
Qed.

(** * csvToArgList *)
Fixpoint upto (d : byte) (s : list byte) : list byte :=
  match s with
  | [] => []
  | b :: s' => if beq b d then [] else b :: upto d s'
  end.

Lemma delim_offsets_shift d s : forall p, delim_offsets d (S p) s = map S (delim_offsets d p s).
Proof.
  induction s as [|b s IH]; intros p; [reflexivity|]. cbn [delim_offsets]. destruct (beq b d); cbn [map]; now rewrite IH.
Qed.

Lemma split_by_offsets d s : upto d s :: map (fun off => upto d (skipn off s)) (delim_offsets d 0 s) = split_on d s.
Proof.
  induction s as [|b s IH]; [reflexivity|]. cbn [upto delim_offsets split_on].
  rewrite delim_offsets_shift. destruct (beq b d) eqn:E.
  - cbn [map skipn]. rewrite map_map. cbn [skipn]. now rewrite IH.
  - rewrite map_map. cbn [skipn]. rewrite <- IH. reflexivity.
Qed.

Lemma cstr_mangle d s : nonul s -> cstr_of (mangle d s) = upto d s.
Proof.
  induction s as [|b s IH]; intros H; [reflexivity|]. cbn [mangle map cstr_of upto].
  assert (Hs : nonul s) by (intros F; apply H; now right).
  destruct (beq b d) eqn:E.
  - now rewrite beq_refl.
  - destruct (beq b NUL) eqn:N; [apply beq_eq in N; subst; exfalso; apply H; now left|].
    fold (mangle d s). now rewrite IH.
Qed.
Lemma cstr_nonul s : nonul s -> cstr_of s = s.
Proof.
  induction s as [|b s IH]; intros H; [reflexivity|]. cbn [cstr_of].
  destruct (beq b NUL) eqn:N; [apply beq_eq in N; subst; exfalso; apply H; now left|].
  rewrite IH; [reflexivity|]. intros F; apply H; now right.
Qed.

Lemma count_zero d s : count_byte d s = 0%nat -> ~ In d s.
Proof.
  unfold count_byte. induction s as [|b s IH]; [intros _ []|]. cbn [filter]. destruct (beq d b) eqn:E.
  - cbn [length]. lia.
  - intros H [F|F]; [subst; rewrite beq_refl in E; discriminate|now apply IH].
Qed.
Lemma length_split_on d s : length (split_on d s) = S (count_byte d s).
Proof.
  unfold count_byte. induction s as [|b s IH]; [reflexivity|]. cbn [split_on filter]. rewrite (beq_sym d b).
  destruct (beq b d); cbn [length]; [now rewrite IH|].
  pose proof (split_on_nonnil d s) as NN. destruct (split_on d s); [congruence|]. cbn [length] in *. exact IH.
Qed.

Lemma mangle_skipn d n s : skipn n (mangle d s) = mangle d (skipn n s).
Proof. unfold mangle. apply skipn_map. Qed.

Theorem csv_split_spec d raw : nonul raw -> raw <> [] ->
  csv_items (csv_split d raw) = split_on d raw /\ csv_argc (csv_split d raw) = length (split_on d raw).
Proof.
  intros NN NE. unfold csv_split. cbn [csv_items csv_argc]. destruct raw as [|b0 raw0] eqn:ER; [congruence|]. rewrite <- ER in *.
  replace (is_nil raw) with false by (subst; reflexivity). rewrite length_split_on. split; [|reflexivity].
  destruct (0 <? count_byte d raw)%nat eqn:CC.
  - cbn [app map]. unfold cstr_at. cbn [skipn]. rewrite cstr_mangle by assumption.
    rewrite <- split_by_offsets. f_equal. apply map_ext. intros off. rewrite mangle_skipn. apply cstr_mangle. now apply nonul_skipn.
  - assert (Z0 : count_byte d raw = 0%nat) by lia. apply count_zero in Z0.
    rewrite app_nil_r. cbn [map]. unfold cstr_at. cbn [skipn]. rewrite cstr_nonul by assumption. now rewrite split_on_nodelim.
Qed.

(** * well-formed numerals *)
Lemma digits_no_byte s x : is_digit x = false -> forallb is_digit s = true -> ~ In x s.
Proof.
  intros Hx H F. rewrite forallb_forall in H. specialize (H _ F). congruence.
Qed.

Section UidProofs.
  Variable c : filter_consts.
  Hypothesis Hok : uid_consts_ok c = true.

  Ltac split_ok := unfold uid_consts_ok in Hok; repeat (apply andb_true_iff in Hok as [Hok ?]).

  Lemma ok_uid : 33 <= long_bits c /\ uid_bits c = 32 /\ only_query c = QGetuid /\ exclude_query c = QGetuid /\ root_query c = QGetuid
                 /\ only_conv c = ConvAtol /\ exclude_conv c = ConvAtol
                 /\ casts_mod (uid_bits c) (only_casts c) = true /\ casts_mod (uid_bits c) (exclude_casts c) = true
                 /\ root_value c = 0%Z /\ csv_delim c = COMMA.
  Proof.
    split_ok.
    repeat match goal with
           | H : (_ =? _) = true |- _ => apply N.eqb_eq in H
           | H : (_ <=? _) = true |- _ => apply N.leb_le in H
           | H : Z.eqb _ _ = true |- _ => apply Z.eqb_eq in H
           | H : beq _ _ = true |- _ => apply beq_eq in H
           | H : query_eqb ?q QGetuid = true |- _ => assert (q = QGetuid) by (destruct q; try discriminate; reflexivity); clear H
           | H : conv_is_atol ?f = true |- _ => assert (f = ConvAtol) by (destruct f; try discriminate; reflexivity); clear H
           end.
    repeat split; assumption.
  Qed.

  (** the value both list filters compare with the uid: atol(item) reduced modulo 2^32 *)
  Lemma item_uid_only it : item_uid c ConvAtol (only_casts c) it = (strtol10 (long_bits c) it mod 2 ^ 32)%Z.
  Proof. destruct ok_uid as [_ [U [_ [_ [_ [_ [_ [A _]]]]]]]]. unfold item_uid. rewrite (casts_mod_spec _ _ A). now rewrite U. Qed.
  Lemma item_uid_exclude it : item_uid c ConvAtol (exclude_casts c) it = (strtol10 (long_bits c) it mod 2 ^ 32)%Z.
  Proof. destruct ok_uid as [_ [U [_ [_ [_ [_ [_ [_ [A _]]]]]]]]]. unfold item_uid. rewrite (casts_mod_spec _ _ A). now rewrite U. Qed.

  (** C14: only_uid and exclude_uid give opposite answers on EVERY argument, in every process state *)

  Lemma listed_same ps arg :
    uid_listed c ps (only_query c) (only_conv c) (only_casts c) arg = uid_listed c ps (exclude_query c) (exclude_conv c) (exclude_casts c) arg.
  Proof.
    unfold uid_listed. destruct ok_uid as [_ [_ [-> [-> [_ [-> [-> _]]]]]]].
    induction (firstn _ _) as [|it l IH]; [reflexivity|]. cbn [existsb]. rewrite IH, item_uid_only, item_uid_exclude. reflexivity.
  Qed.

  Theorem complement ps arg : only_uid c ps arg = negb (exclude_uid c ps arg).
  Proof. unfold only_uid, exclude_uid. now rewrite negb_involutive, listed_same. Qed.
  Corollary never_agree ps arg : only_uid c ps arg <> exclude_uid c ps arg.
  Proof. rewrite complement. destruct (exclude_uid c ps arg); discriminate. Qed.

  (** C14: the decision depends on the real uid only *)
  Theorem real_uid_only ps ps' arg : ruid ps = ruid ps' ->
    only_uid c ps arg = only_uid c ps' arg /\ exclude_uid c ps arg = exclude_uid c ps' arg /\ only_root c ps = only_root c ps'.
  Proof.
    intros E. unfold only_uid, exclude_uid, only_root, uid_listed.
    destruct ok_uid as [_ [_ [-> [-> [-> _]]]]]. cbn [query]. rewrite E. repeat split; reflexivity.
  Qed.

  Theorem only_root_spec ps : ruid ps < 2 ^ 32 -> (only_root c ps = true <-> ruid ps = 0).
  Proof.
    intros B. unfold only_root. destruct ok_uid as [_ [U [_ [_ [-> [_ [_ [_ [_ [-> _]]]]]]]]]]. cbn [query]. unfold cast_u. rewrite U. change (2 ^ zofN 32)%Z with 4294967296%Z. repeat rewrite zofN_eq.
    change (2 ^ 32) with 4294967296 in B. rewrite Z.mod_small by lia. rewrite Z.eqb_eq. lia.
  Qed.

  (** C14: membership for well-formed lists *)
  Lemma wf_item it : wf_uid_numeral it -> ~ In COMMA it /\ nonul it /\ it <> [] /\ (strtol10 (long_bits c) it mod 2 ^ 32)%Z = Z.of_N (digits_val it).
  Proof.
    intros [NE [D B]]. destruct ok_uid as [LB _]. repeat split.
    - apply digits_no_byte; [reflexivity|assumption].
    - apply digits_no_byte; [reflexivity|assumption].
    - assumption.
    - rewrite strtol_numeral; try assumption.
      + apply Z.mod_small. change (2 ^ 32)%Z with 4294967296%Z. change (2 ^ 32) with 4294967296 in B. lia.
      + assert ((2 ^ 32 <= 2 ^ (Z.of_N (long_bits c) - 1))%Z) by (apply Z.pow_le_mono_r; lia).
        change (2 ^ 32)%Z with 4294967296%Z in *. change (2 ^ 32) with 4294967296 in B. lia.
  Qed.

  Lemma join_nonul L : (forall x, In x L -> nonul x) -> nonul (join [COMMA] L).
  Proof.
    induction L as [|x L IH]; intros H; [intros []|]. destruct L as [|y L]; [apply H; now left|].
    rewrite join_cons2. apply nonul_app. split; [apply H; now left|]. apply nonul_app. split.
    - intros [F|[]]. discriminate.
    - apply IH. intros z Hz. apply H. now right.
  Qed.

  Lemma listed_wf ps L : ruid ps < 2 ^ 32 -> L <> [] -> Forall wf_uid_numeral L ->
    uid_listed c ps QGetuid ConvAtol (only_casts c) (join [COMMA] L) = existsb (fun it => digits_val it =? ruid ps) L.
  Proof.
    intros B NE WF. rewrite Forall_forall in WF. unfold uid_listed.
    destruct ok_uid as [_ [U [_ [_ [_ [_ [_ [_ [_ [_ ->]]]]]]]]]].
    assert (JN : join [COMMA] L <> []).
    { destruct L as [|x L]; [congruence|]. destruct (wf_item x (WF _ (or_introl eq_refl))) as [_ [_ [Nx _]]].
      destruct L; [exact Nx|]. rewrite join_cons2. destruct x; [congruence|discriminate]. }
    destruct (csv_split_spec COMMA (join [COMMA] L)) as [-> ->]; [apply join_nonul; intros x Hx; apply (wf_item x (WF _ Hx))|exact JN|].
    rewrite split_on_join; [|exact NE|intros x Hx; apply (wf_item x (WF _ Hx))].
    rewrite firstn_all. cbn [query]. unfold cast_u. rewrite U. change (2 ^ zofN 32)%Z with 4294967296%Z. repeat rewrite zofN_eq.
    rewrite (Z.mod_small (Z.of_N (ruid ps))) by (change (2 ^ 32) with 4294967296 in B; lia).
    clear JN NE. induction L as [|it L IH]; [reflexivity|]. cbn [existsb]. rewrite IH by (intros x Hx; apply WF; now right).
    f_equal. rewrite item_uid_only. destruct (wf_item it (WF _ (or_introl eq_refl))) as [_ [_ [_ E]]].
    rewrite E.
    destruct (digits_val it =? ruid ps) eqn:Q; lia.
  Qed.

  Theorem only_uid_spec ps L : ruid ps < 2 ^ 32 -> L <> [] -> Forall wf_uid_numeral L ->
    (only_uid c ps (join [COMMA] L) = true <-> In (ruid ps) (map digits_val L)).
  Proof.
    intros B NE WF. unfold only_uid. destruct ok_uid as [_ [_ [Q [_ [_ [F _]]]]]]. rewrite Q, F.
    rewrite listed_wf by assumption. rewrite existsb_exists, in_map_iff. split.
    - intros [it [H1 H2]]. exists it. split; [lia|assumption].
    - intros [it [H1 H2]]. exists it. split; [assumption|lia].
  Qed.

  Theorem exclude_uid_spec ps L : ruid ps < 2 ^ 32 -> L <> [] -> Forall wf_uid_numeral L ->
    (exclude_uid c ps (join [COMMA] L) = true <-> ~ In (ruid ps) (map digits_val L)).
  Proof.
    intros B NE WF. rewrite <- (only_uid_spec ps L B NE WF). rewrite complement.
    destruct (exclude_uid c ps (join [COMMA] L)); cbn [negb]; split; intros H; try congruence; try discriminate.
  Qed.
End UidProofs.
