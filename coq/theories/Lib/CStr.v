(** Shared library: bytes, C strings as NUL-free [list byte], libc string
    functions with their characterising lemmas, list lemmas missing in 8.16,
    and the safety monad.  Stdlib only, no axioms. *)
From Coq Require Export List Arith NArith ZArith Lia Bool Strings.Byte.
From Coq Require Import Strings.String Strings.Ascii.
Export ListNotations.
Local Open Scope nat_scope.
Local Open Scope list_scope.

Notation length := List.length.

Definition bytes (s : String.string) : list byte := list_byte_of_string s.
Arguments bytes _%string_scope.

Definition beq (a b : byte) : bool := Byte.eqb a b.
Lemma beq_eq a b : beq a b = true <-> a = b.
Proof. unfold beq. split; [apply Byte.byte_dec_bl | apply Byte.byte_dec_lb]. Qed.
Lemma beq_refl a : beq a a = true.
Proof. now apply beq_eq. Qed.
Lemma beq_neq a b : beq a b = false <-> a <> b.
Proof. split; intros H; [intros E; apply beq_eq in E; congruence|]. destruct (beq a b) eqn:E; [apply beq_eq in E; contradiction|reflexivity]. Qed.

Definition NUL := x00.  Definition NL := x0a.  Definition CR := x0d.  Definition HASH := x23.
Definition SP := x20.   Definition TAB := x09. Definition COLONB := x3a. Definition COMMA := x2c.
Definition SEMI := x3b.

Definition nonul (s : list byte) : Prop := ~ In NUL s.
Definition nonulb (s : list byte) : bool := negb (existsb (beq NUL) s).
Lemma nonulb_spec s : nonulb s = true <-> nonul s.
Proof.
  unfold nonulb, nonul. rewrite negb_true_iff. split.
  - intros H Hin. assert (existsb (beq NUL) s = true) by (apply existsb_exists; exists NUL; split; [assumption|apply beq_refl]). congruence.
  - intros H. destruct (existsb (beq NUL) s) eqn:E; [|reflexivity]. apply existsb_exists in E as [x [Hx E]]. apply beq_eq in E. subst. contradiction.
Qed.

(** size of a string as an [N] (sizes and limits are [N] so that 1 MiB constants stay small terms) *)
Definition len (s : list byte) : N := N.of_nat (length s).
Lemma len_app a b : len (a ++ b) = (len a + len b)%N.
Proof. unfold len. rewrite app_length. lia. Qed.
Lemma len_nil : len [] = 0%N.  Proof. reflexivity. Qed.
Lemma len_cons a s : len (a :: s) = (len s + 1)%N.
Proof. unfold len. simpl length. lia. Qed.

(** [takeN n s]: first [n] bytes, [n : N] *)
Definition takeN (n : N) (s : list byte) : list byte := firstn (N.to_nat n) s.
Definition dropN (n : N) (s : list byte) : list byte := skipn (N.to_nat n) s.
Lemma len_takeN n s : len (takeN n s) = N.min n (len s).
Proof. unfold len, takeN. rewrite firstn_length. lia. Qed.
Lemma takeN_all n s : (len s <= n)%N -> takeN n s = s.
Proof. unfold len, takeN. intros H. apply firstn_all2. lia. Qed.

(** snprintf(buf, size, "%s", s) for size >= 1: bytes stored (without the NUL) *)
Definition snprintf_s (size : N) (s : list byte) : list byte := takeN (size - 1) s.
Lemma snprintf_s_len size s : (1 <= size)%N -> (len (snprintf_s size s) < size)%N.
Proof. intros H. unfold snprintf_s. rewrite len_takeN. lia. Qed.
Lemma snprintf_s_fits size s : (len s < size)%N -> snprintf_s size s = s.
Proof. intros H. unfold snprintf_s. apply takeN_all. lia. Qed.

(** * list lemmas missing from the 8.16 standard library *)
Lemma skipn_skipn {A} x y (l : list A) : skipn x (skipn y l) = skipn (x + y) l.
Proof.
  revert l; induction y as [|y IH]; intros l.
  - now rewrite Nat.add_0_r.
  - replace (x + S y) with (S (x + y)) by lia. destruct l as [|a l]; simpl; [now rewrite skipn_nil|apply IH].
Qed.
Lemma nth_skipn {A} n i (l : list A) d : nth i (skipn n l) d = nth (n + i) l d.
Proof.
  revert l; induction n as [|n IH]; intros l; [reflexivity|].
  destruct l as [|a l]; simpl; [destruct i; reflexivity|apply IH].
Qed.
Lemma nth_firstn_lt {A} n i (l : list A) d : i < n -> nth i (firstn n l) d = nth i l d.
Proof.
  revert i l; induction n as [|n IH]; intros i l H; [lia|].
  destruct l as [|a l]; simpl; [destruct i; reflexivity|]. destruct i; [reflexivity|apply IH; lia].
Qed.
Lemma In_firstn {A} n (l : list A) x : In x (firstn n l) -> In x l.
Proof. revert l; induction n as [|n IH]; intros [|a l]; simpl; try tauto. intros [H|H]; [now left|right; now apply IH]. Qed.
Lemma In_skipn {A} n (l : list A) x : In x (skipn n l) -> In x l.
Proof. revert l; induction n as [|n IH]; intros [|a l]; simpl; try tauto. intros H; right; now apply IH. Qed.

Lemma nonul_app a b : nonul (a ++ b) <-> nonul a /\ nonul b.
Proof. unfold nonul. rewrite in_app_iff. tauto. Qed.
Lemma nonul_firstn n s : nonul s -> nonul (firstn n s).
Proof. unfold nonul. intros H Hin. apply H. eapply In_firstn; eauto. Qed.
Lemma nonul_skipn n s : nonul s -> nonul (skipn n s).
Proof. unfold nonul. intros H Hin. apply H. eapply In_skipn; eauto. Qed.
Lemma nonul_takeN n s : nonul s -> nonul (takeN n s).
Proof. apply nonul_firstn. Qed.

(** * prefix test, strstr, strchr *)
Fixpoint prefixb (p s : list byte) : bool :=
  match p, s with
  | [], _ => true
  | _ :: _, [] => false
  | a :: p', b :: s' => beq a b && prefixb p' s'
  end.

Lemma prefixb_app p : forall s, prefixb p s = true <-> exists r, s = p ++ r.
Proof.
  induction p as [|a p IH]; intros s; simpl.
  - split; [intros _; now exists s|reflexivity].
  - destruct s as [|b s]; [split; [discriminate|intros [r H]; discriminate]|].
    rewrite andb_true_iff, beq_eq, IH. split.
    + intros [-> [r ->]]. now exists r.
    + intros [r H]. injection H as -> ->. split; [reflexivity|now exists r].
Qed.
Lemma prefixb_refl_app p r : prefixb p (p ++ r) = true.
Proof. apply prefixb_app. now exists r. Qed.

Definition list_eqb (a b : list byte) : bool := prefixb a b && Nat.eqb (length a) (length b).
Lemma list_eqb_eq a b : list_eqb a b = true <-> a = b.
Proof.
  unfold list_eqb. rewrite andb_true_iff, Nat.eqb_eq, prefixb_app. split.
  - intros [[r ->] H]. rewrite app_length in H. destruct r; [now rewrite app_nil_r|simpl in H; lia].
  - intros ->. split; [exists []; now rewrite app_nil_r|reflexivity].
Qed.
Lemma list_eqb_refl a : list_eqb a a = true.  Proof. now apply list_eqb_eq. Qed.
Lemma list_eqb_neq a b : list_eqb a b = false <-> a <> b.
Proof. split; intros H; [intros E; apply list_eqb_eq in E; congruence|]. destruct (list_eqb a b) eqn:E; [apply list_eqb_eq in E; contradiction|reflexivity]. Qed.

(** strstr: offset of the first occurrence *)
Fixpoint strstr (s needle : list byte) : option nat :=
  if prefixb needle s then Some 0 else
  match s with
  | [] => None
  | _ :: s' => option_map S (strstr s' needle)
  end.

Lemma strstr_Some s n : forall k, strstr s n = Some k ->
  prefixb n (skipn k s) = true /\ forall m, m < k -> prefixb n (skipn m s) = false.
Proof.
  induction s as [|b s IH]; intros k; cbn [strstr].
  - destruct (prefixb n []) eqn:E; [|discriminate]. intros H; injection H as <-. split; [exact E|intros m Hm; lia].
  - destruct (prefixb n (b :: s)) eqn:E.
    + intros H; injection H as <-. split; [exact E|intros m Hm; lia].
    + destruct (strstr s n) as [j|]; simpl; [|discriminate]. intros H; injection H as <-.
      destruct (IH j eq_refl) as [H1 H2]. split; [exact H1|]. intros m Hm. destruct m; [exact E|]. simpl. apply H2. lia.
Qed.
Lemma strstr_None s n : strstr s n = None -> forall m, prefixb n (skipn m s) = false.
Proof.
  induction s as [|b s IH]; cbn [strstr].
  - destruct (prefixb n []) eqn:E; [discriminate|]. intros _ m. destruct m; exact E.
  - destruct (prefixb n (b :: s)) eqn:E; [discriminate|].
    destruct (strstr s n) as [j|] eqn:Ej; simpl; [discriminate|]. intros _ m. destruct m; [exact E|]. simpl. now apply IH.
Qed.
Lemma strstr_le s n k : strstr s n = Some k -> k <= length s.
Proof.
  revert k; induction s as [|b s IH]; intros k; cbn [strstr].
  - destruct (prefixb n []); [intros H; injection H as <-; simpl; lia | discriminate].
  - destruct (prefixb n (b :: s)); [intros H; injection H as <-; lia|].
    destruct (strstr s n) as [j|] eqn:E; simpl; [|discriminate].
    intros H; injection H as <-. specialize (IH j eq_refl). simpl; lia.
Qed.
Lemma strstr_bound s n k : strstr s n = Some k -> k + length n <= length s.
Proof.
  intros H. destruct (strstr_Some _ _ _ H) as [P _]. apply prefixb_app in P as [r E].
  pose proof (strstr_le _ _ _ H). assert (L : length (skipn k s) = length n + length r) by (rewrite E, app_length; reflexivity).
  rewrite skipn_length in L. lia.
Qed.

(** index of the first byte equal to [c] (strchr) *)
Fixpoint index (c : byte) (s : list byte) : option nat :=
  match s with
  | [] => None
  | b :: s' => if beq b c then Some 0 else option_map S (index c s')
  end.
Lemma index_Some c s : forall k, index c s = Some k ->
  nth k s NUL = c /\ k < length s /\ ~ In c (firstn k s).
Proof.
  induction s as [|b s IH]; intros k; simpl; [discriminate|].
  destruct (beq b c) eqn:E.
  - intros H; injection H as <-. apply beq_eq in E. simpl. repeat split; [assumption|lia|tauto].
  - destruct (index c s) as [j|]; simpl; [|discriminate]. intros H; injection H as <-.
    destruct (IH j eq_refl) as [H1 [H2 H3]]. simpl. repeat split; [assumption|lia|].
    apply beq_neq in E. intros [F|F]; [congruence|contradiction].
Qed.
Lemma index_None c s : index c s = None <-> ~ In c s.
Proof.
  induction s as [|b s IH]; simpl; [tauto|].
  destruct (beq b c) eqn:E.
  - apply beq_eq in E. split; [discriminate|]. intros H; exfalso; apply H; now left.
  - apply beq_neq in E. destruct (index c s) as [j|]; simpl.
    + split; [discriminate|]. intros H. exfalso. destruct IH as [_ IH2].
      assert (@None nat = None) by reflexivity. assert (~ In c s) by tauto. specialize (IH2 H1). discriminate.
    + split; [|reflexivity]. intros _ [F|F]; [congruence|]. destruct IH as [IH1 _]. now apply IH1.
Qed.

(** index of the last byte equal to [c] (strrchr) *)
Definition rindex (c : byte) (s : list byte) : option nat :=
  match index c (rev s) with
  | None => None
  | Some k => Some (length s - 1 - k)
  end.

(** split into fields at every byte [c] (never returns []) *)
Fixpoint split_on (c : byte) (s : list byte) : list (list byte) :=
  match s with
  | [] => [[]]
  | b :: s' =>
    if beq b c then [] :: split_on c s'
    else match split_on c s' with
         | [] => [[b]]
         | f :: fs => (b :: f) :: fs
         end
  end.

Fixpoint join (sep : list byte) (l : list (list byte)) : list byte :=
  match l with
  | [] => []
  | [x] => x
  | x :: xs => x ++ sep ++ join sep xs
  end.

Lemma split_on_nonnil c s : split_on c s <> [].
Proof. destruct s as [|b s]; simpl; [discriminate|]. destruct (beq b c); [discriminate|]. destruct (split_on c s); discriminate. Qed.

Lemma join_cons2 sep x y ys : join sep (x :: y :: ys) = x ++ sep ++ join sep (y :: ys).
Proof. reflexivity. Qed.

Lemma join_split c s : join [c] (split_on c s) = s.
Proof.
  induction s as [|b s IH]; [reflexivity|]. cbn [split_on].
  pose proof (split_on_nonnil c s) as NN.
  destruct (split_on c s) as [|f fs]; [congruence|].
  destruct (beq b c) eqn:E.
  - apply beq_eq in E; subst b. rewrite join_cons2, IH. reflexivity.
  - destruct fs as [|g gs].
    + simpl in *. now rewrite IH.
    + rewrite join_cons2 in *. rewrite <- IH. reflexivity.
Qed.

(** * character classes of the C locale *)
Definition byteN (b : byte) : N := Byte.to_N b.
Definition is_digit (b : byte) : bool := (48 <=? byteN b)%N && (byteN b <=? 57)%N.
Definition is_space (b : byte) : bool :=   (* isspace: SP \t \n \v \f \r *)
  let n := byteN b in (n =? 32)%N || ((9 <=? n)%N && (n <=? 13)%N).
Definition digit_val (b : byte) : N := (byteN b - 48)%N.
Definition to_upper (b : byte) : byte :=
  let n := byteN b in
  if (97 <=? n)%N && (n <=? 122)%N then match Byte.of_N (n - 32) with Some u => u | None => b end else b.

(** decimal rendering of an [N] (what printf %u / %lu prints) *)
Definition digit_byte (d : N) : byte := match Byte.of_N (48 + d) with Some b => b | None => x30 end.
Fixpoint dec_aux (fuel : nat) (n : N) (acc : list byte) : list byte :=
  match fuel with
  | 0 => acc
  | S f => let acc' := digit_byte (n mod 10) :: acc in
           if (n <? 10)%N then acc' else dec_aux f (n / 10) acc'
  end.
Definition dec (n : N) : list byte := dec_aux (S (N.to_nat (N.log2 n))) n [].

(** value of a run of digits, unbounded *)
Definition digits_val (ds : list byte) : N := fold_left (fun acc d => (acc * 10 + digit_val d)%N) ds 0%N.

(** * safety monad: [Fault] = the C program would have undefined behaviour here *)
Inductive fault := OOB_write | OOB_read | Null_deref | Signed_overflow | Out_of_fuel | Double_free | Other_fault.
Inductive res (A : Type) := Ok (a : A) | Fault (f : fault).
Arguments Ok {A} a.  Arguments Fault {A} f.
Definition bind {A B} (r : res A) (k : A -> res B) : res B :=
  match r with Ok a => k a | Fault f => Fault f end.
Notation "x <- r ;; k" := (bind r (fun x => k)) (at level 61, r at next level, right associativity).
Definition is_ok {A} (r : res A) : bool := match r with Ok _ => true | Fault _ => false end.
