(** Resource flow over T2 skeletons (C11 ownership of configuration strings, C16 residue).

    [exec T body s] is the *collecting semantics* of a skeleton body: the list of all outcomes
    over every way the undetermined conditions may go, every success/failure of every acquisition
    and every number of loop iterations (the states at a loop head are computed exhaustively by a
    work list; the fuel only bounds that computation and running out of it is an [OFail]).
    The state tracks, per variable / struct cell / out-parameter, whether it holds a resource this
    code owns ([VOwn]), the failure value ([VNull]), a released resource ([VDead]) or something that
    is not ours ([VOther]); integer flags with known values; and the accumulated verdicts
    ([leaks], [bad]).  Anything the semantics does not understand is an [OFail], never ignored. *)
From Coq Require Import String ZArith List Bool Lia.
From Snoopy Require Import Lib.Skel.
Import ListNotations.
Local Open Scope string_scope.
Local Open Scope list_scope.

Inductive rkind := KHeap | KFile | KFd | KDir.
Inductive key := KV (s : string) | KP (i : nat) | KC (b : key) (f : string) | KD (b : key).
Inductive vstat := VNull | VNeg | VOther | VOwn (k : rkind) | VDead | VPar (i : nat) | VCell | VAli (of : key).   (* VNull: 0 / NULL; VNeg: -1 (failed descriptor); VAli: a copy of the pointer held in [of] *)

(** boolean equalities (fast under vm_compute) with their soundness *)
Definition rkind_eqb (a b : rkind) : bool :=
  match a, b with KHeap, KHeap | KFile, KFile | KFd, KFd | KDir, KDir => true | _, _ => false end.
Fixpoint key_eqb (a b : key) : bool :=
  match a, b with
  | KV x, KV y => String.eqb x y
  | KP i, KP j => Nat.eqb i j
  | KC x f, KC y g => String.eqb f g && key_eqb x y
  | KD x, KD y => key_eqb x y
  | _, _ => false
  end.
Definition vstat_eqb (a b : vstat) : bool :=
  match a, b with
  | VNull, VNull | VNeg, VNeg | VOther, VOther | VDead, VDead | VCell, VCell => true
  | VOwn x, VOwn y => rkind_eqb x y
  | VPar i, VPar j => Nat.eqb i j
  | VAli x, VAli y => key_eqb x y
  | _, _ => false
  end.
Fixpoint list_eqb {A} (eqb : A -> A -> bool) (a b : list A) : bool :=
  match a, b with
  | [], [] => true
  | x :: a', y :: b' => eqb x y && list_eqb eqb a' b'
  | _, _ => false
  end.
Definition optz_eqb (a b : option Z) : bool :=
  match a, b with Some x, Some y => Z.eqb x y | None, None => true | _, _ => false end.

Lemma rkind_eqb_eq a b : rkind_eqb a b = true -> a = b.
Proof. destruct a, b; simpl; congruence. Qed.
Lemma key_eqb_eq a : forall b, key_eqb a b = true -> a = b.
Proof.
  induction a; destruct b; simpl; try discriminate; intros H.
  - apply String.eqb_eq in H. congruence.
  - apply Nat.eqb_eq in H. congruence.
  - apply andb_true_iff in H as [H1 H2]. apply String.eqb_eq in H1. apply IHa in H2. congruence.
  - apply IHa in H. congruence.
Qed.
Lemma vstat_eqb_eq a b : vstat_eqb a b = true -> a = b.
Proof.
  destruct a, b; simpl; try discriminate; try reflexivity; intros H.
  - apply rkind_eqb_eq in H. congruence.
  - apply Nat.eqb_eq in H. congruence.
  - apply key_eqb_eq in H. congruence.
Qed.
Lemma list_eqb_eq {A} (eqb : A -> A -> bool) : (forall x y, eqb x y = true -> x = y) -> forall a b, list_eqb eqb a b = true -> a = b.
Proof.
  intros E. induction a; destruct b; simpl; try discriminate; try reflexivity.
  intros H. apply andb_true_iff in H as [H1 H2]. apply E in H1. apply IHa in H2. congruence.
Qed.
Lemma optz_eqb_eq a b : optz_eqb a b = true -> a = b.
Proof. destruct a, b; simpl; try discriminate; try reflexivity. intros H. apply Z.eqb_eq in H. congruence. Qed.

Record rs := {
  vars : list (key * vstat);          (* ownership status of variables / cells (missing: see [getv]) *)
  ints : list (key * option Z);       (* tracked integers; [None] = unknown value *)
  consumed : list nat;                (* own parameters released or stored away here *)
  outp : list nat;                    (* own out-parameters that received an owned resource *)
  freed_cells : list key;             (* cells of foreign structures released here *)
  sess : Z;                           (* open utmp / syslog sessions *)
  leaks : list key;                   (* owned resources that became unreachable *)
  bad : list string                   (* invalid release (double, foreign, static), uninitialised read, ... *)
}.

Definition rs_eqb (a b : rs) : bool :=
  list_eqb (fun x y => key_eqb (fst x) (fst y) && vstat_eqb (snd x) (snd y)) (vars a) (vars b)
  && list_eqb (fun x y => key_eqb (fst x) (fst y) && optz_eqb (snd x) (snd y)) (ints a) (ints b)
  && list_eqb Nat.eqb (consumed a) (consumed b) && list_eqb Nat.eqb (outp a) (outp b)
  && list_eqb key_eqb (freed_cells a) (freed_cells b) && Z.eqb (sess a) (sess b)
  && list_eqb key_eqb (leaks a) (leaks b) && list_eqb String.eqb (bad a) (bad b).
Lemma rs_eqb_eq a b : rs_eqb a b = true -> a = b.
Proof.
  unfold rs_eqb. intros H. repeat (apply andb_true_iff in H as [H ?]).
  destruct a, b; simpl in *. f_equal.
  - revert H. apply list_eqb_eq. intros [k1 v1] [k2 v2] E. simpl in E. apply andb_true_iff in E as [E1 E2].
    apply key_eqb_eq in E1. apply vstat_eqb_eq in E2. congruence.
  - revert H6. apply list_eqb_eq. intros [k1 v1] [k2 v2] E. simpl in E. apply andb_true_iff in E as [E1 E2].
    apply key_eqb_eq in E1. apply optz_eqb_eq in E2. congruence.
  - revert H5. apply list_eqb_eq. intros x y. apply Nat.eqb_eq.
  - revert H4. apply list_eqb_eq. intros x y. apply Nat.eqb_eq.
  - revert H3. apply list_eqb_eq. apply key_eqb_eq.
  - now apply Z.eqb_eq.
  - revert H1. apply list_eqb_eq. apply key_eqb_eq.
  - revert H0. apply list_eqb_eq. intros x y. apply String.eqb_eq.
Qed.

Definition rs0 : rs := {| vars := []; ints := []; consumed := []; outp := []; freed_cells := []; sess := 0; leaks := []; bad := [] |}.

Inductive outc := ONorm (s : rs) | ORet (s : rs) (r : vstat) | OBrk (s : rs) | OCont (s : rs) | OFail (why : string).
Definition outc_eqb (a b : outc) : bool :=
  match a, b with
  | ONorm x, ONorm y | OBrk x, OBrk y | OCont x, OCont y => rs_eqb x y
  | ORet x r, ORet y q => vstat_eqb r q && rs_eqb x y
  | OFail v, OFail w => String.eqb v w
  | _, _ => false
  end.

Record summary := { s_ret : option rkind; s_out : list nat; s_realloc : bool; s_consume : list nat }.
Definition neutral_summary : summary := {| s_ret := None; s_out := []; s_realloc := false; s_consume := [] |}.

Record rtab := {
  t_acq : list (string * rkind);          (* returns a fresh resource, or the failure value *)
  t_rel : list (string * rkind);          (* releases its first argument *)
  t_sopen : list string; t_sclose : list string;
  t_summ : list (string * summary);       (* callees with ownership effects (library functions; getline) *)
  t_neutral : list string;                (* callees without ownership effects *)
  t_indirect_ok : bool;                   (* calls through pointers reach ownership-neutral functions only *)
  t_track : list string;                  (* struct fields tracked as integers (flags); local variables always are *)
  t_scalar : list string;                 (* struct fields known to be plain numbers: no ownership status is kept for them *)
  t_heap_fails : bool                     (* explore the failure of heap allocations too (memory exhaustion is outside the properties' domain) *)
}.

(** * State access *)
Fixpoint assoc {A B} (eqb : A -> A -> bool) (l : list (A * B)) (k : A) : option B :=
  match l with [] => None | (k', v) :: l' => if eqb k k' then Some v else assoc eqb l' k end.
Fixpoint upd {A B} (eqb : A -> A -> bool) (l : list (A * B)) (k : A) (v : B) : list (A * B) :=
  match l with [] => [(k, v)] | (k', v') :: l' => if eqb k k' then (k, v) :: l' else (k', v') :: upd eqb l' k v end.
Fixpoint memb {A} (eqb : A -> A -> bool) (x : A) (l : list A) : bool :=
  match l with [] => false | y :: l' => eqb x y || memb eqb x l' end.
Lemma memb_In {A} (eqb : A -> A -> bool) : (forall x y, eqb x y = true -> x = y) -> forall x l, memb eqb x l = true -> In x l.
Proof.
  intros E x. induction l; simpl; [discriminate|]. intros H. apply orb_true_iff in H as [H|H].
  - left. symmetry. now apply E.
  - right. now apply IHl.
Qed.

Definition getv (s : rs) (k : key) : vstat :=
  match assoc key_eqb (vars s) k with
  | Some v => v
  | None => match k with KP i => VPar i | KV _ => VOther | _ => VCell end
  end.
Definition resolve (s : rs) (k : key) : key := match getv s k with VAli y => y | _ => k end.
Definition setv (s : rs) (k : key) (v : vstat) : rs :=
  {| vars := upd key_eqb (vars s) k v; ints := ints s; consumed := consumed s; outp := outp s; freed_cells := freed_cells s;
     sess := sess s; leaks := leaks s; bad := bad s |}.
Definition tracked (T : rtab) (k : key) : bool :=
  match k with KV _ => true | KC _ f => str_in f (t_track T) | _ => false end.
Definition geti (s : rs) (k : key) : option Z := match assoc key_eqb (ints s) k with Some z => z | None => None end.
Definition seti (T : rtab) (s : rs) (k : key) (z : option Z) : rs :=
  if tracked T k then
    {| vars := vars s; ints := upd key_eqb (ints s) k z; consumed := consumed s; outp := outp s; freed_cells := freed_cells s;
       sess := sess s; leaks := leaks s; bad := bad s |}
  else s.
Definition add_bad (s : rs) (w : string) : rs :=
  {| vars := vars s; ints := ints s; consumed := consumed s; outp := outp s; freed_cells := freed_cells s; sess := sess s; leaks := leaks s; bad := if memb String.eqb w (bad s) then bad s else bad s ++ [w] |}.
Definition add_leak (s : rs) (k : key) : rs :=
  {| vars := vars s; ints := ints s; consumed := consumed s; outp := outp s; freed_cells := freed_cells s; sess := sess s; leaks := if memb key_eqb k (leaks s) then leaks s else leaks s ++ [k]; bad := bad s |}.
Definition add_consumed (s : rs) (i : nat) : rs :=
  {| vars := vars s; ints := ints s; consumed := if memb Nat.eqb i (consumed s) then consumed s else consumed s ++ [i]; outp := outp s; freed_cells := freed_cells s; sess := sess s; leaks := leaks s; bad := bad s |}.
Definition add_outp (s : rs) (i : nat) : rs :=
  {| vars := vars s; ints := ints s; consumed := consumed s; outp := if memb Nat.eqb i (outp s) then outp s else outp s ++ [i]; freed_cells := freed_cells s; sess := sess s; leaks := leaks s; bad := bad s |}.
Definition add_freed (s : rs) (k : key) : rs :=
  {| vars := vars s; ints := ints s; consumed := consumed s; outp := outp s; freed_cells := if memb key_eqb k (freed_cells s) then freed_cells s else freed_cells s ++ [k]; sess := sess s; leaks := leaks s; bad := bad s |}.
Definition add_sess (s : rs) (d : Z) : rs :=
  {| vars := vars s; ints := ints s; consumed := consumed s; outp := outp s; freed_cells := freed_cells s; sess := (sess s + d)%Z; leaks := leaks s; bad := bad s |}.

(** overwrite [k] with status [v]: a still-owned resource held there becomes unreachable *)
Definition is_scalar (T : rtab) (k : key) : bool := match k with KC _ f => str_in f (t_scalar T) | _ => false end.
Definition overwrite (T : rtab) (s : rs) (k : key) (v : vstat) : rs :=
  if is_scalar T k then s else
  let s1 := match getv s k with VOwn _ => add_leak s k | _ => s end in setv s1 k v.

(** * Expressions *)
Fixpoint lv_key (e : sexpr) : option key :=
  match e with
  | XVar v => Some (KV v)
  | XParam i => Some (KP i)
  | XMember b f => option_map (fun k => KC k f) (lv_key b)
  | XDeref b => option_map KD (lv_key b)
  | XCast b => lv_key b
  | _ => None
  end.

Fixpoint cint (e : sexpr) : option Z :=
  match e with
  | XInt z => Some z
  | XCast a => cint a
  | XOp op [a] => if String.eqb op "-" then option_map Z.opp (cint a) else None
  | XOp op [a; b] =>
    match cint a, cint b with
    | Some x, Some y => if String.eqb op "<<" then Some (Z.shiftl x y) else if String.eqb op "|" then Some (Z.lor x y)
                        else if String.eqb op "+" then Some (x + y)%Z else if String.eqb op "-" then Some (x - y)%Z
                        else if String.eqb op "*" then Some (x * y)%Z else None
    | _, _ => None
    end
  | _ => None
  end.

Inductive eres := EFresh (k : rkind) (may_fail : bool) | EFreshMv (k : rkind) (src : key) | EKey (k : key) | EInt (z : Z) | EUnk.
(* EFreshMv k src: a fresh resource of kind k that, when the acquisition succeeds, takes over the one held in [src] (fdopen: the stream owns the descriptor) *)

Definition release (k : rkind) (what : string) (r : eres) (s : rs) : rs :=
  match r with
  | EKey x0 =>
    let x := resolve s x0 in
    match getv s x with
    | VAli _ => add_bad s (what ++ " through a chain of pointer copies")
    | VOwn k' => if rkind_eqb k k' then setv s x VDead else add_bad s ("release of the wrong kind by " ++ what)
    | VNull => match k with KHeap => s | KFd => add_bad s (what ++ " of descriptor 0, which this code did not open") | _ => add_bad s (what ++ " of the failure value") end
    | VNeg => match k with KFd => s | _ => add_bad s (what ++ " of the failure value") end
    | VPar i => setv (add_consumed s i) x VDead
    | VCell => setv (add_freed s x) x VDead
    | VDead => add_bad s ("double release by " ++ what)
    | VOther => add_bad s (what ++ " of something this code does not own")
    end
  | EInt z => if (z =? 0)%Z then s else add_bad s (what ++ " of a constant")
  | _ => add_bad s (what ++ " of an untracked expression")
  end.

(** the value of an argument received by a callee that takes ownership of it *)
Definition consume_arg (s : rs) (r : eres) : rs :=
  match r with
  | EKey x0 => let x := resolve s x0 in match getv s x with VOwn _ => setv s x VOther | VPar i => add_consumed s i | _ => s end
  | _ => s
  end.

Definition forget_value (T : rtab) (s : rs) (k : key) : rs :=
  let s := seti T s k None in match getv s k with VNull | VNeg => setv s k VOther | _ => s end.
Definition receive_out (T : rtab) (realloc : bool) (s : rs) (a : sexpr) : rs :=
  match a with
  | XAddr lv =>
    match lv_key lv with
    | Some x =>
      let s := seti T s x None in
      match getv s x with
      | VOwn KHeap => if realloc then s else setv (add_leak s x) x (VOwn KHeap)
      | VPar _ | VCell => add_bad s "out-parameter result stored into something this code does not own"
      | _ => setv s x (VOwn KHeap)
      end
    | None => add_bad s "out-parameter result stored into an untracked lvalue"
    end
  | _ => match lv_key a with
         | Some (KP i) => add_outp s i      (* own out-parameter handed on *)
         | _ => add_bad s "out-parameter result stored into an untracked lvalue"
         end
  end.

Definition fresh_dropped (r : eres) (s : rs) : rs :=
  match r with EFresh _ _ | EFreshMv _ _ => add_leak s (KV "<acquired and dropped>") | _ => s end.

Section Sem.
  Variable T : rtab.

  Definition apply_call (f : string) (args : list sexpr) (rsl : list eres) (s : rs) : list (rs * eres) :=
    let s := fold_left (fun s r => fresh_dropped r s) (tl rsl) s in
    let s := fold_left (fun s a => match a with XAddr lv => match lv_key lv with Some k => forget_value T s k | None => s end | _ => s end) args s in   (* the callee may write through &x *)
    match assoc String.eqb (t_rel T) f with
    | Some k => [(release k f (hd EUnk rsl) s, EUnk)]
    | None =>
    match assoc String.eqb (t_acq T) f with
    | Some k =>
      match String.eqb f "fdopen", hd EUnk rsl with
      | true, EKey y => match getv s (resolve s y) with VOwn KFd => [(s, EFreshMv k (resolve s y))] | _ => [(s, EFresh k true)] end
      | _, _ => [(fresh_dropped (hd EUnk rsl) s, EFresh k (match k with KHeap => t_heap_fails T | _ => true end))]
      end
    | None =>
    let s := fresh_dropped (hd EUnk rsl) s in
    if str_in f (t_sopen T) then [(add_sess s 1, EUnk)]
    else if str_in f (t_sclose T) then [(if (sess s <=? 0)%Z then add_bad s ("unmatched " ++ f) else add_sess s (-1), EUnk)]
    else match assoc String.eqb (t_summ T) f with
    | Some sm =>
      let s1 := fold_left (fun s i => consume_arg s (nth i rsl EUnk)) (s_consume sm) s in
      let s2 := fold_left (fun s i => receive_out T (s_realloc sm) s (nth i args (XOther "missing argument"))) (s_out sm) s1 in
      [(s2, match s_ret sm with Some k => EFresh k true | None => EUnk end)]      (* a library function may hand back NULL on its own error paths *)
    | None => if str_in f (t_neutral T) then [(s, EUnk)] else [(add_bad s ("call of the unclassified function " ++ f), EUnk)]
    end end end.

  (** assignment of an evaluated right-hand side to a tracked lvalue; an acquisition forks into success and failure *)
  Definition assign_key (x : key) (r : eres) (s : rs) : list rs :=
    match r with
    | EFresh k mf => seti T (overwrite T s x (VOwn k)) x None
                  :: (if mf then [seti T (overwrite T s x (match k with KFd => VNeg | _ => VNull end)) x None] else [])
    | EFreshMv k y => [setv (seti T (overwrite T s x (VOwn k)) x None) y VOther; seti T (overwrite T s x VNull) x None]
    | EKey y =>
      let s1 := seti T s x (geti s y) in
      match getv s y with
      | VOwn k => match x with
                  | KV _ => [overwrite T s1 x (VAli y)]                                   (* a local copy of the pointer: the original keeps the resource *)
                  | _ => [setv (overwrite T s1 x (VOwn k)) y VOther]                      (* stored into a structure: ownership moves there *)
                  end
      | VPar i => match x with
                  | KV _ => [overwrite T s1 x (VPar i)]
                  | _ => [overwrite T (add_consumed s1 i) x VOther]                  (* own parameter stored into a structure *)
                  end
      | VCell => [overwrite T s1 x VOther]
      | v => [overwrite T s1 x v]
      end
    | EInt z => [seti T (overwrite T s x (if (z =? 0)%Z then VNull else if (z =? -1)%Z then VNeg else VOther)) x (Some z)]
    | EUnk => [seti T (overwrite T s x VOther) x None]
    end.

  Fixpoint eval (e : sexpr) (s : rs) {struct e} : list (rs * eres) :=
    match e with
    | XCall f args =>
      let ev := fold_left (fun acc a => flat_map (fun '(s1, rl) => map (fun '(s2, r) => (s2, rl ++ [r])) (eval a s1)) acc) args [(s, [])] in
      flat_map (fun '(s1, rl) => apply_call f args rl s1) ev
    | XCallPtr p args =>
      let ev := fold_left (fun acc a => flat_map (fun '(s1, rl) => map (fun '(s2, r) => (s2, rl ++ [r])) (eval a s1)) acc) args (map (fun '(s1, _) => (s1, [])) (eval p s)) in
      map (fun '(s1, rl) => let s2 := fold_left (fun s r => fresh_dropped r s) rl s1 in
                           (if t_indirect_ok T then s2 else add_bad s2 "call through a pointer", EUnk)) ev
    | XOp op [a; b] =>
      if String.eqb op "=" then
        flat_map (fun '(s1, r) => match lv_key a with
                                  | Some x => map (fun s2 => (s2, EKey x)) (assign_key x r s1)
                                  | None => [(fresh_dropped r s1, EUnk)]
                                  end) (eval b s)
      else match cint e with
           | Some z => [(s, EInt z)]
           | None => flat_map (fun '(s1, ra) => map (fun '(s2, rb) => (fresh_dropped ra (fresh_dropped rb s2), EUnk)) (eval b s1)) (eval a s)
           end
    | XOp op args =>
      match cint e with
      | Some z => [(s, EInt z)]
      | None => let ev := fold_left (fun acc a => flat_map (fun '(s1, _) => map (fun '(s2, r) => (fresh_dropped r s2, tt)) (eval a s1)) acc) args [(s, tt)] in
                map (fun '(s1, _) => (s1, EUnk)) ev
      end
    | XInt z => [(s, EInt z)]
    | XCast a => match cint a with Some z => [(s, EInt z)] | None => eval a s end
    | XVar _ | XParam _ => match lv_key e with Some k => [(s, EKey k)] | None => [(s, EUnk)] end
    | XMember b _ | XDeref b =>
      match lv_key e with
      | Some k => [(s, EKey k)]
      | None => map (fun '(s1, r) => (fresh_dropped r s1, EUnk)) (eval b s)
      end
    | XAddr b => match lv_key b with Some _ => [(s, EUnk)] | None => map (fun '(s1, r) => (fresh_dropped r s1, EUnk)) (eval b s) end
    | XIndex a i => flat_map (fun '(s1, ra) => map (fun '(s2, rb) => (fresh_dropped ra (fresh_dropped rb s2), EUnk)) (eval i s1)) (eval a s)
    | XStr _ | XFun _ => [(s, EUnk)]
    | XOther w => [(add_bad s ("untranslated expression: " ++ w), EUnk)]
    end.

  Definition getr (s : rs) (k : key) : vstat := getv s (resolve s k).
  (** truth of a value; [None] = not determined by the tracked state (both branches are explored) *)
  Definition known_int (s : rs) (r : eres) : option Z :=
    match r with
    | EInt z => Some z
    | EKey k => match getr s k with VNull => Some 0%Z | VNeg => Some (-1)%Z | _ => geti s k end
    | _ => None
    end.
  Definition owned_kind (s : rs) (r : eres) : option rkind := match r with EKey k => match getr s k with VOwn kd => Some kd | _ => None end | _ => None end.
  (** an owned pointer is not NULL and not -1; an owned descriptor is not -1 *)
  Definition differs_from (kd : rkind) (z : Z) : bool := match kd with KFd => (z =? -1)%Z | _ => (z =? 0)%Z || (z =? -1)%Z end.
  Definition cmp_eq (s : rs) (a b : eres) : option bool :=
    match known_int s a, known_int s b with
    | Some x, Some y => Some (x =? y)%Z
    | Some x, None => match owned_kind s b with Some kd => if differs_from kd x then Some false else None | None => None end
    | None, Some y => match owned_kind s a with Some kd => if differs_from kd y then Some false else None | None => None end
    | None, None => None
    end.
  Definition truth (s : rs) (r : eres) : option bool :=
    match known_int s r with
    | Some z => Some (negb (z =? 0)%Z)
    | None => match owned_kind s r with Some KFd => None | Some _ => Some true | None => None end
    end.

  Definition o_and (a b : option bool) : option bool :=
    match a, b with Some false, _ | _, Some false => Some false | Some true, Some true => Some true | _, _ => None end.
  Definition o_or (a b : option bool) : option bool :=
    match a, b with Some true, _ | _, Some true => Some true | Some false, Some false => Some false | _, _ => None end.

  Fixpoint cond (c : sexpr) (s : rs) {struct c} : list (rs * option bool) :=
    match c with
    | XOp op [a] =>
      if String.eqb op "!" then map (fun '(s1, b) => (s1, option_map negb b)) (cond a s)
      else map (fun '(s1, r) => (fresh_dropped r s1, truth s1 r)) (eval c s)
    | XOp op [a; b] =>
      if String.eqb op "&&" then
        flat_map (fun '(s1, ba) => match ba with Some false => [(s1, Some false)] | _ => map (fun '(s2, bb) => (s2, o_and ba bb)) (cond b s1) end) (cond a s)
      else if String.eqb op "||" then
        flat_map (fun '(s1, ba) => match ba with Some true => [(s1, Some true)] | _ => map (fun '(s2, bb) => (s2, o_or ba bb)) (cond b s1) end) (cond a s)
      else if String.eqb op "==" || String.eqb op "!=" || String.eqb op "<" || String.eqb op ">=" then
        flat_map (fun '(s1, ra) => map (fun '(s2, rb) =>
            let s3 := fresh_dropped ra (fresh_dropped rb s2) in
            (s3, if String.eqb op "==" then cmp_eq s3 ra rb
                 else if String.eqb op "!=" then option_map negb (cmp_eq s3 ra rb)
                 else match known_int s3 ra, known_int s3 rb with
                      | Some x, Some y => Some (if String.eqb op "<" then (x <? y)%Z else (x >=? y)%Z)
                      | _, _ => match rb, owned_kind s3 ra with
                                | EInt 0%Z, Some _ => Some (negb (String.eqb op "<"))       (* an owned descriptor / pointer is not below zero *)
                                | _, _ => None end
                      end)) (eval b s1)) (eval a s)
      else map (fun '(s1, r) => (fresh_dropped r s1, truth s1 r)) (eval c s)
    | XCast a => cond a s
    | _ => map (fun '(s1, r) => (fresh_dropped r s1, truth s1 r)) (eval c s)
    end.

  Definition may_true (b : option bool) : bool := match b with Some false => false | _ => true end.
  Definition may_false (b : option bool) : bool := match b with Some true => false | _ => true end.

  Fixpoint dedup {A} (eqb : A -> A -> bool) (l : list A) : list A :=
    match l with [] => [] | x :: l' => if memb eqb x l' then dedup eqb l' else x :: dedup eqb l' end.

  (** exhaustive exploration of the states at a loop head *)
  Fixpoint loop_fix (n : nat) (guard : rs -> list (rs * option bool)) (body : rs -> list outc)
                    (todo seen : list rs) (exits : list outc) : list outc :=
    match n with
    | O => [OFail "loop exploration ran out of fuel"]
    | S n' =>
      match todo with
      | [] => exits
      | s :: todo' =>
        if memb rs_eqb s seen then loop_fix n' guard body todo' seen exits
        else
          let gs := guard s in
          let ex1 := flat_map (fun '(s1, b) => if may_false b then [ONorm s1] else []) gs in
          let bo := flat_map (fun '(s1, b) => if may_true b then body s1 else []) gs in
          let heads := flat_map (fun o => match o with ONorm s2 | OCont s2 => [s2] | _ => [] end) bo in
          let ex2 := flat_map (fun o => match o with OBrk s2 => [ONorm s2] | ORet s2 r => [ORet s2 r] | OFail w => [OFail w] | _ => [] end) bo in
          loop_fix n' guard body (todo' ++ heads) (s :: seen) (dedup outc_eqb (exits ++ ex1 ++ ex2))
      end
    end.

  Definition loop_fuel : nat := 400.

  Fixpoint exec1 (st : sstmt) (s : rs) {struct st} : list outc :=
    let seq := fix seq (l : list sstmt) (s : rs) {struct l} : list outc :=
      match l with
      | [] => [ONorm s]
      | x :: l' => dedup outc_eqb (flat_map (fun o => match o with ONorm s1 => seq l' s1 | o' => [o'] end) (exec1 x s))
      end in
    match st with
    | SExpr e => map (fun '(s1, r) => ONorm (fresh_dropped r s1)) (eval e s)
    | SDecl n _ None => [ONorm (seti T (setv s (KV n) VOther) (KV n) None)]
    | SDecl n _ (Some e) => flat_map (fun '(s1, r) => map ONorm (assign_key (KV n) r (setv s1 (KV n) VOther))) (eval e s)
    | SAssign l r =>
      flat_map (fun '(s1, rr) =>
        match lv_key l with
        | Some (KD (KP i)) =>                                   (* *out_param = value *)
          match rr with
          | EKey y0 => let y := resolve s1 y0 in
                      match getv s1 y with
                      | VOwn _ => [ONorm (add_outp (setv s1 y VOther) i)]
                      | _ => [ONorm s1] end
          | EFresh _ _ | EFreshMv _ _ => [ONorm (add_outp s1 i)]
          | _ => [ONorm s1]
          end
        | Some x => map ONorm (assign_key x rr s1)
        | None => map (fun '(s2, _) => ONorm (match rr with EFresh _ _ | EFreshMv _ _ => add_bad s2 "acquired resource stored into an untracked lvalue" | _ => s2 end)) (eval l s1)
        end) (eval r s)
    | SIf c t e =>
      dedup outc_eqb (flat_map (fun '(s1, b) => (if may_true b then seq t s1 else []) ++ (if may_false b then seq e s1 else [])) (cond c s))
    | SLoop c b => loop_fix loop_fuel (cond c) (seq b) [s] [] []
    | SSeq l => seq l s
    | SReturn None => [ORet s VOther]
    | SReturn (Some e) =>
      map (fun '(s1, r) =>
        match r with
        | EFresh k _ => ORet s1 (VOwn k)
        | EFreshMv k y => ORet (setv s1 y VOther) (VOwn k)
        | EKey y0 => let y := resolve s1 y0 in
                    match getv s1 y with
                    | VOwn k => ORet (setv s1 y VOther) (VOwn k)
                    | VPar i => ORet s1 (VPar i)
                    | VNull => ORet s1 VNull
                    | VNeg => ORet s1 VNeg
                    | _ => ORet s1 VOther end
        | EInt z => ORet s1 (if (z =? 0)%Z then VNull else VOther)
        | EUnk => ORet s1 VOther
        end) (eval e s)
    | SBreak => [OBrk s]
    | SContinue => [OCont s]
    | SOther w => [OFail ("untranslated statement: " ++ w)]
    end.

  Fixpoint exec (l : list sstmt) (s : rs) {struct l} : list outc :=
    match l with
    | [] => [ONorm s]
    | x :: l' => dedup outc_eqb (flat_map (fun o => match o with ONorm s1 => exec l' s1 | o' => [o'] end) (exec1 x s))
    end.

  (** * End of a function: locals go out of scope *)
  Fixpoint is_local (k : key) : bool := match k with KV _ => true | KD b => is_local b | _ => false end.
  Definition scope_end (s : rs) : rs :=
    let lost := flat_map (fun '(k, v) => match v with VOwn _ => if is_local k then [k] else [] | _ => [] end) (vars s) in
    {| vars := filter (fun '(k, _) => negb (is_local k)) (vars s);
       ints := filter (fun '(k, _) => negb (is_local k)) (ints s);
       consumed := consumed s; outp := outp s; freed_cells := freed_cells s; sess := sess s; leaks := leaks s ++ lost; bad := bad s |}.

  (** result of running a whole function body from [s]: final states with the returned ownership, or a failure *)
  Inductive fres := FDone (s : rs) (r : vstat) | FFail (why : string).
  Definition fres_eqb (a b : fres) : bool :=
    match a, b with
    | FDone x r, FDone y q => vstat_eqb r q && rs_eqb x y
    | FFail v, FFail w => String.eqb v w
    | _, _ => false
    end.
  Definition run_fn (body : list sstmt) (s : rs) : list fres :=
    dedup fres_eqb (map (fun o => match o with
                     | ONorm s1 => FDone (scope_end s1) VOther
                     | ORet s1 r => FDone (scope_end s1) r
                     | OBrk _ | OCont _ => FFail "break/continue outside a loop"
                     | OFail w => FFail w
                     end) (exec body s)).
End Sem.

(** * Substitution of a callee's parameters (for the one inlined callee, setDefaults) *)
Fixpoint esubst (args : list sexpr) (e : sexpr) : sexpr :=
  match e with
  | XParam i => nth i args (XOther "missing argument")
  | XCast a => XCast (esubst args a)
  | XCall f l => XCall f (map (esubst args) l)
  | XCallPtr p l => XCallPtr (esubst args p) (map (esubst args) l)
  | XDeref a => XDeref (esubst args a)
  | XAddr a => XAddr (esubst args a)
  | XMember a f => XMember (esubst args a) f
  | XIndex a b => XIndex (esubst args a) (esubst args b)
  | XOp op l => XOp op (map (esubst args) l)
  | _ => e
  end.
Fixpoint ssubst (args : list sexpr) (s : sstmt) : sstmt :=
  match s with
  | SExpr e => SExpr (esubst args e)
  | SDecl n st i => SDecl n st (option_map (esubst args) i)
  | SAssign l r => SAssign (esubst args l) (esubst args r)
  | SIf c t e => SIf (esubst args c) (map (ssubst args) t) (map (ssubst args) e)
  | SLoop c b => SLoop (esubst args c) (map (ssubst args) b)
  | SSeq l => SSeq (map (ssubst args) l)
  | SReturn e => SReturn (option_map (esubst args) e)
  | _ => s
  end.
(** replace the statement [f(args);] by the callee's body (which must not return a value that is used) *)
Fixpoint inline_stmt (f : string) (body : list sstmt) (s : sstmt) : sstmt :=
  match s with
  | SExpr (XCall g args) => if String.eqb f g then SSeq (map (ssubst args) body) else s
  | SIf c t e => SIf c (map (inline_stmt f body) t) (map (inline_stmt f body) e)
  | SLoop c b => SLoop c (map (inline_stmt f body) b)
  | SSeq l => SSeq (map (inline_stmt f body) l)
  | _ => s
  end.
Definition inline (f : string) (body : list sstmt) (l : list sstmt) : list sstmt := map (inline_stmt f body) l.

Fixpoint has_return (s : sstmt) : bool :=
  match s with
  | SReturn _ => true
  | SIf _ t e => existsb has_return t || existsb has_return e
  | SLoop _ b => existsb has_return b
  | SSeq l => existsb has_return l
  | _ => false
  end.

(** generic closure lemma used by the history theorems *)
Section Closure.
  Variable A : Type.
  Variable step : A -> A -> Prop.
  Inductive star : A -> A -> Prop := star_refl a : star a a | star_step a b c : step a b -> star b c -> star a c.
  Lemma closed_star (P : A -> Prop) : (forall a b, P a -> step a b -> P b) -> forall a b, star a b -> P a -> P b.
  Proof. intros H a b S. induction S; eauto. Qed.
End Closure.
