(** The work-list exploration of loop heads in Lib/ResFlow.v is complete: whatever outcome a loop can produce after ANY number
    of iterations — each iteration being one element of [guard] followed by one element of [body] — is in the list [loop_fix]
    returns, unless that list reports that the fuel ran out.  (The other clauses of [exec] are list-monad compositions.) *)
From Coq Require Import String ZArith List Bool Lia.
From Snoopy Require Import Lib.Skel Lib.ResFlow.
Import ListNotations.
Local Open Scope string_scope.
Local Open Scope list_scope.

Section Loop.
  Variable guard : rs -> list (rs * option bool).
  Variable body : rs -> list outc.

  (** one loop, any number of iterations *)
  Inductive loop_rel : rs -> outc -> Prop :=
  | lr_exit s s1 b : In (s1, b) (guard s) -> may_false b = true -> loop_rel s (ONorm s1)
  | lr_next s s1 b s2 o : In (s1, b) (guard s) -> may_true b = true -> (In (ONorm s2) (body s1) \/ In (OCont s2) (body s1)) -> loop_rel s2 o -> loop_rel s o
  | lr_break s s1 b s2 : In (s1, b) (guard s) -> may_true b = true -> In (OBrk s2) (body s1) -> loop_rel s (ONorm s2)
  | lr_return s s1 b s2 r : In (s1, b) (guard s) -> may_true b = true -> In (ORet s2 r) (body s1) -> loop_rel s (ORet s2 r)
  | lr_fail s s1 b w : In (s1, b) (guard s) -> may_true b = true -> In (OFail w) (body s1) -> loop_rel s (OFail w).

  Definition ex1 (s : rs) : list outc := flat_map (fun '(s1, b) => if may_false b then [ONorm s1] else []) (guard s).
  Definition bo (s : rs) : list outc := flat_map (fun '(s1, b) => if may_true b then body s1 else []) (guard s).
  Definition heads (s : rs) : list rs := flat_map (fun o => match o with ONorm s2 | OCont s2 => [s2] | _ => [] end) (bo s).
  Definition ex2 (s : rs) : list outc := flat_map (fun o => match o with OBrk s2 => [ONorm s2] | ORet s2 r => [ORet s2 r] | OFail w => [OFail w] | _ => [] end) (bo s).

  Lemma loop_fix_unfold n todo seen exits :
    loop_fix (S n) guard body todo seen exits =
    match todo with
    | [] => exits
    | s :: todo' => if memb rs_eqb s seen then loop_fix n guard body todo' seen exits
                    else loop_fix n guard body (todo' ++ heads s) (s :: seen) (dedup outc_eqb (exits ++ ex1 s ++ ex2 s))
    end.
  Proof. reflexivity. Qed.

  Lemma outc_eqb_eq a b : outc_eqb a b = true -> a = b.
  Proof.
    destruct a, b; simpl; try discriminate; intros H.
    - apply rs_eqb_eq in H. congruence.
    - apply andb_true_iff in H as [H1 H2]. apply vstat_eqb_eq in H1. apply rs_eqb_eq in H2. congruence.
    - apply rs_eqb_eq in H. congruence.
    - apply rs_eqb_eq in H. congruence.
    - apply String.eqb_eq in H. congruence.
  Qed.
  Lemma in_dedup {A} (eqb : A -> A -> bool) (E : forall x y, eqb x y = true -> x = y) x : forall l, In x l -> In x (dedup eqb l).
  Proof.
    induction l as [|y l IH]; intros H; [contradiction|]. simpl. destruct H as [->|H].
    - destruct (memb eqb x l) eqn:M; [apply IH; apply (memb_In eqb E _ _ M)|now left].
    - destruct (memb eqb y l); [auto|right; auto].
  Qed.

  Definition FUEL := OFail "loop exploration ran out of fuel".

  (** invariant of the work list: every processed state has its exits recorded and its successors processed or queued *)
  Definition inv (todo seen : list rs) (exits : list outc) : Prop :=
    forall s, In s seen -> (forall o, In o (ex1 s ++ ex2 s) -> In o exits) /\ (forall h, In h (heads s) -> In h seen \/ In h todo).

  Lemma loop_fix_inv n : forall todo seen exits R, loop_fix n guard body todo seen exits = R -> ~ In FUEL R ->
      inv todo seen exits ->
      exists seen', incl seen seen' /\ incl todo seen' /\ incl exits R /\ inv [] seen' R.
  Proof.
    induction n as [|n IH]; intros todo seen exits R H HF I.
    - simpl in H. subst R. exfalso. apply HF. now left.
    - rewrite loop_fix_unfold in H. destruct todo as [|s todo'].
      + subst R. exists seen. split; [apply incl_refl|]. split; [intros ? []|]. split; [apply incl_refl|assumption].
      + destruct (memb rs_eqb s seen) eqn:M.
        * assert (Hs : In s seen) by (apply (memb_In rs_eqb rs_eqb_eq _ _ M)).
          assert (I' : inv todo' seen exits).
          { intros x Hx. destruct (I x Hx) as [A B]. split; [assumption|]. intros h Hh. destruct (B h Hh) as [?|[<-|?]]; auto. }
          destruct (IH _ _ _ _ H HF I') as [seen' [A [B [C D]]]]. exists seen'. split; [assumption|]. split; [|split; assumption].
          intros x [<-|Hx]; auto.
        * set (exits2 := dedup outc_eqb (exits ++ ex1 s ++ ex2 s)) in *.
          assert (Mono : incl exits exits2).
          { intros o Ho. apply in_dedup; [apply outc_eqb_eq|]. apply in_or_app. now left. }
          assert (I' : inv (todo' ++ heads s) (s :: seen) exits2).
          { intros x [<-|Hx].
            - split.
              + intros o Ho. apply in_dedup; [apply outc_eqb_eq|]. apply in_or_app. now right.
              + intros h Hh. right. apply in_or_app. now right.
            - destruct (I x Hx) as [A B]. split.
              + intros o Ho. apply Mono. now apply A.
              + intros h Hh. destruct (B h Hh) as [?|[<-|?]].
                * left. now right.
                * left. now left.
                * right. apply in_or_app. now left. }
          destruct (IH _ _ _ _ H HF I') as [seen' [A [B [C D]]]]. exists seen'. split; [intros x Hx; apply A; now right|].
          split; [|split; [intros o Ho; apply C; now apply Mono|assumption]].
          intros x [<-|Hx]; [apply A; now left|]. apply B. apply in_or_app. now left.
  Qed.

  Lemma in_ex1 s s1 b : In (s1, b) (guard s) -> may_false b = true -> In (ONorm s1) (ex1 s).
  Proof. intros H M. unfold ex1. apply in_flat_map. exists (s1, b). split; [assumption|]. rewrite M. now left. Qed.
  Lemma in_bo s s1 b o : In (s1, b) (guard s) -> may_true b = true -> In o (body s1) -> In o (bo s).
  Proof. intros H M Ho. unfold bo. apply in_flat_map. exists (s1, b). split; [assumption|]. now rewrite M. Qed.

  (** every outcome of the loop after any number of iterations is among the outcomes computed, unless the computation reports that its fuel ran out *)
  Theorem loop_fix_complete n s0 R : loop_fix n guard body [s0] [] [] = R -> ~ In FUEL R -> forall o, loop_rel s0 o -> In o R.
  Proof.
    intros H HF. assert (I0 : inv [s0] [] []) by (intros ? []).
    destruct (loop_fix_inv n _ _ _ _ H HF I0) as [seen' [_ [B [_ D]]]].
    assert (G : forall s o, loop_rel s o -> In s seen' -> In o R).
    { intros s o L. induction L; intros Hs; destruct (D s Hs) as [E Hd].
      - apply E. apply in_or_app. left. eapply in_ex1; eassumption.
      - apply IHL. assert (Hh : In s2 (heads s)).
        { unfold heads. apply in_flat_map. match goal with Hd : _ \/ _ |- _ => destruct Hd as [Hb|Hb] end; [exists (ONorm s2)|exists (OCont s2)]; (split; [eapply in_bo; eassumption|now left]). }
        destruct (Hd _ Hh) as [?|F]; [assumption|destruct F].
      - apply E. apply in_or_app. right. unfold ex2. apply in_flat_map. exists (OBrk s2). split; [eapply in_bo; eassumption|now left].
      - apply E. apply in_or_app. right. unfold ex2. apply in_flat_map. exists (ORet s2 r). split; [eapply in_bo; eassumption|now left].
      - apply E. apply in_or_app. right. unfold ex2. apply in_flat_map. exists (OFail w). split; [eapply in_bo; eassumption|now left]. }
    intros o L. apply (G _ _ L). apply B. now left.
  Qed.
End Loop.


(** the loop clause of [exec1] is that exploration, with one element of [cond] as the test and one outcome of the body as an iteration *)
Lemma loop_fix_ext g b1 b2 : (forall s, b1 s = b2 s) -> forall n todo seen exits, loop_fix n g b1 todo seen exits = loop_fix n g b2 todo seen exits.
Proof.
  intros E. induction n as [|n IH]; intros todo seen exits; [reflexivity|]. simpl. destruct todo as [|s todo]; [reflexivity|].
  destruct (memb rs_eqb s seen); [apply IH|].
  assert (F : flat_map (fun '(s1, b) => if may_true b then b1 s1 else []) (g s) = flat_map (fun '(s1, b) => if may_true b then b2 s1 else []) (g s)).
  { apply flat_map_ext. intros [s1 b]. now rewrite E. }
  rewrite F. apply IH.
Qed.

Lemma exec_is_seq T : forall l s,
  exec T l s = (fix seq (l : list sstmt) (s : rs) {struct l} : list outc :=
                  match l with
                  | [] => [ONorm s]
                  | x :: l' => dedup outc_eqb (flat_map (fun o => match o with ONorm s1 => seq l' s1 | o' => [o'] end) (exec1 T x s))
                  end) l s.
Proof.
  intros l s. reflexivity.
Qed.

Theorem exec1_loop T c b s : exec1 T (SLoop c b) s = loop_fix loop_fuel (cond T c) (exec T b) [s] [] [].
Proof.
  cbn [exec1]. apply loop_fix_ext. intros s'. symmetry. apply exec_is_seq.
Qed.

(** hence: every outcome of a [while] after any number of iterations is an outcome of [exec1], unless fuel exhaustion is reported *)
Corollary while_complete T c b s : ~ In FUEL (exec1 T (SLoop c b) s) -> forall o, loop_rel (cond T c) (exec T b) s o -> In o (exec1 T (SLoop c b) s).
Proof. intros HF o L. rewrite exec1_loop in *. eapply loop_fix_complete; [reflexivity|assumption|assumption]. Qed.

Print Assumptions while_complete.
