(** T2: the skeleton language in which the translator (vlib/skel.py, from clang's
    AST) writes the bodies of the small control-critical functions, and generic
    syntactic helpers over it.  Anything the translator does not recognise is
    [XOther]/[SOther], which no shape predicate accepts. *)
From Coq Require Import String ZArith List Bool.
Import ListNotations.
Local Open Scope string_scope.

Inductive sexpr :=
| XParam (i : nat)                      (* the enclosing function's own i-th parameter *)
| XVar (name : string)                  (* local or global object *)
| XFun (name : string)                  (* a function designator used as a value *)
| XStr (s : string)
| XInt (z : Z)
| XCast (e : sexpr)
| XCall (f : string) (args : list sexpr)
| XCallPtr (p : sexpr) (args : list sexpr)
| XDeref (e : sexpr)
| XAddr (e : sexpr)
| XMember (e : sexpr) (field : string)
| XIndex (e i : sexpr)
| XOp (op : string) (args : list sexpr)
| XOther (what : string).

Inductive sstmt :=
| SExpr (e : sexpr)
| SDecl (name : string) (static : bool) (init : option sexpr)
| SAssign (lhs rhs : sexpr)
| SIf (c : sexpr) (t e : list sstmt)
| SLoop (c : sexpr) (body : list sstmt)
| SSeq (l : list sstmt)
| SReturn (e : option sexpr)
| SBreak | SContinue
| SOther (what : string).

Record fn_skel := { sk_name : string; sk_nparams : nat; sk_body : list sstmt }.

(** ** all direct callee names, all sub-expressions *)
Fixpoint ecalls (e : sexpr) : list string :=
  match e with
  | XCall f args => f :: flat_map ecalls args
  | XCallPtr p args => ecalls p ++ flat_map ecalls args
  | XCast e | XDeref e | XAddr e | XMember e _ => ecalls e
  | XIndex a b => ecalls a ++ ecalls b
  | XOp _ args => flat_map ecalls args
  | _ => []
  end.

Fixpoint scalls (s : sstmt) : list string :=
  match s with
  | SExpr e => ecalls e
  | SDecl _ _ (Some e) => ecalls e
  | SDecl _ _ None => []
  | SAssign l r => ecalls l ++ ecalls r
  | SIf c t e => ecalls c ++ flat_map scalls t ++ flat_map scalls e
  | SLoop c b => ecalls c ++ flat_map scalls b
  | SSeq l => flat_map scalls l
  | SReturn (Some e) => ecalls e
  | _ => []
  end.
Definition body_calls (b : list sstmt) : list string := flat_map scalls b.

(** does the expression contain [XOther], a call through a pointer, or the address of / an
    assignment target rooted at a parameter? *)
Fixpoint e_has_other (e : sexpr) : bool :=
  match e with
  | XOther _ => true
  | XCall _ args => existsb e_has_other args
  | XCallPtr p args => e_has_other p || existsb e_has_other args
  | XCast e | XDeref e | XAddr e | XMember e _ => e_has_other e
  | XIndex a b => e_has_other a || e_has_other b
  | XOp _ args => existsb e_has_other args
  | _ => false
  end.

Fixpoint e_root_param (e : sexpr) : bool :=   (* lvalue rooted directly at a parameter *)
  match e with
  | XParam _ => true
  | XMember e _ | XCast e => e_root_param e
  | _ => false
  end.

Fixpoint e_addr_of_param (e : sexpr) : bool :=
  match e with
  | XAddr e' => e_root_param e' || e_addr_of_param e'
  | XCall _ args => existsb e_addr_of_param args
  | XCallPtr p args => e_addr_of_param p || existsb e_addr_of_param args
  | XCast e | XDeref e | XMember e _ => e_addr_of_param e
  | XIndex a b => e_addr_of_param a || e_addr_of_param b
  | XOp _ args => existsb e_addr_of_param args
  | _ => false
  end.

Fixpoint e_has_callptr (e : sexpr) : bool :=
  match e with
  | XCallPtr _ _ => true
  | XCall _ args => existsb e_has_callptr args
  | XCast e | XDeref e | XAddr e | XMember e _ => e_has_callptr e
  | XIndex a b => e_has_callptr a || e_has_callptr b
  | XOp _ args => existsb e_has_callptr args
  | _ => false
  end.

Fixpoint s_has_other (s : sstmt) : bool :=
  match s with
  | SOther _ => true
  | SExpr e => e_has_other e
  | SDecl _ _ (Some e) => e_has_other e
  | SDecl _ _ None => false
  | SAssign l r => e_has_other l || e_has_other r
  | SIf c t e => e_has_other c || existsb s_has_other t || existsb s_has_other e
  | SLoop c b => e_has_other c || existsb s_has_other b
  | SSeq l => existsb s_has_other l
  | SReturn (Some e) => e_has_other e
  | _ => false
  end.

Definition str_in (s : string) (l : list string) : bool := existsb (String.eqb s) l.
Lemma str_in_In s l : str_in s l = true <-> In s l.
Proof.
  unfold str_in. rewrite existsb_exists. split.
  - intros [x [H E]]. apply String.eqb_eq in E. now subst.
  - intros H. exists s. split; [assumption|apply String.eqb_refl].
Qed.
Definition disjointb (a b : list string) : bool := forallb (fun x => negb (str_in x b)) a.
Lemma disjointb_spec a b : disjointb a b = true -> forall x, In x a -> ~ In x b.
Proof.
  unfold disjointb. rewrite forallb_forall. intros H x Hx Hb. specialize (H x Hx).
  apply negb_true_iff in H. apply str_in_In in Hb. congruence.
Qed.
