(** C17: file records are appended whole.  Writers issue append-writes on O_APPEND descriptors;
    the kernel serialises whole write(2) calls (assumption about the OS, named in the trusted base).
    Any number of writers, any record sizes, any interleaving. *)
From Snoopy Require Import Lib.CStr Output.Model.
From Coq Require Import Permutation.
Local Open Scope list_scope.

Definition chunk := list byte.                       (* argument of one write(2) *)

(** an interleaving of the writers' sequences, preserving each writer's own order *)
Inductive Merge : list (list chunk) -> list chunk -> Prop :=
| M_done : forall ws, Forall (fun w => w = []) ws -> Merge ws []
| M_pick : forall pre x w post l, Merge (pre ++ w :: post) l -> Merge (pre ++ (x :: w) :: post) (x :: l).

Definition file_after (init : list byte) (sched : list chunk) : list byte := init ++ concat sched.

Lemma concat_all_nil (ws : list (list chunk)) : Forall (fun w => w = []) ws -> concat ws = [].
Proof. induction 1 as [|w ws Hw _ IH]; simpl; [reflexivity|]. now rewrite Hw, IH. Qed.

Lemma merge_perm ws l : Merge ws l -> Permutation l (concat ws).
Proof.
  induction 1 as [ws H|pre x w post l _ IH].
  - now rewrite concat_all_nil.
  - rewrite concat_app in *. cbn [concat] in *.
    etransitivity; [apply perm_skip; exact IH|].
    rewrite <- (app_comm_cons w (concat post) x).
    apply (Permutation_middle (concat pre) (w ++ concat post) x).
Qed.

(** split into pieces of at most [B] bytes: what a block-buffered FILE* does to one large fprintf *)
Fixpoint split_chunks (fuel : nat) (B : nat) (d : list byte) : list chunk :=
  match fuel with
  | O => [d]
  | S f => if Nat.leb (length d) B then [d] else firstn B d :: split_chunks f B (skipn B d)
  end.

Section Emit.
  Variable c : output_consts.
  (** the write(2) calls that the file output issues for one message *)
  Definition emit_writes (B : nat) (msg : list byte) : list chunk :=
    let line := msg ++ file_suffix c in
    if file_single_write c then [line] else split_chunks (length line) B line.

  (** the writes of one writer logging the messages [ms] in order *)
  Definition writer (B : nat) (ms : list (list byte)) : list chunk := flat_map (emit_writes B) ms.

  Hypothesis Hok : output_consts_ok c = true.
  Lemma ok_single : file_single_write c = true /\ file_open_append c = true /\ file_suffix c = [NL].
  Proof.
    unfold output_consts_ok in Hok. repeat (apply andb_true_iff in Hok as [Hok ?]).
    repeat split; try assumption. now apply list_eqb_eq.
  Qed.

  Lemma writer_records B ms : writer B ms = map (fun m => m ++ [NL]) ms.
  Proof.
    destruct ok_single as [E1 [_ E3]]. unfold writer, emit_writes. rewrite E1, E3.
    induction ms as [|m ms IH]; [reflexivity|]. cbn [flat_map map app]. now rewrite IH.
  Qed.

  (** C17_whole_records: for every initial content, every family of writers with any messages of any sizes
      and every interleaving of their write calls, the file is the initial content followed by all framed
      records, each whole, in some order; nothing lost, nothing split, the old content untouched. *)
  Theorem whole_records B init (wss : list (list (list byte))) sched :
    Merge (map (writer B) wss) sched ->
    exists p, Permutation p (map (fun m => m ++ [NL]) (concat wss)) /\ file_after init sched = init ++ concat p.
  Proof.
    intros M. exists sched. split; [|reflexivity].
    etransitivity; [apply merge_perm; exact M|].
    assert (E : concat (map (writer B) wss) = map (fun m => m ++ [NL]) (concat wss)).
    { clear M. induction wss as [|w wss IH]; [reflexivity|]. cbn [map concat]. rewrite IH, writer_records, map_app. reflexivity. }
    rewrite E. reflexivity.
  Qed.
End Emit.

(** the hazard the single write excludes: a record issued as two writes can be torn by another writer *)
Example torn_when_split :
  exists sched, Merge [[[x41]; [x42]]; [[x43]]] sched /\ file_after [] sched = [x41; x43; x42].
Proof.
  exists [[x41]; [x43]; [x42]]. split; [|reflexivity].
  apply (M_pick [] [x41] [[x42]] [[[x43]]]). simpl.
  apply (M_pick [[[x42]]] [x43] [] []). simpl.
  apply (M_pick [] [x42] [] [[]]). simpl.
  apply M_done. repeat constructor.
Qed.
