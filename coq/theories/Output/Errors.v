(** Error records (error_logging = yes).  src/message.c calls snoopy_error_handler(err) for every
    refused append; src/error.c dispatches [err] through the configured output with error logging
    switched off for the duration of that dispatch (so an output whose own path/ident template
    overflows does not recurse), and switches it on again.

    [n_msg]: refusals while the message itself is formatted (log-syscall-exec.c);
    [n_out]: refusals while the output expands its own template for the MAIN record
             (fileoutput.c: path template; devlogoutput.c: ident template; 0 for the others).
    Both numbers are given by Expand.Errors.generate_errors on the respective call. *)
From Snoopy Require Import Lib.CStr Lib.Skel Output.Model Output.Proofs.
From Coq Require Import ZifyBool ZifyN ZifyNat.
Local Open Scope N_scope.
Local Open Scope list_scope.

Fixpoint times {A} (n : nat) (l : list A) : list A := match n with O => [] | S n' => l ++ times n' l end.

Lemma times_add {A} a b (l : list A) : times (a + b) l = times a l ++ times b l.
Proof. induction a as [|a IH]; cbn [times Nat.add]; [reflexivity|]. now rewrite IH, app_assoc. Qed.

Section Err.
  Variable c : output_consts.
  Variable e : env.

  (** one error-handler call: the dispatch of the error text *)
  Definition err_records (k : okind) (arg err : list byte) : list record := dispatch c e k arg err.

  (** log-syscall-exec.c with error logging on or off *)
  Definition action_el (el fe drop : bool) (k : okind) (arg : list byte) (n_msg n_out : nat) (err msg : list byte) : list record :=
    if fe && drop then []
    else if el then
      times n_msg (err_records k arg err)
      ++ match msg with [] => [] | _ => times n_out (err_records k arg err) ++ emit c e k arg msg end
    else dispatch c e k arg msg.

  (** error logging off: exactly the action of Output.Model *)
  Lemma action_el_off fe drop k arg n1 n2 err msg : action_el false fe drop k arg n1 n2 err msg = action c e fe drop k arg msg.
  Proof. unfold action_el, action. destruct (fe && drop); reflexivity. Qed.

  (** nothing was refused: no error record, whatever the switch says *)
  Lemma action_el_none el fe drop k arg err msg : action_el el fe drop k arg 0 0 err msg = action c e fe drop k arg msg.
  Proof.
    unfold action_el, action. destruct (fe && drop); [reflexivity|]. destruct el; [|reflexivity].
    cbn [times app]. unfold dispatch. destruct msg; reflexivity.
  Qed.

  (** a dropped call produces nothing at all, error logging or not *)
  Lemma action_el_dropped el k arg n1 n2 err msg : action_el el true true k arg n1 n2 err msg = [].
  Proof. reflexivity. Qed.

  Hypothesis Hok : output_consts_ok c = true.

  (** with error logging on: [n1 + n2] separate, whole, framed error records, then the one record of
      the message itself, all at the configured sink *)
  Theorem action_el_shape fe k arg n1 n2 err msg :
    msg <> [] -> err <> [] -> has_sink c k arg -> e_prio e < 2 ^ 32 -> e_pid e < 2 ^ 32 ->
    action_el true fe false k arg n1 n2 err msg
    = times (n1 + n2) [(sink_of c e k arg, documented_frame (devlog_prec c) e k err)]
      ++ [(sink_of c e k arg, documented_frame (devlog_prec c) e k msg)].
  Proof.
    intros Hm He Hs Hp Hq. unfold action_el. rewrite andb_false_r.
    assert (E1 : err_records k arg err = [(sink_of c e k arg, documented_frame (devlog_prec c) e k err)]).
    { unfold err_records. pose proof (one_record c Hok e false k arg err He Hs Hp Hq) as H.
      unfold action in H. cbn [andb] in H. exact H. }
    assert (E2 : emit c e k arg msg = [(sink_of c e k arg, documented_frame (devlog_prec c) e k msg)]).
    { pose proof (one_record c Hok e false k arg msg Hm Hs Hp Hq) as H.
      unfold action, dispatch in H. cbn [andb] in H. destruct msg; [congruence|exact H]. }
    destruct msg as [|b m] eqn:Em; [congruence|]. rewrite <- Em in *.
    rewrite E1, E2, times_add, <- app_assoc. reflexivity.
  Qed.

  (** only error records when the message came out empty *)
  Theorem action_el_empty fe k arg n1 n2 err :
    err <> [] -> has_sink c k arg -> e_prio e < 2 ^ 32 -> e_pid e < 2 ^ 32 ->
    action_el true fe false k arg n1 n2 err []
    = times n1 [(sink_of c e k arg, documented_frame (devlog_prec c) e k err)].
  Proof.
    intros He Hs Hp Hq. unfold action_el. rewrite andb_false_r, app_nil_r.
    unfold err_records. pose proof (one_record c Hok e false k arg err He Hs Hp Hq) as H.
    unfold action in H. cbn [andb] in H. now rewrite H.
  Qed.
End Err.
