(** Executable entry point for the correspondence: the records the model predicts for one call. *)
From Snoopy Require Import Lib.CStr Output.Model Output.Errors.
Local Open Scope N_scope.

Definition kind_of_N (n : N) : okind :=
  match n with
  | 0 => OFile | 1 => ODevtty | 2 => ODevnull | 3 => OStdout | 4 => OStderr | 5 => OSocket | 6 => ODevlog | 7 => ONoop | _ => OUnknown
  end.

(** [path] = the already expanded output path template (C05 path_message), [ident] = the already expanded ident template *)
Definition predict (c : output_consts) (k : N) (arg path ident : list byte) (prio pid : N) (fe drop : bool) (msg : list byte) : list record :=
  action c {| e_path_of := fun _ => path; e_ident := ident; e_prio := prio; e_pid := pid |} fe drop (kind_of_N k) arg msg.

Definition sink_tag (s : sinkid) : N := match s with SkFile _ => 0 | SkFd _ => 1 | SkDgram _ => 2 end.
Definition sink_name (s : sinkid) : list byte := match s with SkFile p => p | SkFd n => dec n | SkDgram p => p end.

(** with the error-logging switch: [n_msg] / [n_path] / [n_ident] = refusals while formatting the message / the path template /
    the ident template (Expand.Errors.generate_errors); the output's own template matters for the file and devlog outputs only *)
Definition predict_el (c : output_consts) (k : N) (arg path ident : list byte) (prio pid : N) (el fe drop : bool)
           (n_msg n_path n_ident : nat) (err msg : list byte) : list record :=
  let kd := kind_of_N k in
  let n_out := match kd with OFile => n_path | ODevlog => n_ident | _ => O end in
  action_el c {| e_path_of := fun _ => path; e_ident := ident; e_prio := prio; e_pid := pid |} el fe drop kd arg n_msg n_out err msg.
