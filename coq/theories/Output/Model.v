(** Model of the outputs (src/output/*.c), the dispatch (log-message-dispatch.c) and the
    logging action (log-syscall-exec.c) at the level "which bytes are handed to which sink of the
    operating system before the function returns", assuming the sink accepts every operation
    (failures are C03's subject).  Constants regenerated from the source (Gen_Output.v). *)
From Snoopy Require Import Lib.CStr Lib.Skel.
From Coq Require Import String ZifyBool ZifyN ZifyNat.
Local Open Scope N_scope.
Local Open Scope list_scope.

(** printf formats, parsed by the translator *)
Inductive fseg := FLit (s : list byte) | FInt (* %d / %u of a non-negative value *) | FStr (* %s *) | FStarStr (* %.*s *).
Inductive farg := AInt (n : N) | AStr (s : list byte) | APrec (n : N).

Fixpoint render (f : list fseg) (args : list farg) : option (list byte) :=
  match f with
  | [] => match args with [] => Some [] | _ => None end
  | FLit s :: f' => option_map (app s) (render f' args)
  | FInt :: f' => match args with AInt n :: a' => option_map (app (dec n)) (render f' a') | _ => None end
  | FStr :: f' => match args with AStr s :: a' => option_map (app s) (render f' a') | _ => None end
  | FStarStr :: f' => match args with APrec p :: AStr s :: a' => option_map (app (takeN p s)) (render f' a') | _ => None end
  end.

Record output_consts := {
  (* fileoutput.c *)
  file_open_append : bool;      (* open()/fopen() in append mode, creating, never truncating *)
  file_single_write : bool;     (* the framed record leaves in exactly one write(2) on that descriptor *)
  file_suffix : list byte;      (* "\n" *)
  file_empty_arg_fails : bool;
  devtty_path : list byte; devnull_path : list byte;
  (* stdout / stderr *)
  stdout_fmt : list fseg; stdout_to_os : bool;   (* true: written/flushed to fd 1 before returning *)
  stderr_fmt : list fseg; stderr_to_os : bool;
  (* socketoutput.c *)
  sock_nonblock : bool; sock_cloexec : bool; send_dontwait : bool; send_nosignal : bool;
  sock_path_size : N; sock_skips_empty : bool;
  (* devlogoutput.c *)
  devlog_fmt : list fseg; devlog_prec : N; devlog_extra : N; devlog_ident_buf : N; devlog_path : list byte; devlog_skips_empty : bool
}.

Definition fseg_eqb (a b : fseg) : bool :=
  match a, b with
  | FLit x, FLit y => list_eqb x y | FInt, FInt => true | FStr, FStr => true | FStarStr, FStarStr => true | _, _ => false
  end.
Fixpoint fmt_eqb (a b : list fseg) : bool :=
  match a, b with [], [] => true | x :: a', y :: b' => fseg_eqb x y && fmt_eqb a' b' | _, _ => false end.
Lemma fseg_eqb_eq a b : fseg_eqb a b = true -> a = b.
Proof. destruct a, b; simpl; try discriminate; try reflexivity. intros H. apply list_eqb_eq in H. now subst. Qed.
Lemma fmt_eqb_eq a : forall b, fmt_eqb a b = true -> a = b.
Proof.
  induction a as [|x a IH]; intros [|y b]; simpl; try discriminate; [reflexivity|].
  intros H. apply andb_true_iff in H as [H1 H2]. apply fseg_eqb_eq in H1. apply IH in H2. now subst.
Qed.

Definition LT := x3c. Definition GT := x3e. Definition LB := x5b. Definition RB := x5d.
Definition line_fmt : list fseg := [FStr; FLit [NL]].
Definition syslog_fmt : list fseg := [FLit [LT]; FInt; FLit [GT]; FStarStr; FLit [LB]; FInt; FLit [RB; COLONB; SP]; FStr].

Definition output_consts_ok (c : output_consts) : bool :=
  file_open_append c && file_single_write c && list_eqb (file_suffix c) [NL] && file_empty_arg_fails c
  && fmt_eqb (stdout_fmt c) line_fmt && stdout_to_os c && fmt_eqb (stderr_fmt c) line_fmt && stderr_to_os c
  && sock_nonblock c && sock_cloexec c && send_dontwait c && send_nosignal c && sock_skips_empty c
  && fmt_eqb (devlog_fmt c) syslog_fmt && (devlog_prec c =? devlog_ident_buf c - 1) && (72 <=? devlog_extra c)
  && (1 <=? devlog_ident_buf c) && devlog_skips_empty c.

Inductive sinkid := SkFile (path : list byte) | SkFd (n : N) | SkDgram (path : list byte).
Definition record := (sinkid * list byte)%type.

Inductive okind := OFile | ODevtty | ODevnull | OStdout | OStderr | OSocket | ODevlog | ONoop | OUnknown.

Record env := {
  e_path_of : list byte -> list byte;   (* expansion of an output-path template (C05 path_message) *)
  e_ident : list byte;                  (* expansion of the syslog ident template (C05 ident_message) *)
  e_prio : N;                           (* facility | level *)
  e_pid : N
}.

Section Emit.
  Variable c : output_consts.
  Variable e : env.

  Definition emit_file (arg msg : list byte) : list record :=
    match arg with
    | [] => []
    | _ => [(SkFile (e_path_of e arg), msg ++ file_suffix c)]
    end.

  Definition emit_socket (arg msg : list byte) : list record :=
    match msg with
    | [] => []
    | _ => [(SkDgram (takeN (sock_path_size c) arg), msg)]
    end.

  Definition devlog_text (msg : list byte) : list byte :=
    match render (devlog_fmt c) [AInt (e_prio e); APrec (devlog_prec c); AStr (e_ident e); AInt (e_pid e); AStr msg] with
    | Some s => snprintf_s (len msg + devlog_ident_buf c + devlog_extra c) s
    | None => []
    end.

  Definition emit (k : okind) (arg msg : list byte) : list record :=
    match k with
    | OFile => emit_file arg msg
    | ODevtty => emit_file (devtty_path c) msg
    | ODevnull => emit_file (devnull_path c) msg
    | OStdout => if stdout_to_os c then match render (stdout_fmt c) [AStr msg] with Some s => [(SkFd 1, s)] | None => [] end else []
    | OStderr => if stderr_to_os c then match render (stderr_fmt c) [AStr msg] with Some s => [(SkFd 2, s)] | None => [] end else []
    | OSocket => emit_socket arg msg
    | ODevlog => match msg with [] => [] | _ => emit_socket (devlog_path c) (devlog_text msg) end
    | ONoop | OUnknown => []
    end.

  (** log-message-dispatch.c: nothing for the empty message *)
  Definition dispatch (k : okind) (arg msg : list byte) : list record :=
    match msg with [] => [] | _ => emit k arg msg end.

  (** log-syscall-exec.c: filter, format, dispatch once *)
  Definition action (filtering_enabled drop : bool) (k : okind) (arg msg : list byte) : list record :=
    if filtering_enabled && drop then [] else dispatch k arg msg.
End Emit.

(** the documented framing *)
Definition documented_frame (prec : N) (e : env) (k : okind) (msg : list byte) : list byte :=
  match k with
  | OFile | ODevtty | ODevnull | OStdout | OStderr => msg ++ [NL]
  | OSocket => msg
  | ODevlog => [LT] ++ dec (e_prio e) ++ [GT] ++ takeN prec (e_ident e) ++ [LB] ++ dec (e_pid e) ++ [RB; COLONB; SP] ++ msg
  | _ => []
  end.

(** * T2 shape predicates on the generated skeletons of the action and the dispatch *)
Local Open Scope string_scope.

Fixpoint expr_mentions_call (f : string) (e : sexpr) : bool := str_in f (ecalls e).

(** the action: before any call of the formatter / dispatcher / allocator there is
    [if (... snoopy_filtering_check_chain(...) ...) return;], and dispatch is called exactly once at top level *)
Fixpoint action_prefix_ok (body : list sstmt) : bool :=
  match body with
  | [] => false
  | SIf cnd [SReturn None] [] :: rest =>
    if expr_mentions_call "snoopy_filtering_check_chain" cnd
    then negb (str_in "snoopy_filtering_check_chain" (flat_map scalls rest))
    else false
  | s :: rest =>
    let cs := scalls s in
    if str_in "snoopy_message_generateFromFormat" cs || str_in "snoopy_action_log_message_dispatch" cs || str_in "malloc" cs
    then false else action_prefix_ok rest
  end.

Definition count_str (s : string) (l : list string) : nat := List.length (filter (String.eqb s) l).

Fixpoint top_calls (body : list sstmt) : list string :=
  match body with
  | [] => []
  | SExpr e :: rest => ecalls e ++ top_calls rest
  | SAssign _ e :: rest => ecalls e ++ top_calls rest
  | SDecl _ _ (Some e) :: rest => ecalls e ++ top_calls rest
  | _ :: rest => top_calls rest
  end.

Definition action_shape (sk : fn_skel) : bool :=
  action_prefix_ok (sk_body sk)
  && Nat.eqb (count_str "snoopy_action_log_message_dispatch" (body_calls (sk_body sk))) 1
  && Nat.eqb (count_str "snoopy_action_log_message_dispatch" (top_calls (sk_body sk))) 1
  && Nat.eqb (count_str "snoopy_message_generateFromFormat" (top_calls (sk_body sk))) 1
  && negb (existsb s_has_other (sk_body sk)).

(** the dispatch: [if (0 == strlen(msg)) return ...;] then a single return of the registry dispatch *)
(** "the message (parameter 0) is empty": its length is 0, or its first byte is the terminator *)
Definition first_byte_of_param0 (e : sexpr) : bool :=
  match e with
  | XIndex (XParam 0) (XInt 0%Z) => true
  | XDeref (XParam 0) => true
  | _ => false
  end.
Definition is_empty_test (e : sexpr) : bool :=
  match e with
  | XOp op [XInt 0%Z; x] => String.eqb op "==" && first_byte_of_param0 x
  | XOp op [x] => String.eqb op "!" && first_byte_of_param0 x
  | _ => false
  end.

Definition dispatch_shape (sk : fn_skel) : bool :=
  match sk_body sk with
  | [SIf cnd [SReturn (Some r0)] []; SReturn (Some (XCall "snoopy_outputregistry_dispatch" [XParam 0]))] =>
    (expr_mentions_call "strlen" cnd || is_empty_test cnd) && match ecalls r0 with [] => true | _ => false end
  | _ => false
  end.
