(** C04: one faithful record per logged exec, none when filtered or empty — for every message,
    output, argument, ident, priority and pid, and every constant record with [output_consts_ok]. *)
From Snoopy Require Import Lib.CStr Lib.Skel Output.Model.
From Coq Require Import ZifyBool ZifyN ZifyNat.
Local Open Scope N_scope.
Local Open Scope list_scope.

Lemma dec_aux_len fuel : forall n acc, (length (dec_aux fuel n acc) <= fuel + length acc)%nat.
Proof.
  induction fuel as [|f IH]; intros n acc; cbn [dec_aux]; [lia|].
  destruct (n <? 10); [cbn [length]; lia|]. specialize (IH (n / 10) (digit_byte (n mod 10) :: acc)). cbn [length] in IH. lia.
Qed.
Lemma dec_len n : n < 2 ^ 32 -> len (dec n) <= 33.
Proof.
  intros H. unfold dec, len. pose proof (dec_aux_len (S (N.to_nat (N.log2 n))) n []) as L. cbn [length] in L.
  assert (N.log2 n < 32). { destruct (N.eq_dec n 0) as [->|Hn]; [cbn; lia|]. apply N.log2_lt_pow2; lia. }
  lia.
Qed.

Section Proofs.
  Variable c : output_consts.
  Hypothesis Hok : output_consts_ok c = true.
  Variable e : env.

  Ltac split_ok := unfold output_consts_ok in Hok; repeat (apply andb_true_iff in Hok as [Hok ?]).

  Lemma ok_suffix : file_suffix c = [NL].
  Proof. split_ok. now apply list_eqb_eq. Qed.
  Lemma ok_stdout : stdout_fmt c = line_fmt /\ stdout_to_os c = true /\ stderr_fmt c = line_fmt /\ stderr_to_os c = true.
  Proof. split_ok. repeat split; try assumption; now apply fmt_eqb_eq. Qed.
  Lemma ok_devlog : devlog_fmt c = syslog_fmt /\ devlog_prec c = devlog_ident_buf c - 1 /\ 72 <= devlog_extra c /\ 1 <= devlog_ident_buf c.
  Proof.
    split_ok.
    repeat match goal with
           | H : (_ =? _) = true |- _ => apply N.eqb_eq in H
           | H : (_ <=? _) = true |- _ => apply N.leb_le in H
           | H : fmt_eqb (devlog_fmt c) _ = true |- _ => apply fmt_eqb_eq in H
           end.
    repeat split; assumption.
  Qed.

  (** the devlog datagram is the documented syslog frame, never truncated by its own buffer *)
  Theorem devlog_frame msg : e_prio e < 2 ^ 32 -> e_pid e < 2 ^ 32 ->
    devlog_text c e msg = [LT] ++ dec (e_prio e) ++ [GT] ++ takeN (devlog_prec c) (e_ident e) ++ [LB] ++ dec (e_pid e) ++ [RB; COLONB; SP] ++ msg.
  Proof.
    intros Hp Hq. unfold devlog_text. destruct ok_devlog as [Ef [Ep [Ex Eb]]]. rewrite Ef. cbn [render syslog_fmt option_map].
    rewrite app_nil_r. apply snprintf_s_fits.
    pose proof (dec_len _ Hp). pose proof (dec_len _ Hq).
    rewrite !len_app, len_takeN. cbn [len length]. change (len [LT]) with 1. change (len [GT]) with 1. change (len [LB]) with 1.
    change (N.of_nat 1) with 1. unfold len at 4. cbn [length]. lia.
  Qed.

  Definition sink_of (k : okind) (arg : list byte) : sinkid :=
    match k with
    | OFile => SkFile (e_path_of e arg)
    | ODevtty => SkFile (e_path_of e (devtty_path c))
    | ODevnull => SkFile (e_path_of e (devnull_path c))
    | OStdout => SkFd 1
    | OStderr => SkFd 2
    | OSocket => SkDgram (takeN (sock_path_size c) arg)
    | ODevlog => SkDgram (takeN (sock_path_size c) (devlog_path c))
    | _ => SkFd 0
    end.

  Definition has_sink (k : okind) (arg : list byte) : Prop :=
    match k with
    | OFile => arg <> []
    | ODevtty => devtty_path c <> []
    | ODevnull => devnull_path c <> []
    | ONoop | OUnknown => False
    | _ => True
    end.

  (** C04_one_record *)
  Theorem one_record fe k arg msg : msg <> [] -> has_sink k arg -> e_prio e < 2 ^ 32 -> e_pid e < 2 ^ 32 ->
    action c e fe false k arg msg = [(sink_of k arg, documented_frame (devlog_prec c) e k msg)].
  Proof.
    intros Hm Hs Hp Hq. unfold action. rewrite andb_false_r. unfold dispatch.
    destruct msg as [|b m] eqn:Em; [congruence|]. rewrite <- Em in *. clear Hm.
    destruct ok_stdout as [E1 [E2 [E3 E4]]].
    destruct k; cbn [emit sink_of documented_frame has_sink] in *.
    - unfold emit_file. destruct arg; [congruence|]. now rewrite ok_suffix.
    - unfold emit_file. destruct (devtty_path c); [congruence|]. now rewrite ok_suffix.
    - unfold emit_file. destruct (devnull_path c); [congruence|]. now rewrite ok_suffix.
    - rewrite E2, E1. cbn. rewrite ?app_nil_r. reflexivity.
    - rewrite E4, E3. cbn. rewrite ?app_nil_r. reflexivity.
    - unfold emit_socket. rewrite Em. rewrite <- Em. reflexivity.
    - rewrite Em. rewrite <- Em. unfold emit_socket. rewrite devlog_frame by assumption. cbn [app]. reflexivity.
    - contradiction.
    - contradiction.
  Qed.

  (** C04_none: a dropped call or an empty message hands nothing to any sink *)
  Theorem none_when_dropped k arg msg : action c e true true k arg msg = [].
  Proof. reflexivity. Qed.
  Theorem none_when_empty fe drop k arg : action c e fe drop k arg [] = [].
  Proof. unfold action. destruct (fe && drop); reflexivity. Qed.

  (** at most one record in every case *)
  Theorem at_most_one fe drop k arg msg : (length (action c e fe drop k arg msg) <= 1)%nat.
  Proof.
    unfold action. destruct (fe && drop); [cbn; lia|]. unfold dispatch. destruct msg; [cbn; lia|].
    destruct k; cbn [emit]; unfold emit_file, emit_socket;
      repeat match goal with |- context [match ?x with _ => _ end] => destruct x end; cbn; lia.
  Qed.
End Proofs.
