(** What follows from the line-level specifications: idempotence of enable, status after enable,
    what disable keeps (lines), and the enable/disable round trip.  Pure list reasoning. *)
From Snoopy Require Import Lib.CStr Preload.Lines Preload.Model Preload.Exec Preload.FindProofs Preload.Proofs.
Local Open Scope nat_scope.

(** * lines of the content that enable writes *)
Lemma lines_snoc_nl x : lines (x ++ [NL]) = lines x ++ [[]].
Proof. now rewrite lines_app_sep. Qed.
Lemma lines_snoc_line x l : nlfree l -> lines (x ++ NL :: l ++ [NL]) = lines x ++ [l; []].
Proof. intros H. rewrite lines_app_sep, lines_snoc_nl, (lines_free l H). reflexivity. Qed.

Lemma enable_lines content path : nlfree path ->
  exists pre, lines (content ++ nl_if_missing content ++ path ++ [NL]) = pre ++ [path; []]
              /\ ((lines content = pre ++ [[]] /\ ends_nl_or_empty content = true) \/ (lines content = pre /\ ends_nl_or_empty content = false)).
Proof.
  intros Hp. destruct content as [|b s] eqn:Ec.
  - exists []. split; [|left; split; reflexivity]. simpl. rewrite lines_snoc_nl, (lines_free path Hp). reflexivity.
  - rewrite <- Ec. assert (NE : content <> []) by (rewrite Ec; discriminate).
    unfold nl_if_missing, ends_nl_or_empty. rewrite Ec. rewrite <- Ec.
    destruct (beq (last content NUL) NL) eqn:E.
    + apply beq_eq in E. pose proof (app_removelast_last NUL NE) as R. rewrite E in R.
      exists (lines (removelast content)). split; [|left; split; [rewrite R at 1; apply lines_snoc_nl|reflexivity]].
      simpl app. rewrite R at 1. rewrite <- app_assoc. simpl app. now apply lines_snoc_line.
    + exists (lines content). split; [|right; split; reflexivity]. simpl app. now apply lines_snoc_line.
Qed.

Lemma entry_line_nil path : path <> [] -> entry_line path [] = false.
Proof. destruct path; [congruence|reflexivity]. Qed.
Lemma mention_line_nil : mention_line [] = false.
Proof. reflexivity. Qed.
Lemma entry_line_self path : entry_line path path = true.
Proof.
  unfold entry_line. rewrite skipn_all. rewrite andb_true_r.
  replace path with (path ++ []) at 2 by apply app_nil_r. apply prefixb_refl_app.
Qed.

(** predicates that are false on the empty line do not see the final empty line *)
Lemma pre_same (P : list byte -> bool) content pre : P [] = false ->
  ((lines content = pre ++ [[]] /\ ends_nl_or_empty content = true) \/ (lines content = pre /\ ends_nl_or_empty content = false)) ->
  existsb P (lines content) = existsb P pre /\ filter P (lines content) = filter P pre.
Proof.
  intros H0 [[E _]|[E _]]; rewrite E; [|tauto]. rewrite existsb_app, filter_app. simpl. rewrite H0. simpl.
  now rewrite orb_false_r, app_nil_r.
Qed.

Lemma am_zero content : (1 <=? active_mentions content) = false -> filter mention_line (lines content) = [].
Proof. unfold active_mentions. destruct (filter mention_line (lines content)); [reflexivity|discriminate]. Qed.

(** * C18 *)
Theorem enable_spec_idempotent content path new : dom content path ->
  enable_spec content path = Write new -> dom new path /\ enable_spec new path = Unchanged.
Proof.
  intros [Dn [Dp [Dl Dz]]]. unfold enable_spec.
  destruct (has_entry path content) eqn:HE; [destruct (2 <=? active_mentions content); discriminate|].
  destruct (1 <=? active_mentions content) eqn:AM; [discriminate|]. intros H; injection H as <-.
  split.
  { repeat split; try assumption. apply nonul_app. split; [assumption|]. apply nonul_app. split.
    - unfold nl_if_missing. destruct content; [intros []|]. destruct (beq (last (b :: content) NUL) NL); [intros []|]. intros [F|[]]. discriminate.
    - apply nonul_app. split; [assumption|]. intros [F|[]]. discriminate. }
  destruct (enable_lines content path Dl) as [pre [EL PR]].
  destruct (pre_same mention_line content pre mention_line_nil PR) as [_ FM]. rewrite (am_zero content AM) in FM.
  unfold has_entry, active_mentions. rewrite EL, existsb_app, filter_app, <- FM. simpl. rewrite entry_line_self, orb_true_r.
  destruct (mention_line path); reflexivity.
Qed.

(** the library path of a real installation: it mentions the library name and does not start a comment *)
Lemma status_dom_mention path t : status_dom path = true -> path <> [] -> mention_line (path ++ t) = true.
Proof.
  unfold status_dom, mentions_lib, mention_line. intros H Hp. apply andb_true_iff in H as [H1 H2].
  assert (HD : hd NUL (path ++ t) = hd NUL path) by (destruct path; [congruence|reflexivity]).
  rewrite HD, H2. cbn [andb].
  destruct (strstr path LIB) as [j|] eqn:E; [|discriminate].
  destruct (strstr_Some _ _ _ E) as [P _]. pose proof (strstr_bound _ _ _ E) as B.
  destruct (strstr (path ++ t) LIB) eqn:E2; [reflexivity|]. exfalso.
  pose proof (strstr_None _ _ E2 j) as N. rewrite skipn_app in N.
  apply prefixb_app in P as [r Er]. rewrite Er, <- app_assoc in N. rewrite prefixb_refl_app in N. discriminate.
Qed.

Theorem status_after_enable content path : dom content path -> status_dom path = true ->
  enable_spec content path <> Refuse -> status_spec (after content (enable_spec content path)) path = StPresent.
Proof.
  intros [Dn [Dp [Dl Dz]]] SD. unfold enable_spec.
  destruct (has_entry path content) eqn:HE.
  - destruct (2 <=? active_mentions content) eqn:A2; [congruence|]. intros _. simpl after.
    (* the entry line is an active mention *)
    unfold has_entry in HE. apply existsb_exists in HE as [l [Hin Hl]].
    assert (ML : mention_line l = true).
    { unfold entry_line in Hl. apply andb_true_iff in Hl as [Hl _]. rewrite (prefixb_split path l Hl). now apply status_dom_mention. }
    assert (EX : existsb mention_line (lines content) = true) by (apply existsb_exists; eauto).
    unfold status_spec. unfold active_mentions in *. rewrite <- count_ge1 in EX.
    destruct (length (filter mention_line (lines content))) as [|[|k]]; [discriminate| |discriminate].
    unfold has_entry. assert (existsb (entry_line path) (lines content) = true) as -> by (apply existsb_exists; eauto). reflexivity.
  - destruct (1 <=? active_mentions content) eqn:AM; [congruence|]. intros _. simpl after.
    destruct (enable_lines content path Dl) as [pre [EL PR]].
    destruct (pre_same mention_line content pre mention_line_nil PR) as [_ FM]. rewrite (am_zero content AM) in FM.
    unfold status_spec, has_entry, active_mentions. rewrite EL, existsb_app, filter_app, <- FM. simpl.
    rewrite entry_line_self, orb_true_r. replace path with (path ++ []) at 1 by apply app_nil_r.
    rewrite (status_dom_mention path [] SD Dp). reflexivity.
Qed.

(** * C19 *)
Lemma disable_lines_inv path ls ls' : disable_lines path ls = Some ls' ->
  exists ls1 l ls2, ls = ls1 ++ l :: ls2 /\ forallb (fun x => negb (entry_line path x)) ls1 = true /\ entry_line path l = true
    /\ ls' = ls1 ++ match strip_entry path l with Some rest => rest :: ls2 | None => match ls2 with [] => [[]] | _ => ls2 end end.
Proof.
  revert ls'. induction ls as [|x ls IH]; intros ls'; simpl; [discriminate|]. destruct (entry_line path x) eqn:E.
  - intros H. injection H as <-. exists [], x, ls. auto.
  - destruct (disable_lines path ls) as [r|]; simpl; [|discriminate]. intros H. injection H as <-.
    destruct (IH r eq_refl) as [ls1 [l [ls2 [-> [H1 [H2 ->]]]]]]. exists (x :: ls1), l, ls2. repeat split; try assumption.
    simpl. now rewrite E.
Qed.

Lemma drop_blanks_split t : exists bl, t = bl ++ drop_blanks t /\ forallb is_blank bl = true.
Proof.
  induction t as [|b t IH]; simpl; [exists []; auto|]. destruct (is_blank b) eqn:E.
  - destruct IH as [bl [H1 H2]]. exists (b :: bl). simpl. rewrite E, <- H1. auto.
  - exists []. auto.
Qed.
Lemma drop_blanks_nlfree t : nlfree t -> nlfree (drop_blanks t).
Proof. intros H. destruct (drop_blanks_split t) as [bl [E _]]. rewrite E in H. now apply nlfree_app in H. Qed.

(** the entry line: the path, blanks, then either nothing / a comment (line removed) or other entries (kept) *)
Lemma strip_entry_shape path l : entry_line path l = true ->
  exists bl, forallb is_blank bl = true /\
    match strip_entry path l with
    | Some rest => l = path ++ bl ++ rest /\ bl <> [] /\ is_blank (hd NUL rest) = false /\ hd NUL rest <> HASH /\ rest <> []
    | None => exists cm, l = path ++ bl ++ cm /\ (cm = [] \/ hd NUL cm = HASH)
    end.
Proof.
  unfold entry_line, strip_entry. intros H. apply andb_true_iff in H as [H1 H2].
  pose proof (prefixb_split path l H1) as E. set (t := skipn (length path) l) in *.
  destruct (drop_blanks_split t) as [bl [Et Hb]]. exists bl. split; [assumption|].
  destruct (drop_blanks t) as [|b r] eqn:DB.
  - exists []. split; [|now left]. now rewrite E, Et at 1.
  - destruct (drop_blanks_hd t b r DB) as [B1 _]. destruct (beq b HASH) eqn:BH.
    + exists (b :: r). split; [now rewrite E, Et at 1|right]. now apply beq_eq in BH.
    + split; [now rewrite E, Et at 1|]. split; [|split; [assumption|split; [now apply beq_neq|discriminate]]].
      intros ->. simpl in Et. rewrite Et in H2. unfold memb in H2. simpl in H2. rewrite BH in H2. unfold is_blank in B1.
      apply orb_false_iff in B1 as [B2 B3]. rewrite B2, B3 in H2. discriminate.
Qed.

Theorem disable_spec_lines content path new : disable_spec content path = Write new ->
  exists ls1 l ls2, lines content = ls1 ++ l :: ls2
    /\ forallb (fun x => negb (entry_line path x)) ls1 = true /\ entry_line path l = true
    /\ lines new = ls1 ++ match strip_entry path l with Some rest => rest :: ls2 | None => match ls2 with [] => [[]] | _ => ls2 end end
    /\ active_mentions content < 2.
Proof.
  unfold disable_spec. destruct (2 <=? active_mentions content) eqn:A; [discriminate|].
  destruct (disable_lines path (lines content)) as [ls'|] eqn:E; [|discriminate]. intros H; injection H as <-.
  destruct (disable_lines_inv path _ _ E) as [ls1 [l [ls2 [EL [H1 [H2 ->]]]]]].
  exists ls1, l, ls2. repeat split; try assumption.
  - pose proof (lines_nlfree content) as NF. rewrite EL in NF. apply Forall_app in NF as [NF1 NF]. inversion NF as [|? ? Hnl NF2]; subst.
    apply lines_of_join; [destruct ls1; [destruct (strip_entry path l); [discriminate|destruct ls2; discriminate]|discriminate]|].
    apply Forall_app. split; [assumption|]. unfold strip_entry. destruct (drop_blanks (skipn (length path) l)) as [|b r] eqn:DB.
    + destruct ls2; [constructor; [apply nlfree_nil|constructor]|assumption].
    + destruct (beq b HASH).
      * destruct ls2; [constructor; [apply nlfree_nil|constructor]|assumption].
      * constructor; [|assumption]. rewrite <- DB. apply drop_blanks_nlfree. now apply nlfree_skipn.
  - apply Nat.leb_gt in A. lia.
Qed.

Theorem roundtrip_spec content path new : dom content path -> ends_nl_or_empty content = true ->
  enable_spec content path = Write new -> disable_spec new path = Write content.
Proof.
  intros [Dn [Dp [Dl Dz]]] EN. unfold enable_spec.
  destruct (has_entry path content) eqn:HE; [destruct (2 <=? active_mentions content); discriminate|].
  destruct (1 <=? active_mentions content) eqn:AM; [discriminate|]. intros H; injection H as <-.
  destruct (enable_lines content path Dl) as [pre [EL PR]].
  destruct PR as [[PL _]|[_ F]]; [|congruence].
  assert (PR : (lines content = pre ++ [[]] /\ ends_nl_or_empty content = true) \/ (lines content = pre /\ ends_nl_or_empty content = false)) by (left; auto).
  destruct (pre_same mention_line content pre mention_line_nil PR) as [_ FM]. rewrite (am_zero content AM) in FM.
  destruct (pre_same (entry_line path) content pre (entry_line_nil path Dp) PR) as [EP _]. unfold has_entry in HE. rewrite HE in EP.
  unfold disable_spec, active_mentions. rewrite EL, filter_app, <- FM. simpl.
  assert (A2 : (match length (if mention_line path then [path] else []) with S (S _) => true | _ => false end) = false) by (destruct (mention_line path); reflexivity).
  rewrite A2.
  assert (NP : forallb (fun x => negb (entry_line path x)) pre = true).
  { clear -EP. induction pre as [|x pre IH]; simpl in *; [reflexivity|]. destruct (entry_line path x); simpl in *; [discriminate|auto]. }
  rewrite (disable_lines_decomp path pre path [[]] NP (entry_line_self path)).
  unfold strip_entry. rewrite skipn_all. simpl. rewrite <- PL. now rewrite lines_join.
Qed.
