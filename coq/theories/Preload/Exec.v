(** Executable specifications of C18/C19 in terms of lines and tokens, and the boolean checkers
    that the correspondence run evaluates on what the real snoopyctl did. *)
From Snoopy Require Import Lib.CStr Preload.Lines Preload.Model.
Local Open Scope nat_scope.

(** ** disable, line by line *)
Definition is_blank (b : byte) : bool := beq b SP || beq b TAB.
Fixpoint drop_blanks (s : list byte) : list byte :=
  match s with b :: s' => if is_blank b then drop_blanks s' else s | [] => [] end.

(** what is left of an entry line once the entry and the blanks after it are taken away:
    [None] - nothing but an optional comment: the line goes; [Some rest] - other entries share the line *)
Definition strip_entry (path l : list byte) : option (list byte) :=
  match drop_blanks (skipn (length path) l) with
  | [] => None
  | b :: r => if beq b HASH then None else Some (b :: r)
  end.

Fixpoint disable_lines (path : list byte) (ls : list (list byte)) : option (list (list byte)) :=
  match ls with
  | [] => None
  | l :: r =>
    if entry_line path l then
      Some (match strip_entry path l with
            | Some rest => rest :: r
            | None => match r with [] => [[]] | _ => r end
            end)
    else option_map (cons l) (disable_lines path r)
  end.

Definition disable_spec (content path : list byte) : outcome :=
  if 2 <=? active_mentions content then Refuse else
  match disable_lines path (lines content) with
  | None => Unchanged
  | Some ls' => Write (join [NL] ls')
  end.

(** ** tokens: whitespace-separated fields before '#', line by line, in file order *)
Fixpoint strip_comment (l : list byte) : list byte :=
  match l with [] => [] | b :: r => if beq b HASH then [] else b :: strip_comment r end.
Definition tab_to_sp (b : byte) : byte := if beq b TAB then SP else b.
Definition nonempty (t : list byte) : bool := match t with [] => false | _ => true end.
Definition line_tokens (l : list byte) : list (list byte) :=
  filter nonempty (split_on SP (map tab_to_sp (strip_comment l))).
Definition tokens (s : list byte) : list (list byte) := flat_map line_tokens (lines s).

Fixpoint lists_eqb (a b : list (list byte)) : bool :=
  match a, b with
  | [], [] => true
  | x :: a', y :: b' => list_eqb x y && lists_eqb a' b'
  | _, _ => false
  end.
(** [b] is [a] with one occurrence of [t] taken out *)
Fixpoint removed_one (t : list byte) (a b : list (list byte)) : bool :=
  match a with
  | [] => false
  | x :: a' => (list_eqb x t && lists_eqb a' b)
               || match b with y :: b' => list_eqb x y && removed_one t a' b' | [] => false end
  end.

(** a path that is one token: what the token statement needs *)
Definition tokenlike (p : list byte) : bool :=
  nonempty p && negb (memb SP p) && negb (memb TAB p) && negb (memb HASH p) && negb (memb NL p) && nonulb p.

(** ** equality tests *)
Definition outcome_eqb (a b : outcome) : bool :=
  match a, b with
  | Unchanged, Unchanged | Refuse, Refuse => true
  | Write x, Write y => list_eqb x y
  | _, _ => false
  end.
Definition status_eqb (a b : status_t) : bool :=
  match a, b with
  | StAbsent, StAbsent | StMultiple, StMultiple | StAlien, StAlien | StPresent, StPresent => true
  | _, _ => false
  end.

Definition mentions_lib (p : list byte) : bool := match strstr p LIB with Some _ => true | None => false end.
(** the path of a real installation: mentions the library name, does not start a comment *)
Definition status_dom (path : list byte) : bool := mentions_lib path && negb (beq (hd NUL path) HASH).

Definition ends_nl_or_empty (s : list byte) : bool := match s with [] => true | _ => beq (last s NUL) NL end.

(** ** C18 on an observed run: [o1] = what `enable` did to [content], [o2] = what a second `enable` did
    to the result, [st] = what `status` said then, [o3] = what `disable` did to the result *)
Definition after (content : list byte) (o : outcome) : list byte := match o with Write n => n | _ => content end.

Definition spec_C18_ok (content path : list byte) (o1 o2 : outcome) (st : status_t) : bool :=
  outcome_eqb o1 (enable_spec content path)
  && match o1 with
     | Refuse => true
     | _ => outcome_eqb o2 Unchanged && (if status_dom path then status_eqb st StPresent else true)
     end.

(** ** C19 on an observed run: [o] = what `disable` did to [content] *)
Definition spec_C19_ok (content path : list byte) (o : outcome) : bool :=
  outcome_eqb o (disable_spec content path)
  && match o with
     | Write new => if tokenlike path then removed_one path (tokens content) (tokens new) else true
     | _ => true
     end.
(** the round trip, on the observed pair enable -> disable *)
Definition spec_roundtrip_ok (content path : list byte) (o1 o3 : outcome) : bool :=
  match o1 with
  | Write new => if ends_nl_or_empty content then outcome_eqb o3 (Write content) else true
  | _ => true
  end.
