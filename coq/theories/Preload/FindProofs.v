(** The two search loops of cli-subroutines.c against the line-level reference:

      find_entry_spec  :  find_entry c content path     = first_line (entry_line path) content
      noncomment_spec  :  find_noncomment c content LIB = first_line mention_line content
      two_active_spec  :  the duplicate test            = (2 <=? active_mentions content)

    for every content without NUL and every non-empty, newline-free path (no bound on sizes).
    Offsets first (the loops return the LEAST qualifying offset, skipping is sound because an
    occurrence overlapping a skipped one lies on the same line), then the bridge to lines. *)
From Snoopy Require Import Lib.CStr Preload.Lines Preload.Model.
Local Open Scope nat_scope.

(** * occurrences *)
Definition occ (needle content : list byte) (f : nat) : Prop := prefixb needle (skipn f content) = true.

Lemma prefixb_split p s : prefixb p s = true -> s = p ++ skipn (length p) s.
Proof. intros H. apply prefixb_app in H as [r ->]. now rewrite skipn_app, skipn_all, Nat.sub_diag. Qed.

Lemma byte_at_skipn s f i : byte_at (skipn f s) i = byte_at s (f + i).
Proof. unfold byte_at. apply nth_skipn. Qed.
Lemma byte_at_app1 a b i : i < length a -> byte_at (a ++ b) i = byte_at a i.
Proof. unfold byte_at. intros. now apply app_nth1. Qed.
Lemma byte_at_app2 a b i : byte_at (a ++ b) (length a + i) = byte_at b i.
Proof. unfold byte_at. rewrite app_nth2 by lia. f_equal. lia. Qed.
Lemma byte_at_nonul s i : nonul s -> (byte_at s i = NUL <-> length s <= i).
Proof.
  intros H. unfold byte_at. split.
  - intros E. destruct (Nat.le_gt_cases (length s) i); [assumption|]. exfalso. apply H. rewrite <- E. now apply nth_In.
  - intros L. now apply nth_overflow.
Qed.
Lemma byte_at_hd s : byte_at s 0 = hd NUL s.
Proof. destruct s; reflexivity. Qed.

Section Occ.
  Variable needle content : list byte.
  Hypothesis needle_ne : needle <> [].
  Hypothesis needle_nl : nlfree needle.

  Lemma needle_len_pos : 0 < length needle.
  Proof using needle_ne. assert (length needle <> 0) by (intros H; apply needle_ne; now apply length_zero_iff_nil). lia. Qed.
  Lemma occ_bound f : occ needle content f -> f + length needle <= length content.
  Proof using needle_ne.
    unfold occ. intros H. apply prefixb_app in H as [r E].
    assert (L : length (skipn f content) = length needle + length r) by (rewrite E, app_length; reflexivity).
    rewrite skipn_length in L. pose proof needle_len_pos. lia.
  Qed.
  Lemma occ_byte f i : occ needle content f -> i < length needle -> byte_at content (f + i) = nth i needle NUL.
  Proof.
    unfold occ. intros H Hi. rewrite <- byte_at_skipn. apply prefixb_app in H as [r ->]. now apply byte_at_app1.
  Qed.
  Lemma occ_no_nl f i : occ needle content f -> i < length needle -> byte_at content (f + i) <> NL.
  Proof. intros H Hi. rewrite (occ_byte f i H Hi). intros E. apply needle_nl. rewrite <- E. now apply nth_In. Qed.
  Lemma occ_in_range f g : occ needle content f -> f <= g < f + length needle -> byte_at content g <> NL.
  Proof. intros H Hg. replace g with (f + (g - f)) by lia. apply occ_no_nl; [assumption|lia]. Qed.

  (** strstr from [pos] finds the least occurrence at or after [pos] *)
  Lemma strstr_from_Some pos k : strstr (skipn pos content) needle = Some k ->
    occ needle content (pos + k) /\ forall g, pos <= g < pos + k -> ~ occ needle content g.
  Proof.
    intros H. destruct (strstr_Some _ _ _ H) as [H1 H2]. rewrite skipn_skipn in H1. split.
    - unfold occ. now rewrite Nat.add_comm.
    - intros g Hg O. specialize (H2 (g - pos) ltac:(lia)). rewrite skipn_skipn in H2.
      replace (g - pos + pos) with g in H2 by lia. unfold occ in O. congruence.
  Qed.
  Lemma strstr_from_None pos : strstr (skipn pos content) needle = None -> forall g, pos <= g -> ~ occ needle content g.
  Proof.
    intros H g Hg O. pose proof (strstr_None _ _ H (g - pos)) as N. rewrite skipn_skipn in N.
    replace (g - pos + pos) with g in N by lia. unfold occ in O. congruence.
  Qed.
End Occ.

(** * line start of an offset *)
Definition is_lstart (content : list byte) (f ls : nat) : Prop :=
  ls <= f /\ line_start content ls /\ forall i, ls <= i < f -> byte_at content i <> NL.

Lemma is_lstart_unique content f a b : is_lstart content f a -> is_lstart content f b -> a = b.
Proof.
  intros [A1 [A2 A3]] [B1 [B2 B3]]. destruct (Nat.lt_trichotomy a b) as [L|[L|L]]; [|assumption|]; exfalso.
  - destruct B2 as [->|[B2 B4]]; [lia|]. apply (A3 (b - 1)); [lia|exact B4].
  - destruct A2 as [->|[A2 A4]]; [lia|]. apply (B3 (a - 1)); [lia|exact A4].
Qed.
Lemma is_lstart_mono content f g a b : f <= g -> is_lstart content f a -> is_lstart content g b -> a <= b.
Proof.
  intros Hfg [A1 [A2 A3]] [B1 [B2 B3]]. destruct (Nat.le_gt_cases a b); [assumption|]. exfalso.
  destruct A2 as [->|[A2 A4]]; [lia|]. apply (B3 (a - 1)); [lia|exact A4].
Qed.
Lemma is_lstart_same content f g a : f <= g -> (forall i, f <= i < g -> byte_at content i <> NL) ->
  is_lstart content f a -> is_lstart content g a.
Proof.
  intros Hfg N [A1 [A2 A3]]. split; [lia|split; [assumption|]]. intros i Hi.
  destruct (Nat.lt_ge_cases i f); [apply A3; lia|apply N; lia].
Qed.

Section Scan.
  Variable c : preload_consts.
  Variable content : list byte.

  Lemma scan_back_spec p : let q := scan_back content p in
    q <= p /\ (q = 0 \/ byte_at content q = NL) /\ forall i, q < i <= p -> byte_at content i <> NL.
  Proof.
    induction p as [|p IH]; simpl.
    - split; [lia|split; [now left|intros i Hi; lia]].
    - destruct (beq (byte_at content (S p)) NL) eqn:E.
      + apply beq_eq in E. split; [lia|split; [now right|intros i Hi; lia]].
      + apply beq_neq in E. destruct IH as [I1 [I2 I3]]. split; [lia|split; [assumption|]].
        intros i Hi. destruct (Nat.eq_dec i (S p)) as [->|]; [assumption|apply I3; lia].
  Qed.

  Lemma line_start_of_spec f : byte_at content f <> NL -> is_lstart content f (line_start_of content f).
  Proof.
    intros Hf. unfold line_start_of. destruct (scan_back_spec f) as [Q1 [Q2 Q3]]. set (q := scan_back content f) in *.
    destruct (beq (byte_at content q) NL) eqn:E.
    - apply beq_eq in E. assert (q <> f) by (intros ->; contradiction). split; [lia|split].
      + right. split; [lia|]. now replace (q + 1 - 1) with q by lia.
      + intros i Hi. apply Q3. lia.
    - apply beq_neq in E. destruct Q2 as [Q2|Q2]; [|contradiction]. rewrite Q2 in *. split; [lia|split; [now left|]].
      intros i Hi. destruct i; [assumption|apply Q3; lia].
  Qed.
End Scan.

(** * etcLdSoPreload_findEntry returns the least offset that is an entry *)
Section FindEntry.
  Variable c : preload_consts.
  Variable content entry : list byte.
  Hypothesis entry_ne : entry <> [].
  Hypothesis entry_nl : nlfree entry.

  Definition good (f : nat) : Prop := occ entry content f /\ entry_here c content entry f = true.

  Lemma entry_len_pos : 0 < length entry.
  Proof. destruct entry; [congruence|simpl; lia]. Qed.

  Lemma fe_loop_spec fuel : forall pos, length content < pos + fuel ->
    match find_entry_loop c content entry fuel pos with
    | Some e => pos <= e /\ good e /\ forall g, pos <= g < e -> ~ good g
    | None => forall g, pos <= g -> ~ good g
    end.
  Proof.
    pose proof entry_len_pos as LP.
    induction fuel as [|fuel IH]; intros pos Hf; cbn [find_entry_loop].
    - intros g Hg [O _]. pose proof (occ_bound entry content entry_ne g O). lia.
    - destruct (strstr (skipn pos content) entry) as [k|] eqn:E.
      + destruct (strstr_from_Some entry content pos k E) as [O N]. cbv zeta.
        destruct (entry_here c content entry (pos + k)) eqn:H.
        * split; [lia|split; [split; assumption|]]. intros g Hg [Og _]. now apply (N g).
        * specialize (IH (pos + k + length entry) ltac:(lia)).
          assert (SK : forall g, pos <= g < pos + k + length entry -> ~ good g).
          { intros g Hg [Og Hg2]. destruct (Nat.lt_trichotomy g (pos + k)) as [L|[->|L]].
            - apply (N g); [lia|assumption].
            - congruence.
            - (* g starts inside the occurrence at pos + k: the byte before it is not a newline *)
              unfold entry_here in Hg2. apply andb_true_iff in Hg2 as [Hs _]. apply orb_true_iff in Hs as [Hs|Hs].
              + apply Nat.eqb_eq in Hs. lia.
              + apply beq_eq in Hs. apply (occ_in_range entry content entry_nl (pos + k) (g - 1) O); [lia|assumption]. }
          destruct (find_entry_loop c content entry fuel (pos + k + length entry)) as [e|].
          -- destruct IH as [I1 [I2 I3]]. split; [lia|split; [assumption|]]. intros g Hg.
             destruct (Nat.lt_ge_cases g (pos + k + length entry)); [apply SK; lia|apply I3; lia].
          -- intros g Hg. destruct (Nat.lt_ge_cases g (pos + k + length entry)); [apply SK; lia|apply IH; lia].
      + intros g Hg [O _]. now apply (strstr_from_None entry content pos E g Hg).
  Qed.

  Lemma find_entry_least :
    match find_entry c content entry with
    | Some e => good e /\ forall g, g < e -> ~ good g
    | None => forall g, ~ good g
    end.
  Proof.
    unfold find_entry. pose proof (fe_loop_spec (S (length content)) 0 ltac:(lia)) as H.
    destruct (find_entry_loop c content entry (S (length content)) 0) as [e|].
    - destruct H as [_ [H1 H2]]. split; [assumption|]. intros g Hg. apply H2. lia.
    - intros g. apply H. lia.
  Qed.
End FindEntry.

(** * the line at an offset, and occurrences inside it *)
Lemma prefixb_take_line p s : prefixb p (take_line s) = true -> prefixb p s = true.
Proof.
  intros H. apply prefixb_app in H as [r E]. destruct (take_line_prefix s) as [t Et]. rewrite Et, E, <- app_assoc. apply prefixb_refl_app.
Qed.
Lemma take_line_of_prefix p s : nlfree p -> prefixb p s = true ->
  take_line s = p ++ take_line (skipn (length p) s).
Proof. intros Hp H. rewrite (prefixb_split p s H) at 1. now apply take_line_app. Qed.

Lemma hd_take_line s : hd NUL (take_line s) = if beq (hd NUL s) NL then NUL else hd NUL s.
Proof. destruct s as [|b s]; simpl; [reflexivity|]. destruct (beq b NL); reflexivity. Qed.

Lemma line_at_hd content r : byte_at content r <> NL -> hd NUL (line_at content r) = byte_at content r.
Proof.
  intros H. unfold line_at. rewrite hd_take_line, <- byte_at_hd, byte_at_skipn, Nat.add_0_r.
  apply beq_neq in H. now rewrite H.
Qed.

Lemma skipn_line_at content r : exists t, skipn r content = line_at content r ++ t.
Proof. unfold line_at. apply take_line_prefix. Qed.

Lemma byte_at_line content r i : i < length (line_at content r) -> byte_at content (r + i) = byte_at (line_at content r) i.
Proof.
  intros H. destruct (skipn_line_at content r) as [t E]. rewrite <- byte_at_skipn, E. now apply byte_at_app1.
Qed.

Section LineOcc.
  Variable needle content : list byte.
  Hypothesis needle_ne : needle <> [].
  Hypothesis needle_nl : nlfree needle.

  (** an occurrence inside the line that starts at [r] is an occurrence in the content, on that line *)
  Lemma line_occ_content r j : line_start content r -> prefixb needle (skipn j (line_at content r)) = true ->
    occ needle content (r + j) /\ is_lstart content (r + j) r.
  Proof.
    intros Hr H. destruct (skipn_line_at content r) as [t E].
    assert (Hj : j + length needle <= length (line_at content r)).
    { apply prefixb_app in H as [x Ex].
      assert (L : length (skipn j (line_at content r)) = length needle + length x) by (rewrite Ex, app_length; reflexivity).
      rewrite skipn_length in L. pose proof (needle_len_pos needle needle_ne). lia. }
    split.
    - unfold occ. replace (r + j) with (j + r) by lia. rewrite <- skipn_skipn, E, skipn_app.
      apply prefixb_app in H as [x ->]. rewrite <- app_assoc. apply prefixb_refl_app.
    - split; [lia|split; [assumption|]]. intros i Hi. replace i with (r + (i - r)) by lia.
      rewrite byte_at_line by lia. apply nth_nlfree. apply take_line_nlfree.
  Qed.

  (** and conversely *)
  Lemma content_occ_line g r : occ needle content g -> is_lstart content g r ->
    prefixb needle (skipn (g - r) (line_at content r)) = true.
  Proof.
    intros O [L1 [L2 L3]]. unfold occ in O. unfold line_at.
    assert (E : skipn r content = firstn (g - r) (skipn r content) ++ skipn g content).
    { rewrite <- (firstn_skipn (g - r) (skipn r content)) at 1. rewrite skipn_skipn. now replace (g - r + r) with g by lia. }
    assert (NF : nlfree (firstn (g - r) (skipn r content))).
    { intros Hin. apply In_nth with (d := NUL) in Hin as [i [Hi Hn]]. rewrite firstn_length in Hi.
      rewrite nth_firstn_lt in Hn by lia. fold (byte_at (skipn r content) i) in Hn. rewrite byte_at_skipn in Hn.
      apply (L3 (r + i)); [lia|assumption]. }
    pose proof (occ_bound needle content needle_ne g O) as B.
    assert (LEN : length (firstn (g - r) (skipn r content)) = g - r) by (rewrite firstn_length, skipn_length; lia).
    rewrite E, take_line_app by assumption. rewrite skipn_app, LEN, Nat.sub_diag. rewrite skipn_all2 by lia. simpl.
    rewrite (take_line_of_prefix needle (skipn g content) needle_nl O). apply prefixb_refl_app.
  Qed.

  Lemma strstr_some_iff s : (exists j, prefixb needle (skipn j s) = true) <-> strstr s needle <> None.
  Proof.
    split.
    - intros [j H] N. rewrite (strstr_None _ _ N j) in H. discriminate.
    - intros H. destruct (strstr s needle) as [k|] eqn:E; [|congruence]. exists k. now destruct (strstr_Some _ _ _ E).
  Qed.
End LineOcc.

(** * findEntry = first entry line *)
Section EntryBridge.
  Variable c : preload_consts.
  Hypothesis c_ok : preload_consts_ok c = true.
  Variable content path : list byte.
  Hypothesis D : dom content path.

  Lemma consts_fields : lib_name c = LIB /\ (forall b, memb b (entry_delims c) = memb b [NL; HASH; SP; TAB]) /\ comment_ch c = HASH
                        /\ (forall b, memb b (dis_blanks c) = memb b [SP; TAB]) /\ (forall b, memb b (dis_stops c) = memb b [NL; HASH])
                        /\ enable_guard c = true.
  Proof.
    unfold preload_consts_ok in c_ok. repeat (apply andb_true_iff in c_ok as [c_ok ?]).
    assert (SE : forall a b x, set_eqb a b = true -> memb x a = memb x b).
    { intros a b x Hs. unfold set_eqb in Hs. apply andb_true_iff in Hs as [Ha Hb]. rewrite forallb_forall in Ha, Hb.
      destruct (memb x a) eqn:Ea.
      - unfold memb in Ea. apply existsb_exists in Ea as [y [Hy Ey]]. apply beq_eq in Ey. subst y. symmetry. now apply Ha.
      - destruct (memb x b) eqn:Eb; [|reflexivity]. unfold memb in Eb. apply existsb_exists in Eb as [y [Hy Ey]]. apply beq_eq in Ey. subst y.
        rewrite (Hb x Hy) in Ea. discriminate. }
    repeat split.
    - apply list_eqb_eq. unfold list_eqb. apply andb_true_iff. split; assumption.
    - intros b. now apply SE.
    - now apply beq_eq.
    - intros b. now apply SE.
    - intros b. now apply SE.
    - assumption.
  Qed.

  (** at an offset where the path occurs, the C test is the line test *)
  Lemma entry_here_line e : occ path content e ->
    entry_here c content path e = true <-> (line_start content e /\ entry_line path (line_at content e) = true).
  Proof.
    destruct D as [Dn [Dp [Dl Dz]]]. destruct consts_fields as [_ [CD _]]. intros O.
    pose proof (occ_bound path content Dp e O) as B.
    assert (LA : line_at content e = path ++ take_line (skipn (length path) (skipn e content))).
    { unfold line_at. now apply take_line_of_prefix. }
    assert (PL : prefixb path (line_at content e) = true) by (rewrite LA; apply prefixb_refl_app).
    assert (SK : skipn (length path) (line_at content e) = take_line (skipn (e + length path) content)).
    { rewrite LA, skipn_app, skipn_all, Nat.sub_diag. simpl. rewrite skipn_skipn. f_equal. f_equal. lia. }
    assert (LS : ((e =? 0) || beq (byte_at content (e - 1)) NL) = true <-> line_start content e).
    { unfold line_start. rewrite orb_true_iff, Nat.eqb_eq, beq_eq. unfold byte_at. split.
      - intros [->|H]; [now left|]. destruct e; [now left|right]. split; [lia|assumption].
      - intros [->|[H1 H2]]; [now left|now right]. }
    set (rest := skipn (e + length path) content) in *.
    assert (TL : (beq (byte_at content (e + length path)) NUL || memb (byte_at content (e + length path)) (entry_delims c)) =
                 match take_line rest with [] => true | b :: _ => memb b [HASH; SP; TAB] end).
    { rewrite CD. replace (byte_at content (e + length path)) with (hd NUL rest)
        by (unfold rest; rewrite <- byte_at_hd, byte_at_skipn; f_equal; lia).
      assert (NR : nonul rest) by (apply nonul_skipn; assumption).
      destruct rest as [|b r]; [reflexivity|]. simpl.
      assert (b <> NUL) by (intros ->; apply NR; now left).
      destruct (beq b NL) eqn:E1.
      - now rewrite orb_true_r.
      - assert (E0 : beq b NUL = false) by now apply beq_neq. rewrite E0. reflexivity. }
    unfold entry_here, entry_line. cbv zeta. rewrite andb_true_iff, LS, TL, PL, SK. simpl. tauto.
  Qed.

  Lemma entry_line_occ e : entry_line path (line_at content e) = true -> occ path content e.
  Proof.
    unfold entry_line. intros H. apply andb_true_iff in H as [H _]. unfold occ. unfold line_at in H. now apply prefixb_take_line.
  Qed.

  Theorem find_entry_spec : find_entry c content path = first_line (entry_line path) content.
  Proof.
    destruct D as [Dn [Dp [Dl Dz]]].
    pose proof (find_entry_least c content path Dp Dl) as H.
    destruct (find_entry c content path) as [e|].
    - destruct H as [[O G] L]. symmetry. apply entry_here_line in G as [G1 G2]; [|assumption]. apply first_line_unique; [assumption|assumption|].
      intros r' Hr Hs. destruct (entry_line path (line_at content r')) eqn:E; [|reflexivity]. exfalso.
      apply (L r' Hr). pose proof (entry_line_occ r' E) as O'. split; [assumption|]. apply entry_here_line; auto.
    - pose proof (first_line_spec (entry_line path) content) as S. destruct (first_line (entry_line path) content) as [r|]; [|reflexivity].
      destruct S as [S1 [S2 _]]. exfalso. apply (H r). pose proof (entry_line_occ r S2) as O'. split; [assumption|]. apply entry_here_line; auto.
  Qed.
End EntryBridge.

(** * findNonCommentLineContainingString = first active line mentioning the needle *)
Section NonComment.
  Variable c : preload_consts.
  Hypothesis c_ok : preload_consts_ok c = true.
  Variable content : list byte.

  Let needle := LIB.
  Lemma LIB_ne : LIB <> [].  Proof. discriminate. Qed.
  Lemma LIB_nl : nlfree LIB.
  Proof. unfold nlfree, LIB. simpl. intros H. repeat (destruct H as [H|H]; [discriminate|]). exact H. Qed.

  Definition active (g : nat) : bool := negb (beq (byte_at content (line_start_of content g)) HASH).

  Lemma nc_loop_spec fuel : forall pos, length content < pos + fuel ->
    match find_nc_loop c content LIB fuel pos with
    | Some r => exists g, pos <= g /\ occ LIB content g /\ active g = true /\ r = line_start_of content g
                          /\ forall g', pos <= g' < g -> ~ (occ LIB content g' /\ active g' = true)
    | None => forall g', pos <= g' -> ~ (occ LIB content g' /\ active g' = true)
    end.
  Proof.
    assert (CH : comment_ch c = HASH).
    { unfold preload_consts_ok in c_ok. repeat (apply andb_true_iff in c_ok as [c_ok ?]). now apply beq_eq. }
    assert (LP : 0 < length LIB) by (simpl; lia).
    induction fuel as [|fuel IH]; intros pos Hf; cbn [find_nc_loop].
    - intros g Hg [O _]. pose proof (occ_bound LIB content LIB_ne g O). lia.
    - destruct (strstr (skipn pos content) LIB) as [k|] eqn:E.
      + destruct (strstr_from_Some LIB content pos k E) as [O N]. cbv zeta. rewrite CH. fold (active (pos + k)).
        destruct (active (pos + k)) eqn:A.
        * exists (pos + k). split; [lia|split; [assumption|split; [assumption|split; [reflexivity|]]]].
          intros g' Hg [Og _]. now apply (N g').
        * specialize (IH (pos + k + length LIB) ltac:(lia)).
          assert (SK : forall g, pos <= g < pos + k + length LIB -> ~ (occ LIB content g /\ active g = true)).
          { intros g Hg [Og Ag]. destruct (Nat.lt_trichotomy g (pos + k)) as [L|[->|L]].
            - apply (N g); [lia|assumption].
            - congruence.
            - (* g overlaps the comment occurrence: same line, hence a comment too *)
              assert (B1 : byte_at content (pos + k) <> NL) by (apply (occ_in_range LIB content LIB_nl (pos + k)); [assumption|lia]).
              assert (B2 : byte_at content g <> NL) by (apply (occ_in_range LIB content LIB_nl g); [assumption|lia]).
              pose proof (line_start_of_spec content (pos + k) B1) as S1. pose proof (line_start_of_spec content g B2) as S2.
              assert (S3 : is_lstart content g (line_start_of content (pos + k))).
              { apply (is_lstart_same content (pos + k)); [lia| |assumption]. intros i Hi.
                apply (occ_in_range LIB content LIB_nl (pos + k)); [assumption|lia]. }
              unfold active in *. rewrite (is_lstart_unique _ _ _ _ S2 S3) in Ag. congruence. }
          destruct (find_nc_loop c content LIB fuel (pos + k + length LIB)) as [r|].
          -- destruct IH as [g [I1 [I2 [I3 [I4 I5]]]]]. exists g. split; [lia|split; [assumption|split; [assumption|split; [assumption|]]]].
             intros g' Hg. destruct (Nat.lt_ge_cases g' (pos + k + length LIB)); [apply SK; lia|apply I5; lia].
          -- intros g' Hg. destruct (Nat.lt_ge_cases g' (pos + k + length LIB)); [apply SK; lia|apply IH; lia].
      + intros g Hg [O _]. now apply (strstr_from_None LIB content pos E g Hg).
  Qed.

  (** a line (by its start) is an active mention iff it carries an active occurrence *)
  Lemma mention_line_occ r : line_start content r -> mention_line (line_at content r) = true ->
    exists g, occ LIB content g /\ is_lstart content g r /\ active g = true.
  Proof.
    intros Hr H. unfold mention_line in H. apply andb_true_iff in H as [H1 H2].
    destruct (strstr (line_at content r) LIB) as [j|] eqn:E; [|discriminate].
    destruct (strstr_Some _ _ _ E) as [P _].
    destruct (line_occ_content LIB content LIB_ne r j Hr P) as [O L]. exists (r + j). split; [assumption|split; [assumption|]].
    assert (B : byte_at content (r + j) <> NL) by (replace (r + j) with (r + j + 0) by lia; apply (occ_no_nl LIB content LIB_nl); [assumption|simpl; lia]).
    pose proof (line_start_of_spec content (r + j) B) as S. unfold active. rewrite (is_lstart_unique _ _ _ _ S L).
    assert (B0 : byte_at content r <> NL).
    { destruct L as [_ [_ L3]]. destruct j; [now replace (r + 0) with r in B by lia|apply L3; lia]. }
    rewrite <- (line_at_hd content r B0). exact H1.
  Qed.
  Lemma occ_mention_line g r : occ LIB content g -> is_lstart content g r -> active g = true ->
    mention_line (line_at content r) = true.
  Proof.
    intros O L A.
    assert (B : byte_at content g <> NL) by (replace g with (g + 0) by lia; apply (occ_no_nl LIB content LIB_nl); [assumption|simpl; lia]).
    pose proof (line_start_of_spec content g B) as S. unfold active in A. rewrite (is_lstart_unique _ _ _ _ S L) in A.
    assert (B0 : byte_at content r <> NL).
    { destruct L as [L1 [_ L3]]. destruct (Nat.eq_dec r g) as [->|]; [assumption|apply L3; lia]. }
    unfold mention_line. rewrite (line_at_hd content r B0), A. simpl.
    pose proof (content_occ_line LIB content LIB_ne LIB_nl g r O L) as P.
    destruct (strstr (line_at content r) LIB) eqn:E; [reflexivity|]. rewrite (strstr_None _ _ E) in P. discriminate.
  Qed.

  Theorem noncomment_spec : find_noncomment c content LIB = first_line mention_line content.
  Proof.
    unfold find_noncomment. pose proof (nc_loop_spec (S (length content)) 0 ltac:(lia)) as H.
    destruct (find_nc_loop c content LIB (S (length content)) 0) as [r|].
    - destruct H as [g [_ [O [A [-> F]]]]]. symmetry.
      assert (B : byte_at content g <> NL) by (replace g with (g + 0) by lia; apply (occ_no_nl LIB content LIB_nl); [assumption|simpl; lia]).
      pose proof (line_start_of_spec content g B) as S.
      apply first_line_unique.
      + apply S.
      + now apply (occ_mention_line g).
      + intros r' Hlt Hr. destruct (mention_line (line_at content r')) eqn:M; [|reflexivity]. exfalso.
        destruct (mention_line_occ r' Hr M) as [g' [O' [L' A']]].
        destruct (Nat.lt_ge_cases g' g) as [Lg|Lg]; [apply (F g'); [lia|split; assumption]|].
        pose proof (is_lstart_mono content g g' _ _ Lg S L'). lia.
    - pose proof (first_line_spec mention_line content) as S. destruct (first_line mention_line content) as [r|]; [|reflexivity].
      destruct S as [S1 [S2 _]]. exfalso. destruct (mention_line_occ r S1 S2) as [g [O [L A]]]. apply (H g); [lia|split; assumption].
  Qed.
End NonComment.
