(** Lines of a byte string: the vocabulary in which C18/C19 are stated.

    [lines s = split_on NL s] is the executable reading ("the split at \n");
    [is_line s l] is the same thing said by decomposition; [line_start]/[line_at]
    connect it with the byte offsets the C loops compute; [first_line P s] is the
    offset of the first line satisfying [P] - the reference against which the two
    search loops of cli-subroutines.c are proved.  Stdlib only. *)
From Snoopy Require Import Lib.CStr.
Local Open Scope nat_scope.

Definition nlfree (s : list byte) : Prop := ~ In NL s.

Fixpoint take_line (s : list byte) : list byte :=
  match s with [] => [] | b :: s' => if beq b NL then [] else b :: take_line s' end.
Fixpoint after_line (s : list byte) : option (list byte) :=
  match s with [] => None | b :: s' => if beq b NL then Some s' else after_line s' end.
Definition lines (s : list byte) : list (list byte) := split_on NL s.
(** all lines with their terminators *)
Definition unlines (ls : list (list byte)) : list byte := concat (map (fun x => x ++ [NL]) ls).

Lemma nlfree_cons b s : nlfree (b :: s) <-> b <> NL /\ nlfree s.
Proof. unfold nlfree. simpl. split; [intros H; split; [intros E; subst; tauto|tauto]|intros [H1 H2] [E|E]; [congruence|tauto]]. Qed.
Lemma nlfree_app a b : nlfree (a ++ b) <-> nlfree a /\ nlfree b.
Proof. unfold nlfree. rewrite in_app_iff. tauto. Qed.
Lemma nlfree_nil : nlfree [].  Proof. intros []. Qed.
Lemma nlfree_firstn n s : nlfree s -> nlfree (firstn n s).
Proof. intros H F. apply H. eapply In_firstn; eauto. Qed.
Lemma nlfree_skipn n s : nlfree s -> nlfree (skipn n s).
Proof. intros H F. apply H. eapply In_skipn; eauto. Qed.

Lemma take_line_nlfree s : nlfree (take_line s).
Proof.
  induction s as [|b s IH]; simpl; [apply nlfree_nil|]. destruct (beq b NL) eqn:E; [apply nlfree_nil|].
  apply nlfree_cons. split; [now apply beq_neq|assumption].
Qed.
Lemma take_after s : s = take_line s ++ match after_line s with None => [] | Some r => NL :: r end.
Proof.
  induction s as [|b s IH]; simpl; [reflexivity|]. destruct (beq b NL) eqn:E.
  - apply beq_eq in E. now subst.
  - simpl. now rewrite <- IH.
Qed.
Lemma take_line_free l : nlfree l -> take_line l = l /\ after_line l = None.
Proof.
  induction l as [|b l IH]; simpl; [tauto|]. intros H. apply nlfree_cons in H as [H1 H2].
  apply beq_neq in H1. rewrite H1. destruct (IH H2) as [-> ->]. tauto.
Qed.
Lemma take_line_app_nl l r : nlfree l -> take_line (l ++ NL :: r) = l /\ after_line (l ++ NL :: r) = Some r.
Proof.
  induction l as [|b l IH]; simpl; intros H.
  - tauto.
  - apply nlfree_cons in H as [H1 H2]. apply beq_neq in H1. rewrite H1. destruct (IH H2) as [-> ->]. tauto.
Qed.
Lemma take_line_app l r : nlfree l -> take_line (l ++ r) = l ++ take_line r.
Proof.
  induction l as [|b l IH]; simpl; intros H; [reflexivity|].
  apply nlfree_cons in H as [H1 H2]. apply beq_neq in H1. rewrite H1. now rewrite IH.
Qed.
Lemma take_line_prefix s : exists r, s = take_line s ++ r.
Proof. eexists. apply take_after. Qed.
Lemma take_line_length s : length (take_line s) <= length s.
Proof. destruct (take_line_prefix s) as [r E]. rewrite E at 2. rewrite app_length. lia. Qed.

(** strchr-based line length (what snoopy_util_string_getLineLength computes) *)
Definition line_length (s : list byte) : nat := match index NL s with Some k => k | None => length s end.
Lemma line_length_take s : line_length s = length (take_line s).
Proof.
  unfold line_length. induction s as [|b s IH]; simpl; [reflexivity|].
  destruct (beq b NL) eqn:E; [reflexivity|]. destruct (index NL s); simpl in *; lia.
Qed.

(** ** the split into lines, unfolded one line at a time *)
Lemma lines_unfold s : lines s = take_line s :: match after_line s with None => [] | Some r => lines r end.
Proof.
  unfold lines. induction s as [|b s IH]; simpl; [reflexivity|]. destruct (beq b NL) eqn:E; [reflexivity|].
  rewrite IH. reflexivity.
Qed.
Lemma lines_free l : nlfree l -> lines l = [l].
Proof. intros H. rewrite lines_unfold. destruct (take_line_free l H) as [-> ->]. reflexivity. Qed.
Lemma lines_app_nl l r : nlfree l -> lines (l ++ NL :: r) = l :: lines r.
Proof. intros H. rewrite lines_unfold. destruct (take_line_app_nl l r H) as [-> ->]. reflexivity. Qed.
Lemma lines_nlfree s : Forall nlfree (lines s).
Proof.
  unfold lines. induction s as [|b s IH]; simpl; [constructor; [apply nlfree_nil|constructor]|].
  destruct (beq b NL) eqn:E; [constructor; [apply nlfree_nil|assumption]|].
  destruct (split_on NL s) as [|f fs]; [constructor; [|constructor]; apply nlfree_cons; split; [now apply beq_neq|apply nlfree_nil]|].
  inversion IH; subst. constructor; [|assumption]. apply nlfree_cons. split; [now apply beq_neq|assumption].
Qed.

Inductive lines_view : list byte -> Prop :=
| LV_last l : nlfree l -> lines_view l
| LV_cons l r : nlfree l -> lines_view r -> lines_view (l ++ NL :: r).
Lemma lines_view_all s : lines_view s.
Proof.
  induction s as [|b s IH]; [apply LV_last, nlfree_nil|].
  destruct (beq b NL) eqn:E.
  - apply beq_eq in E; subst. apply (LV_cons [] s); [apply nlfree_nil|assumption].
  - apply beq_neq in E. inversion IH as [l H|l r H Hr]; subst.
    + apply LV_last. now apply nlfree_cons.
    + apply (LV_cons (b :: l) r); [now apply nlfree_cons|assumption].
Qed.

Lemma lines_app_sep x y : lines (x ++ NL :: y) = lines x ++ lines y.
Proof.
  induction (lines_view_all x) as [l H|l r H Hr IH].
  - rewrite lines_app_nl, (lines_free l) by assumption. reflexivity.
  - rewrite <- app_assoc. simpl. rewrite (lines_app_nl l (r ++ NL :: y)), (lines_app_nl l r) by assumption. rewrite IH. reflexivity.
Qed.

(** ** join / unlines *)
Lemma join_cons_ne x y ys : join [NL] (x :: y :: ys) = x ++ NL :: join [NL] (y :: ys).
Proof. reflexivity. Qed.
Lemma unlines_app a b : unlines (a ++ b) = unlines a ++ unlines b.
Proof. unfold unlines. now rewrite map_app, concat_app. Qed.
Lemma unlines_cons x a : unlines (x :: a) = x ++ NL :: unlines a.
Proof. unfold unlines. simpl. now rewrite <- app_assoc. Qed.
Lemma join_unlines a b : b <> [] -> join [NL] (a ++ b) = unlines a ++ join [NL] b.
Proof.
  intros Hb. induction a as [|x a IH]; [reflexivity|]. rewrite unlines_cons.
  change ((x :: a) ++ b) with (x :: (a ++ b)).
  destruct (a ++ b) as [|y ys] eqn:E; [destruct a; simpl in E; [congruence|discriminate]|].
  rewrite join_cons_ne, IH, <- app_assoc. reflexivity.
Qed.
Lemma lines_join s : join [NL] (lines s) = s.
Proof. apply join_split. Qed.
Lemma lines_nonnil s : lines s <> [].
Proof. apply split_on_nonnil. Qed.

(** splitting is the inverse of joining newline-free lines *)
Lemma lines_of_join ls : ls <> [] -> Forall nlfree ls -> lines (join [NL] ls) = ls.
Proof.
  induction ls as [|x ls IH]; [congruence|]. intros _ H. inversion H as [|? ? Hx Hl]; subst.
  destruct ls as [|y ys]; [simpl; now apply lines_free|].
  rewrite join_cons_ne, lines_app_nl by assumption. rewrite IH; [reflexivity|discriminate|assumption].
Qed.

(** [s] with the lines [a] (terminated) in front of the lines [b] *)
Lemma lines_unlines_app a s : Forall nlfree a -> lines (unlines a ++ s) = a ++ lines s.
Proof.
  induction a as [|x a IH]; intros H; [reflexivity|]. inversion H; subst.
  rewrite unlines_cons, <- app_assoc. simpl. rewrite lines_app_nl by assumption. now rewrite IH.
Qed.

(** ** a line of [s], said by decomposition *)
Definition is_line (s l : list byte) : Prop :=
  exists pre post, s = pre ++ l ++ post /\ nlfree l
                   /\ (pre = [] \/ exists p, pre = p ++ [NL]) /\ (post = [] \/ exists q, post = NL :: q).

Lemma is_line_In s l : is_line s l <-> In l (lines s).
Proof.
  split.
  - intros [pre [post [E [Hl [Hp Hq]]]]]. subst s.
    assert (T : In l (lines (l ++ post))).
    { destruct Hq as [->|[q ->]]; [rewrite app_nil_r, lines_free by assumption; now left|].
      rewrite lines_app_nl by assumption. now left. }
    destruct Hp as [->|[p ->]]; [exact T|]. rewrite <- app_assoc. simpl. rewrite lines_app_sep. apply in_or_app. now right.
  - intros H. apply in_split in H as [a [b E]].
    pose proof (lines_nlfree s) as F. rewrite E in F. apply Forall_app in F as [Fa F]. inversion F as [|? ? Hl Fb]; subst.
    exists (unlines a), (match b with [] => [] | _ => NL :: join [NL] b end). split; [|split; [assumption|split]].
    + rewrite <- (lines_join s) at 1. rewrite E. rewrite join_unlines by discriminate.
      destruct b; [simpl; now rewrite app_nil_r|reflexivity].
    + destruct a as [|x a] using rev_ind; [now left|right]. rewrite unlines_app. unfold unlines at 2. simpl. rewrite app_nil_r.
      exists (unlines a ++ x). now rewrite <- app_assoc.
    + destruct b; [now left|right; eauto].
Qed.

(** ** byte offsets of line starts *)
Definition line_start (s : list byte) (r : nat) : Prop := r = 0 \/ (1 <= r /\ nth (r - 1) s NUL = NL).
Definition line_at (s : list byte) (r : nat) : list byte := take_line (skipn r s).

Lemma NL_not_NUL : NL <> NUL.  Proof. discriminate. Qed.
Lemma line_start_le s r : line_start s r -> r <= length s.
Proof.
  intros [->|[H1 H2]]; [lia|]. destruct (Nat.le_gt_cases r (length s)); [assumption|].
  rewrite nth_overflow in H2 by lia. discriminate.
Qed.
Lemma nth_nlfree l i : nlfree l -> nth i l NUL <> NL.
Proof.
  intros H E. destruct (Nat.lt_ge_cases i (length l)); [apply H; rewrite <- E; now apply nth_In|].
  rewrite nth_overflow in E by assumption. discriminate.
Qed.
Lemma line_start_free l r : nlfree l -> line_start l r -> r = 0.
Proof. intros H [->|[H1 H2]]; [reflexivity|]. exfalso. eapply nth_nlfree; eauto. Qed.
Lemma line_start_app_nl l s r : nlfree l ->
  line_start (l ++ NL :: s) r <-> r = 0 \/ exists r', r = length l + 1 + r' /\ line_start s r'.
Proof.
  intros H. unfold line_start. split.
  - intros [->|[H1 H2]]; [now left|]. right.
    destruct (Nat.lt_ge_cases (r - 1) (length l)) as [L|L].
    + rewrite app_nth1 in H2 by assumption. exfalso. eapply nth_nlfree; eauto.
    + exists (r - 1 - length l). split; [lia|]. rewrite app_nth2 in H2 by assumption.
      destruct (r - 1 - length l) as [|k] eqn:K; [now left|right]. split; [lia|]. simpl in H2. now replace (S k - 1) with k by lia.
  - intros [->|[r' [-> H2]]]; [now left|right]. split; [lia|].
    rewrite app_nth2 by lia. replace (length l + 1 + r' - 1 - length l) with r' by lia.
    destruct H2 as [->|[H2 H3]]; [reflexivity|]. destruct r'; [lia|]. simpl. now replace (S r' - 1) with r' in H3 by lia.
Qed.
Lemma line_at_0_app_nl l s : nlfree l -> line_at (l ++ NL :: s) 0 = l.
Proof. intros H. unfold line_at. simpl. now destruct (take_line_app_nl l s H). Qed.
Lemma skipn_app_exact {A} (a b : list A) k : skipn (length a + k) (a ++ b) = skipn k b.
Proof. induction a; simpl; [reflexivity|assumption]. Qed.
Lemma line_at_shift l s r' : line_at (l ++ NL :: s) (length l + 1 + r') = line_at s r'.
Proof.
  unfold line_at. replace (length l + 1 + r') with (length (l ++ [NL]) + r') by (rewrite app_length; simpl; lia).
  replace (l ++ NL :: s) with ((l ++ [NL]) ++ s) by (now rewrite <- app_assoc). now rewrite skipn_app_exact.
Qed.

(** ** first line satisfying a predicate *)
Fixpoint first_aux (P : list byte -> bool) (ls : list (list byte)) (off : nat) : option nat :=
  match ls with [] => None | l :: r => if P l then Some off else first_aux P r (off + length l + 1) end.
Definition first_line (P : list byte -> bool) (s : list byte) : option nat := first_aux P (lines s) 0.

Lemma first_aux_shift P ls off k : first_aux P ls (off + k) = option_map (fun x => x + k) (first_aux P ls off).
Proof.
  revert off; induction ls as [|l r IH]; intros off; simpl; [reflexivity|]. destruct (P l); [reflexivity|].
  replace (off + k + length l + 1) with (off + length l + 1 + k) by lia. apply IH.
Qed.
Lemma first_line_free P l : nlfree l -> first_line P l = if P l then Some 0 else None.
Proof. intros H. unfold first_line. rewrite lines_free by assumption. reflexivity. Qed.
Lemma first_line_app_nl P l s : nlfree l ->
  first_line P (l ++ NL :: s) = if P l then Some 0 else option_map (fun x => x + (length l + 1)) (first_line P s).
Proof.
  intros H. unfold first_line. rewrite lines_app_nl by assumption. simpl. destruct (P l); [reflexivity|].
  replace (length l + 1) with (0 + (length l + 1)) at 1 by lia. apply first_aux_shift.
Qed.

(** the offset characterisation: the least line start whose line satisfies [P] *)
Lemma first_line_spec P s :
  match first_line P s with
  | Some r => line_start s r /\ P (line_at s r) = true /\ (forall r', r' < r -> line_start s r' -> P (line_at s r') = false)
  | None => forall r', line_start s r' -> P (line_at s r') = false
  end.
Proof.
  induction (lines_view_all s) as [l H|l s H Hs IH].
  - rewrite first_line_free by assumption.
    assert (L0 : line_at l 0 = l) by (unfold line_at; simpl; now destruct (take_line_free l H)).
    destruct (P l) eqn:E.
    + split; [now left|]. split; [now rewrite L0|]. intros r' Hr; lia.
    + intros r' Hr. apply (line_start_free l r' H) in Hr. subst. now rewrite L0.
  - rewrite first_line_app_nl by assumption. destruct (P l) eqn:E.
    + split; [now left|]. split; [now rewrite line_at_0_app_nl|]. intros r' Hr; lia.
    + destruct (first_line P s) as [r|]; simpl.
      * destruct IH as [I1 [I2 I3]]. split; [|split].
        -- apply line_start_app_nl; [assumption|]. right. exists r. split; [lia|assumption].
        -- replace (r + (length l + 1)) with (length l + 1 + r) by lia. now rewrite line_at_shift.
        -- intros r' Hlt Hr. destruct (proj1 (line_start_app_nl l s r' H) Hr) as [->|[q [-> Hq]]].
           ++ now rewrite line_at_0_app_nl.
           ++ rewrite line_at_shift. apply I3; [lia|assumption].
      * intros r' Hr. destruct (proj1 (line_start_app_nl l s r' H) Hr) as [->|[q [-> Hq]]].
        -- now rewrite line_at_0_app_nl.
        -- rewrite line_at_shift. now apply IH.
Qed.

Lemma first_line_unique P s r :
  line_start s r -> P (line_at s r) = true -> (forall r', r' < r -> line_start s r' -> P (line_at s r') = false) ->
  first_line P s = Some r.
Proof.
  intros H1 H2 H3. pose proof (first_line_spec P s) as S. destruct (first_line P s) as [q|].
  - destruct S as [S1 [S2 S3]]. destruct (Nat.lt_trichotomy q r) as [L|[L|L]]; [|now subst|].
    + rewrite (H3 q L S1) in S2. discriminate.
    + rewrite (S3 r L H1) in H2. discriminate.
  - rewrite (S r H1) in H2. discriminate.
Qed.

(** the decomposition reading of the same thing *)
Lemma first_aux_decomp P ls off r : first_aux P ls off = Some r ->
  exists ls1 l ls2, ls = ls1 ++ l :: ls2 /\ P l = true /\ forallb (fun x => negb (P x)) ls1 = true
                    /\ r = off + length (unlines ls1).
Proof.
  revert off; induction ls as [|x ls IH]; intros off; simpl; [discriminate|]. destruct (P x) eqn:E.
  - intros H; injection H as <-. exists [], x, ls. repeat split; [assumption|simpl; lia].
  - intros H. destruct (IH _ H) as [ls1 [l [ls2 [-> [H1 [H2 ->]]]]]]. exists (x :: ls1), l, ls2.
    repeat split; [assumption|simpl; now rewrite E|]. rewrite unlines_cons, app_length. simpl. lia.
Qed.
Lemma first_aux_none P ls off : first_aux P ls off = None <-> forallb (fun x => negb (P x)) ls = true.
Proof.
  revert off; induction ls as [|x ls IH]; intros off; simpl; [tauto|]. destruct (P x); simpl; [split; discriminate|apply IH].
Qed.

Lemma first_line_decomp P s r : first_line P s = Some r ->
  exists ls1 l ls2, lines s = ls1 ++ l :: ls2 /\ P l = true /\ forallb (fun x => negb (P x)) ls1 = true
     /\ r = length (unlines ls1) /\ firstn r s = unlines ls1 /\ skipn r s = join [NL] (l :: ls2).
Proof.
  intros H. destruct (first_aux_decomp _ _ _ _ H) as [ls1 [l [ls2 [E [H1 [H2 ->]]]]]]. simpl.
  exists ls1, l, ls2. repeat split; try assumption.
  - rewrite <- (lines_join s), E, join_unlines by discriminate. now rewrite firstn_app, firstn_all, Nat.sub_diag, app_nil_r.
  - rewrite <- (lines_join s), E, join_unlines by discriminate. rewrite skipn_app, skipn_all, Nat.sub_diag. reflexivity.
Qed.
Lemma first_line_none P s : first_line P s = None <-> existsb P (lines s) = false.
Proof.
  unfold first_line. rewrite first_aux_none. generalize (lines s). intros ls.
  induction ls as [|x ls IH]; simpl; [tauto|]. destruct (P x); simpl; [split; discriminate|assumption].
Qed.
Lemma first_line_some_iff P s : (exists r, first_line P s = Some r) <-> existsb P (lines s) = true.
Proof.
  destruct (first_line P s) eqn:E.
  - split; [intros _|eauto]. destruct (existsb P (lines s)) eqn:X; [reflexivity|]. apply first_line_none in X. congruence.
  - apply first_line_none in E. rewrite E. split; [intros [r H]; discriminate|discriminate].
Qed.
