(** C18 / C19: the general theorems, for every constant record accepted by [preload_consts_ok];
    the property files instantiate them with the constants regenerated from the source. *)
From Snoopy Require Import Lib.CStr Preload.Lines Preload.Model Preload.Exec Preload.FindProofs Preload.Proofs Preload.Derived Preload.TokenProofs.
Local Open Scope nat_scope.

Lemma first_line_is_line P s : (exists r, first_line P s = Some r) <-> exists l, is_line s l /\ P l = true.
Proof.
  rewrite first_line_some_iff, existsb_exists. split; intros [l [H1 H2]]; exists l; (split; [now apply is_line_In|assumption]).
Qed.

(** a comment line is never an active mention, and never the entry of a path that does not itself start with '#' *)
Lemma comment_never_active l : hd NUL l = HASH -> mention_line l = false.
Proof. intros H. unfold mention_line. rewrite H. reflexivity. Qed.
Lemma comment_never_entry path l : path <> [] -> hd NUL path <> HASH -> hd NUL l = HASH -> entry_line path l = false.
Proof.
  intros Hp Hh Hl. unfold entry_line. destruct (prefixb path l) eqn:E; [|reflexivity]. exfalso.
  apply prefixb_app in E as [r ->]. destruct path; [congruence|]. simpl in *. congruence.
Qed.

Lemma domb_dom content path : domb content path = true -> dom content path.
Proof.
  unfold domb, dom. intros H. repeat (apply andb_true_iff in H as [H ?]).
  repeat split.
  - now apply nonulb_spec.
  - intros ->. discriminate.
  - apply memb_false. now apply negb_true_iff.
  - now apply nonulb_spec.
Qed.

Section Main.
  Variable c : preload_consts.
  Hypothesis c_ok : preload_consts_ok c = true.

  Theorem find_entry_lines content path : dom content path ->
    (exists e, find_entry c content path = Some e) <-> exists l, is_line content l /\ entry_line path l = true.
  Proof. intros D. rewrite (find_entry_spec c c_ok content path D). apply first_line_is_line. Qed.

  Theorem noncomment_lines content :
    (exists r, find_noncomment c content LIB = Some r) <-> exists l, is_line content l /\ hd NUL l <> HASH /\ strstr l LIB <> None.
  Proof.
    rewrite (noncomment_spec c c_ok content), first_line_is_line. unfold mention_line.
    split; intros [l [H1 H2]]; exists l; (split; [assumption|]).
    - apply andb_true_iff in H2 as [H2 H3]. apply negb_true_iff, beq_neq in H2. split; [assumption|]. now destruct (strstr l LIB).
    - destruct H2 as [H2 H3]. apply andb_true_iff. split; [now apply negb_true_iff, beq_neq|]. now destruct (strstr l LIB).
  Qed.

  Theorem enable_idempotent content path new : dom content path -> enable c content path = Write new -> enable c new path = Unchanged.
  Proof.
    intros D H. rewrite (enable_is_spec c c_ok content path D) in H.
    destruct (enable_spec_idempotent content path new D H) as [D' H']. now rewrite (enable_is_spec c c_ok new path D').
  Qed.

  Theorem enable_idempotent_file content path : dom content path ->
    let once := after content (enable c content path) in after once (enable c once path) = once.
  Proof.
    intros D. cbv zeta. destruct (enable c content path) as [| |new] eqn:E; simpl after.
    - now rewrite E.
    - now rewrite E.
    - now rewrite (enable_idempotent content path new D E).
  Qed.

  Theorem enable_only_comments content path : dom content path -> hd NUL path <> HASH ->
    (forall l, is_line content l -> l = [] \/ hd NUL l = HASH) ->
    enable c content path = Write (content ++ nl_if_missing content ++ path ++ [NL]).
  Proof.
    intros D Hh Hc. pose proof D as [_ [Dp _]]. rewrite (enable_is_spec c c_ok content path D). unfold enable_spec.
    assert (HE : has_entry path content = false).
    { unfold has_entry. destruct (existsb (entry_line path) (lines content)) eqn:E; [|reflexivity]. exfalso.
      apply existsb_exists in E as [l [Hin Hl]]. apply is_line_In in Hin. destruct (Hc l Hin) as [->|H].
      - rewrite entry_line_nil in Hl by assumption. discriminate.
      - rewrite (comment_never_entry path l Dp Hh H) in Hl. discriminate. }
    assert (AM : existsb mention_line (lines content) = false).
    { destruct (existsb mention_line (lines content)) eqn:E; [|reflexivity]. exfalso.
      apply existsb_exists in E as [l [Hin Hl]]. apply is_line_In in Hin. destruct (Hc l Hin) as [->|H].
      - discriminate.
      - rewrite (comment_never_active l H) in Hl. discriminate. }
    rewrite HE. unfold active_mentions. rewrite count_ge1, AM. reflexivity.
  Qed.

  Theorem status_after content path : dom content path -> status_dom path = true -> enable c content path <> Refuse ->
    status c (after content (enable c content path)) path = StPresent.
  Proof.
    intros D SD NR. rewrite (enable_is_spec c c_ok content path D) in *.
    assert (D' : dom (after content (enable_spec content path)) path).
    { destruct (enable_spec content path) as [| |new] eqn:E; simpl; try assumption. now destruct (enable_spec_idempotent content path new D E). }
    rewrite (status_is_spec c c_ok _ path D'). now apply status_after_enable.
  Qed.

  Theorem disable_untouched content path : dom content path ->
    (2 <= active_mentions content -> disable c content path = Refuse)
    /\ (active_mentions content < 2 -> has_entry path content = false -> disable c content path = Unchanged)
    /\ (forall new, disable c content path = Write new -> has_entry path content = true /\ active_mentions content < 2).
  Proof.
    intros D. rewrite (disable_is_spec c c_ok content path D). unfold disable_spec. repeat split.
    - intros H. apply Nat.leb_le in H. now rewrite H.
    - intros H HE. apply Nat.leb_gt in H. rewrite H. unfold has_entry in HE. now rewrite (disable_lines_none path _ HE).
    - destruct (2 <=? active_mentions content); [discriminate|].
      destruct (disable_lines path (lines content)) as [ls'|] eqn:E; [|discriminate].
      destruct (disable_lines_inv path _ _ E) as [ls1 [l [ls2 [EL [_ [Hl _]]]]]]. unfold has_entry. rewrite EL, existsb_app. simpl. rewrite Hl. now rewrite orb_true_r.
    - destruct (2 <=? active_mentions content) eqn:A; [discriminate|]. apply Nat.leb_gt in A. lia.
  Qed.

  Theorem disable_lines_preserved content path new : dom content path -> disable c content path = Write new ->
    exists ls1 l ls2, lines content = ls1 ++ l :: ls2
      /\ forallb (fun x => negb (entry_line path x)) ls1 = true /\ entry_line path l = true
      /\ lines new = ls1 ++ match strip_entry path l with Some rest => rest :: ls2 | None => match ls2 with [] => [[]] | _ => ls2 end end.
  Proof.
    intros D H. rewrite (disable_is_spec c c_ok content path D) in H.
    destruct (disable_spec_lines content path new H) as [ls1 [l [ls2 [H1 [H2 [H3 [H4 _]]]]]]]. eauto 8.
  Qed.

  Theorem disable_tokens_preserved content path new : dom content path -> tokenlike path = true -> disable c content path = Write new ->
    exists t1 t2, tokens content = t1 ++ path :: t2 /\ tokens new = t1 ++ t2.
  Proof. intros D T H. rewrite (disable_is_spec c c_ok content path D) in H. now apply tokens_disable. Qed.

  Theorem roundtrip content path new : dom content path -> ends_nl_or_empty content = true ->
    enable c content path = Write new -> disable c new path = Write content.
  Proof.
    intros D EN H. rewrite (enable_is_spec c c_ok content path D) in H.
    destruct (enable_spec_idempotent content path new D H) as [D' _]. rewrite (disable_is_spec c c_ok new path D').
    now apply roundtrip_spec.
  Qed.
End Main.
