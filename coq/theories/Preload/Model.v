(** Model of the ld.so.preload editing of snoopyctl, path by path:
      src/cli/cli-subroutines.c   etcLdSoPreload_findEntry, ..._findNonCommentLineContainingString
      src/cli/action-enable.c     snoopy_cli_action_enable
      src/cli/action-disable.c    snoopy_cli_action_disable
      src/cli/action-status.c     the /etc/ld.so.preload part of snoopy_cli_action_status
      src/util/string.c           snoopy_util_string_getLineLength / copyLineFromContent

    A file content is the NUL-free [list byte] that etcLdSoPreload_readFile returns (an absent file
    reads as the empty content).  Offsets are [nat] (the structural argument of the scans); reading
    at or beyond the end yields NUL, which is what the C code sees (the terminator).  The literals the
    C code compares against are fields of [preload_consts], regenerated from the source on every run. *)
From Snoopy Require Import Lib.CStr Preload.Lines.
Local Open Scope nat_scope.
Local Open Scope list_scope.

Record preload_consts := {
  lib_name     : list byte;   (* SNOOPY_SO_LIBRARY_NAME, the needle of the foreign-instance search *)
  entry_delims : list byte;   (* findEntry: bytes accepted right after the path, besides the terminator *)
  comment_ch   : byte;        (* findNonCommentLine...: first byte of a comment line *)
  dis_blanks   : list byte;   (* disable: bytes skipped after the entry *)
  dis_stops    : list byte;   (* disable: bytes (besides the terminator) after which the whole line goes *)
  enable_guard : bool         (* enable: an active entry next to another active mention is refused (D23) *)
}.

Definition memb (b : byte) (l : list byte) : bool := existsb (beq b) l.
Definition set_eqb (a b : list byte) : bool := forallb (fun x => memb x b) a && forallb (fun x => memb x a) b.

(** "libsnoopy.so" *)
Definition LIB : list byte := [x6c; x69; x62; x73; x6e; x6f; x6f; x70; x79; x2e; x73; x6f].

Definition preload_consts_ok (c : preload_consts) : bool :=
  list_eqb (lib_name c) LIB && set_eqb (entry_delims c) [NL; HASH; SP; TAB] && beq (comment_ch c) HASH
  && set_eqb (dis_blanks c) [SP; TAB] && set_eqb (dis_stops c) [NL; HASH] && enable_guard c.

Inductive outcome := Unchanged | Refuse | Write (new : list byte).
Inductive status_t := StAbsent | StMultiple | StAlien | StPresent.

(** the C read [s[i]] of a NUL-terminated string *)
Definition byte_at (s : list byte) (i : nat) : byte := nth i s NUL.

Section Model.
  Variable c : preload_consts.

  (** ** etcLdSoPreload_findEntry (cli-subroutines.c) *)
  Definition entry_here (content entry : list byte) (f : nat) : bool :=
    ((f =? 0) || beq (byte_at content (f - 1)) NL)
    && (let b := byte_at content (f + length entry) in beq b NUL || memb b (entry_delims c)).

  Fixpoint find_entry_loop (content entry : list byte) (fuel pos : nat) : option nat :=
    match fuel with
    | 0 => None
    | S fuel' =>
      match strstr (skipn pos content) entry with
      | None => None
      | Some k => let f := pos + k in
                  if entry_here content entry f then Some f
                  else find_entry_loop content entry fuel' (f + length entry)
      end
    end.
  Definition find_entry (content entry : list byte) : option nat :=
    find_entry_loop content entry (S (length content)) 0.

  (** ** etcLdSoPreload_findNonCommentLineContainingString *)
  (** the backwards scan: start at the match, step back while above the start of the content and not on a newline *)
  Fixpoint scan_back (content : list byte) (p : nat) : nat :=
    match p with
    | 0 => 0
    | S p' => if beq (byte_at content p) NL then p else scan_back content p'
    end.
  Definition line_start_of (content : list byte) (f : nat) : nat :=
    let p := scan_back content f in if beq (byte_at content p) NL then p + 1 else p.

  Fixpoint find_nc_loop (content needle : list byte) (fuel pos : nat) : option nat :=
    match fuel with
    | 0 => None
    | S fuel' =>
      match strstr (skipn pos content) needle with
      | None => None
      | Some k => let f := pos + k in
                  let ls := line_start_of content f in
                  if negb (beq (byte_at content ls) (comment_ch c)) then Some ls
                  else find_nc_loop content needle fuel' (f + length needle)
      end
    end.
  Definition find_noncomment (content needle : list byte) : option nat :=
    find_nc_loop content needle (S (length content)) 0.

  (** the duplicate test shared by disable, status and (D23) enable: a second search that starts at
      the end of the first line found *)
  Definition second_search (content : list byte) (l1 : nat) : option nat :=
    find_noncomment (skipn (l1 + line_length (skipn l1 content)) content) (lib_name c).
  Definition two_active (content : list byte) : bool :=
    match find_noncomment content (lib_name c) with
    | None => false
    | Some l1 => match second_search content l1 with Some _ => true | None => false end
    end.

  (** ** snoopy_cli_action_enable *)
  Definition enable_content (content path : list byte) : list byte :=
    match content with
    | [] => path ++ [NL]
    | _ => content ++ (if beq (last content NUL) NL then [] else [NL]) ++ path ++ [NL]
    end.
  Definition enable (content path : list byte) : outcome :=
    match find_entry content path with
    | Some _ => if enable_guard c && two_active content then Refuse else Unchanged
    | None => match find_noncomment content (lib_name c) with
              | Some _ => Refuse
              | None => Write (enable_content content path)
              end
    end.

  (** ** snoopy_cli_action_disable *)
  Fixpoint skip_blanks (s : list byte) : list byte :=
    match s with
    | b :: s' => if memb b (dis_blanks c) then skip_blanks s' else s
    | [] => []
    end.
  Definition disable (content path : list byte) : outcome :=
    if two_active content then Refuse else
    match find_entry content path with
    | None => Unchanged
    | Some e =>
      let before := firstn e content in                                (* strncpy(dest, content, entryPtr - content) *)
      let src0 := skip_blanks (skipn (e + length path) content) in
      let b := hd NUL src0 in
      if negb (beq b NUL) && negb (memb b (dis_stops c)) then
        Write (before ++ firstn (length src0) src0)                    (* other entries share the line *)
      else
        let ll := line_length (skipn e content) in                     (* strlen(entryLine) *)
        let src := skipn (e + ll) content in
        let cl := length content - e - ll in
        match src with
        | b' :: src' => if beq b' NL then Write (before ++ firstn (cl - 1) src')
                        else Write (before ++ firstn cl src)
        | [] => Write (before ++ firstn cl src)
        end
    end.

  (** ** snoopy_cli_action_status, the ld.so.preload part *)
  Definition status (content path : list byte) : status_t :=
    match find_noncomment content (lib_name c) with
    | None => StAbsent
    | Some l1 =>
      match second_search content l1 with
      | Some _ => StMultiple
      | None => match find_entry content path with None => StAlien | Some _ => StPresent end
      end
    end.
End Model.

(** * The specification, in terms of lines (no loops, no constants from the source) *)
Definition entry_line (path l : list byte) : bool :=
  prefixb path l && match skipn (length path) l with [] => true | b :: _ => memb b [HASH; SP; TAB] end.
Definition mention_line (l : list byte) : bool :=
  negb (beq (hd NUL l) HASH) && match strstr l LIB with Some _ => true | None => false end.

Definition has_entry (path content : list byte) : bool := existsb (entry_line path) (lines content).
Definition active_mentions (content : list byte) : nat := length (filter mention_line (lines content)).
Definition nl_if_missing (content : list byte) : list byte :=
  match content with [] => [] | _ => if beq (last content NUL) NL then [] else [NL] end.

Definition enable_spec (content path : list byte) : outcome :=
  if has_entry path content then (if 2 <=? active_mentions content then Refuse else Unchanged)
  else if 1 <=? active_mentions content then Refuse
  else Write (content ++ nl_if_missing content ++ path ++ [NL]).

Definition status_spec (content path : list byte) : status_t :=
  match active_mentions content with
  | 0 => StAbsent
  | 1 => if has_entry path content then StPresent else StAlien
  | _ => StMultiple
  end.

(** the domain of C18/C19 (DESIGN 10): contents without NUL, library path non-empty, newline- and NUL-free *)
Definition dom (content path : list byte) : Prop := nonul content /\ path <> [] /\ nlfree path /\ nonul path.
Definition domb (content path : list byte) : bool :=
  nonulb content && negb (list_eqb path []) && negb (memb NL path) && nonulb path.
