(** C18 / C19: the model of enable, disable and status equals the line-level specification
    (for every content without NUL and every non-empty newline-free path), and what follows from it. *)
From Snoopy Require Import Lib.CStr Preload.Lines Preload.Model Preload.Exec Preload.FindProofs.
Local Open Scope nat_scope.

Definition is_some {A} (o : option A) : bool := match o with Some _ => true | None => false end.

Lemma is_some_first_line P s : is_some (first_line P s) = existsb P (lines s).
Proof.
  destruct (first_line P s) eqn:E; simpl.
  - symmetry. apply first_line_some_iff. eauto.
  - symmetry. now apply first_line_none.
Qed.
Lemma count_ge1 {A} (P : A -> bool) l : (1 <=? length (filter P l)) = existsb P l.
Proof. induction l as [|x l IH]; simpl; [reflexivity|]. destruct (P x); simpl; [reflexivity|assumption]. Qed.
Lemma filter_none {A} (P : A -> bool) l : forallb (fun x => negb (P x)) l = true -> filter P l = [].
Proof. induction l as [|x l IH]; simpl; [reflexivity|]. destruct (P x); simpl; [discriminate|assumption]. Qed.
Lemma existsb_none {A} (P : A -> bool) l : forallb (fun x => negb (P x)) l = true -> existsb P l = false.
Proof. induction l as [|x l IH]; simpl; [reflexivity|]. destruct (P x); simpl; [discriminate|assumption]. Qed.

(** the rest of the content after the line [l], when the lines [ls2] follow *)
Definition tail_of (ls2 : list (list byte)) : list byte := match ls2 with [] => [] | _ => NL :: join [NL] ls2 end.
Lemma join_cons_tail l ls2 : join [NL] (l :: ls2) = l ++ tail_of ls2.
Proof. destruct ls2; simpl; [now rewrite app_nil_r|reflexivity]. Qed.
Lemma take_line_tail l ls2 : nlfree l -> take_line (l ++ tail_of ls2) = l.
Proof.
  intros H. destruct ls2; simpl tail_of.
  - rewrite app_nil_r. now destruct (take_line_free l H).
  - now destruct (take_line_app_nl l (join [NL] (l0 :: ls2)) H).
Qed.
Lemma lines_tail ls2 : Forall nlfree ls2 -> existsb mention_line (lines (tail_of ls2)) = existsb mention_line ls2.
Proof.
  intros F. destruct ls2 as [|x r]; [reflexivity|]. unfold tail_of.
  change (NL :: join [NL] (x :: r)) with ([] ++ NL :: join [NL] (x :: r)). rewrite lines_app_nl by apply nlfree_nil.
  rewrite lines_of_join; [reflexivity|discriminate|assumption].
Qed.

Section Spec.
  Variable c : preload_consts.
  Hypothesis c_ok : preload_consts_ok c = true.

  Lemma c_lib : lib_name c = LIB.
  Proof. unfold preload_consts_ok in c_ok. repeat (apply andb_true_iff in c_ok as [c_ok ?]). apply list_eqb_eq. unfold list_eqb. apply andb_true_iff. split; assumption. Qed.
  Lemma c_guard : enable_guard c = true.
  Proof. unfold preload_consts_ok in c_ok. repeat (apply andb_true_iff in c_ok as [c_ok ?]). assumption. Qed.

  (** ** the duplicate test *)
  Lemma second_spec content l1 : nonul content -> first_line mention_line content = Some l1 ->
    1 <= active_mentions content /\ is_some (second_search c content l1) = (2 <=? active_mentions content).
  Proof.
    intros Hn E. destruct (first_line_decomp _ _ _ E) as [ls1 [l [ls2 [EL [Pl [N1 [Hl [F S]]]]]]]].
    pose proof (lines_nlfree content) as NF. rewrite EL in NF. apply Forall_app in NF as [_ NF]. inversion NF as [|? ? Hnl NF2]; subst x l0.
    assert (AM : active_mentions content = 1 + length (filter mention_line ls2)).
    { unfold active_mentions. rewrite EL, filter_app, (filter_none _ _ N1). simpl. now rewrite Pl. }
    split; [lia|]. unfold second_search. rewrite c_lib, S, join_cons_tail.
    rewrite line_length_take, take_line_tail by assumption.
    replace (l1 + length l) with (length l + l1) by lia. rewrite <- skipn_skipn, S, join_cons_tail, skipn_app, skipn_all, Nat.sub_diag. simpl.
    rewrite (noncomment_spec c c_ok), is_some_first_line, lines_tail by assumption.
    rewrite AM, <- count_ge1. destruct (length (filter mention_line ls2)); reflexivity.
  Qed.

  Lemma two_active_spec content : nonul content -> two_active c content = (2 <=? active_mentions content).
  Proof.
    intros Hn. unfold two_active. rewrite c_lib, (noncomment_spec c c_ok).
    destruct (first_line mention_line content) as [l1|] eqn:E.
    - destruct (second_spec content l1 Hn E) as [_ H]. rewrite <- H. now destruct (second_search c content l1).
    - apply first_line_none in E. unfold active_mentions.
      assert (Z : length (filter mention_line (lines content)) = 0).
      { pose proof (count_ge1 mention_line (lines content)) as C. rewrite E in C. destruct (filter mention_line (lines content)); [reflexivity|discriminate]. }
      now rewrite Z.
  Qed.

  (** ** C18: enable *)
  Theorem enable_is_spec content path : dom content path -> enable c content path = enable_spec content path.
  Proof.
    intros D. pose proof D as [Dn _]. unfold enable, enable_spec.
    rewrite (find_entry_spec c c_ok content path D), c_lib, (noncomment_spec c c_ok), c_guard, (two_active_spec content Dn).
    unfold has_entry. rewrite <- is_some_first_line.
    destruct (first_line (entry_line path) content) as [e|]; cbn [is_some andb]; [reflexivity|].
    unfold active_mentions. rewrite count_ge1, <- is_some_first_line.
    destruct (first_line mention_line content); cbn [is_some]; [reflexivity|].
    f_equal. unfold enable_content, nl_if_missing. destruct content; reflexivity.
  Qed.

  (** ** status *)
  Theorem status_is_spec content path : dom content path -> status c content path = status_spec content path.
  Proof.
    intros D. pose proof D as [Dn _]. unfold status, status_spec.
    rewrite (find_entry_spec c c_ok content path D), c_lib, (noncomment_spec c c_ok).
    destruct (first_line mention_line content) as [l1|] eqn:E.
    - destruct (second_spec content l1 Dn E) as [H1 H2]. unfold has_entry. rewrite <- is_some_first_line.
      destruct (second_search c content l1); simpl in H2.
      + destruct (active_mentions content) as [|[|k]]; [lia|discriminate|reflexivity].
      + destruct (active_mentions content) as [|[|k]]; [lia| |discriminate].
        now destruct (first_line (entry_line path) content).
    - apply first_line_none in E. unfold active_mentions.
      pose proof (count_ge1 mention_line (lines content)) as C. rewrite E in C.
      destruct (filter mention_line (lines content)); [reflexivity|discriminate].
  Qed.

  (** ** C19: disable *)
  Lemma c_blank b : memb b (dis_blanks c) = is_blank b.
  Proof. destruct (consts_fields c c_ok) as [_ [_ [_ [H _]]]]. rewrite H. unfold memb, is_blank. simpl. now rewrite orb_false_r. Qed.
  Lemma c_stop b : memb b (dis_stops c) = (beq b NL || beq b HASH).
  Proof. destruct (consts_fields c c_ok) as [_ [_ [_ [_ [H _]]]]]. rewrite H. unfold memb. simpl. now rewrite orb_false_r. Qed.

  Lemma skip_blanks_app t T : is_blank (hd NUL T) = false -> skip_blanks c (t ++ T) = drop_blanks t ++ T.
  Proof.
    intros H. induction t as [|b t IH]; simpl.
    - destruct T as [|b r]; [reflexivity|]. simpl in *. now rewrite c_blank, H.
    - rewrite c_blank. destruct (is_blank b); [assumption|reflexivity].
  Qed.

  Lemma disable_lines_decomp path ls1 l ls2 : forallb (fun x => negb (entry_line path x)) ls1 = true -> entry_line path l = true ->
    disable_lines path (ls1 ++ l :: ls2) =
      Some (ls1 ++ match strip_entry path l with Some rest => rest :: ls2 | None => match ls2 with [] => [[]] | _ => ls2 end end).
  Proof.
    intros N E. induction ls1 as [|x ls1 IH]; simpl.
    - now rewrite E.
    - simpl in N. apply andb_true_iff in N as [N1 N2]. apply negb_true_iff in N1. rewrite N1, (IH N2). reflexivity.
  Qed.
  Lemma disable_lines_none path ls : existsb (entry_line path) ls = false -> disable_lines path ls = None.
  Proof.
    induction ls as [|x ls IH]; simpl; [reflexivity|]. destruct (entry_line path x); simpl; [discriminate|]. intros H. now rewrite IH.
  Qed.

  Lemma drop_blanks_hd t b r : drop_blanks t = b :: r -> is_blank b = false /\ In b t.
  Proof.
    induction t as [|x t IH]; simpl; [discriminate|]. destruct (is_blank x) eqn:E.
    - intros H. destruct (IH H). auto.
    - intros H. injection H as -> ->. auto.
  Qed.

  Theorem disable_is_spec content path : dom content path -> disable c content path = disable_spec content path.
  Proof.
    intros D. pose proof D as [Dn [Dp [Dl Dz]]]. unfold disable, disable_spec.
    rewrite (two_active_spec content Dn). destruct (2 <=? active_mentions content); [reflexivity|].
    rewrite (find_entry_spec c c_ok content path D).
    destruct (first_line (entry_line path) content) as [e|] eqn:E.
    2:{ apply first_line_none in E. now rewrite (disable_lines_none path _ E). }
    destruct (first_line_decomp _ _ _ E) as [ls1 [l [ls2 [EL [Pl [N1 [He [F S]]]]]]]].
    rewrite EL, (disable_lines_decomp path ls1 l ls2 N1 Pl), F.
    pose proof (lines_nlfree content) as NF. rewrite EL in NF. apply Forall_app in NF as [_ NF]. inversion NF as [|? ? Hnl NF2]; subst x l0.
    assert (CE : content = unlines ls1 ++ l ++ tail_of ls2).
    { rewrite <- (firstn_skipn e content) at 1. now rewrite F, S, join_cons_tail. }
    set (t := skipn (length path) l).
    assert (Lp : l = path ++ t).
    { unfold entry_line in Pl. apply andb_true_iff in Pl as [Pl _]. now apply prefixb_split. }
    assert (HT : is_blank (hd NUL (tail_of ls2)) = false) by (destruct ls2; reflexivity).
    assert (S0 : skip_blanks c (skipn (e + length path) content) = drop_blanks t ++ tail_of ls2).
    { replace (e + length path) with (length path + e) by lia. rewrite <- skipn_skipn, S, join_cons_tail.
      rewrite Lp at 1. rewrite <- app_assoc, skipn_app, skipn_all, Nat.sub_diag. simpl. now apply skip_blanks_app. }
    assert (LL : line_length (skipn e content) = length l).
    { rewrite S, join_cons_tail, line_length_take, take_line_tail by assumption. reflexivity. }
    assert (SR : skipn (e + length l) content = tail_of ls2).
    { replace (e + length l) with (length l + e) by lia. rewrite <- skipn_skipn, S, join_cons_tail, skipn_app, skipn_all, Nat.sub_diag. reflexivity. }
    assert (CL : length content - e - length l = length (tail_of ls2)).
    { rewrite CE at 1. rewrite !app_length, He. lia. }
    cbv zeta. rewrite S0, LL, SR, CL. unfold strip_entry. fold t.
    assert (WHOLE : (match tail_of ls2 with
                     | b' :: src' => if beq b' NL then Write (unlines ls1 ++ firstn (length (tail_of ls2) - 1) src')
                                     else Write (unlines ls1 ++ firstn (length (tail_of ls2)) (tail_of ls2))
                     | [] => Write (unlines ls1 ++ firstn (length (tail_of ls2)) (tail_of ls2))
                     end) = Write (join [NL] (ls1 ++ match ls2 with [] => [[]] | _ => ls2 end))).
    { destruct ls2 as [|x r].
      - simpl. rewrite join_unlines by discriminate. reflexivity.
      - unfold tail_of. rewrite beq_refl.
        replace (length (NL :: join [NL] (x :: r)) - 1) with (length (join [NL] (x :: r))) by (simpl; lia).
        rewrite firstn_all. rewrite join_unlines by discriminate. reflexivity. }
    destruct (drop_blanks t) as [|b r] eqn:DB.
    - (* nothing but blanks after the entry *)
      simpl app.
      assert (CND : negb (beq (hd NUL (tail_of ls2)) NUL) && negb (memb (hd NUL (tail_of ls2)) (dis_stops c)) = false).
      { destruct ls2; simpl; [reflexivity|]. rewrite c_stop. reflexivity. }
      rewrite CND. exact WHOLE.
    - destruct (drop_blanks_hd t b r DB) as [B1 B2].
      assert (Bl : In b l) by (rewrite Lp; apply in_or_app; now right).
      assert (Bnul : beq b NUL = false).
      { apply beq_neq. intros ->. apply Dn. rewrite CE. apply in_or_app. right. apply in_or_app. now left. }
      assert (Bnl : beq b NL = false) by (apply beq_neq; intros ->; now apply Hnl).
      simpl hd. rewrite Bnul, c_stop, Bnl. simpl. destruct (beq b HASH) eqn:BH; simpl.
      + exact WHOLE.
      + rewrite firstn_all. f_equal. rewrite join_unlines by discriminate. now rewrite join_cons_tail.
  Qed.
End Spec.
