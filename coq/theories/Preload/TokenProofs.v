(** C19, token level: disable takes exactly one token - the library path - out of the token sequence
    of the file (whitespace-separated fields before '#', line by line, in file order). *)
From Snoopy Require Import Lib.CStr Preload.Lines Preload.Model Preload.Exec Preload.FindProofs Preload.Proofs Preload.Derived.
Local Open Scope nat_scope.

(** * split_on, any separator *)
Lemma split_on_app_sep c x y : split_on c (x ++ c :: y) = split_on c x ++ split_on c y.
Proof.
  induction x as [|b x IH]; simpl.
  - now rewrite beq_refl.
  - destruct (beq b c); [now rewrite IH|]. rewrite IH.
    pose proof (split_on_nonnil c x) as NN. destruct (split_on c x) as [|f fs]; [congruence|reflexivity].
Qed.
Lemma split_on_free c l : ~ In c l -> split_on c l = [l].
Proof.
  induction l as [|b l IH]; simpl; [reflexivity|]. intros H.
  assert (E : beq b c = false) by (apply beq_neq; intros ->; apply H; now left). rewrite E, IH; [reflexivity|]. intros F. apply H. now right.
Qed.

Lemma memb_In b l : memb b l = true <-> In b l.
Proof.
  unfold memb. rewrite existsb_exists. split.
  - intros [x [H E]]. apply beq_eq in E. now subst.
  - intros H. exists b. split; [assumption|apply beq_refl].
Qed.
Lemma memb_false b l : memb b l = false -> ~ In b l.
Proof. intros H F. apply memb_In in F. congruence. Qed.

(** * tokens of one line *)
Lemma strip_comment_app p x : ~ In HASH p -> strip_comment (p ++ x) = p ++ strip_comment x.
Proof.
  induction p as [|b p IH]; simpl; [reflexivity|]. intros H.
  assert (E : beq b HASH = false) by (apply beq_neq; intros ->; apply H; now left). rewrite E, IH; [reflexivity|]. intros F. apply H. now right.
Qed.
Lemma map_tab_id p : ~ In TAB p -> map tab_to_sp p = p.
Proof.
  induction p as [|b p IH]; simpl; [reflexivity|]. intros H. unfold tab_to_sp at 1.
  assert (E : beq b TAB = false) by (apply beq_neq; intros ->; apply H; now left). rewrite E, IH; [reflexivity|]. intros F. apply H. now right.
Qed.
Lemma blanks_no_hash bl : forallb is_blank bl = true -> ~ In HASH bl.
Proof.
  induction bl as [|b bl IH]; simpl; [tauto|]. intros H. apply andb_true_iff in H as [H1 H2]. intros [F|F]; [subst; discriminate|now apply IH].
Qed.
Lemma map_blanks bl : forallb is_blank bl = true -> map tab_to_sp bl = repeat SP (length bl).
Proof.
  induction bl as [|b bl IH]; simpl; [reflexivity|]. intros H. apply andb_true_iff in H as [H1 H2]. rewrite IH by assumption. f_equal.
  unfold is_blank in H1. unfold tab_to_sp. apply orb_true_iff in H1 as [H1|H1]; apply beq_eq in H1; subst; reflexivity.
Qed.
Lemma fields_lead_sp k z : filter nonempty (split_on SP (repeat SP k ++ z)) = filter nonempty (split_on SP z).
Proof. induction k as [|k IH]; simpl; [reflexivity|]. exact IH. Qed.

Lemma line_tokens_entry path bl rest : tokenlike path = true -> forallb is_blank bl = true ->
  (bl <> [] \/ strip_comment rest = []) -> line_tokens (path ++ bl ++ rest) = path :: line_tokens rest.
Proof.
  unfold tokenlike. intros T Hb Hc. repeat (apply andb_true_iff in T as [T ?]).
  repeat match goal with H : negb _ = true |- _ => apply negb_true_iff in H; apply memb_false in H end.
  unfold line_tokens. rewrite strip_comment_app by assumption. rewrite strip_comment_app by now apply blanks_no_hash.
  rewrite !map_app, (map_tab_id path) by assumption. rewrite (map_blanks bl Hb).
  assert (NE : nonempty path = true) by assumption.
  destruct bl as [|b bl'].
  - destruct Hc as [Hc|Hc]; [congruence|]. rewrite Hc. simpl. rewrite app_nil_r, split_on_free by assumption. simpl. now rewrite NE.
  - simpl repeat. simpl app. rewrite split_on_app_sep, split_on_free by assumption. simpl. rewrite NE. f_equal. apply fields_lead_sp.
Qed.

Lemma line_tokens_nil : line_tokens [] = [].
Proof. reflexivity. Qed.
Lemma strip_comment_cm cm : cm = [] \/ hd NUL cm = HASH -> strip_comment cm = [].
Proof. intros [->|H]; [reflexivity|]. destruct cm; [reflexivity|]. simpl in *. subst. reflexivity. Qed.

(** * the statement *)
Theorem tokens_disable content path new : tokenlike path = true -> disable_spec content path = Write new ->
  exists t1 t2, tokens content = t1 ++ path :: t2 /\ tokens new = t1 ++ t2.
Proof.
  intros T H. destruct (disable_spec_lines content path new H) as [ls1 [l [ls2 [EL [N1 [Pl [ELn _]]]]]]].
  destruct (strip_entry_shape path l Pl) as [bl [Hb SH]].
  unfold tokens. rewrite EL, ELn, !flat_map_app. simpl flat_map.
  exists (flat_map line_tokens ls1). destruct (strip_entry path l) as [rest|].
  - destruct SH as [-> [BN [_ [_ _]]]]. exists (line_tokens rest ++ flat_map line_tokens ls2). split.
    + rewrite line_tokens_entry by auto. reflexivity.
    + reflexivity.
  - destruct SH as [cm [-> CM]]. exists (flat_map line_tokens ls2). split.
    + rewrite line_tokens_entry by (auto using strip_comment_cm). unfold line_tokens at 2. rewrite (strip_comment_cm cm CM). reflexivity.
    + destruct ls2; reflexivity.
Qed.

(** * the boolean checker of Exec.v says exactly this *)
Lemma lists_eqb_eq a b : lists_eqb a b = true <-> a = b.
Proof.
  revert b; induction a as [|x a IH]; intros [|y b]; simpl; try (split; [discriminate|congruence]); [tauto|].
  rewrite andb_true_iff, list_eqb_eq, IH. split; [intros [-> ->]; reflexivity|intros H; injection H; auto].
Qed.
Lemma removed_one_spec t a b : removed_one t a b = true <-> exists t1 t2, a = t1 ++ t :: t2 /\ b = t1 ++ t2.
Proof.
  revert b; induction a as [|x a IH]; intros b; simpl.
  - split; [discriminate|]. intros [t1 [t2 [H _]]]. destruct t1; discriminate.
  - rewrite orb_true_iff, andb_true_iff, list_eqb_eq, lists_eqb_eq. split.
    + intros [[-> ->]|H]; [exists [], b; auto|]. destruct b as [|y b]; [discriminate|].
      apply andb_true_iff in H as [H1 H2]. apply list_eqb_eq in H1. subst y. apply IH in H2 as [t1 [t2 [-> ->]]].
      exists (x :: t1), t2. auto.
    + intros [t1 [t2 [H1 H2]]]. destruct t1 as [|z t1]; simpl in *.
      * injection H1 as -> ->. subst. now left.
      * injection H1 as -> ->. subst b. right. rewrite list_eqb_refl. simpl. apply IH. eauto.
Qed.
