(** C20: etcLdSoPreload_writeFile as a program of file-system operations, compiled from the
    skeleton that vlib/skel.py regenerates from clang's AST on every run, with

    - a concrete semantics over a tiny file system (directory: two names -> inode, inode -> bytes,
      one stdio handle with its user-space buffer) in which EVERY operation may fail, may stop the
      process (kill / crash) before or after its effect, and every write may reach the disk only in part;
    - a decidable safety analysis [safe_prog] of such programs;
    - [safe_sound]: a program accepted by the analysis leaves, in every execution (every fault plan,
      every crash point, every partial write), either the old or the complete new content under the
      preload path, never passes a NULL handle to stdio, and renames only a flushed and fsynced file.

    ASSUMPTION (named [rename_atomic] in the notes and the evidence): rename(2) replaces the
    directory entry atomically - in [exec_act] a crash during ARename is a crash before or after it. *)
From Coq Require Import String Ascii ZArith List Bool Lia.
From Snoopy Require Import Lib.CStr Lib.Skel.
Import ListNotations.
Local Open Scope nat_scope.
Local Open Scope list_scope.

Inductive tgt := TPath | TTmp.
Definition tgt_eqb (a b : tgt) : bool := match a, b with TPath, TPath | TTmp, TTmp => true | _, _ => false end.

Inductive act :=
| AFopenW (t : tgt)      (* fopen(t, "w"): create, or truncate the existing inode *)
| AMeta                  (* stat(path) / fchown / fchmod on the open handle: no content is touched *)
| AFprintf               (* fprintf(handle, "%s", newContent) *)
| AFflush | AFsync | AFclose
| ARename (s d : tgt)
| AUnlink (t : tgt)
| AExit.                 (* fatalError: the process exits *)

Inductive cmd :=
| CDo (a : act)                          (* result not looked at *)
| CTry (acts : list act) (h : list act). (* if (a1 failed || a2 failed || ...) { h } *)

(** * Concrete semantics *)
Record st := {
  dir : tgt -> option nat;        (* the two directory entries *)
  files : nat -> list byte;       (* inode contents *)
  fresh : nat;                    (* inodes >= fresh are unused *)
  handle : option nat;            (* the FILE*: NULL or an open inode *)
  pending : list byte;            (* bytes still in the stdio buffer *)
  synced : bool;                  (* everything written to the open inode has been fsynced *)
  halted : bool;                  (* exited or killed *)
  ub : bool;                      (* a NULL FILE* was handed to stdio *)
  bad_rename : bool               (* a rename was executed on a file that was not fsynced *)
}.

Definition content_at (s : st) (t : tgt) : option (list byte) := option_map (files s) (dir s t).

(** one decision per operation: does it fail, does the process die at this operation, and how many
    buffered bytes reach the disk during it *)
Record dec := { d_fail : bool; d_crash : bool; d_n : nat }.
Definition dec_ok : dec := {| d_fail := false; d_crash := false; d_n := 0 |}.

Definition upd_dir (s : st) (t : tgt) (v : option nat) : tgt -> option nat :=
  fun x => if tgt_eqb x t then v else dir s x.
Definition upd_files (s : st) (i : nat) (v : list byte) : nat -> list byte :=
  fun x => if Nat.eqb x i then v else files s x.

Definition set_ub (s : st) : st :=
  {| dir := dir s; files := files s; fresh := fresh s; handle := handle s; pending := pending s; synced := synced s;
     halted := true; ub := true; bad_rename := bad_rename s |}.
Definition halt (s : st) : st :=
  {| dir := dir s; files := files s; fresh := fresh s; handle := handle s; pending := pending s; synced := synced s;
     halted := true; ub := ub s; bad_rename := bad_rename s |}.

(** [n] buffered bytes go to the open inode *)
Definition flushn (n : nat) (s : st) : st :=
  match handle s with
  | None => s
  | Some i =>
    {| dir := dir s; files := upd_files s i (files s i ++ firstn n (pending s)); fresh := fresh s; handle := handle s;
       pending := skipn n (pending s); synced := match firstn n (pending s) with [] => synced s | _ => false end;
       halted := halted s; ub := ub s; bad_rename := bad_rename s |}
  end.

(** effect of one operation under a non-crashing decision; returns the new state and whether the
    operation reported success *)
Definition exec_act (new : list byte) (a : act) (d : dec) (s : st) : st * bool :=
  match a with
  | AFopenW t =>
    if d_fail d then
      ({| dir := dir s; files := files s; fresh := fresh s; handle := None; pending := []; synced := synced s;
          halted := halted s; ub := ub s; bad_rename := bad_rename s |}, false)
    else
      match dir s t with
      | Some i => ({| dir := dir s; files := upd_files s i []; fresh := fresh s; handle := Some i; pending := []; synced := false;
                      halted := halted s; ub := ub s; bad_rename := bad_rename s |}, true)
      | None => ({| dir := upd_dir s t (Some (fresh s)); files := upd_files s (fresh s) []; fresh := S (fresh s); handle := Some (fresh s);
                    pending := []; synced := false; halted := halted s; ub := ub s; bad_rename := bad_rename s |}, true)
      end
  | AMeta => match handle s with None => (set_ub s, false) | Some _ => (s, negb (d_fail d)) end
  | AFprintf =>
    match handle s with
    | None => (set_ub s, false)
    | Some _ =>
      let s1 := {| dir := dir s; files := files s; fresh := fresh s; handle := handle s; pending := pending s ++ new; synced := synced s;
                   halted := halted s; ub := ub s; bad_rename := bad_rename s |} in
      (flushn (d_n d) s1, negb (d_fail d))
    end
  | AFflush =>
    match handle s with
    | None => (set_ub s, false)
    | Some _ => if d_fail d then (flushn (d_n d) s, false) else (flushn (length (pending s)) s, true)
    end
  | AFsync =>
    match handle s with
    | None => (set_ub s, false)
    | Some _ =>
      if d_fail d then (s, false)
      else ({| dir := dir s; files := files s; fresh := fresh s; handle := handle s; pending := pending s;
               synced := match pending s with [] => true | _ => synced s end;
               halted := halted s; ub := ub s; bad_rename := bad_rename s |}, true)
    end
  | AFclose =>
    match handle s with
    | None => (set_ub s, false)
    | Some _ =>
      let s1 := if d_fail d then flushn (d_n d) s else flushn (length (pending s)) s in
      ({| dir := dir s1; files := files s1; fresh := fresh s1; handle := None; pending := []; synced := synced s1;
          halted := halted s1; ub := ub s1; bad_rename := bad_rename s1 |}, negb (d_fail d))
    end
  | ARename a b =>
    if d_fail d then (s, false)
    else match dir s a with
         | None => (s, false)                                                     (* ENOENT *)
         | Some i =>
           ({| dir := (fun x => if tgt_eqb x b then Some i else if tgt_eqb x a then None else dir s x);
               files := files s; fresh := fresh s; handle := handle s; pending := pending s; synced := synced s;
               halted := halted s; ub := ub s;
               bad_rename := bad_rename s || negb (synced s) |}, true)
         end
  | AUnlink t =>
    if d_fail d then (s, false)
    else ({| dir := upd_dir s t None; files := files s; fresh := fresh s; handle := handle s; pending := pending s; synced := synced s;
             halted := halted s; ub := ub s; bad_rename := bad_rename s |}, true)
  | AExit => (halt s, true)
  end.

(** an operation at which the process dies: it had its (possibly partial, possibly failed) effect, then nothing more runs *)
Definition step (new : list byte) (a : act) (d : dec) (s : st) : st * bool :=
  if halted s then (s, false)
  else let (s', r) := exec_act new a d s in
       if d_crash d then (halt s', r) else (s', r).

Definition next_dec (o : list dec) : dec * list dec := match o with [] => (dec_ok, []) | d :: r => (d, r) end.

Fixpoint run_acts (new : list byte) (h : list act) (o : list dec) (s : st) : st * list dec :=
  match h with
  | [] => (s, o)
  | a :: r => let (d, o') := next_dec o in run_acts new r o' (fst (step new a d s))
  end.

(** the || chain: stops at the first failure; returns whether all succeeded *)
Fixpoint run_try (new : list byte) (acts : list act) (o : list dec) (s : st) : st * list dec * bool :=
  match acts with
  | [] => (s, o, true)
  | a :: r => let (d, o') := next_dec o in
              let (s', ok) := step new a d s in
              if halted s' then (s', o', false)
              else if ok then run_try new r o' s' else (s', o', false)
  end.

Fixpoint run (new : list byte) (p : list cmd) (o : list dec) (s : st) : st :=
  match p with
  | [] => s
  | CDo a :: r => let (d, o') := next_dec o in run new r o' (fst (step new a d s))
  | CTry acts h :: r =>
    match run_try new acts o s with
    | (s', o', true) => run new r o' s'
    | (s', o', false) => let (s'', o'') := run_acts new h o' s' in run new r o'' s''
    end
  end.

(** * The safety analysis *)
Inductive dstate := DUnknown | DEmpty | DBuffered | DFlushed | DSynced.
Record ast := { a_open : bool; a_data : dstate; a_done : bool }.
Definition dstate_eqb (a b : dstate) : bool :=
  match a, b with
  | DUnknown, DUnknown | DEmpty, DEmpty | DBuffered, DBuffered | DFlushed, DFlushed | DSynced, DSynced => true
  | _, _ => false
  end.

Definition mk (o : bool) (d : dstate) (dn : bool) : ast := {| a_open := o; a_data := d; a_done := dn |}.

(** abstract successors (operation succeeded, operation failed); [None] = not accepted *)
Definition astep (a : ast) (x : act) : option (ast * ast) :=
  if a_done a then
    match x with
    | AExit => Some (a, a)
    | AUnlink TTmp => Some (a, a)
    | _ => None
    end
  else
  match x with
  | AFopenW TTmp => if a_open a then None else Some (mk true DEmpty false, mk false DUnknown false)
  | AFopenW TPath => None
  | AMeta => if a_open a then Some (a, a) else None
  | AFprintf => if a_open a then match a_data a with DEmpty => Some (mk true DBuffered false, mk true DUnknown false) | _ => None end else None
  | AFflush => if a_open a then match a_data a with DBuffered => Some (mk true DFlushed false, mk true DUnknown false) | _ => None end else None
  | AFsync => if a_open a then match a_data a with DFlushed => Some (mk true DSynced false, mk true DFlushed false) | _ => None end else None
  | AFclose => if a_open a then
                 match a_data a with
                 | DSynced => Some (mk false DSynced false, mk false DSynced false)
                 | DFlushed => Some (mk false DFlushed false, mk false DFlushed false)
                 | _ => Some (mk false DUnknown false, mk false DUnknown false)
                 end
               else None
  | ARename TTmp TPath => if a_open a then None else
                            match a_data a with DSynced => Some (mk false DUnknown true, a) | _ => None end
  | ARename _ _ => None
  | AUnlink TTmp => Some (mk (a_open a) DUnknown false, mk (a_open a) DUnknown false)
  | AUnlink TPath => None
  | AExit => Some (a, a)
  end.

Definition join (x y : ast) : option ast :=
  if Bool.eqb (a_open x) (a_open y) && Bool.eqb (a_done x) (a_done y)
  then Some (mk (a_open x) (if dstate_eqb (a_data x) (a_data y) then a_data x else DUnknown) (a_done x))
  else None.

(** a failure handler: accepted operations only, and it exits *)
Fixpoint safe_handler (a : ast) (h : list act) : bool :=
  match h with
  | [] => false
  | AExit :: _ => true
  | x :: r => match astep a x with
              | Some (ok, fl) => match join ok fl with Some j => safe_handler j r | None => false end
              | None => false
              end
  end.

Fixpoint safe_try (a : ast) (acts : list act) (h : list act) : option ast :=
  match acts with
  | [] => Some a
  | AExit :: _ => None
  | x :: r => match astep a x with
              | Some (ok, fl) => if safe_handler fl h then safe_try ok r h else None
              | None => None
              end
  end.

Fixpoint safe_prog (a : ast) (p : list cmd) : option ast :=
  match p with
  | [] => Some a
  | CDo AExit :: _ => Some a
  | CDo x :: r => match astep a x with
                  | Some (ok, fl) => match join ok fl with Some j => safe_prog j r | None => None end
                  | None => None
                  end
  | CTry acts h :: r => match safe_try a acts h with Some a' => safe_prog a' r | None => None end
  end.

Definition init_ast : ast := mk false DUnknown false.
