(** Soundness of the safety analysis of Preload/WriteFile.v: C20 in general form. *)
From Coq Require Import String ZArith List Bool Lia.
From Snoopy Require Import Lib.CStr Lib.Skel Preload.WriteFile.
Import ListNotations.
Local Open Scope nat_scope.
Local Open Scope list_scope.

Section Sound.
  Variable new : list byte.
  Variable orig : option (list byte).      (* what the preload path held before: None = no such file *)

  Definition good (s : st) : Prop :=
    ub s = false /\ bad_rename s = false /\ (content_at s TPath = orig \/ content_at s TPath = Some new).

  Definition data_rel (o : bool) (d : dstate) (s : st) : Prop :=
    match d with
    | DUnknown => True
    | DEmpty => exists i, handle s = Some i /\ dir s TTmp = Some i /\ files s i = [] /\ pending s = []
    | DBuffered => exists i, handle s = Some i /\ dir s TTmp = Some i /\ files s i ++ pending s = new
    | DFlushed => exists i, dir s TTmp = Some i /\ files s i = new /\ pending s = [] /\ (o = true -> handle s = Some i)
    | DSynced => exists i, dir s TTmp = Some i /\ files s i = new /\ pending s = [] /\ (o = true -> handle s = Some i) /\ synced s = true
    end.

  Definition R (a : ast) (s : st) : Prop :=
    ub s = false /\ bad_rename s = false /\
    if a_done a then content_at s TPath = Some new /\ handle s = None
    else content_at s TPath = orig
         /\ (forall i, dir s TPath = Some i -> dir s TTmp <> Some i /\ handle s <> Some i /\ i < fresh s)
         /\ (forall j, dir s TTmp = Some j -> j < fresh s)
         /\ (forall j, handle s = Some j -> j < fresh s)
         /\ (a_open a = true -> handle s <> None) /\ (a_open a = false -> handle s = None)
         /\ data_rel (a_open a) (a_data a) s.

  Lemma R_good a s : R a s -> good s.
  Proof.
    unfold R, good. intros [H1 [H2 H3]]. split; [assumption|split; [assumption|]].
    destruct (a_done a); [right; tauto|left; tauto].
  Qed.
  Lemma R_halt a s : R a s -> R a (halt s).
  Proof. unfold R. destruct a as [o d dn]; destruct dn, d; simpl; auto. Qed.
  Lemma good_halt s : good s -> good (halt s).
  Proof. unfold good. simpl. auto. Qed.

  Lemma nat_eqb_neq a b : a <> b -> Nat.eqb a b = false.
  Proof. intros H. now apply Nat.eqb_neq. Qed.

  Ltac inv H := inversion H; subst; clear H.
  Ltac usep :=
    match goal with
    | HP : (forall i, dir ?s TPath = Some i -> _), Hx : dir ?s TPath = Some ?p |- _ =>
      let Q1 := fresh "Q" in let Q2 := fresh "Q" in let Q3 := fresh "Q" in destruct (HP p Hx) as [Q1 [Q2 Q3]]
    end.
  Ltac mkR := unfold R; simpl; split; [|split; [|split; [|split; [|split; [|split; [|split; [|split]]]]]]]; try solve [auto]; try discriminate.
  Ltac fin := repeat split; intros; try assumption; try discriminate; try reflexivity; try solve [eauto 3]; try (usep; try assumption; try congruence; try lia); try congruence.

  Lemma flushn_fields n s i : handle s = Some i ->
    dir (flushn n s) = dir s /\ fresh (flushn n s) = fresh s /\ handle (flushn n s) = handle s
    /\ ub (flushn n s) = ub s /\ bad_rename (flushn n s) = bad_rename s /\ halted (flushn n s) = halted s
    /\ files (flushn n s) i = files s i ++ firstn n (pending s)
    /\ (forall j, j <> i -> files (flushn n s) j = files s j)
    /\ pending (flushn n s) = skipn n (pending s).
  Proof.
    intros H. unfold flushn. rewrite H. simpl. repeat split; try reflexivity.
    - unfold upd_files. now rewrite Nat.eqb_refl.
    - intros j Hj. unfold upd_files. now rewrite nat_eqb_neq.
  Qed.

  (** the part of [R] that does not depend on the data state, after [n] buffered bytes went to disk *)
  Lemma flushn_frame n s :
    ub s = false -> bad_rename s = false -> content_at s TPath = orig ->
    (forall i, dir s TPath = Some i -> dir s TTmp <> Some i /\ handle s <> Some i /\ i < fresh s) ->
    (forall j, dir s TTmp = Some j -> j < fresh s) -> (forall j, handle s = Some j -> j < fresh s) ->
    handle s <> None ->
    R (mk true DUnknown false) (flushn n s).
  Proof.
    intros U B C P T Hh Hn. destruct (handle s) as [i|] eqn:E; [|congruence].
    destruct (flushn_fields n s i E) as [F1 [F2 [F3 [F4 [F5 [F6 [F7 [F8 F9]]]]]]]].
    unfold R. simpl. rewrite F4, F5. split; [assumption|split; [assumption|]].
    split; [|split; [|split; [|split; [|split; [|split]]]]].
    - unfold content_at in *. rewrite F1. destruct (dir s TPath) as [p|] eqn:Ep; [|assumption]. simpl in *.
      rewrite F8; [assumption|]. destruct (P p eq_refl) as [_ [Q _]]. congruence.
    - intros p Hp. rewrite F1 in *. rewrite F2, F3, E. now apply P.
    - intros j Hj. rewrite F1 in Hj. rewrite F2. now apply T.
    - intros j Hj. rewrite F3, E in Hj. rewrite F2. now apply Hh.
    - intros _. rewrite F3, E. discriminate.
    - discriminate.
    - exact I.
  Qed.

  Lemma R_weaken o d s : R (mk o d false) s -> R (mk o DUnknown false) s.
  Proof. unfold R. simpl. intros [H1 [H2 [H3 [H4 [H5 [H6 [H7 [H8 _]]]]]]]]. repeat (split; [assumption|]). exact I. Qed.

  Lemma join_R x y j s : join x y = Some j -> (R x s -> R j s) /\ (R y s -> R j s).
  Proof.
    unfold join. destruct x as [ox dx nx], y as [oy dy ny]. simpl.
    destruct (Bool.eqb ox oy) eqn:E1; [|discriminate]. destruct (Bool.eqb nx ny) eqn:E2; [|discriminate]. simpl.
    apply Bool.eqb_prop in E1, E2. subst oy ny. intros H; inv H.
    destruct (dstate_eqb dx dy) eqn:E3.
    - assert (dx = dy) by (destruct dx, dy; simpl in E3; congruence). subst. tauto.
    - destruct nx.
      + unfold R; simpl; tauto.
      + split; apply R_weaken.
  Qed.

  (** ** one operation *)
  Lemma content_keep (s s' : st) : dir s' TPath = dir s TPath ->
    (forall p, dir s TPath = Some p -> files s' p = files s p) -> content_at s' TPath = content_at s TPath.
  Proof. unfold content_at. intros -> H. destruct (dir s TPath) eqn:E; simpl; [f_equal; auto|reflexivity]. Qed.
  Lemma upd_files_other s i v p : p <> i -> upd_files s i v p = files s p.
  Proof. intros H. unfold upd_files. now rewrite nat_eqb_neq. Qed.
  Lemma upd_files_same s i v : upd_files s i v i = v.
  Proof. unfold upd_files. now rewrite Nat.eqb_refl. Qed.

  Lemma exec_sound' a x ok fl d s s' r : R a s -> astep a x = Some (ok, fl) -> exec_act new x d s = (s', r) ->
    R (if r then ok else fl) s'.
  Proof.
    intros HR HA HE. destruct a as [o dd dn]. unfold astep in HA. simpl in HA. destruct dn.
    { (* after the rename *)
      destruct x as [t| | | | | | | t|]; try discriminate; [destruct t; try discriminate|]; inv HA.
      - unfold exec_act in HE. destruct (d_fail d); injection HE as <- <-; [assumption|].
        unfold R in *. simpl in *. destruct HR as [H1 [H2 [H3 H4]]]. repeat split; assumption.
      - simpl in HE. injection HE as <- <-. now apply R_halt. }
    unfold R in HR. simpl in HR. destruct HR as [U [B [C [P [T [Hh [O1 [O2 D]]]]]]]].
    destruct x as [t| | | | | |sa sb|t|].
    - (* fopen *) destruct t; [discriminate|]. destruct o; [discriminate|]. inv HA.
      specialize (O2 eq_refl). unfold exec_act in HE. destruct (d_fail d).
      + injection HE as <- <-. unfold R. simpl. fin.
      + destruct (dir s TTmp) as [i|] eqn:E; injection HE as <- <-; unfold R; simpl.
        * split; [assumption|split; [assumption|]]. split; [|split; [|split; [|split; [|split; [|split]]]]].
          -- rewrite <- C. apply content_keep; [reflexivity|]. simpl. intros p Hp. usep. apply upd_files_other. congruence.
          -- intros p Hp. usep. repeat split; try assumption; congruence.
          -- intros j Hj. apply T. congruence.
          -- intros j Hj. inv Hj. now apply T.
          -- discriminate.
          -- discriminate.
          -- exists i. rewrite upd_files_same. auto.
        * split; [assumption|split; [assumption|]]. split; [|split; [|split; [|split; [|split; [|split]]]]].
          -- rewrite <- C. apply content_keep; [reflexivity|]. simpl. intros p Hp. usep. apply upd_files_other. lia.
          -- unfold upd_dir. simpl. intros p Hp. usep. repeat split; [intros F; inv F; lia|intros F; inv F; lia|lia].
          -- unfold upd_dir. simpl. intros j Hj. inv Hj. lia.
          -- intros j Hj. inv Hj. lia.
          -- discriminate.
          -- discriminate.
          -- exists (fresh s). unfold upd_dir. simpl. rewrite upd_files_same. auto.
    - (* meta *) destruct o; [|discriminate]. inv HA. specialize (O1 eq_refl). unfold exec_act in HE.
      destruct (handle s) eqn:E; [|congruence]. injection HE as <- <-. assert (G : R (mk true dd false) s).
      { unfold R. simpl. rewrite E. repeat (split; [solve [auto]|]). assumption. }
      destruct (negb (d_fail d)); exact G.
    - (* fprintf *) destruct o; [|discriminate]. destruct dd; try discriminate. inv HA. specialize (O1 eq_refl).
      destruct D as [i [D1 [D2 [D3 D4]]]]. unfold exec_act in HE. rewrite D1 in HE.
      set (s1 := {| dir := dir s; files := files s; fresh := fresh s; handle := Some i; pending := pending s ++ new; synced := synced s;
                    halted := halted s; ub := ub s; bad_rename := bad_rename s |}) in *.
      assert (E1 : handle s1 = Some i) by reflexivity.
      assert (FR : R (mk true DUnknown false) (flushn (d_n d) s1)).
      { apply flushn_frame; simpl; try assumption.
        - intros p Hp. usep. repeat split; try assumption; congruence.
        - intros j Hj. apply Hh. congruence.
        - discriminate. }
      injection HE as <- <-. destruct (negb (d_fail d)); [|exact FR].
      destruct (flushn_fields (d_n d) s1 i E1) as [F1 [F2 [F3 [F4 [F5 [F6 [F7 [F8 F9]]]]]]]].
      unfold R in *. simpl in *. destruct FR as [G1 [G2 [G3 [G4 [G5 [G6 [G7 [G8 _]]]]]]]]. repeat (split; [assumption|]).
      exists i. split; [reflexivity|]. split; [assumption|]. rewrite F7, D3, D4. simpl. apply firstn_skipn.
    - (* fflush *) destruct o; [|discriminate]. destruct dd; try discriminate. inv HA. specialize (O1 eq_refl).
      destruct D as [i [D1 [D2 D3]]]. unfold exec_act in HE. rewrite D1 in HE.
      assert (Hn : handle s <> None) by congruence.
      destruct (d_fail d); injection HE as <- <-.
      + apply flushn_frame; assumption.
      + pose proof (flushn_frame (length (pending s)) s U B C P T Hh Hn) as FR.
        destruct (flushn_fields (length (pending s)) s i D1) as [F1 [F2 [F3 [F4 [F5 [F6 [F7 [F8 F9]]]]]]]].
        unfold R in *. simpl in *. destruct FR as [G1 [G2 [G3 [G4 [G5 [G6 [G7 [G8 _]]]]]]]]. repeat (split; [assumption|]).
        exists i. rewrite F1, F7, F9, F3, firstn_all, skipn_all. auto.
    - (* fsync *) destruct o; [|discriminate]. destruct dd; try discriminate. inv HA. specialize (O1 eq_refl).
      destruct D as [i [D1 [D2 [D3 D4]]]]. specialize (D4 eq_refl). unfold exec_act in HE. rewrite D4 in HE.
      destruct (d_fail d); injection HE as <- <-.
      + mkR. exists i. auto.
      + rewrite D4 in *. mkR. exists i. rewrite D3. auto.
    - (* fclose *) destruct o; [|discriminate]. specialize (O1 eq_refl).
      assert (exists i, handle s = Some i) as [i E] by (destruct (handle s); [eauto|congruence]).
      assert (Hn : handle s <> None) by congruence.
      assert (CL : forall n, R (mk false DUnknown false)
                     {| dir := dir (flushn n s); files := files (flushn n s); fresh := fresh (flushn n s); handle := None; pending := [];
                        synced := synced (flushn n s); halted := halted (flushn n s); ub := ub (flushn n s); bad_rename := bad_rename (flushn n s) |}).
      { intros n. pose proof (flushn_frame n s U B C P T Hh Hn) as FR.
        unfold R in *. simpl in *. destruct FR as [G1 [G2 [G3 [G4 [G5 [G6 _]]]]]]. repeat (split; [assumption|]).
        split; [|split; [assumption|split; [discriminate|split; [discriminate|split; [reflexivity|exact I]]]]].
        intros p Hp. destruct (G4 p Hp) as [Q1 [Q2 Q3]]. repeat split; [assumption|discriminate|assumption]. }
      assert (KEEP : forall n, pending s = [] -> forall j, files (flushn n s) j = files s j /\ dir (flushn n s) = dir s /\ synced (flushn n s) = synced s).
      { intros n Hp j. unfold flushn. rewrite E, Hp. simpl. rewrite firstn_nil. simpl. rewrite app_nil_r.
        repeat split. unfold upd_files. destruct (Nat.eqb j i) eqn:Ej; [apply Nat.eqb_eq in Ej; now subst|reflexivity]. }
      unfold exec_act in HE. rewrite E in HE. injection HE as <- <-.
      destruct dd; inv HA.
      + destruct (d_fail d); simpl; apply CL.
      + destruct (d_fail d); simpl; apply CL.
      + destruct (d_fail d); simpl; apply CL.
      + destruct D as [k [D2 [D3 [D4 _]]]].
        assert (forall n, R (mk false DFlushed false)
                     {| dir := dir (flushn n s); files := files (flushn n s); fresh := fresh (flushn n s); handle := None; pending := [];
                        synced := synced (flushn n s); halted := halted (flushn n s); ub := ub (flushn n s); bad_rename := bad_rename (flushn n s) |}) as CL2.
        { intros n. specialize (CL n). destruct (KEEP n D4 k) as [K1 [K2 K3]]. unfold R in *. simpl in *.
          destruct CL as [G1 [G2 [G3 [G4 [G5 [G6 [G7 [G8 _]]]]]]]]. repeat (split; [assumption|]).
          exists k. rewrite K1, K2. repeat split; try assumption. discriminate. }
        destruct (d_fail d); simpl; apply CL2.
      + destruct D as [k [D2 [D3 [D4 [_ D5]]]]].
        assert (forall n, R (mk false DSynced false)
                     {| dir := dir (flushn n s); files := files (flushn n s); fresh := fresh (flushn n s); handle := None; pending := [];
                        synced := synced (flushn n s); halted := halted (flushn n s); ub := ub (flushn n s); bad_rename := bad_rename (flushn n s) |}) as CL2.
        { intros n. specialize (CL n). destruct (KEEP n D4 k) as [K1 [K2 K3]]. unfold R in *. simpl in *.
          destruct CL as [G1 [G2 [G3 [G4 [G5 [G6 [G7 [G8 _]]]]]]]]. repeat (split; [assumption|]).
          exists k. rewrite K1, K2, K3. repeat split; try assumption. discriminate. }
        destruct (d_fail d); simpl; apply CL2.
    - (* rename *) destruct sa; [discriminate|]. destruct sb; [|discriminate]. destruct o; [discriminate|].
      destruct dd; try discriminate. inv HA. specialize (O2 eq_refl).
      destruct D as [k [D2 [D3 [D4 [_ D5]]]]]. unfold exec_act in HE.
      assert (SAME : R (mk false DSynced false) s).
      { mkR. exists k. repeat split; try assumption. discriminate. }
      destruct (d_fail d); [injection HE as <- <-; exact SAME|]. rewrite D2 in HE. injection HE as <- <-.
      unfold R. simpl. rewrite D5, B. simpl. repeat split; try assumption.
      unfold content_at. simpl. now rewrite D3.
    - (* unlink *) destruct t; [discriminate|]. inv HA. unfold exec_act in HE.
      assert (SAME : R (mk o DUnknown false) s).
      { unfold R. simpl. repeat (split; [assumption|]). exact I. }
      destruct (d_fail d); injection HE as <- <-; [exact SAME|].
      unfold R. simpl. unfold upd_dir. simpl. repeat (split; [assumption|]).
      split; [|split; [discriminate|split; [assumption|split; [assumption|split; [assumption|exact I]]]]].
      intros p Hp. usep. repeat split; [discriminate|assumption|assumption].
    - (* exit *) inv HA. simpl in HE. injection HE as <- <-. apply R_halt. unfold R. simpl. repeat (split; [assumption|]). assumption.
  Qed.
  Lemma exec_sound a x ok fl d s : R a s -> astep a x = Some (ok, fl) ->
    R (if snd (exec_act new x d s) then ok else fl) (fst (exec_act new x d s)).
  Proof. intros. eapply exec_sound'; eauto. apply surjective_pairing. Qed.

  (** ** runs *)
  Definition RH (a : ast) (s : st) : Prop := good s /\ (halted s = false -> R a s).

  Lemma step_sound a x ok fl d s : RH a s -> astep a x = Some (ok, fl) ->
    RH (if snd (step new x d s) then ok else fl) (fst (step new x d s)).
  Proof.
    intros [G H] HA. unfold step. destruct (halted s) eqn:E.
    - simpl. split; [assumption|congruence].
    - pose proof (exec_sound _ _ _ _ d s (H eq_refl) HA) as S. destruct (exec_act new x d s) as [s' r]. simpl in S.
      destruct (d_crash d); simpl.
      + split; [apply good_halt; eapply R_good; eauto|]. simpl. discriminate.
      + split; [eapply R_good; eauto|auto].
  Qed.

  Lemma do_sound a x j ok fl d s : RH a s -> astep a x = Some (ok, fl) -> join ok fl = Some j -> RH j (fst (step new x d s)).
  Proof.
    intros H A J. pose proof (step_sound a x ok fl d s H A) as [G Q]. split; [assumption|].
    intros Hh. specialize (Q Hh). destruct (join_R ok fl j (fst (step new x d s)) J) as [J1 J2].
    destruct (snd (step new x d s)); auto.
  Qed.

  Lemma step_halted x d s : halted s = true -> step new x d s = (s, false).
  Proof. intros H. unfold step. now rewrite H. Qed.
  Lemma run_acts_halted h : forall o s, halted s = true -> fst (run_acts new h o s) = s.
  Proof.
    induction h as [|a r IH]; intros o s H; simpl; [reflexivity|]. destruct (next_dec o) as [d o'].
    rewrite step_halted by assumption. simpl. now apply IH.
  Qed.
  Lemma run_try_halted acts : forall o s, halted s = true -> exists o', run_try new acts o s = (s, o', false) \/ (acts = [] /\ run_try new acts o s = (s, o', true)).
  Proof.
    destruct acts as [|a r]; intros o s H; simpl.
    - exists o. right. auto.
    - destruct (next_dec o) as [d o']. rewrite step_halted by assumption. rewrite H. exists o'. now left.
  Qed.
  Lemma run_halted p : forall o s, halted s = true -> run new p o s = s.
  Proof.
    induction p as [|c r IH]; intros o s H; simpl; [reflexivity|]. destruct c as [a|acts h].
    - destruct (next_dec o) as [d o']. rewrite step_halted by assumption. simpl. now apply IH.
    - destruct (run_try_halted acts o s H) as [o' [E|[-> E]]]; rewrite E.
      + pose proof (run_acts_halted h o' s H) as F. destruct (run_acts new h o' s) as [s'' o'']. simpl in F. subst. now apply IH.
      + now apply IH.
  Qed.
  Lemma step_exit d s : halted (fst (step new AExit d s)) = true.
  Proof. unfold step. destruct (halted s) eqn:E; [assumption|]. simpl. now destruct (d_crash d). Qed.

  Lemma handler_sound h : forall a o s, RH a s -> safe_handler a h = true ->
    good (fst (run_acts new h o s)) /\ halted (fst (run_acts new h o s)) = true.
  Proof.
    induction h as [|x r IH]; intros a o s H S; [discriminate|]. simpl run_acts. destruct (next_dec o) as [d o'].
    assert (EX : x = AExit -> good (fst (run_acts new r o' (fst (step new x d s)))) /\ halted (fst (run_acts new r o' (fst (step new x d s)))) = true).
    { intros ->. pose proof (step_exit d s) as E. rewrite run_acts_halted by assumption. split; [|assumption].
      assert (A : astep a AExit = Some (a, a) \/ astep a AExit = None).
      { unfold astep. destruct (a_done a); auto. }
      destruct A as [A|A].
      - pose proof (step_sound a AExit a a d s H A) as [G _]. assumption.
      - unfold astep in A. destruct (a_done a); discriminate. }
    destruct x; try (apply EX; reflexivity);
      (simpl in S;
       match type of S with
       | context [astep ?a0 ?x0] =>
         destruct (astep a0 x0) as [[ok fl]|] eqn:A; [|discriminate];
         destruct (join ok fl) as [j|] eqn:J; [|discriminate];
         apply (IH j); [exact (do_sound a0 x0 j ok fl d s H A J)|assumption]
       end).
  Qed.

  Lemma try_sound acts : forall a a' h o s, RH a s -> safe_try a acts h = Some a' ->
    match run_try new acts o s with
    | (s', o', true) => RH a' s'
    | (s', o', false) => (good s' /\ halted s' = true) \/ (exists fl, RH fl s' /\ safe_handler fl h = true)
    end.
  Proof.
    induction acts as [|x r IH]; intros a a' h o s H S; simpl in *.
    - now inv S.
    - destruct (next_dec o) as [d o'].
      assert (NE : x <> AExit) by (intros ->; discriminate).
      assert (S' : match astep a x with Some (ok, fl) => if safe_handler fl h then safe_try ok r h else None | None => None end = Some a')
        by (destruct x; try assumption; congruence).
      clear S. destruct (astep a x) as [[ok fl]|] eqn:A; [|discriminate].
      destruct (safe_handler fl h) eqn:SH; [|discriminate].
      pose proof (step_sound a x ok fl d s H A) as Q. destruct (step new x d s) as [s' okb]. simpl in Q.
      destruct (halted s') eqn:Eh; [left; split; [apply Q|assumption]|].
      destruct okb; [apply (IH ok); assumption|]. right. exists fl. auto.
  Qed.

  Theorem safe_sound p : forall a af o s, RH a s -> safe_prog a p = Some af ->
    good (run new p o s) /\ (halted (run new p o s) = false -> R af (run new p o s)).
  Proof.
    induction p as [|c r IH]; intros a af o s H S; simpl in *.
    - inv S. exact H.
    - destruct c as [x|acts h].
      + destruct (next_dec o) as [d o'].
        assert (EX : x = AExit -> good (run new r o' (fst (step new x d s))) /\ (halted (run new r o' (fst (step new x d s))) = false -> R af (run new r o' (fst (step new x d s))))).
        { intros ->. pose proof (step_exit d s) as E. rewrite run_halted by assumption. split; [|congruence].
          assert (A : astep a AExit = Some (a, a) \/ astep a AExit = None) by (unfold astep; destruct (a_done a); auto).
          destruct A as [A|A]; [|unfold astep in A; destruct (a_done a); discriminate].
          now pose proof (step_sound a AExit a a d s H A) as [G _]. }
        destruct x; try (apply EX; reflexivity);
          (match type of S with
           | context [astep ?a0 ?x0] =>
             destruct (astep a0 x0) as [[ok fl]|] eqn:A; [|discriminate];
             destruct (join ok fl) as [j|] eqn:J; [|discriminate];
             apply (IH j); [exact (do_sound a0 x0 j ok fl d s H A J)|assumption]
           end).
      + destruct (safe_try a acts h) as [a'|] eqn:T; [|discriminate].
        pose proof (try_sound acts a a' h o s H T) as Q. destruct (run_try new acts o s) as [[s' o'] b].
        destruct b; [apply (IH a'); assumption|].
        destruct Q as [[G Hh]|[fl [Q SH]]].
        * rewrite (surjective_pairing (run_acts new h o' s')). pose proof (run_acts_halted h o' s' Hh) as E. rewrite E.
          rewrite run_halted by assumption. split; [assumption|congruence].
        * pose proof (handler_sound h fl o' s' Q SH) as [G Hh]. rewrite (surjective_pairing (run_acts new h o' s')).
          rewrite run_halted by assumption. split; [assumption|congruence].
  Qed.

  (** ** when nothing fails and nothing kills the process, the analysis' final state is reached *)
  Definition all_ok (o : list dec) : Prop := forall d, In d o -> d_fail d = false /\ d_crash d = false.
  Lemma next_dec_ok o : all_ok o -> d_fail (fst (next_dec o)) = false /\ d_crash (fst (next_dec o)) = false /\ all_ok (snd (next_dec o)).
  Proof.
    destruct o as [|d0 r]; simpl; intros H.
    - split; [reflexivity|split; [reflexivity|]]. intros x0 [].
    - destruct (H d0 (or_introl eq_refl)) as [H1 H2]. split; [assumption|split; [assumption|]]. intros x Hx. apply H. now right.
  Qed.

  Lemma exec_ok a x ok fl d s : R a s -> halted s = false -> astep a x = Some (ok, fl) -> d_fail d = false -> x <> AExit ->
    snd (exec_act new x d s) = true /\ halted (fst (exec_act new x d s)) = false.
  Proof.
    intros HR Hh HA F NE. destruct a as [o dd dn]. unfold astep in HA. simpl in HA. destruct dn.
    { destruct x as [t| | | | | | | t|]; try discriminate; [destruct t; try discriminate|congruence].
      unfold exec_act. rewrite F. simpl. auto. }
    unfold R in HR. simpl in HR. destruct HR as [U [B [C [P [T [Hd [O1 [O2 D]]]]]]]].
    assert (HS : a_open (mk o dd false) = true -> exists i, handle s = Some i).
    { simpl. intros E. specialize (O1 E). destruct (handle s); [eauto|congruence]. }
    simpl in HS.
    destruct x as [t| | | | | |sa sb|t|]; unfold exec_act; rewrite ?F.
    - destruct t; [discriminate|]. destruct (dir s TTmp); simpl; auto.
    - destruct o; [|discriminate]. destruct (HS eq_refl) as [i E]. rewrite E. simpl. rewrite ?F. auto.
    - destruct o; [|discriminate]. destruct (HS eq_refl) as [i E]. rewrite E. simpl. rewrite ?F. split; [reflexivity|].
      unfold flushn; simpl; rewrite ?E; simpl; assumption.
    - destruct o; [|discriminate]. destruct (HS eq_refl) as [i E]. rewrite E. simpl. split; [reflexivity|].
      unfold flushn; simpl; rewrite ?E; simpl; assumption.
    - destruct o; [|discriminate]. destruct (HS eq_refl) as [i E]. rewrite E. simpl. auto.
    - destruct o; [|discriminate]. destruct (HS eq_refl) as [i E]. rewrite E. simpl. rewrite ?F. split; [reflexivity|].
      unfold flushn; simpl; rewrite ?E; simpl; assumption.
    - destruct sa; [discriminate|]. destruct sb; [|discriminate]. destruct o; [discriminate|]. destruct dd; try discriminate.
      destruct D as [k [D2 _]]. rewrite D2. simpl. auto.
    - simpl. auto.
    - congruence.
  Qed.

  Lemma step_ok a x ok fl d s : R a s -> halted s = false -> astep a x = Some (ok, fl) -> d_fail d = false -> d_crash d = false -> x <> AExit ->
    snd (step new x d s) = true /\ halted (fst (step new x d s)) = false /\ R ok (fst (step new x d s)).
  Proof.
    intros HR Hh HA F Cr NE. destruct (exec_ok a x ok fl d s HR Hh HA F NE) as [E1 E2].
    pose proof (exec_sound a x ok fl d s HR HA) as S. rewrite E1 in S.
    unfold step. rewrite Hh. destruct (exec_act new x d s) as [s' r]. simpl in *. rewrite Cr. simpl. auto.
  Qed.

  Lemma try_ok acts : forall a a' h o s, R a s -> halted s = false -> safe_try a acts h = Some a' -> all_ok o ->
    exists s' o', run_try new acts o s = (s', o', true) /\ R a' s' /\ halted s' = false /\ all_ok o'.
  Proof.
    induction acts as [|x r IH]; intros a a' h o s HR Hh S AO; simpl in *.
    - inv S. exists s, o. auto.
    - assert (NE : x <> AExit) by (intros ->; discriminate).
      assert (S' : match astep a x with Some (ok, fl) => if safe_handler fl h then safe_try ok r h else None | None => None end = Some a')
        by (destruct x; try assumption; congruence).
      clear S. destruct (astep a x) as [[ok fl]|] eqn:A; [|discriminate]. destruct (safe_handler fl h); [|discriminate].
      destruct (next_dec_ok o AO) as [F [Cr AO']]. destruct (next_dec o) as [d o']. simpl in *.
      destruct (step_ok a x ok fl d s HR Hh A F Cr NE) as [E1 [E2 E3]]. destruct (step new x d s) as [s1 b]. simpl in *. subst b.
      rewrite E2. apply (IH ok a' h); assumption.
  Qed.

  Theorem safe_complete p : forall a af o s, R a s -> halted s = false -> safe_prog a p = Some af -> all_ok o -> R af (run new p o s).
  Proof.
    induction p as [|c r IH]; intros a af o s HR Hh S AO; simpl in *.
    - now inv S.
    - destruct c as [x|acts h].
      + destruct (next_dec_ok o AO) as [F [Cr AO']]. destruct (next_dec o) as [d o']. simpl in *.
        assert (EX : x = AExit -> R af (run new r o' (fst (step new x d s)))).
        { intros ->. inv S. rewrite run_halted by apply step_exit. unfold step. rewrite Hh. simpl. rewrite Cr. now apply R_halt. }
        destruct x; try (apply EX; reflexivity);
          (match type of S with
           | context [astep ?a0 ?x0] =>
             destruct (astep a0 x0) as [[ok fl]|] eqn:A; [|discriminate];
             destruct (join ok fl) as [j|] eqn:J; [|discriminate];
             assert (NE : x0 <> AExit) by discriminate;
             destruct (step_ok a0 x0 ok fl d s HR Hh A F Cr NE) as [E1 [E2 E3]];
             apply (IH j); [apply (proj1 (join_R ok fl j _ J)); assumption|assumption|assumption|assumption]
           end).
      + destruct (safe_try a acts h) as [a'|] eqn:T; [|discriminate].
        destruct (try_ok acts a a' h o s HR Hh T AO) as [s' [o' [E [HR' [Hh' AO']]]]]. rewrite E. apply (IH a'); assumption.
  Qed.
End Sound.

(** * The two statements used by the property file *)
Definition init_ok (s : st) : Prop :=
  handle s = None /\ halted s = false /\ ub s = false /\ bad_rename s = false
  /\ (forall i, dir s TPath = Some i -> dir s TTmp <> Some i /\ i < fresh s)
  /\ (forall j, dir s TTmp = Some j -> j < fresh s).

Lemma init_R new s0 : init_ok s0 -> R new (content_at s0 TPath) init_ast s0.
Proof.
  intros [I1 [I2 [I3 [I4 [I5 I6]]]]]. unfold R, init_ast; simpl.
  split; [assumption|split; [assumption|split; [reflexivity|split; [|split; [assumption|split; [|split; [discriminate|split; [auto|exact I]]]]]]]].
  - intros i Hi. destruct (I5 i Hi). rewrite I1. repeat split; [assumption|discriminate|assumption].
  - intros j Hj. rewrite I1 in Hj. discriminate.
Qed.

Theorem writefile_atomic p af : safe_prog init_ast p = Some af ->
  forall new o s0, init_ok s0 ->
    let s := run new p o s0 in
    ub s = false /\ bad_rename s = false
    /\ (content_at s TPath = content_at s0 TPath \/ content_at s TPath = Some new).
Proof.
  intros S new o s0 I. pose proof (init_R new s0 I) as R0.
  destruct (safe_sound new (content_at s0 TPath) p init_ast af o s0) as [G _]; [|assumption|exact G].
  split; [eapply R_good; eauto|auto].
Qed.

Theorem writefile_success p af : safe_prog init_ast p = Some af -> a_done af = true ->
  forall new o s0, init_ok s0 -> all_ok o -> content_at (run new p o s0) TPath = Some new.
Proof.
  intros S Dn new o s0 I AO. pose proof (init_R new s0 I) as R0. destruct I as [_ [I2 _]].
  pose proof (safe_complete new (content_at s0 TPath) p init_ast af o s0 R0 I2 S AO) as Rf.
  unfold R in Rf. rewrite Dn in Rf. tauto.
Qed.
