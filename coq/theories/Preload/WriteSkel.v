(** C20, T2: from the skeleton of etcLdSoPreload_writeFile (clang AST, regenerated on every run) to the
    file-operation program of Preload/WriteFile.v.  Anything the compiler below does not recognise makes
    it return [None], and the obligation [writefile_ok] of the property file breaks. *)
From Coq Require Import String Ascii ZArith List Bool.
From Snoopy Require Import Lib.Skel Preload.WriteFile.
Import ListNotations.
Local Open Scope string_scope.
Local Open Scope list_scope.

Record env := { e_path : option string;   (* variable holding the preload path *)
                e_tmp : option string;    (* variable holding the temp path = path ++ suffix *)
                e_fh : option string;     (* the FILE* variable *)
                e_suffix : string }.
Definition env0 : env := {| e_path := None; e_tmp := None; e_fh := None; e_suffix := "" |}.

(** the CLI's own message printers (stdout/stderr only) and its exits *)
Definition harmless_calls : list string :=
  ["printDiagValue"; "printDiag"; "printMessage"; "printInfo"; "printInfoValue"; "printNotice"; "printNoticeValue";
   "printWarning"; "printWarningValue"; "printError"; "printErrorValue"; "printSuccess"].
Definition exit_calls : list string := ["fatalError"; "fatalErrorValue"; "fatalErrorValueFree"; "exit"; "_exit"].
Definition pure_arg (e : sexpr) : bool :=
  forallb (fun f => str_in f ["strerror"; "__errno_location"]) (ecalls e) && negb (e_has_other e) && negb (e_has_callptr e).

Definition opt_eqb (a : option string) (v : string) : bool := match a with Some x => String.eqb x v | None => false end.
Definition tgt_of (en : env) (e : sexpr) : option tgt :=
  match e with
  | XVar v => if opt_eqb (e_path en) v then Some TPath else if opt_eqb (e_tmp en) v then Some TTmp else None
  | _ => None
  end.
Definition is_fh (en : env) (e : sexpr) : bool := match e with XVar v => opt_eqb (e_fh en) v | _ => false end.
Definition is_fileno_fh (en : env) (e : sexpr) : bool :=
  match e with XCall f [x] => String.eqb f "fileno" && is_fh en x | _ => false end.

(** a call as a file operation *)
Definition call_act (en : env) (f : string) (args : list sexpr) : option act :=
  if String.eqb f "fprintf" then
    match args with [h; XStr "%s"; XParam 0] => if is_fh en h then Some AFprintf else None | _ => None end
  else if String.eqb f "fflush" then match args with [h] => if is_fh en h then Some AFflush else None | _ => None end
  else if String.eqb f "fsync" then match args with [x] => if is_fileno_fh en x then Some AFsync else None | _ => None end
  else if String.eqb f "fclose" then match args with [h] => if is_fh en h then Some AFclose else None | _ => None end
  else if String.eqb f "rename" then
    match args with [a; b] => match tgt_of en a, tgt_of en b with Some x, Some y => Some (ARename x y) | _, _ => None end | _ => None end
  else if String.eqb f "unlink" then match args with [a] => match tgt_of en a with Some x => Some (AUnlink x) | None => None end | _ => None end
  else None.

(** "this call failed": fprintf(...) < 0, f(...) != 0, 0 != f(...) *)
Definition fail_test (en : env) (e : sexpr) : option act :=
  match e with
  | XOp op [XCall f args; XInt 0%Z] =>
    if String.eqb f "fprintf" then (if String.eqb op "<" then call_act en f args else None)
    else if String.eqb op "!=" then call_act en f args else None
  | XOp op [XInt 0%Z; XCall f args] =>
    if String.eqb f "fprintf" then None else if String.eqb op "!=" then call_act en f args else None
  | _ => None
  end.

Fixpoint flat_or (e : sexpr) : list sexpr :=
  match e with
  | XOp op [a; b] => if String.eqb op "||" then flat_or a ++ flat_or b else [e]
  | _ => [e]
  end.

Fixpoint all_some {A} (l : list (option A)) : option (list A) :=
  match l with
  | [] => Some []
  | Some x :: r => match all_some r with Some r' => Some (x :: r') | None => None end
  | None :: _ => None
  end.

Definition handler_act (en : env) (s : sstmt) : option (list act) :=
  match s with
  | SExpr (XCall f args) =>
    if str_in f exit_calls then Some [AExit]
    else if str_in f harmless_calls then (if forallb pure_arg args then Some [] else None)
    else match call_act en f args with Some a => Some [a] | None => None end
  | _ => None
  end.
Definition compile_handler (en : env) (l : list sstmt) : option (list act) :=
  match all_some (map (handler_act en) l) with Some ll => Some (concat ll) | None => None end.

Definition meta_only (s : sstmt) : bool :=
  forallb (fun f => str_in f ["fchown"; "fchmod"; "fileno"]) (scalls s) && negb (s_has_other s).

Definition starts_pct_s (fmt : string) : option string :=
  match fmt with String "%" (String "s" rest) => Some rest | _ => None end.

Definition ends_exit (h : list act) : bool := match rev h with AExit :: _ => true | _ => false end.

Fixpoint compile (en : env) (l : list sstmt) : option (list cmd * env) :=
  match l with
  | [] => Some ([], en)
  | s :: r =>
    let cont (c : list cmd) (en' : env) (rest : list sstmt) :=
        match compile en' rest with Some (p, e) => Some (c ++ p, e) | None => None end in
    match s with
    | SDecl v _ None => compile en r
    | SAssign (XVar v) (XCall f []) =>
      if String.eqb f "etcLdSoPreload_getFilePath"
      then compile {| e_path := Some v; e_tmp := e_tmp en; e_fh := e_fh en; e_suffix := e_suffix en |} r
      else None
    | SDecl fh false (Some (XCall f [p; XStr mode])) =>
      if String.eqb f "fopen" && String.eqb mode "w" then
        match tgt_of en p with
        | None => None
        | Some t =>
          let en' := {| e_path := e_path en; e_tmp := e_tmp en; e_fh := Some fh; e_suffix := e_suffix en |} in
          match r with
          | SIf (XOp op [XVar fh'; XCast (XInt 0%Z)]) h [] :: r' =>
            if String.eqb op "==" && String.eqb fh fh' then
              match compile_handler en' h with
              | Some ha => match compile en' r' with Some (p', e) => Some (CTry [AFopenW t] ha :: p', e) | None => None end
              | None => None
              end
            else None
          | _ => match compile en' r with Some (p', e) => Some (CDo (AFopenW t) :: p', e) | None => None end
          end
        end
      else None
    | SIf c h [] =>
      match c with
      | XOp ">=" [XCall "snprintf" [XVar t; XInt n; XStr fmt; XVar pv]; XInt n'] =>
        (* building the temp path: snprintf(tmp, N, "%s<suffix>", path) >= N -> exit *)
        match starts_pct_s fmt, compile_handler en h with
        | Some sfx, Some ha =>
          if Z.eqb n n' && opt_eqb (e_path en) pv && ends_exit ha
          then compile {| e_path := e_path en; e_tmp := Some t; e_fh := e_fh en; e_suffix := sfx |} r
          else None
        | _, _ => None
        end
      | XOp "==" [XInt 0%Z; XCall "stat" [p; _]] | XOp "==" [XCall "stat" [p; _]; XInt 0%Z] =>
        match tgt_of en p with
        | Some TPath => if forallb meta_only h then cont [CDo AMeta] en r else None
        | _ => None
        end
      | _ =>
        match all_some (map (fail_test en) (flat_or c)), compile_handler en h with
        | Some acts, Some ha => cont [CTry acts ha] en r
        | _, _ => None
        end
      end
    | SExpr (XCall f args) =>
      if str_in f exit_calls then cont [CDo AExit] en r
      else if str_in f harmless_calls then (if forallb pure_arg args then compile en r else None)
      else match call_act en f args with Some a => cont [CDo a] en r | None => None end
    | _ => None
    end
  end.

Definition has_slash (s : string) : bool := existsb (fun a => Ascii.eqb a "/"%char) (list_ascii_of_string s).
Definition suffix_ok (s : string) : bool := negb (String.eqb s "") && negb (has_slash s).

Definition the_prog (sk : fn_skel) : list cmd := match compile env0 (sk_body sk) with Some (p, _) => p | None => [] end.
Definition the_suffix (sk : fn_skel) : string := match compile env0 (sk_body sk) with Some (_, e) => e_suffix e | None => "" end.

(** the obligation: the body compiles, the analysis accepts the program and ends in "renamed", the temporary
    file is a sibling of the preload file (non-empty suffix without '/': same directory, hence same file system) *)
Definition writefile_ok (sk : fn_skel) : bool :=
  match compile env0 (sk_body sk) with
  | Some (p, e) =>
    match safe_prog init_ast p with
    | Some af => a_done af && suffix_ok (e_suffix e) && Nat.eqb (sk_nparams sk) 1
    | None => false
    end
  | None => false
  end.

Lemma writefile_ok_safe sk : writefile_ok sk = true ->
  exists af, safe_prog init_ast (the_prog sk) = Some af /\ a_done af = true.
Proof.
  unfold writefile_ok, the_prog. destruct (compile env0 (sk_body sk)) as [[p e]|]; [|discriminate].
  destruct (safe_prog init_ast p) as [af|]; [|discriminate]. intros H.
  apply andb_true_iff in H as [H _]. apply andb_true_iff in H as [H _]. eauto.
Qed.

(** the operations of the all-succeeds path, for the comparison with strace *)
Definition act_word (a : act) : string :=
  match a with
  | AFopenW TTmp => "open:tmp" | AFopenW TPath => "open:path" | AMeta => "meta" | AFprintf => "print" | AFflush => "flush"
  | AFsync => "fsync" | AFclose => "close"
  | ARename a b => "rename:" ++ (match a with TTmp => "tmp" | TPath => "path" end) ++ ":" ++ (match b with TTmp => "tmp" | TPath => "path" end)
  | AUnlink TTmp => "unlink:tmp" | AUnlink TPath => "unlink:path" | AExit => "exit"
  end.
Definition cmd_acts (c : cmd) : list act := match c with CDo a => [a] | CTry acts _ => acts end.
Definition trace_string (p : list cmd) : string :=
  "C20TRACE " ++ String.concat " " (map act_word (flat_map cmd_acts p)).

(** diagnosis for a broken [writefile_ok]: which top-level statement stops the compiler, or what the analysis rejects *)
Fixpoint first_bad (k : nat) (fuel : nat) (body : list sstmt) : option nat :=
  match fuel with
  | O => None
  | S f => match compile env0 (firstn k body) with None => Some (k - 1) | Some _ => first_bad (S k) f body end
  end.
Fixpoint nat_str (fuel n : nat) : string :=
  match fuel with
  | O => ""
  | S f => (if Nat.ltb n 10 then "" else nat_str f (Nat.div n 10)) ++ String (Ascii.ascii_of_nat (48 + Nat.modulo n 10)) ""
  end.
Definition diagnose (sk : fn_skel) : string :=
  "C20DIAG " ++
  match compile env0 (sk_body sk) with
  | None => match first_bad 1 (S (List.length (sk_body sk))) (sk_body sk) with
            | Some i => "top-level statement #" ++ nat_str 6 i ++ " of etcLdSoPreload_writeFile (counting from 0) is not recognised by the file-operation compiler"
            | None => "the body does not compile"
            end
  | Some (p, e) =>
    match safe_prog init_ast p with
    | None => "operations [" ++ String.concat " " (map act_word (flat_map cmd_acts p)) ++ "] are rejected by the safety analysis (order, unchecked result or handler)"
    | Some af => if negb (a_done af) then "the program never renames the temp file over the preload file"
                 else if negb (suffix_ok (e_suffix e)) then "the temp path is not <preload path><suffix without '/'>"
                 else "ok"
    end
  end.

(** enable and disable reach the file system for writing through etcLdSoPreload_writeFile only, and call it once *)
Definition writer_calls : list string :=
  ["fopen"; "freopen"; "open"; "openat"; "creat"; "rename"; "renameat"; "unlink"; "remove"; "truncate"; "ftruncate"; "fwrite"; "fputs"; "fprintf"; "write"; "link"; "symlink"].
Fixpoint count_str (x : string) (l : list string) : nat :=
  match l with [] => 0 | y :: r => (if String.eqb x y then 1 else 0) + count_str x r end.
Fixpoint loop_calls (s : sstmt) : list string :=
  match s with
  | SLoop c body => ecalls c ++ flat_map scalls body
  | SIf _ t e => flat_map loop_calls t ++ flat_map loop_calls e
  | SSeq l => flat_map loop_calls l
  | _ => []
  end.
Definition in_loop_calls (b : list sstmt) : list string := flat_map loop_calls b.
Definition action_ok (sk : fn_skel) : bool :=
  disjointb (body_calls (sk_body sk)) writer_calls
  && Nat.eqb (count_str "etcLdSoPreload_writeFile" (body_calls (sk_body sk))) 1
  && negb (str_in "etcLdSoPreload_writeFile" (in_loop_calls (sk_body sk)))
  && negb (existsb s_has_other (sk_body sk)).
