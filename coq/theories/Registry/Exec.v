(** C13 — executable instance (what the extracted driver evaluates) and the boolean
    specification evaluated on the answers of the implementation. *)
From Coq Require Import String List Bool Arith ZArith Lia.
From Snoopy Require Import Registry.Model Registry.Proofs.
Import ListNotations.
Local Open Scope string_scope.
Local Open Scope list_scope.

(** a configuration given as the list of defined guard macros *)
Definition cfg_of (defined : list string) : config := fun g => str_in g defined.

Definition reg_of (c : registry_consts) (k : kind) : registry :=
  match k with Datasource => rc_ds c | Filter => rc_flt c | Output => rc_out c end.

Definition model_names_arr c k defined := names_arr (reg_of c k) (cfg_of defined).
Definition model_ptrs_arr c k defined := ptrs_arr (reg_of c k) (cfg_of defined).
Definition model_call c k defined n := call (rc_sentinel c) (reg_of c k) (cfg_of defined) n.
Definition model_call_id c k defined i := call_id (rc_sentinel c) (reg_of c k) (cfg_of defined) i.
Definition model_count c k defined := get_count (rc_sentinel c) (model_names_arr c k defined).
Definition model_get_name c k defined i := get_name (rc_sentinel c) (model_names_arr c k defined) i.
Definition model_dispatch c defined n := dispatch c (cfg_of defined) n.
Definition model_chain c k defined elems := chain_calls (rc_sentinel c) (reg_of c k) (cfg_of defined) elems.
(** the property for a chain walk: exactly the own implementations of the enabled elements, in order *)
Definition chain_expected c k defined elems := map (impl_of k) (filter (enabled (reg_of c k) (cfg_of defined)) elems).
Fixpoint strs_eqb (a b : list string) : bool :=
  match a, b with [], [] => true | x :: a', y :: b' => String.eqb x y && strs_eqb a' b' | _, _ => false end.
Definition spec_chain_ok c k defined elems (observed : list string) : bool := strs_eqb observed (chain_expected c k defined elems).
Definition model_exec c defined chain fmt output := exec_calls c (cfg_of defined) chain fmt output.
Definition exec_expected c defined chain fmt output :=
  map (impl_of Filter) (filter (enabled (rc_flt c) (cfg_of defined)) chain)
  ++ map (impl_of Datasource) (take_while (enabled (rc_ds c) (cfg_of defined)) fmt)
  ++ (if enabled (rc_out c) (cfg_of defined) output then [impl_of Output output] else []).
Definition spec_exec_ok c defined chain fmt output (observed : list string) : bool := strs_eqb observed (exec_expected c defined chain fmt output).
(** threads formatting %{n} concurrently: what each must see *)
Definition model_thread_expect c defined n : option string :=
  match call (rc_sentinel c) (rc_ds c) (cfg_of defined) n with Called p => Some p | _ => None end.
Definition model_fixed c k := fixed_names (reg_of c k).
Definition model_all_names c k := map snd (body (reg_of c k)).

(** The property, as a test on ONE answer of an implementation built in configuration [defined]
    to "call the item registered under [probe]":
    - whatever runs under the name is the name's own implementation;
    - nothing runs under the name of a feature whose enable switch is off (fixed entries have no switch);
    - an enabled feature is not unknown;
    - the lookup stays inside the arrays. *)
Definition spec_C13_ok (c : registry_consts) (k : kind) (defined : list string) (probe : string) (answer : outcome) : bool :=
  let reg := reg_of c k in
  let cfg := cfg_of defined in
  match answer with
  | Called p => String.eqb p (impl_of k probe) && (cfg (feature_guard k probe) || str_in probe (fixed_names reg))
  | Unknown => negb (enabled reg cfg probe)
  | Fault => false
  end.

(** the model meets the specification for every configuration and every probe *)
Theorem model_meets_spec c : registry_consts_ok c = true ->
  forall k defined probe, spec_C13_ok c k defined probe (model_call c k defined probe) = true.
Proof.
  intros Hc k defined probe. destruct (consts_parts c Hc) as [H1 [H2 [H3 [K1 [K2 [K3 _]]]]]].
  assert (Hwf : well_formed (rc_sentinel c) (reg_of c k) = true) by (destruct k; assumption).
  assert (Hk : r_kind (reg_of c k) = k) by (destruct k; assumption).
  unfold spec_C13_ok, model_call.
  destruct (enabled (reg_of c k) (cfg_of defined) probe) eqn:E.
  - assert (Hin := proj2 (names_enabled _ _ Hwf _ _) E).
    rewrite (lookup_own _ _ Hwf _ _ Hin), Hk, String.eqb_refl. simpl.
    destruct (cfg_of defined (feature_guard k probe)) eqn:Ef; [reflexivity|]. simpl.
    destruct (str_in probe (fixed_names (reg_of c k))) eqn:Efx; [reflexivity|]. exfalso.
    assert (Hu : call (rc_sentinel c) (reg_of c k) (cfg_of defined) probe = Unknown).
    { apply (feature_off_is_unknown _ _ Hwf); [now rewrite Hk|]. intros Hf. apply str_in_In in Hf. congruence. }
    rewrite (lookup_own _ _ Hwf _ _ Hin) in Hu. discriminate.
  - rewrite (off_is_unknown _ _ Hwf _ _ E). cbv zeta. try rewrite E. reflexivity.
Qed.
