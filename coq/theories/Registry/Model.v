(** C13 — model of the three name -> implementation registries of snoopy
    (src/datasourceregistry.c, src/filterregistry.c, src/outputregistry.c) and of the
    lookup in src/genericregistry.c.

    Each registry is written in the source as TWO parallel arrays (names, function
    pointers); every row is wrapped in preprocessor guards, trailing rows are fixed, the
    names array ends with the sentinel "".  A row is kept here exactly as written: the
    conjunction (nesting) of the #ifdef guards around it and the item.  A build
    configuration is any [cfg : string -> bool] (which guard macros are defined). *)
From Coq Require Import String List Bool Arith ZArith Lia.
Import ListNotations.
Local Open Scope string_scope.
Local Open Scope list_scope.

(** ** Conventions of the project (the specification side) *)
Inductive kind := Datasource | Filter | Output.

(** the implementation of <name>:  snoopy_datasource_<name>, snoopy_filter_<name>, snoopy_output_<name>output *)
Definition impl_prefix (k : kind) : string :=
  match k with Datasource => "snoopy_datasource_" | Filter => "snoopy_filter_" | Output => "snoopy_output_" end.
Definition impl_suffix (k : kind) : string :=
  match k with Output => "output" | _ => "" end.
Definition impl_of (k : kind) (n : string) : string := impl_prefix k ++ n ++ impl_suffix k.

(** the enable switch of feature <name>:  SNOOPY_CONF_<KIND>_ENABLED_<name> (what ./configure defines) *)
Definition guard_prefix (k : kind) : string :=
  match k with Datasource => "SNOOPY_CONF_DATASOURCE_ENABLED_" | Filter => "SNOOPY_CONF_FILTER_ENABLED_" | Output => "SNOOPY_CONF_OUTPUT_ENABLED_" end.
Definition feature_guard (k : kind) (n : string) : string := guard_prefix k ++ n.

(** ** Guarded rows and their selection by a configuration *)
Definition row := (list string * string)%type.     (* guards around the row (outermost first), item *)
Definition config := string -> bool.

Definition on (cfg : config) (r : row) : bool := forallb cfg (fst r).
Definition select (cfg : config) (rows : list row) : list string := map snd (filter (on cfg) rows).

(** ** genericregistry.c *)
Inductive lookup := Found (i : nat) | NotFound | OutOfBounds.

(** getIdFromName: for (i=0; strcmp(arr[i], sentinel) != 0; i++) if (strcmp(arr[i], name) == 0) return i;  return -1
    An array without sentinel would be read past its end: OutOfBounds. *)
Fixpoint get_id_from (sent : string) (arr : list string) (n : string) (i : nat) : lookup :=
  match arr with
  | [] => OutOfBounds
  | x :: t => if String.eqb x sent then NotFound
              else if String.eqb x n then Found i
              else get_id_from sent t n (S i)
  end.
Definition get_id sent arr n := get_id_from sent arr n 0.

(** getCount: i=0; while (strcmp(arr[i], sentinel) != 0) i++; *)
Fixpoint get_count (sent : string) (arr : list string) : option nat :=
  match arr with
  | [] => None
  | x :: t => if String.eqb x sent then Some 0 else option_map S (get_count sent t)
  end.

(** the entries the lookup functions can see: everything before the first sentinel *)
Fixpoint visible (sent : string) (arr : list string) : list string :=
  match arr with
  | [] => []
  | x :: t => if String.eqb x sent then [] else x :: visible sent t
  end.

Definition does_id_exist sent arr (i : Z) : option bool :=
  match get_count sent arr with
  | None => None
  | Some c => Some ((0 <=? i)%Z && (i <? Z.of_nat c)%Z)
  end.
Definition does_name_exist sent arr n : option bool :=
  match get_id sent arr n with Found _ => Some true | NotFound => Some false | OutOfBounds => None end.
(** getName: arr[id] when the id exists, else NULL *)
Definition get_name sent arr (i : Z) : option (option string) :=
  match does_id_exist sent arr i with
  | None => None
  | Some true => match nth_error arr (Z.to_nat i) with Some x => Some (Some x) | None => None end
  | Some false => Some None
  end.

(** ** <x>registry.c: callByName / callById *)
Inductive outcome := Called (p : string) | Unknown | Fault.

(** id = getIdFromName(names, n); if (id == -1) return -1; return ptrs[id](...) *)
Definition call_by_name sent (ns ps : list string) (n : string) : outcome :=
  match get_id sent ns n with
  | Found i => match nth_error ps i with Some p => Called p | None => Fault end
  | NotFound => Unknown
  | OutOfBounds => Fault
  end.
(** if (!doesIdExist(id)) return -1; return ptrs[id](...) *)
Definition call_by_id sent (ns ps : list string) (i : Z) : outcome :=
  match does_id_exist sent ns i with
  | None => Fault
  | Some false => Unknown
  | Some true => match nth_error ps (Z.to_nat i) with Some p => Called p | None => Fault end
  end.

(** ** A registry as written, and what the translator's output is checked for (by computation) *)
Record registry := {
  r_kind : kind;
  r_names : list row;        (* the names array, sentinel row included *)
  r_ptrs : list row;         (* the function pointer array *)
  r_lex_ok : bool            (* the translator recognised every preprocessor line and every item of both arrays *)
}.

Definition names_arr (reg : registry) (cfg : config) : list string := select cfg (r_names reg).
Definition ptrs_arr (reg : registry) (cfg : config) : list string := select cfg (r_ptrs reg).
(** names a build configuration makes available *)
Definition names sent (reg : registry) (cfg : config) : list string := visible sent (names_arr reg cfg).
Definition call sent (reg : registry) (cfg : config) (n : string) : outcome :=
  call_by_name sent (names_arr reg cfg) (ptrs_arr reg cfg) n.
Definition call_id sent (reg : registry) (cfg : config) (i : Z) : outcome :=
  call_by_id sent (names_arr reg cfg) (ptrs_arr reg cfg) i.

Fixpoint guards_eqb (a b : list string) : bool :=
  match a, b with
  | [], [] => true
  | x :: a', y :: b' => String.eqb x y && guards_eqb a' b'
  | _, _ => false
  end.

(** row by row: identical guard nesting, and the pointer is the name's own implementation *)
Fixpoint aligned (k : kind) (ns ps : list row) : bool :=
  match ns, ps with
  | [], [] => true
  | (gn, n) :: ns', (gp, p) :: ps' => guards_eqb gn gp && String.eqb p (impl_of k n) && aligned k ns' ps'
  | _, _ => false
  end.

Fixpoint split_last {A} (l : list A) : option (list A * A) :=
  match l with
  | [] => None
  | [x] => Some ([], x)
  | x :: t => match split_last t with Some (b, y) => Some (x :: b, y) | None => None end
  end.

(** rows of the names array before the final (sentinel) row *)
Definition body (reg : registry) : list row :=
  match split_last (r_names reg) with Some (b, _) => b | None => [] end.

Definition str_in (s : string) (l : list string) : bool := existsb (String.eqb s) l.
Fixpoint nodupb (l : list string) : bool :=
  match l with [] => true | x :: t => negb (str_in x t) && nodupb t end.

(** every switchable row is switched by (at least) its own feature guard *)
Definition own_guards (k : kind) (rows : list row) : bool :=
  forallb (fun r => match fst r with [] => true | g => str_in (feature_guard k (snd r)) g end) rows.
(** the fixed (unguarded) entries *)
Definition fixed_names (reg : registry) : list string := map snd (filter (fun r => match fst r with [] => true | _ => false end) (body reg)).

Definition well_formed (sent : string) (reg : registry) : bool :=
  r_lex_ok reg &&
  match split_last (r_names reg) with
  | Some (b, (g, s)) =>
      match g with [] => true | _ => false end && String.eqb s sent
      && forallb (fun r => negb (String.eqb (snd r) sent)) b
      && aligned (r_kind reg) b (r_ptrs reg)
      && nodupb (map snd b)
      && own_guards (r_kind reg) b
  | None => false
  end.

(** is the feature named n switched on (all guards of one of its rows hold)? *)
Definition enabled (reg : registry) (cfg : config) (n : string) : bool :=
  existsb (fun r => String.eqb (snd r) n && on cfg r) (body reg).

(** all guards mentioned by a registry *)
Definition guards_of (reg : registry) : list string :=
  flat_map fst (r_names reg) ++ flat_map fst (r_ptrs reg).

(** ** everything the translator regenerates for C13 *)
(** how snoopy_outputregistry_dispatch turns the configured output (CFG->output) into a call *)
Inductive dispatch_shape :=
  | DispatchCallByName     (* CFG = snoopy_configuration_get(); return callByName(CFG->output, logMessage, CFG->output_arg); *)
  | DispatchOther.         (* anything else: not modelled, accepted by no check *)

Record registry_consts := {
  rc_sentinel : string;          (* the literal both loops of genericregistry.c compare with *)
  rc_lookup_ok : bool;           (* getCount / getIdFromName / callByName / callById recognised in the shape modelled above *)
  rc_entries_ok : bool;          (* every function defined in the three registry files is one of the modelled entry points, and no
                                    other source file touches the arrays: no unmodelled way from a name / id / CFG->output to a call *)
  rc_dispatch : dispatch_shape;
  rc_callers : list (string * string);   (* (source file, registry function) for every use of the registries' API outside the three registry files *)
  rc_ds : registry;
  rc_flt : registry;
  rc_out : registry;
  rc_configure_features : list string;   (* SNOOPY_CONF_<KIND>_ENABLED_<name> for every SNOOPY_CONFIGURE_<KIND>_* line of configure.ac *)
  rc_configure_generic : list string;    (* other SNOOPY_CONF_* switches configure.ac can define *)
  rc_confighin : list string             (* #undef templates of config.h.in for the feature switches *)
}.

Definition is_feature_guard (g : string) : bool :=
  prefix (guard_prefix Datasource) g || prefix (guard_prefix Filter) g || prefix (guard_prefix Output) g.

Definition all_guards (c : registry_consts) : list string :=
  guards_of (rc_ds c) ++ guards_of (rc_flt c) ++ guards_of (rc_out c).

Definition subsetb (a b : list string) : bool := forallb (fun x => str_in x b) a.

(** configure.ac's feature switches = the feature guards used in the registries (= config.h.in's templates);
    every other guard used in a registry is a switch configure.ac defines *)
Definition guards_match (c : registry_consts) : bool :=
  let used := all_guards c in
  let used_f := filter is_feature_guard used in
  subsetb used_f (rc_configure_features c) && subsetb (rc_configure_features c) used_f
  && subsetb (rc_confighin c) (rc_configure_features c) && subsetb (rc_configure_features c) (rc_confighin c)
  && subsetb (filter (fun g => negb (is_feature_guard g)) used) (rc_configure_generic c).

(** The only users of the registries: the format expansion, the filter chain, the `output` option parser and the message
    dispatch, and only through the name-based API (ids never leave the registries).  In particular no data source / filter /
    output implementation goes back into a registry (whose answer would depend on OTHER features' switches). *)
Definition allowed_callers : list (string * string) :=
  [ ("src/message.c", "snoopy_datasourceregistry_doesNameExist"); ("src/message.c", "snoopy_datasourceregistry_callByName");
    ("src/filtering.c", "snoopy_filterregistry_doesNameExist"); ("src/filtering.c", "snoopy_filterregistry_callByName");
    ("src/configfile.c", "snoopy_outputregistry_doesNameExist");
    ("src/action/log-message-dispatch.c", "snoopy_outputregistry_dispatch") ].
Definition pair_in (x : string * string) (l : list (string * string)) : bool :=
  existsb (fun y => String.eqb (fst x) (fst y) && String.eqb (snd x) (snd y)) l.
Definition callers_ok (c : registry_consts) : bool := forallb (fun x => pair_in x allowed_callers) (rc_callers c).

Definition registry_consts_ok (c : registry_consts) : bool :=
  rc_lookup_ok c && rc_entries_ok c && match rc_dispatch c with DispatchCallByName => true | DispatchOther => false end
  && well_formed (rc_sentinel c) (rc_ds c) && well_formed (rc_sentinel c) (rc_flt c) && well_formed (rc_sentinel c) (rc_out c)
  && match r_kind (rc_ds c), r_kind (rc_flt c), r_kind (rc_out c) with Datasource, Filter, Output => true | _, _, _ => false end
  && guards_match c && callers_ok c.

(** snoopy_outputregistry_dispatch with CFG->output = configured *)
Definition dispatch (c : registry_consts) (cfg : config) (configured : string) : outcome :=
  match rc_dispatch c with
  | DispatchCallByName => call (rc_sentinel c) (rc_out c) cfg configured
  | DispatchOther => Fault
  end.

(** filtering.c walks the filter chain: every element whose name the registry knows is called (in order), an unknown
    name is skipped (`continue`) - it neither ends the walk nor shifts anything.  (All called filters answering PASS.) *)
Definition chain_calls sent (reg : registry) (cfg : config) (elems : list string) : list string :=
  flat_map (fun n => match call sent reg cfg n with Called p => [p] | _ => [] end) elems.

(** message.c expands %{n1}%{n2}...: each known data source is called in order; the first unknown name ends the expansion
    (documented: "[ERROR: Data source 'x' not found.]" and return) *)
Fixpoint format_calls sent (reg : registry) (cfg : config) (elems : list string) : list string :=
  match elems with
  | [] => []
  | n :: t => match call sent reg cfg n with Called p => p :: format_calls sent reg cfg t | _ => [] end
  end.
Fixpoint take_while {A} (f : A -> bool) (l : list A) : list A :=
  match l with [] => [] | x :: t => if f x then x :: take_while f t else [] end.

(** switching one guard off *)
Definition switch_off (g : string) (cfg : config) : config := fun x => if String.eqb x g then false else cfg x.
(** the whole logging path of one exec (action/log-syscall-exec.c), all filters answering PASS and a non-empty message:
    filter chain walk, format expansion, dispatch to the configured output - the implementations that run, in order *)
Definition exec_calls (c : registry_consts) (cfg : config) (chain fmt : list string) (output : string) : list string :=
  chain_calls (rc_sentinel c) (rc_flt c) cfg chain
  ++ format_calls (rc_sentinel c) (rc_ds c) cfg fmt
  ++ match dispatch c cfg output with Called p => [p] | _ => [] end.

Definition all_on : config := fun _ => true.
Definition all_off : config := fun _ => false.
