(** C13, EXTENSION (beyond the three registries the property names): the option registry of
    src/configfile.c.  One array of structs { "name", { type, &parser, &getter } }, rows may be guarded,
    terminated by a row named "".  An option name must select its own parser
    snoopy_configfile_parseValue_<name> and its own getter snoopy_configfile_getOptionValueAsString_<name>,
    in every configuration. *)
From Coq Require Import String List Bool Arith Lia.
From Snoopy Require Import Registry.Model Registry.Proofs.
Import ListNotations.
Local Open Scope string_scope.
Local Open Scope list_scope.

Definition parser_of (n : string) : string := "snoopy_configfile_parseValue_" ++ n.
Definition getter_of (n : string) : string := "snoopy_configfile_getOptionValueAsString_" ++ n.

Definition opt_item := (string * (string * string))%type.      (* name, (parser, getter) *)
Definition opt_row := (list string * opt_item)%type.            (* guards around the row, item *)

Definition opt_on (cfg : config) (r : opt_row) : bool := forallb cfg (fst r).
Definition opt_select (cfg : config) (rows : list opt_row) : list opt_item := map snd (filter (opt_on cfg) rows).

Inductive opt_found := OFound (i : nat) (parser getter : string) | ONotSupported | OOutOfBounds.

(** both loops of configfile.c:
    for (i=0; strcmp(reg[i].name, "") != 0; i++) if (strcmp(reg[i].name, name) == 0) <use reg[i]>;  <not found> *)
Fixpoint opt_find_from (sent : string) (arr : list opt_item) (n : string) (i : nat) : opt_found :=
  match arr with
  | [] => OOutOfBounds
  | (x, (p, g)) :: t => if String.eqb x sent then ONotSupported
                        else if String.eqb x n then OFound i p g
                        else opt_find_from sent t n (S i)
  end.

Record opt_registry := {
  o_rows : list opt_row;       (* as written, sentinel row included *)
  o_sentinel : string;
  o_lex_ok : bool;             (* every row and every preprocessor line around the rows recognised *)
  o_lookup_ok : bool           (* getIdFromName / getOptionValueAsString / the INI callback of the modelled shape *)
}.

Definition opt_find (o : opt_registry) (cfg : config) (n : string) : opt_found :=
  opt_find_from (o_sentinel o) (opt_select cfg (o_rows o)) n 0.

Definition opt_body (o : opt_registry) : list opt_row :=
  match split_last (o_rows o) with Some (b, _) => b | None => [] end.

Definition opt_row_ok (sent : string) (r : opt_row) : bool :=
  let '(_, (n, (p, g))) := r in
  negb (String.eqb n sent) && String.eqb p (parser_of n) && String.eqb g (getter_of n).

Definition opt_well_formed (o : opt_registry) : bool :=
  o_lex_ok o && o_lookup_ok o &&
  match split_last (o_rows o) with
  | Some (b, (g, (s, _))) => match g with [] => true | _ => false end && String.eqb s (o_sentinel o) && forallb (opt_row_ok (o_sentinel o)) b
  | None => false
  end.

Definition opt_enabled (o : opt_registry) (cfg : config) (n : string) : bool :=
  existsb (fun r => String.eqb (fst (snd r)) n && opt_on cfg r) (opt_body o).

Lemma opt_find_body sent n cfg : forall (b : list opt_row) tail i,
    forallb (opt_row_ok sent) b = true ->
    match opt_find_from sent (opt_select cfg b ++ (sent, tail) :: nil) n i with
    | OFound _ p g => existsb (fun r => String.eqb (fst (snd r)) n && opt_on cfg r) b = true /\ p = parser_of n /\ g = getter_of n
    | ONotSupported => existsb (fun r => String.eqb (fst (snd r)) n && opt_on cfg r) b = false
    | OOutOfBounds => False
    end.
Proof.
  induction b as [|[gs [x [p g]]] b IH]; intros tail i H.
  - simpl. destruct tail. now rewrite String.eqb_refl.
  - cbn [forallb] in H. apply andb_true_iff in H as [Hr Hb]. unfold opt_row_ok in Hr.
    apply andb_true_iff in Hr as [Hr Hg]. apply andb_true_iff in Hr as [Hx Hp].
    apply negb_true_iff in Hx. apply String.eqb_eq in Hp, Hg.
    unfold opt_select. cbn [filter existsb fst snd].
    assert (Eo : forall it, opt_on cfg (gs, it) = forallb cfg gs) by reflexivity. rewrite !Eo.
    destruct (forallb cfg gs) eqn:Eon.
    + cbn [map snd app opt_find_from]. rewrite Hx. destruct (String.eqb x n) eqn:Exn.
      * apply String.eqb_eq in Exn. subst x p g. cbn [andb orb]. repeat split.
      * cbn [andb orb]. apply (IH tail (S i) Hb).
    + rewrite andb_false_r. cbn [orb]. apply (IH tail i Hb).
Qed.

(** every supported option name selects its own parser and getter; every other name is "not supported";
    the loops never leave the array; in every configuration *)
Theorem opt_lookup_own (o : opt_registry) : opt_well_formed o = true -> forall cfg n,
    match opt_find o cfg n with
    | OFound _ p g => opt_enabled o cfg n = true /\ p = parser_of n /\ g = getter_of n
    | ONotSupported => opt_enabled o cfg n = false
    | OOutOfBounds => False
    end.
Proof.
  intros Hwf cfg n. unfold opt_well_formed in Hwf. unfold opt_find, opt_enabled, opt_body.
  destruct (split_last (o_rows o)) as [[b [g [s tail]]]|] eqn:E; [|rewrite andb_false_r in Hwf; discriminate].
  apply andb_true_iff in Hwf as [_ H]. apply andb_true_iff in H as [H Hb]. apply andb_true_iff in H as [Hg Hs].
  destruct g; [|discriminate]. apply String.eqb_eq in Hs. subst s.
  rewrite (split_last_app _ _ _ E). unfold opt_select. rewrite filter_app, map_app. cbn [filter opt_on fst forallb map snd].
  apply (opt_find_body (o_sentinel o) n cfg b tail 0 Hb).
Qed.
