(** C13 — general theorems about guarded parallel arrays, for ALL configurations at once
    (induction over the guarded lists; nothing is enumerated). *)
From Coq Require Import String List Bool Arith ZArith Lia.
From Snoopy Require Import Registry.Model.
Import ListNotations.
Local Open Scope string_scope.
Local Open Scope list_scope.

(** ** small facts *)
Lemma eqb_true_eq a b : String.eqb a b = true -> a = b.
Proof. apply String.eqb_eq. Qed.

Lemma guards_eqb_eq a : forall b, guards_eqb a b = true -> a = b.
Proof.
  induction a as [|x a IH]; intros [|y b]; simpl; try discriminate; [reflexivity|].
  intros H. apply andb_true_iff in H as [H1 H2]. f_equal; [now apply String.eqb_eq | now apply IH].
Qed.

Lemma str_in_In s l : str_in s l = true <-> In s l.
Proof.
  unfold str_in. rewrite existsb_exists. split.
  - intros [x [Hx He]]. apply String.eqb_eq in He. now subst.
  - intros H. exists s. split; [assumption | apply String.eqb_refl].
Qed.

Lemma nodupb_NoDup l : nodupb l = true -> NoDup l.
Proof.
  induction l as [|x t IH]; simpl; [constructor|].
  intros H. apply andb_true_iff in H as [H1 H2]. constructor; [|now apply IH].
  intros Hin. apply str_in_In in Hin. rewrite Hin in H1. discriminate.
Qed.

Lemma split_last_app {A} (l : list A) : forall b x, split_last l = Some (b, x) -> l = b ++ [x].
Proof.
  induction l as [|y t IH]; intros b x; simpl; [discriminate|].
  destruct t as [|z t'].
  - intros H. injection H as <- <-. reflexivity.
  - destruct (split_last (z :: t')) as [[b' y']|] eqn:E; [|discriminate].
    intros H. injection H as <- <-. simpl. f_equal. now apply IH.
Qed.

Lemma select_app cfg a b : select cfg (a ++ b) = select cfg a ++ select cfg b.
Proof. unfold select. now rewrite filter_app, map_app. Qed.

Lemma select_in cfg rows n : In n (select cfg rows) <-> exists g, In (g, n) rows /\ forallb cfg g = true.
Proof.
  unfold select. rewrite in_map_iff. split.
  - intros [[g m] [E H]]. simpl in E. subst m. apply filter_In in H as [H1 H2]. exists g. split; assumption.
  - intros [g [H1 H2]]. exists (g, n). split; [reflexivity|]. apply filter_In. split; assumption.
Qed.

Lemma select_NoDup cfg rows : NoDup (map snd rows) -> NoDup (select cfg rows).
Proof.
  unfold select. induction rows as [|r t IH]; simpl; [constructor|].
  intros H. inversion H as [|? ? Hn Ht]; subst. destruct (on cfg r); simpl; [|now apply IH].
  constructor; [|now apply IH]. intros Hin. apply Hn. apply in_map_iff in Hin as [r' [E Hr']].
  apply filter_In in Hr' as [Hr' _]. apply in_map_iff. exists r'. split; assumption.
Qed.

(** ** aligned arrays select to pointwise-corresponding arrays, in every configuration *)
Lemma aligned_select cfg k : forall ns ps, aligned k ns ps = true -> select cfg ps = map (impl_of k) (select cfg ns).
Proof.
  induction ns as [|[gn n] ns IH]; intros [|[gp p] ps]; simpl; try discriminate; [reflexivity|].
  intros H. apply andb_true_iff in H as [H H3]. apply andb_true_iff in H as [H1 H2].
  apply guards_eqb_eq in H1. apply String.eqb_eq in H2. subst.
  specialize (IH ps H3). unfold select in *. cbn [filter].
  assert (E1 : on cfg (gp, impl_of k n) = forallb cfg gp) by reflexivity.
  assert (E2 : on cfg (gp, n) = forallb cfg gp) by reflexivity.
  rewrite E1, E2. destruct (forallb cfg gp); cbn [map snd]; [f_equal|]; exact IH.
Qed.

(** ** the lookup loops on an array  l ++ sentinel :: rest  with no sentinel inside l *)
Section Lookup.
  Variable sent : string.

  Lemma visible_app l r : (forall x, In x l -> x <> sent) -> visible sent (l ++ sent :: r) = l.
  Proof.
    induction l as [|x l IH]; simpl; intros H.
    - now rewrite String.eqb_refl.
    - destruct (String.eqb_spec x sent) as [E|_]; [exfalso; now apply (H x); [left|]|].
      f_equal. apply IH. intros y Hy. apply H. now right.
  Qed.

  Lemma get_count_app l r : (forall x, In x l -> x <> sent) -> get_count sent (l ++ sent :: r) = Some (length l).
  Proof.
    induction l as [|x l IH]; simpl; intros H.
    - now rewrite String.eqb_refl.
    - destruct (String.eqb_spec x sent) as [E|_]; [exfalso; now apply (H x); [left|]|].
      rewrite IH; [reflexivity|]. intros y Hy. apply H. now right.
  Qed.

  Lemma get_id_found n : forall l r i, (forall x, In x l -> x <> sent) -> In n l ->
      exists j, get_id_from sent (l ++ sent :: r) n i = Found (i + j) /\ nth_error l j = Some n.
  Proof.
    induction l as [|x l IH]; simpl; intros r i H Hin; [contradiction|].
    destruct (String.eqb_spec x sent) as [E|_]; [exfalso; now apply (H x); [left|]|].
    destruct (String.eqb_spec x n) as [->|Hne].
    - exists 0. split; [f_equal; lia | reflexivity].
    - destruct Hin as [->|Hin]; [contradiction|].
      destruct (IH r (S i) (fun y Hy => H y (or_intror Hy)) Hin) as [j [H1 H2]].
      exists (S j). split; [rewrite H1; f_equal; lia | exact H2].
  Qed.

  Lemma get_id_notfound n : forall l r i, (forall x, In x l -> x <> sent) -> ~ In n l ->
      get_id_from sent (l ++ sent :: r) n i = NotFound.
  Proof.
    induction l as [|x l IH]; simpl; intros r i H Hn.
    - now rewrite String.eqb_refl.
    - destruct (String.eqb_spec x sent) as [E|_]; [reflexivity|].
      destruct (String.eqb_spec x n) as [->|Hne]; [exfalso; apply Hn; now left|].
      apply IH; [intros y Hy; apply H; now right | intros Hin; apply Hn; now right].
  Qed.
End Lookup.

(** ** theorems for one well-formed registry *)
Section Registry.
  Variable sent : string.
  Variable reg : registry.
  Hypothesis Hwf : well_formed sent reg = true.

  Let k := r_kind reg.

  Lemma wf_parts :
    r_names reg = body reg ++ [([], sent)]
    /\ (forall r, In r (body reg) -> snd r <> sent)
    /\ aligned k (body reg) (r_ptrs reg) = true
    /\ NoDup (map snd (body reg))
    /\ own_guards k (body reg) = true.
  Proof.
    unfold well_formed in Hwf. unfold body, k.
    destruct (split_last (r_names reg)) as [[b [g s]]|] eqn:E; [|rewrite andb_false_r in Hwf; discriminate].
    apply andb_true_iff in Hwf as [_ H].
    apply andb_true_iff in H as [H Hown]. apply andb_true_iff in H as [H Hnd].
    apply andb_true_iff in H as [H Hal]. apply andb_true_iff in H as [H Hns].
    apply andb_true_iff in H as [Hg Hs].
    destruct g; [|discriminate]. apply String.eqb_eq in Hs. subst s.
    split; [now apply split_last_app|]. split.
    - intros r Hr. rewrite forallb_forall in Hns. specialize (Hns r Hr). apply negb_true_iff in Hns.
      now apply String.eqb_neq.
    - split; [assumption|]. split; [now apply nodupb_NoDup | assumption].
  Qed.

  (** the arrays of a configuration: names = available names followed by the sentinel,
      pointers = the available names' own implementations, in the same order *)
  Lemma arrays cfg :
    names_arr reg cfg = select cfg (body reg) ++ [sent]
    /\ ptrs_arr reg cfg = map (impl_of k) (select cfg (body reg))
    /\ (forall x, In x (select cfg (body reg)) -> x <> sent).
  Proof.
    destruct wf_parts as [H1 [H2 [H3 _]]]. unfold names_arr, ptrs_arr. split; [|split].
    - rewrite H1 at 1. rewrite select_app. reflexivity.
    - now apply aligned_select.
    - intros x Hx. apply select_in in Hx as [g [Hg _]]. apply (H2 (g, x) Hg).
  Qed.

  Lemma names_eq cfg : names sent reg cfg = select cfg (body reg).
  Proof.
    destruct (arrays cfg) as [H1 [_ H3]]. unfold names. rewrite H1. now apply visible_app.
  Qed.

  (** C13: every available name invokes its own implementation, in every configuration *)
  Theorem lookup_own : forall cfg n, In n (names sent reg cfg) -> call sent reg cfg n = Called (impl_of k n).
  Proof.
    intros cfg n Hin. rewrite names_eq in Hin. destruct (arrays cfg) as [H1 [H2 H3]].
    unfold call, call_by_name, get_id. rewrite H1, H2.
    destruct (get_id_found sent n _ [] 0 H3 Hin) as [j [Hj Hn]]. rewrite Hj. simpl.
    rewrite nth_error_map, Hn. reflexivity.
  Qed.

  (** a name that is not available is unknown: the lookup fails cleanly *)
  Theorem unavailable_is_unknown : forall cfg n, ~ In n (names sent reg cfg) -> call sent reg cfg n = Unknown.
  Proof.
    intros cfg n Hn. rewrite names_eq in Hn. destruct (arrays cfg) as [H1 [H2 H3]].
    unfold call, call_by_name, get_id. rewrite H1. now rewrite (get_id_notfound sent n _ [] 0 H3 Hn).
  Qed.

  (** available = one of the name's rows has all its guards switched on *)
  Theorem names_enabled : forall cfg n, In n (names sent reg cfg) <-> enabled reg cfg n = true.
  Proof.
    intros cfg n. rewrite names_eq, select_in. unfold enabled. rewrite existsb_exists. split.
    - intros [g [H1 H2]]. exists (g, n). split; [assumption|]. simpl. now rewrite String.eqb_refl.
    - intros [[g m] [H1 H2]]. simpl in H2. apply andb_true_iff in H2 as [H2 H3]. apply String.eqb_eq in H2. subst m.
      exists g. split; assumption.
  Qed.

  Theorem off_is_unknown : forall cfg n, enabled reg cfg n = false -> call sent reg cfg n = Unknown.
  Proof.
    intros cfg n H. apply unavailable_is_unknown. intros Hin. apply names_enabled in Hin. congruence.
  Qed.

  (** switching a feature's own enable switch off makes its name unknown (fixed entries have no switch) *)
  Theorem feature_off_is_unknown : forall cfg n,
      cfg (feature_guard k n) = false -> ~ In n (fixed_names reg) -> call sent reg cfg n = Unknown.
  Proof.
    intros cfg n Hoff Hnf. apply unavailable_is_unknown. rewrite names_eq. intros Hin.
    apply select_in in Hin as [g [Hg Hon]]. destruct wf_parts as [_ [_ [_ [_ Hown]]]].
    unfold own_guards in Hown. rewrite forallb_forall in Hown. specialize (Hown (g, n) Hg). cbn [fst snd] in Hown.
    destruct g as [|g0 g'].
    - apply Hnf. unfold fixed_names. apply in_map_iff. exists ([], n). split; [reflexivity|].
      apply filter_In. split; [assumption | reflexivity].
    - apply str_in_In in Hown. rewrite forallb_forall in Hon. specialize (Hon _ Hown). congruence.
  Qed.

  (** no shift: what an available name invokes does not depend on the rest of the configuration *)
  Theorem no_shift : forall cfg cfg' n, In n (names sent reg cfg) -> In n (names sent reg cfg') ->
      call sent reg cfg n = call sent reg cfg' n.
  Proof. intros cfg cfg' n H H'. now rewrite (lookup_own cfg n H), (lookup_own cfg' n H'). Qed.

  (** switching guards off only removes names *)
  Theorem names_mono : forall cfg cfg', (forall g, cfg' g = true -> cfg g = true) ->
      forall n, In n (names sent reg cfg') -> In n (names sent reg cfg).
  Proof.
    intros cfg cfg' Hle n. rewrite !names_eq, !select_in. intros [g [H1 H2]]. exists g. split; [assumption|].
    rewrite forallb_forall in *. intros x Hx. apply Hle. now apply H2.
  Qed.

  Lemma switch_off_le g cfg : forall x, switch_off g cfg x = true -> cfg x = true.
  Proof. intros x. unfold switch_off. destruct (String.eqb x g); [discriminate | trivial]. Qed.

  (** turning any switch off never changes what another (still available) name invokes *)
  Theorem switch_off_no_shift : forall cfg g n, In n (names sent reg (switch_off g cfg)) ->
      In n (names sent reg cfg) /\ call sent reg (switch_off g cfg) n = call sent reg cfg n.
  Proof.
    intros cfg g n H. assert (H' := names_mono cfg (switch_off g cfg) (switch_off_le g cfg) n H).
    split; [assumption | now apply no_shift].
  Qed.

  (** every binding of any configuration is the binding of the all-on configuration *)
  Theorem same_as_all_on : forall cfg n, In n (names sent reg cfg) ->
      In n (names sent reg all_on) /\ call sent reg cfg n = call sent reg all_on n.
  Proof.
    intros cfg n H. assert (H' := names_mono all_on cfg (fun _ _ => eq_refl) n H).
    split; [assumption | now apply no_shift].
  Qed.

  (** the sentinel closes the names array exactly where the pointer array ends, in every configuration *)
  Theorem sentinel_index : forall cfg,
      get_count sent (names_arr reg cfg) = Some (length (ptrs_arr reg cfg))
      /\ nth_error (names_arr reg cfg) (length (ptrs_arr reg cfg)) = Some sent
      /\ length (names_arr reg cfg) = S (length (ptrs_arr reg cfg))
      /\ length (names sent reg cfg) = length (ptrs_arr reg cfg).
  Proof.
    intros cfg. destruct (arrays cfg) as [H1 [H2 H3]]. rewrite names_eq, H1, H2, map_length.
    split; [now apply get_count_app|]. split.
    - rewrite nth_error_app2, Nat.sub_diag; [reflexivity | lia].
    - rewrite app_length. simpl. lia.
  Qed.

  (** call by id: id i runs the implementation of the i-th available name; other ids are refused *)
  Theorem call_id_own : forall cfg (i : Z),
      call_id sent reg cfg i =
      match (if (0 <=? i)%Z then nth_error (names sent reg cfg) (Z.to_nat i) else None) with
      | Some n => Called (impl_of k n)
      | None => Unknown
      end.
  Proof.
    intros cfg i. destruct (arrays cfg) as [H1 [H2 H3]]. rewrite names_eq.
    unfold call_id, call_by_id, does_id_exist. rewrite H1, H2, (get_count_app sent _ [] H3).
    destruct (0 <=? i)%Z eqn:E0; simpl.
    - destruct (i <? Z.of_nat (length (select cfg (body reg))))%Z eqn:E1.
      + rewrite nth_error_map.
        destruct (nth_error (select cfg (body reg)) (Z.to_nat i)) eqn:En; [reflexivity|].
        apply nth_error_None in En. lia.
      + destruct (nth_error (select cfg (body reg)) (Z.to_nat i)) eqn:En; [|reflexivity].
        assert (Z.to_nat i < length (select cfg (body reg))) by (apply nth_error_Some; congruence). lia.
    - reflexivity.
  Qed.

  Theorem get_name_spec : forall cfg (i : Z),
      get_name sent (names_arr reg cfg) i =
      Some (if (0 <=? i)%Z then nth_error (names sent reg cfg) (Z.to_nat i) else None).
  Proof.
    intros cfg i. destruct (arrays cfg) as [H1 [H2 H3]]. rewrite names_eq.
    unfold get_name, does_id_exist. rewrite H1, (get_count_app sent _ [] H3).
    destruct (0 <=? i)%Z eqn:E0; simpl; [|reflexivity].
    destruct (i <? Z.of_nat (length (select cfg (body reg))))%Z eqn:E1.
    - rewrite nth_error_app1 by lia.
      destruct (nth_error (select cfg (body reg)) (Z.to_nat i)) eqn:En; [reflexivity|].
      apply nth_error_None in En. lia.
    - destruct (nth_error (select cfg (body reg)) (Z.to_nat i)) eqn:En; [|reflexivity].
      assert (Z.to_nat i < length (select cfg (body reg))) by (apply nth_error_Some; congruence). lia.
  Qed.

  (** no configuration has a name twice (no dead row) *)
  Theorem names_NoDup : forall cfg, NoDup (names sent reg cfg).
  Proof. intros cfg. rewrite names_eq. apply select_NoDup. now destruct wf_parts as [_ [_ [_ [H _]]]]. Qed.

  (** the lookup never leaves the arrays, whatever is asked, in every configuration *)
  Theorem never_faults : forall cfg n, call sent reg cfg n <> Fault.
  Proof.
    intros cfg n. destruct (in_dec string_dec n (names sent reg cfg)) as [H|H].
    - rewrite (lookup_own cfg n H). discriminate.
    - rewrite (unavailable_is_unknown cfg n H). discriminate.
  Qed.

  (** a chain of names runs exactly the implementations of its enabled elements, in order: switched-off names are skipped *)
  Theorem chain_calls_spec : forall cfg elems,
      chain_calls sent reg cfg elems = map (impl_of k) (filter (enabled reg cfg) elems).
  Proof.
    intros cfg. induction elems as [|n t IH]; [reflexivity|].
    unfold chain_calls in *. cbn [flat_map filter]. rewrite IH.
    destruct (enabled reg cfg n) eqn:E.
    - apply names_enabled in E. now rewrite (lookup_own cfg n E).
    - now rewrite (off_is_unknown cfg n E).
  Qed.

  Theorem format_calls_spec : forall cfg elems,
      format_calls sent reg cfg elems = map (impl_of k) (take_while (enabled reg cfg) elems).
  Proof.
    intros cfg. induction elems as [|n t IH]; [reflexivity|]. cbn [format_calls take_while].
    destruct (enabled reg cfg n) eqn:E.
    - apply names_enabled in E. rewrite (lookup_own cfg n E). cbn [map]. now rewrite IH.
    - now rewrite (off_is_unknown cfg n E).
  Qed.

  Theorem does_name_exist_spec : forall cfg n,
      does_name_exist sent (names_arr reg cfg) n = Some (enabled reg cfg n).
  Proof.
    intros cfg n. destruct (arrays cfg) as [H1 [_ H3]]. unfold does_name_exist, get_id. rewrite H1.
    destruct (enabled reg cfg n) eqn:E.
    - apply names_enabled in E. rewrite names_eq in E.
      destruct (get_id_found sent n _ [] 0 H3 E) as [j [Hj _]]. now rewrite Hj.
    - assert (Hn : ~ In n (select cfg (body reg))).
      { intros Hin. rewrite <- names_eq in Hin. apply names_enabled in Hin. congruence. }
      now rewrite (get_id_notfound sent n _ [] 0 H3 Hn).
  Qed.
End Registry.

(** ** the guard sets *)
Lemma subsetb_incl a b : subsetb a b = true -> incl a b.
Proof. unfold subsetb. rewrite forallb_forall. intros H x Hx. apply str_in_In. now apply H. Qed.

Theorem guards_match_spec c : guards_match c = true ->
  (forall g, is_feature_guard g = true -> (In g (all_guards c) <-> In g (rc_configure_features c)))
  /\ (forall g, In g (rc_configure_features c) <-> In g (rc_confighin c))
  /\ (forall g, In g (all_guards c) -> In g (rc_configure_features c) \/ In g (rc_configure_generic c)).
Proof.
  unfold guards_match. intros H.
  apply andb_true_iff in H as [H Hgen]. apply andb_true_iff in H as [H Hc2]. apply andb_true_iff in H as [H Hc1].
  apply andb_true_iff in H as [Hu1 Hu2].
  apply subsetb_incl in Hu1, Hu2, Hc1, Hc2, Hgen. split; [|split].
  - intros g Hf. split.
    + intros Hin. apply Hu1. apply filter_In. split; assumption.
    + intros Hin. apply Hu2 in Hin. now apply filter_In in Hin as [Hin _].
  - intros g. split; [apply Hc2 | apply Hc1].
  - intros g Hin. destruct (is_feature_guard g) eqn:E.
    + left. apply Hu1. apply filter_In. split; assumption.
    + right. apply Hgen. apply filter_In. split; [assumption | now rewrite E].
Qed.

(** ** all three registries of a constants record *)
Lemma consts_parts c : registry_consts_ok c = true ->
  well_formed (rc_sentinel c) (rc_ds c) = true /\ well_formed (rc_sentinel c) (rc_flt c) = true
  /\ well_formed (rc_sentinel c) (rc_out c) = true
  /\ r_kind (rc_ds c) = Datasource /\ r_kind (rc_flt c) = Filter /\ r_kind (rc_out c) = Output
  /\ guards_match c = true /\ rc_lookup_ok c = true /\ rc_entries_ok c = true /\ rc_dispatch c = DispatchCallByName
  /\ callers_ok c = true.
Proof.
  unfold registry_consts_ok. intros H.
  apply andb_true_iff in H as [H Hcal]. apply andb_true_iff in H as [H Hg]. apply andb_true_iff in H as [H Hk]. apply andb_true_iff in H as [H H3].
  apply andb_true_iff in H as [H H2]. apply andb_true_iff in H as [H H1].
  apply andb_true_iff in H as [H Hd]. apply andb_true_iff in H as [Hl He].
  destruct (r_kind (rc_ds c)), (r_kind (rc_flt c)), (r_kind (rc_out c)); try discriminate.
  destruct (rc_dispatch c); try discriminate.
  repeat split; assumption.
Qed.

(** dispatch is the modelled lookup of the configured output name and nothing else *)
Theorem dispatch_is_call c : registry_consts_ok c = true ->
  forall cfg n, dispatch c cfg n = call (rc_sentinel c) (rc_out c) cfg n.
Proof.
  intros H cfg n. destruct (consts_parts c H) as [_ [_ [_ [_ [_ [_ [_ [_ [_ [Hd _]]]]]]]]]].
  unfold dispatch. now rewrite Hd.
Qed.

Theorem callers_known c : registry_consts_ok c = true -> forall f fn, In (f, fn) (rc_callers c) -> In (f, fn) allowed_callers.
Proof.
  intros H f fn Hin. destruct (consts_parts c H) as [_ [_ [_ [_ [_ [_ [_ [_ [_ [_ Hc]]]]]]]]]].
  unfold callers_ok in Hc. rewrite forallb_forall in Hc. specialize (Hc _ Hin). unfold pair_in in Hc.
  apply existsb_exists in Hc as [[f' fn'] [Hin' He]]. simpl in He. apply andb_true_iff in He as [E1 E2].
  apply String.eqb_eq in E1, E2. now subst.
Qed.

(** the logging path of one exec runs exactly: the enabled chain elements' filters, the data sources of the format up to the first
    unknown one, and the configured output if (and only if) it is enabled - each its own implementation *)
Theorem exec_calls_spec c : registry_consts_ok c = true -> forall cfg chain fmt output,
  exec_calls c cfg chain fmt output =
  map (impl_of Filter) (filter (enabled (rc_flt c) cfg) chain)
  ++ map (impl_of Datasource) (take_while (enabled (rc_ds c) cfg) fmt)
  ++ (if enabled (rc_out c) cfg output then [impl_of Output output] else []).
Proof.
  intros H cfg chain fmt output. destruct (consts_parts c H) as [H1 [H2 [H3 [K1 [K2 [K3 _]]]]]].
  unfold exec_calls. rewrite (dispatch_is_call c H), (chain_calls_spec _ _ H2), (format_calls_spec _ _ H1), K1, K2.
  do 2 f_equal. destruct (enabled (rc_out c) cfg output) eqn:E.
  - apply (names_enabled _ _ H3) in E. now rewrite (lookup_own _ _ H3 cfg output E), K3.
  - now rewrite (off_is_unknown _ _ H3 cfg output E).
Qed.
