(** C16: resource balance of every library function that (transitively) reaches an acquisition or release
    function, over the skeletons regenerated from clang's AST (Gen_Resid), by the collecting semantics of
    Lib/ResFlow.v; the functions are taken callees-first and each is run against the summaries established
    for its callees (modular, partial-correctness reading of the call graph).  *)
From Coq Require Import String ZArith List Bool Lia.
From Snoopy Require Import Lib.Skel Lib.ResFlow.
Import ListNotations.
Local Open Scope string_scope.
Local Open Scope list_scope.

Record libfn := { lf_name : string; lf_calls : list string; lf_indirect : bool; lf_skel : option fn_skel }.

(** libc-boundary classification *)
Definition acquirers : list (string * rkind) :=
  [("malloc", KHeap); ("calloc", KHeap); ("strdup", KHeap); ("strndup", KHeap);
   ("fopen", KFile); ("fdopen", KFile); ("tmpfile", KFile); ("popen", KFile);
   ("open", KFd); ("openat", KFd); ("creat", KFd); ("socket", KFd); ("accept", KFd); ("dup", KFd); ("epoll_create", KFd); ("eventfd", KFd);
   ("memfd_create", KFd); ("inotify_init", KFd); ("timerfd_create", KFd); ("signalfd", KFd); ("shm_open", KFd);
   ("opendir", KDir); ("fdopendir", KDir)].
Definition releasers : list (string * rkind) := [("free", KHeap); ("fclose", KFile); ("pclose", KFile); ("close", KFd); ("closedir", KDir)].
Definition session_open : list string := ["setutent"; "openlog"].
Definition session_close : list string := ["endutent"; "closelog"].
(** acquisition functions this semantics has no rule for: their presence in a function makes it unanalysable *)
Definition unsupported : list string :=
  ["realloc"; "reallocarray"; "mmap"; "munmap"; "pipe"; "pipe2"; "socketpair"; "asprintf"; "vasprintf"; "open_memstream"; "dlopen"; "dlclose"; "freopen"; "getdelim";
   "sem_open"; "posix_memalign"; "aligned_alloc"; "memalign"; "valloc"; "dup2"; "dup3"].
Definition ext_summaries : list (string * summary) :=
  [("getline", {| s_ret := None; s_out := [0]; s_realloc := true; s_consume := [] |})].
(** ownership contract of the doubly linked list (util/list.c): push takes the value over (computed from the body), remove hands back the
    value push stored (declared: the body reads it out of the node, which the semantics cannot attribute) and releases the node (computed) *)
Definition declared : list (string * summary) :=
  [("snoopy_util_list_remove", {| s_ret := Some KHeap; s_out := []; s_realloc := false; s_consume := [1] |})].

Definition is_some_b {A} (x : option A) : bool := match x with Some _ => true | None => false end.
Definition classified (f : string) : bool :=
  is_some_b (assoc String.eqb acquirers f) || is_some_b (assoc String.eqb releasers f) || str_in f session_open || str_in f session_close
  || str_in f unsupported || is_some_b (assoc String.eqb ext_summaries f).

Definition base_tab (externals : list string) : rtab :=
  {| t_acq := acquirers; t_rel := releasers; t_sopen := session_open; t_sclose := session_close;
     t_summ := ext_summaries;
     t_neutral := filter (fun f => negb (classified f)) externals;
     t_indirect_ok := true;          (* justified by [indirect_targets_neutral] below *)
     t_track := []; t_scalar := []; t_heap_fails := false |}.

Definition add_neutral (T : rtab) (f : string) : rtab :=
  {| t_acq := t_acq T; t_rel := t_rel T; t_sopen := t_sopen T; t_sclose := t_sclose T; t_summ := t_summ T; t_neutral := f :: t_neutral T;
     t_indirect_ok := t_indirect_ok T; t_track := t_track T; t_scalar := t_scalar T; t_heap_fails := t_heap_fails T |}.
Definition add_summary (T : rtab) (f : string) (sm : summary) : rtab :=
  {| t_acq := t_acq T; t_rel := t_rel T; t_sopen := t_sopen T; t_sclose := t_sclose T; t_summ := (f, sm) :: t_summ T; t_neutral := t_neutral T;
     t_indirect_ok := t_indirect_ok T; t_track := t_track T; t_scalar := t_scalar T; t_heap_fails := t_heap_fails T |}.

Definition summary_eqb (a b : summary) : bool :=
  match s_ret a, s_ret b with Some x, Some y => rkind_eqb x y | None, None => true | _, _ => false end
  && list_eqb Nat.eqb (s_out a) (s_out b) && Bool.eqb (s_realloc a) (s_realloc b) && list_eqb Nat.eqb (s_consume a) (s_consume b).

Fixpoint nat_insert (x : nat) (l : list nat) : list nat :=
  match l with [] => [x] | y :: l' => if Nat.eqb x y then l else if Nat.ltb x y then x :: l else y :: nat_insert x l' end.
Definition nat_union (a b : list nat) : list nat := fold_left (fun acc x => nat_insert x acc) b (fold_left (fun acc x => nat_insert x acc) a []).

(** what the outcomes of one function say *)
Definition held_cells (s : rs) : list key := flat_map (fun '(k, x) => match x with VOwn _ => [k] | _ => [] end) (vars s).
Definition outcome_ok (r : fres) : bool :=
  match r with
  | FDone s _ => match leaks s, bad s with [], [] => (sess s =? 0)%Z | _, _ => false end
  | FFail _ => false
  end.
Definition outcome_reasons (r : fres) : list string :=
  match r with
  | FDone s _ => (match leaks s with [] => [] | _ => ["an acquired resource becomes unreachable on some path"] end) ++ bad s
                 ++ (if (sess s =? 0)%Z then [] else ["utmp/syslog session left open on some path"])
  | FFail w => [w]
  end.
Definition ret_kinds (l : list fres) : list rkind := flat_map (fun r => match r with FDone _ (VOwn k) => [k] | _ => [] end) l.
Definition computed_summary (l : list fres) : option summary :=
  let outs := map (fun r => match r with FDone s _ => fold_left (fun acc x => nat_insert x acc) (outp s) [] | FFail _ => [] end) l in
  let ks := ret_kinds l in
  match outs with
  | [] => None
  | o :: rest =>
    if forallb (list_eqb Nat.eqb o) rest && match ks with [] => true | k :: ks' => forallb (rkind_eqb k) ks' end then
      Some {| s_ret := match ks with k :: _ => Some k | [] => None end; s_out := o; s_realloc := false;
              s_consume := fold_left (fun acc r => match r with FDone s _ => nat_union acc (consumed s) | FFail _ => acc end) l [] |}
    else None
  end.

Record entry := { e_fn : libfn; e_tab : rtab; e_sum : summary }.
Definition entry_body (e : entry) : list sstmt := match lf_skel (e_fn e) with Some sk => sk_body sk | None => [] end.
Definition entry_outcomes (e : entry) : list fres := run_fn (e_tab e) (entry_body e) rs0.
Definition entry_holds (e : entry) : list key := flat_map (fun r => match r with FDone s _ => held_cells s | _ => [] end) (entry_outcomes e).
Definition entry_frees (e : entry) : list key := flat_map (fun r => match r with FDone s _ => freed_cells s | _ => [] end) (entry_outcomes e).
Definition entry_ok (e : entry) : bool :=
  let l := entry_outcomes e in
  match l with [] => false | _ => forallb outcome_ok l end
  && negb (existsb (fun c => str_in c unsupported) (lf_calls (e_fn e)))
  && match computed_summary l with
     | Some sm => match assoc String.eqb declared (lf_name (e_fn e)) with
                  | Some d => list_eqb Nat.eqb (s_out d) (s_out sm) && list_eqb Nat.eqb (s_consume d) (s_consume sm)      (* the declared part is only the returned value *)
                  | None => summary_eqb sm (e_sum e)
                  end
     | None => false
     end.
Definition entry_reasons (e : entry) : list string :=
  flat_map outcome_reasons (entry_outcomes e)
  ++ (if existsb (fun c => str_in c unsupported) (lf_calls (e_fn e)) then ["calls an acquisition function without a rule"] else [])
  ++ match computed_summary (entry_outcomes e) with Some _ => [] | None => ["out-parameters / returned kinds differ between paths"] end.

(** callees first; a function without skeleton reaches no resource function at all (complete raw-AST call lists) and is neutral;
    a function is run with itself assumed neutral (self recursion) and must then come out neutral if it does call itself *)
Fixpoint analyse (fns : list libfn) (T : rtab) : list entry :=
  match fns with
  | [] => []
  | f :: rest =>
    match lf_skel f with
    | None => analyse rest (add_neutral T (lf_name f))
    | Some sk =>
      let T0 := add_neutral T (lf_name f) in
      let l := run_fn T0 (sk_body sk) rs0 in
      let sm := match assoc String.eqb declared (lf_name f) with
                | Some d => d
                | None => match computed_summary l with Some s => s | None => neutral_summary end
                end in
      let T1 := if summary_eqb sm neutral_summary then add_neutral T (lf_name f) else add_summary T (lf_name f) sm in
      {| e_fn := f; e_tab := T0; e_sum := sm |} :: analyse rest T1
    end
  end.

Section Lib.
  Variable fns : list libfn.
  Variable externals : list string.
  Variable taken : list string.          (* functions whose address is taken: the only possible targets of calls through pointers *)
  Variable cycles : list string.
  Variable exempt : list string.         (* functions judged by correspondence only (listed with reasons in the property file) *)

  Definition entries : list entry := analyse fns (base_tab externals).
  Definition self_recursive (e : entry) : bool := str_in (lf_name (e_fn e)) (lf_calls (e_fn e)).
  Definition entry_good (e : entry) : bool :=
    str_in (lf_name (e_fn e)) exempt
    || (entry_ok e && (negb (self_recursive e) || summary_eqb (e_sum e) neutral_summary)).
  Definition lib_ok : bool := forallb entry_good entries && match cycles with [] => true | _ => false end.

  (** every function that can be reached through a pointer is ownership-neutral (its summary says so, or it has no skeleton) *)
  Definition indirect_targets_neutral : bool :=
    forallb (fun t => forallb (fun e => negb (String.eqb t (lf_name (e_fn e))) || summary_eqb (e_sum e) neutral_summary) entries) taken.

  (** functions whose outcomes leave an owned resource in a structure, with the cells *)
  Definition holders : list (string * list key) :=
    flat_map (fun e => match entry_holds e with [] => [] | l => [(lf_name (e_fn e), dedup key_eqb l)] end) entries.
  Definition freers : list (string * list key) :=
    flat_map (fun e => match entry_frees e with [] => [] | l => [(lf_name (e_fn e), dedup key_eqb l)] end) entries.

  Definition failing : list (string * list string) :=
    flat_map (fun e => if entry_good e then [] else [(lf_name (e_fn e), dedup String.eqb (entry_reasons e))]) entries.

  Theorem balanced : lib_ok = true -> forall e, In e entries -> ~ In (lf_name (e_fn e)) exempt ->
      forall o, In o (entry_outcomes e) -> exists s r, o = FDone s r /\ leaks s = [] /\ bad s = [] /\ sess s = 0%Z.
  Proof.
    unfold lib_ok. intros H e He Hx o Ho. apply andb_true_iff in H as [H _]. rewrite forallb_forall in H. specialize (H e He).
    unfold entry_good in H. apply orb_true_iff in H as [H|H]; [apply str_in_In in H; contradiction|].
    apply andb_true_iff in H as [H _]. unfold entry_ok in H. apply andb_true_iff in H as [H _]. apply andb_true_iff in H as [H _].
    destruct (entry_outcomes e) as [|o0 l] eqn:E; [discriminate|]. rewrite forallb_forall in H. specialize (H o Ho).
    destruct o as [s r|w]; simpl in H; [|discriminate]. exists s, r. split; [reflexivity|].
    destruct (leaks s); [|discriminate]. destruct (bad s); [|discriminate]. repeat split. now apply Z.eqb_eq.
  Qed.
End Lib.

(** * n calls leave what 0 calls leave

    The wrapped call as the sequence of its phases (read off the generated skeletons of the wrapper, its init/exit and snoopy_init /
    snoopy_cleanup) over a count of live resources per class.  What a phase does to the count is what the theorems about it say:
    tsrm ctor / dtor allocate and release the thread record (thread-safe build; [k] blocks, pairing checked on the skeletons), the
    configuration ctor acquires [c] blocks for some [c] and the dtor releases exactly those (C11_no_growth), every other function
    called — input data, filters, message, data sources, outputs, error handler — is balanced with a neutral summary (net 0). *)
Record live := { l_cfg : nat; l_thread : nat; l_other : nat }.
Inductive phase := PThreadCtor | PCfgCtor | PNeutral | PCfgDtor | PThreadDtor | PRealExec.
Definition phase_eqb (a b : phase) : bool :=
  match a, b with
  | PThreadCtor, PThreadCtor | PCfgCtor, PCfgCtor | PNeutral, PNeutral | PCfgDtor, PCfgDtor | PThreadDtor, PThreadDtor | PRealExec, PRealExec => true
  | _, _ => false
  end.
Lemma phase_eqb_eq a b : phase_eqb a b = true -> a = b.
Proof. destruct a, b; simpl; congruence. Qed.
Definition phase_step (k c : nat) (p : phase) (l : live) : live :=
  match p with
  | PThreadCtor => {| l_cfg := l_cfg l; l_thread := l_thread l + k; l_other := l_other l |}
  | PCfgCtor => {| l_cfg := l_cfg l + c; l_thread := l_thread l; l_other := l_other l |}
  | PNeutral | PRealExec => l
  | PCfgDtor => {| l_cfg := 0; l_thread := l_thread l; l_other := l_other l |}
  | PThreadDtor => {| l_cfg := l_cfg l; l_thread := l_thread l - k; l_other := l_other l |}
  end.
Definition run_phases (k c : nat) (ps : list phase) (l : live) : live := fold_left (fun l p => phase_step k c p l) ps l.
Definition wrapped_call (ts : bool) (n m : nat) : list phase :=
  repeat PNeutral m ++ (if ts then [PThreadCtor] else []) ++ [PCfgCtor] ++ repeat PNeutral n ++ [PCfgDtor] ++ (if ts then [PThreadDtor] else []).

Lemma run_app k c a b l : run_phases k c (a ++ b) l = run_phases k c b (run_phases k c a l).
Proof. unfold run_phases. apply fold_left_app. Qed.
Lemma run_neutral k c n l : run_phases k c (repeat PNeutral n) l = l.
Proof. induction n; simpl; [reflexivity|assumption]. Qed.

(** everything up to the real exec: the live counts are those at entry (the real exec runs on the process as the caller left it) *)
Theorem at_real_exec k c ts n m l : l_cfg l = 0 -> run_phases k c (wrapped_call ts n m) l = l.
Proof.
  intros H. unfold wrapped_call. rewrite !run_app, !run_neutral. destruct l as [a b o]. simpl in H. subst.
  destruct ts; unfold run_phases; simpl; f_equal; lia.
Qed.
(** ... and the real exec itself and the return to the caller add nothing *)
Theorem after_return k c ts n m l : l_cfg l = 0 -> run_phases k c (wrapped_call ts n m ++ [PRealExec]) l = l.
Proof. intros H. rewrite run_app, at_real_exec by assumption. reflexivity. Qed.

Theorem n_calls k ts n m : forall (cs : list nat) l, l_cfg l = 0 ->
    fold_left (fun l c => run_phases k c (wrapped_call ts n m ++ [PRealExec]) l) cs l = l.
Proof. induction cs as [|c cs IH]; intros l H; simpl; [reflexivity|]. rewrite after_return by assumption. now apply IH. Qed.

(** reading the phase list off the skeletons *)
Definition REAL := "<real exec>".
Definition phase_of (f : string) : phase :=
  if String.eqb f "snoopy_tsrm_ctor" then PThreadCtor else if String.eqb f "snoopy_configuration_ctor" then PCfgCtor
  else if String.eqb f "snoopy_configuration_dtor" then PCfgDtor else if String.eqb f "snoopy_tsrm_dtor" then PThreadDtor
  else if String.eqb f REAL then PRealExec else PNeutral.
Definition expand1 (tbl : list (string * fn_skel)) (f : string) : list string :=
  match assoc String.eqb tbl f with Some sk => body_calls (sk_body sk) | None => [f] end.
Definition flatten (tbl : list (string * fn_skel)) (top : list string) : list string :=
  flat_map (expand1 tbl) (flat_map (expand1 tbl) top).

(** recognise the phase list: some neutral calls, [tsrm ctor], configuration ctor, neutral calls, configuration dtor, [tsrm dtor], real exec *)
Definition is_neutral_phase (p : phase) : bool := match p with PNeutral => true | _ => false end.
Fixpoint leading_neutral (ps : list phase) : nat := match ps with PNeutral :: r => S (leading_neutral r) | _ => 0 end.
Definition shape_of (ps : list phase) : option (bool * nat * nat) :=
  let m := leading_neutral ps in
  let ts := existsb (phase_eqb PThreadCtor) ps in
  let n := length (filter is_neutral_phase ps) - m in
  if list_eqb phase_eqb ps (wrapped_call ts n m ++ [PRealExec]) then Some (ts, n, m) else None.
Lemma shape_of_sound ps ts n m : shape_of ps = Some (ts, n, m) -> ps = wrapped_call ts n m ++ [PRealExec].
Proof.
  unfold shape_of. destruct (list_eqb phase_eqb ps _) eqn:E; [|discriminate]. intros H. inversion H; subst.
  revert E. apply list_eqb_eq. apply phase_eqb_eq.
Qed.

Theorem n_calls_of_shape ps ts n m k : shape_of ps = Some (ts, n, m) ->
  forall (cs : list nat) l, l_cfg l = 0 -> fold_left (fun l c => run_phases k c ps l) cs l = l.
Proof. intros H. rewrite (shape_of_sound _ _ _ _ H). apply n_calls. Qed.
Theorem at_real_exec_of_shape ps ts n m k c : shape_of ps = Some (ts, n, m) ->
  forall l, l_cfg l = 0 -> run_phases k c (removelast ps) l = l /\ run_phases k c ps l = l.
Proof.
  intros H l Hl. rewrite (shape_of_sound _ _ _ _ H). rewrite removelast_last. split; [now apply at_real_exec|now apply after_return].
Qed.

(** is a function called by the wrapper outside the four life-cycle functions ownership-neutral? *)
Definition neutral_fn (fns : list libfn) (externals : list string) (f : string) : bool :=
  if str_in f externals then negb (classified f)
  else match find (fun lf => String.eqb (lf_name lf) f) fns with
       | None => String.eqb f REAL
       | Some lf => match lf_skel lf with
                    | None => true
                    | Some _ => existsb (fun e => String.eqb (lf_name (e_fn e)) f && summary_eqb (e_sum e) neutral_summary && entry_ok e) (entries fns externals)
                    end
       end.
Definition life_cycle_fns : list string := ["snoopy_tsrm_ctor"; "snoopy_configuration_ctor"; "snoopy_configuration_dtor"; "snoopy_tsrm_dtor"].
Definition wrapper_names_ok (fns : list libfn) (externals : list string) (names : list string) : bool :=
  forallb (fun f => str_in f life_cycle_fns || neutral_fn fns externals f) names.
Definition field_of (k : key) : string := match k with KC _ f => f | _ => "" end.

(** * Flags of descriptor-creating calls, and the inventory of objects with static storage *)
Fixpoint expr_vars (e : sexpr) : list string :=
  match e with
  | XVar v => [v]
  | XCast a | XDeref a | XAddr a | XMember a _ => expr_vars a
  | XIndex a b => expr_vars a ++ expr_vars b
  | XCall _ l | XOp _ l => flat_map expr_vars l
  | XCallPtr p l => expr_vars p ++ flat_map expr_vars l
  | _ => []
  end.
(** argument lists of every call of [f] inside an expression / statement *)
Fixpoint ecall_args (f : string) (e : sexpr) : list (list sexpr) :=
  match e with
  | XCall g l => (if String.eqb f g then [l] else []) ++ flat_map (ecall_args f) l
  | XCallPtr p l => ecall_args f p ++ flat_map (ecall_args f) l
  | XCast a | XDeref a | XAddr a | XMember a _ => ecall_args f a
  | XIndex a b => ecall_args f a ++ ecall_args f b
  | XOp _ l => flat_map (ecall_args f) l
  | _ => []
  end.
Fixpoint scall_args (f : string) (s : sstmt) : list (list sexpr) :=
  match s with
  | SExpr e => ecall_args f e
  | SDecl _ _ (Some e) => ecall_args f e
  | SAssign l r => ecall_args f l ++ ecall_args f r
  | SIf c t e => ecall_args f c ++ flat_map (scall_args f) t ++ flat_map (scall_args f) e
  | SLoop c b => ecall_args f c ++ flat_map (scall_args f) b
  | SSeq l => flat_map (scall_args f) l
  | SReturn (Some e) => ecall_args f e
  | _ => []
  end.
Definition socket_calls (fns : list libfn) : list (string * list sexpr) :=
  flat_map (fun lf => match lf_skel lf with Some sk => map (fun a => (lf_name lf, a)) (flat_map (scall_args "socket") (sk_body sk)) | None => [] end) fns.
(** every socket the library creates is close-on-exec from the start: another thread's (or a forked child's) exec while the record is being sent
    does not inherit it *)
Definition sockets_cloexec (fns : list libfn) : bool :=
  forallb (fun c => match snd c with [_; t; _] => str_in "SOCK_CLOEXEC" (expr_vars t) | _ => false end) (socket_calls fns).

(** objects with static storage defined by the library (file scope and function-local statics): anything the library writes there outlives
    the call.  The inventory of the verified tree: registries (never written after load), the option registry, the test switches of
    configuration.c (written before init only), tsrm's once-control / mutex / repository, the constant defaults of the input data storage,
    and the two global records of the non-thread-safe build. *)
Definition known_static_objects : list string :=
  ["snoopy_configfile_optionRegistry"; "snoopy_configuration_configFileParsingEnabled"; "snoopy_configuration_altConfigFilePath";
   "snoopy_configuration_altConfigFilePathBuf"; "snoopy_datasourceregistry_names"; "snoopy_datasourceregistry_ptrs"; "snoopy_filterregistry_names";
   "snoopy_filterregistry_ptrs"; "snoopy_outputregistry_names"; "snoopy_outputregistry_ptrs"; "snoopy_inputdatastorage_setDefaults:empty_string";
   "snoopy_inputdatastorage_setDefaults:empty_string_array"; "snoopy_tsrm_init_onceControl"; "snoopy_tsrm_threadRepo_mutex"; "snoopy_tsrm_threadRepo_mutexAttr";
   "snoopy_tsrm_threadRepo_data"; "snoopy_tsrm_threadRepo"; "snoopy_configuration_data"; "snoopy_inputdatastorage_data"].
Definition new_static_objects (objs : list string) : list string := filter (fun o => negb (str_in o known_static_objects)) objs.
