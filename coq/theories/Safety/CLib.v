(** Further C idioms on arrays: read-only input strings, size_t arithmetic, strtok_r,
    pointer arrays, character walks. *)
From Snoopy Require Import Lib.CStr Safety.Mem.
From Coq Require Import ZifyBool ZifyN ZifyNat.
Local Open Scope N_scope.

(** a NUL-terminated read-only input string [s]: indices 0..len s are inside the object *)
Definition srd (s : list byte) (i : N) : res byte := if i <=? len s then Ok (nthN i s) else Fault OOB_read.

(** size_t (64-bit) subtraction *)
Definition two64 : N := 18446744073709551616.
Definition sub64 (a b : N) : N := if b <=? a then a - b else a + two64 - b.
Lemma sub64_le a b : b <= a -> sub64 a b = a - b.
Proof. intros H. unfold sub64. destruct (N.leb_spec b a); [reflexivity|lia]. Qed.

(** longest prefix whose bytes satisfy [p] *)
Fixpoint span (p : byte -> bool) (s : list byte) : N :=
  match s with
  | [] => 0
  | b :: s' => if p b then 1 + span p s' else 0
  end.
Lemma span_le p s : span p s <= len s.
Proof. induction s as [|b s IH]; cbn [span]; [cbn; lia|]. rewrite len_cons. destruct (p b); lia. Qed.
Lemma span_lt_stop p s : span p s < len s -> p (nthN (span p s) s) = false.
Proof.
  induction s as [|b s IH]; cbn [span]; [cbn; lia|]. rewrite len_cons. destruct (p b) eqn:E.
  - intros H. unfold nthN. replace (N.to_nat (1 + span p s)) with (S (N.to_nat (span p s))) by lia. cbn [nth]. apply IH. lia.
  - intros _. exact E.
Qed.
Lemma span_before p s k : k < span p s -> p (nthN k s) = true.
Proof.
  revert k. induction s as [|b s IH]; intros k; cbn [span]; [lia|]. destruct (p b) eqn:E; [|lia].
  intros H. destruct (N.eq_dec k 0) as [->|]; [exact E|].
  unfold nthN. replace (N.to_nat k) with (S (N.to_nat (k - 1))) by lia. cbn [nth]. apply IH. lia.
Qed.

(** strtok_r(str, "<delim>", &rest) with a one-byte delimiter set, on the string at [a + s]:
    returns (array, token offset or NULL, new rest) *)
Definition strtok_r (a : arr) (s : N) (delim : byte) : res (arr * option N * N) :=
  d <- cstr a s ;;
  let lead := span (beq delim) d in
  let d1 := dropN lead d in
  match d1 with
  | [] => Ok (a, None, s + lead)
  | _ :: _ =>
    let tl := span (fun b => negb (beq delim b)) d1 in
    if tl =? len d1 then Ok (a, Some (s + lead), s + lead + tl)
    else a' <- wr a (s + lead + tl) NUL ;; Ok (a', Some (s + lead), s + lead + tl + 1)
  end.

(** arrays of pointers / slots: [None] = indeterminate slot *)
Definition slots (A : Type) := list (option A).
Definition sl_fresh {A} (n : N) : slots A := repeat None (N.to_nat n).
Definition sl_set {A} (l : slots A) (i : N) (v : A) : res (slots A) :=
  if i <? N.of_nat (length l) then Ok (firstn (N.to_nat i) l ++ Some v :: skipn (N.to_nat i + 1) l) else Fault OOB_write.
Definition sl_get {A} (l : slots A) (i : N) : res A :=
  match nth_error l (N.to_nat i) with
  | Some (Some v) => Ok v
  | Some None => Fault Other_fault
  | None => Fault OOB_read
  end.
Lemma sl_set_length {A} (l : slots A) i v l' : sl_set l i v = Ok l' -> length l' = length l.
Proof.
  unfold sl_set. destruct (N.ltb_spec i (N.of_nat (length l))); [|discriminate]. intros E; injection E as <-.
  rewrite app_length. cbn [length]. rewrite firstn_length, skipn_length. lia.
Qed.
Lemma sl_set_ok {A} (l : slots A) i v : i < N.of_nat (length l) -> exists l', sl_set l i v = Ok l'.
Proof. intros H. unfold sl_set. destruct (N.ltb_spec i (N.of_nat (length l))); [eauto|lia]. Qed.

(** count of a byte in a string *)
Definition count_byte (c : byte) (s : list byte) : N := N.of_nat (List.length (filter (beq c) s)).
Lemma count_byte_le c s : count_byte c s <= len s.
Proof. unfold count_byte, len. induction s as [|b s IH]; cbn [filter length]; [lia|]. destruct (beq c b); cbn [length]; lia. Qed.

(** integer ranges *)
Definition in_range (hi : N) (v : N) : res N := if v <=? hi then Ok v else Fault Signed_overflow.
