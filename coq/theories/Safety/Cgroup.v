(** Buffer-level, path-by-path model of datasource/cgroup.c ([snoopy_datasource_cgroup],
    [doesCgroupEntryContainController]) and of the util/string.c helpers it calls
    ([snoopy_util_string_containsOnlyDigits], [snoopy_util_string_findLineStartingWith],
    [snoopy_util_string_nullTerminateLine]), on top of util/file.c getSmallTextFileContent.

    Every C object is an [arr] with its capacity:
      - [procPidCgroupFilePath[PROC_PID_CGROUP_PATH_SIZE_MAX]]  = [fresh path_cap]  ([path_cap] is a parameter, 32 in the tree)
      - the block handed back by getSmallTextFileContent           = [fresh file_max] (content) or [fresh err_max] (error text)
      - [searchString = malloc(strlen(arg) + 2)]                   = [fresh (len arg + 2)]
      - [resultBuf]                                                = the argument [buf] (capacity unknown, [size] is what the caller claims)
    Every read goes through [rd]/[cstr]/[srd], every write through [wr]/[wrs]/[c_snprintf]; the in-place edits of
    the content block ([*secondColon = 0 .. ':'], the comma walk, [strtok_r(.., "\n", ..)], nullTerminateLine) are
    array writes at the computed offsets.  [Fault] = the C program has undefined behaviour at that point.

    Not modelled: malloc returning NULL (the C code does not test searchString either), free (every block is used
    only before its free: searchString is freed after findLineStartingWith returned, the content block after the
    last snprintf), the ferror() branch of getSmallTextFileContent (same shape as the fopen branch).
    [isdigit] is applied to a plain [char]: for bytes >= 0x80 that is an argument outside unsigned char/EOF; glibc
    defines the table for -128..255, the model follows glibc ([is_digit] false there). *)
From Snoopy Require Import Lib.CStr Safety.Mem Safety.CLib Safety.Consts Safety.Lits Safety.Out.
From Coq Require Import ZifyBool ZifyN ZifyNat.
From Coq Require Strings.String.
Local Open Scope N_scope.

(** the literals of cgroup.c and util/file.c (Strings.String is only imported inside this module) *)
Module CgLits.
  Import Coq.Strings.String.
  Definition lit_missing_arg := bytes "Missing cgroup selection argument".
  Definition lit_cgroup := bytes "/cgroup".                         (* "/proc/%d/cgroup" = lit_proc ++ %d ++ lit_cgroup *)
  Definition lit_unable_read := bytes "Unable to read file ".       (* "Unable to read file %s, reason: %s" *)
  Definition lit_reason := bytes ", reason: ".
  Definition lit_none := bytes "(none)".
  Definition lit_unable_open := bytes "Unable to open file ".       (* "Unable to open file %s for reading, reason: %s" *)
  Definition lit_for_reading := bytes " for reading, reason: ".
  Definition lit_too_large := bytes "INTERNAL ERROR: File too large for getSmallTextFileContent()".
End CgLits.
Export CgLits.

Section Cgroup.
  (** SNOOPY_UTIL_FILE__SMALL_FILE_MAX_SIZE, SNOOPY_UTIL_FILE__ERROR_MSG_MAX_SIZE, PROC_PID_CGROUP_PATH_SIZE_MAX *)
  Variables file_max err_max path_cap : N.

  (** * util/string.c *)

  (** snoopy_util_string_containsOnlyDigits(str): [while ( *str) if (isdigit( *str++) == 0) return FALSE;] *)
  Fixpoint digits_loop (fuel : nat) (s : list byte) (i : N) : res bool :=
    match fuel with
    | O => Fault Out_of_fuel
    | S f =>
      b <- srd s i ;;
      if beq b NUL then Ok true
      else if is_digit b then digits_loop f s (i + 1) else Ok false
    end.
  Definition contains_only_digits (s : list byte) : res bool := digits_loop (S (length s)) s 0.

  (** snoopy_util_string_findLineStartingWith(content = blk + 0, searchString = ss + 0).
      [strstr] reads the two C strings; [foundStringPos[-1]] is the read at [fpos - 1], guarded as in C. *)
  Fixpoint find_line_loop (fuel : nat) (blk ss : arr) (pos : N) : res (option N) :=
    match fuel with
    | O => Fault Out_of_fuel
    | S f =>
      hay <- cstr blk pos ;;
      needle <- cstr ss 0 ;;
      match strstr hay needle with
      | None => Ok None
      | Some k =>
        let fpos := pos + N.of_nat k in
        line_start <- (if fpos =? 0 then Ok true
                       else if 0 <? fpos then b <- rd blk (fpos - 1) ;; Ok (beq b NL)
                       else Ok false) ;;
        if line_start then Ok (Some fpos)
        else n <- c_strlen ss 0 ;; find_line_loop f blk ss (fpos + n)        (* contentPos = found + strlen(searchString) *)
      end
    end.

  (** snoopy_util_string_nullTerminateLine(blk + p) *)
  Definition null_terminate_line (blk : arr) (p : N) : res arr :=
    d <- cstr blk p ;;
    match index NL d with
    | None => Ok blk
    | Some k => wr blk (p + N.of_nat k) NUL
    end.

  (** * util/file.c getSmallTextFileContent, as seen by its caller: (block, success).

      Success path.  The C code mallocs [file_max] bytes, stores NUL at 0, freads chunks of FREAD_SIZE at
      [block + total] until EOF / a short read / [total >= file_max], and then either reports "too large"
      ([total >= file_max]) or stores the terminator at [total].  [Out.read_loop]/[Out.small_file] model exactly this loop
      and [P_Out.small_file_safe] proves it in bounds.  Here [content] stands for the bytes the loop collected (the
      file, or its prefix up to a short read; the theorem quantifies over all of them), so the final state of the
      block is: [content] at offset 0, NUL at [len content], every later cell never written (indeterminate), provided
      [len content < file_max]; because FREAD_SIZE divides MAX_SIZE (checked by [safety_consts_ok]) the loop stops at
      [total = file_max] exactly when the file has at least [file_max] bytes, which is the "too large" branch.
      The block is therefore built directly with one [wrs] instead of re-running the chunk loop (same final array,
      cell for cell; no 10240-step fuel in the extracted code).  Arbitrary bytes are allowed in [content]: an embedded
      NUL simply ends the C string earlier, exactly as for the C code.

      Failure paths deliver a NUL-terminated error text in a block of [err_max] bytes:
        fopen failed: [open_err] is the text strerror_r produces; errorMsgBuf and the message block are both modelled;
        too large   : the fixed INTERNAL ERROR text. *)
  Definition err_block (text : list byte) : res arr :=
    r <- c_snprintf (fresh err_max) 0 err_max text ;;
    wr (fst r) (sub64 err_max 1) NUL.

  Definition get_small_file (path : list byte) (file : option (list byte)) (open_err : list byte) : res (arr * bool) :=
    match file with
    | None =>
      e0 <- wr (fresh err_max) 0 NUL ;;                           (* errorMsgBuf[0] = '\0' *)
      r <- c_snprintf e0 0 err_max open_err ;;                    (* strerror_r(errno, errorMsgBuf, ERROR_MSG_MAX_SIZE) *)
      e2 <- wr (fst r) (sub64 err_max 1) NUL ;;                   (* errorMsgBuf[MAX-1] = '\0' *)
      emsg <- cstr e2 0 ;;
      blk <- err_block (lit_unable_open ++ path ++ lit_for_reading ++ emsg) ;;
      Ok (blk, false)
    | Some content =>
      if len content <? file_max then
        blk <- wrs (fresh file_max) 0 (content ++ [NUL]) ;; Ok (blk, true)
      else
        blk <- err_block lit_too_large ;; Ok (blk, false)
    end.

  (** * cgroup.c *)
  Section Entry.
    Variable arg : list byte.      (* controllerName: a read-only NUL-terminated input string *)

    (** the comma walk; [b] already has NUL on the second colon; [tp] = tokenPtr.  Returns the block and "matched". *)
    Fixpoint comma_loop (fuel : nat) (b : arr) (tp : N) : res (arr * bool) :=
      match fuel with
      | O => Fault Out_of_fuel
      | S f =>
        tk <- cstr b tp ;;                                         (* strchr(tokenPtr, ',') *)
        match index COMMA tk with
        | Some k =>
          let cp := tp + N.of_nat k in
          b1 <- wr b cp NUL ;;                                     (* *commaPtr = '\0' *)
          tk1 <- cstr b1 tp ;;                                     (* strcmp(tokenPtr, controllerName) *)
          b2 <- wr b1 cp COMMA ;;                                  (* *commaPtr = ',' (both branches) *)
          if list_eqb tk1 arg then Ok (b2, true)
          else comma_loop f b2 (cp + 1)
        | None =>
          Ok (b, list_eqb tk arg)                                  (* last token *)
        end
      end.

    (** doesCgroupEntryContainController(blk + t, arg): returns the block and (result == SNOOPY_TRUE) *)
    Definition entry_has_controller (blk : arr) (t : N) : res (arr * bool) :=
      e <- cstr blk t ;;                                           (* strchr(cgroupEntry, ':') *)
      match index COLONB e with
      | None => Ok (blk, false)
      | Some k1 =>
        let cl := t + N.of_nat k1 + 1 in                           (* controllerList = firstColon + 1 *)
        l <- cstr blk cl ;;                                        (* strchr(controllerList, ':') *)
        match index COLONB l with
        | None => Ok (blk, false)
        | Some k2 =>
          let sc := cl + N.of_nat k2 in                            (* secondColon *)
          if sc =? cl then Ok (blk, false) else
          b1 <- wr blk sc NUL ;;                                   (* *secondColon = '\0' *)
          l1 <- cstr b1 cl ;;                                      (* strcmp(controllerList, controllerName) *)
          if list_eqb l1 arg then b2 <- wr b1 sc COLONB ;; Ok (b2, true) else
          match index COMMA l1 with                                (* strchr(controllerList, ',') *)
          | None => b2 <- wr b1 sc COLONB ;; Ok (b2, false)
          | Some _ =>
            r <- comma_loop (S (length l1)) b1 cl ;;
            b3 <- wr (fst r) sc COLONB ;;                          (* *secondColon = ':' on every way out *)
            Ok (b3, snd r)
          end
        end
      end.

    (** cgroupEntry = strtok_r(content, "\n", &next); while (cgroupEntry) { if (match) break; cgroupEntry = strtok_r(NULL, ..) } *)
    Fixpoint entry_loop (fuel : nat) (blk : arr) (str : option N) (rest : N) : res (arr * option N) :=
      match fuel with
      | O => Fault Out_of_fuel
      | S f =>
        r <- strtok_r blk (match str with Some s => s | None => rest end) NL ;;
        let '(blk1, tok, rest') := r in
        match tok with
        | None => Ok (blk1, None)
        | Some t =>
          r2 <- entry_has_controller blk1 t ;;
          if snd r2 then Ok (fst r2, Some t) else entry_loop f (fst r2) None rest'
        end
      end.

    (** the two search modes on the content block; [fuel] bounds the line walks (S (length content) suffices) *)
    Definition cgroup_search (fuel : nat) (blk : arr) : res (arr * option N) :=
      dig <- contains_only_digits arg ;;
      if dig then
        let n := len arg + 2 in                                    (* searchStringLen = strlen(arg) + 2 *)
        r <- c_snprintf (fresh n) 0 n (arg ++ [COLONB]) ;;         (* snprintf(searchString, searchStringLen, "%s:", arg) *)
        e <- find_line_loop fuel blk (fst r) 0 ;;
        match e with
        | Some p => blk' <- null_terminate_line blk p ;; Ok (blk', Some p)
        | None => Ok (blk, None)
        end
      else entry_loop fuel blk (Some 0) 0.
  End Entry.

  (** snoopy_datasource_cgroup(buf, size, arg): returns the result buffer and "returned SNOOPY_DATASOURCE_FAILURE".
      [pid_text] = what %d prints for getpid(). *)
  Definition cgroup_core (buf : arr) (size : N) (arg pid_text : list byte) (file : option (list byte)) (open_err : list byte)
    : res (arr * bool) :=
    a0 <- srd arg 0 ;;                                             (* strcmp(arg, "") *)
    if beq a0 NUL then r <- c_snprintf buf 0 size lit_missing_arg ;; Ok (fst r, true) else
    pr <- c_snprintf (fresh path_cap) 0 path_cap (lit_proc ++ pid_text ++ lit_cgroup) ;;
    path <- cstr (fst pr) 0 ;;
    g <- get_small_file path file open_err ;;
    let '(blk, ok) := g in
    if negb ok then
      etext <- cstr blk 0 ;;
      r <- c_snprintf buf 0 size (lit_unable_read ++ path ++ lit_reason ++ etext) ;; Ok (fst r, true)
    else
      let fuel := S (length (match file with Some content => content | None => [] end)) in
      s <- cgroup_search arg fuel blk ;;
      match snd s with
      | None => r <- c_snprintf buf 0 size lit_none ;; Ok (fst r, false)
      | Some p => entry <- cstr (fst s) p ;; r <- c_snprintf buf 0 size entry ;; Ok (fst r, false)
      end.
End Cgroup.

(** the interface used by the proofs and the extraction: the two util/file.c sizes come from the record *)
Definition cgroup_buf (c : safety_consts) (path_cap : N) (buf : arr) (size : N) (arg : list byte) (pid_text : list byte)
    (file : option (list byte)) (open_err : list byte) : res (arr * bool) :=
  cgroup_core (s_file_max c) (s_file_err_max c) path_cap buf size arg pid_text file open_err.

(** * statement tests (sizes of the tree: 10240 / 1024 / 32; result buffer of 64 or 16 bytes) *)
Module CgTests.
  Import Coq.Strings.String.
  Definition run (size : N) (arg pid : list byte) (file : option (list byte)) : option (list byte * bool) :=
    match cgroup_core 10240 1024 32 (fresh 64) size arg pid file (bytes "No such file or directory") with
    | Ok (a, failed) => match cstr a 0 with Ok s => Some (s, failed) | Fault _ => None end
    | Fault _ => None
    end.
  Definition f1 := bytes "1:name=systemd:/user.slice
0::/x
".
  Definition f2 := bytes "4:cpu,cpuacct:/a
".
  Definition f3 := bytes "12:pids:/p
2:cpuacct,cpu,x:/b
1:name=systemd:/s".

  Example t_name : run 64 (bytes "name=systemd") (bytes "77") (Some f1) = Some (bytes "1:name=systemd:/user.slice", false).
  Proof. vm_compute. reflexivity. Qed.
  Example t_num1 : run 64 (bytes "1") (bytes "77") (Some f1) = Some (bytes "1:name=systemd:/user.slice", false).
  Proof. vm_compute. reflexivity. Qed.
  Example t_num0 : run 64 (bytes "0") (bytes "77") (Some f1) = Some (bytes "0::/x", false).
  Proof. vm_compute. reflexivity. Qed.
  Example t_empty : run 64 [] (bytes "77") (Some f1) = Some (bytes "Missing cgroup selection argument", true).
  Proof. vm_compute. reflexivity. Qed.
  Example t_cpu : run 64 (bytes "cpu") (bytes "77") (Some f2) = Some (bytes "4:cpu,cpuacct:/a", false).
  Proof. vm_compute. reflexivity. Qed.
  Example t_cpuacct : run 64 (bytes "cpuacct") (bytes "77") (Some f2) = Some (bytes "4:cpu,cpuacct:/a", false).
  Proof. vm_compute. reflexivity. Qed.
  Example t_cpua_none : run 64 (bytes "cpua") (bytes "77") (Some f2) = Some (bytes "(none)", false).
  Proof. vm_compute. reflexivity. Qed.
  (* "2:" also occurs inside "12:"; only the occurrence at a line start counts *)
  Example t_num2 : run 64 (bytes "2") (bytes "77") (Some f3) = Some (bytes "2:cpuacct,cpu,x:/b", false).
  Proof. vm_compute. reflexivity. Qed.
  Example t_mid : run 64 (bytes "cpu") (bytes "77") (Some f3) = Some (bytes "2:cpuacct,cpu,x:/b", false).
  Proof. vm_compute. reflexivity. Qed.
  Example t_last : run 64 (bytes "x") (bytes "77") (Some f3) = Some (bytes "2:cpuacct,cpu,x:/b", false).
  Proof. vm_compute. reflexivity. Qed.
  Example t_lastline : run 64 (bytes "name=systemd") (bytes "77") (Some f3) = Some (bytes "1:name=systemd:/s", false).
  Proof. vm_compute. reflexivity. Qed.
  Example t_trunc : run 16 (bytes "1") (bytes "77") (Some f3) = Some (bytes "1:name=systemd:", false).
  Proof. vm_compute. reflexivity. Qed.
  Example t_num_none : run 64 (bytes "3") (bytes "77") (Some f3) = Some (bytes "(none)", false).
  Proof. vm_compute. reflexivity. Qed.
  Example t_empty_file : run 64 (bytes "cpu") (bytes "77") (Some []) = Some (bytes "(none)", false).
  Proof. vm_compute. reflexivity. Qed.
  Example t_open_fail : run 64 (bytes "cpu") (bytes "77") None
    = Some (bytes "Unable to read file /proc/77/cgroup, reason: Unable to open fil", true).     (* 63 bytes *)
  Proof. vm_compute. reflexivity. Qed.
  Example t_open_fail_full :
    match cgroup_core 10240 1024 32 (fresh 200) 200 (bytes "cpu") (bytes "77") None (bytes "No such file or directory") with
    | Ok (a, failed) => match cstr a 0 with Ok s => Some (s, failed) | Fault _ => None end
    | Fault _ => None
    end = Some (bytes "Unable to read file /proc/77/cgroup, reason: Unable to open file /proc/77/cgroup for reading, reason: No such file or directory", true).
  Proof. vm_compute. reflexivity. Qed.
  (* a file of file_max bytes or more: the "too large" text (small sizes so that the test stays cheap) *)
  Example t_too_large :
    match cgroup_core 8 128 32 (fresh 128) 128 (bytes "1") (bytes "5") (Some (bytes "1:a:/b
2")) [] with
    | Ok (a, failed) => match cstr a 0 with Ok s => Some (s, failed) | Fault _ => None end
    | Fault _ => None
    end = Some (bytes "Unable to read file /proc/5/cgroup, reason: INTERNAL ERROR: File too large for getSmallTextFileContent()", true).
  Proof. vm_compute. reflexivity. Qed.
  (* the content block is restored by the controller match: a later line is still found after earlier mismatches *)
  Example t_restored :
    match cgroup_search (bytes "cpu") 40 (map Some (f2 ++ [NUL])) with
    | Ok (blk, Some 0) => cstr blk 0
    | _ => Fault Other_fault
    end = Ok (bytes "4:cpu,cpuacct:/a").
  Proof. vm_compute. reflexivity. Qed.
End CgTests.
