(** Buffer-level models of the configuration path: src/util/parser.c (strByteLength),
    src/util/syslog.c (both lookups), src/configfile.c (output split, toUpper/cleanup helpers,
    getboolean) and lib/inih/src/ini.c as compiled (line on the stack, fgets chunking). *)
From Snoopy Require Import Lib.CStr Safety.Mem Safety.CLib Safety.Consts.
From Coq Require Import ZifyBool ZifyN ZifyNat.
Local Open Scope N_scope.

Section Conf.
  Variable c : safety_consts.

  (** * util/parser.c strByteLength(text, valMin, valMax, valDefault) *)
  Definition acc_limit : N := if s_bytelen_wide c then s_llong_max c else s_int_max c.

  Fixpoint digits_loop (fuel : nat) (text : list byte) (p acc vmax : N) : res (N * N) :=
    match fuel with
    | O => Fault Out_of_fuel
    | S f =>
      b <- srd text p ;;
      if is_digit b then
        acc' <- (if acc <=? vmax then in_range acc_limit (acc * 10 + digit_val b) else Ok acc) ;;
        digits_loop f text (p + 1) acc' vmax
      else Ok (p, acc)
    end.

  Definition byte_length (text : list byte) (vmin vmax vdef : N) : res N :=
    _ <- in_range (s_int_max c) vmax ;;
    r <- digits_loop (S (S (List.length text))) text 0 0 vmax ;;
    let '(p, num) := r in
    if num =? 0 then Ok vdef else
    b <- srd text p ;;
    let factor := if beq b x6b || beq b x4b then s_factor_k c
                  else if beq b x6d || beq b x4d then s_factor_m c else 1 in
    result <- in_range acc_limit (num * factor) ;;
    let r1 := if result <? vmin then vmin else result in
    let r2 := if vmax <? r1 then vmax else r1 in
    in_range (s_int_max c) r2.

  (** * util/syslog.c prefix handling (both lookups), configfile.c remove_prefix *)
  Fixpoint strncmp_eq (fuel : nat) (s lit : list byte) (i n : N) : res bool :=
    match fuel with
    | O => Fault Out_of_fuel
    | S f =>
      if n <=? i then Ok true else
      a <- srd s i ;; b <- srd lit i ;;
      if negb (beq a b) then Ok false
      else if beq a NUL then Ok true
      else strncmp_eq f s lit (i + 1) n
    end.
  Definition tail_at (s : list byte) (k : N) : res (list byte) :=
    if k <=? len s then Ok (dropN k s) else Fault OOB_read.
  (** guarded: [if (0 == strncmp(s, lit, n)) adj = &s[skip]]; unguarded (old): [if ('_' == s[skip-1]) adj = &s[skip]] *)
  Definition strip_prefix (guarded : bool) (lit : list byte) (n skip : N) (s : list byte) : res (list byte) :=
    if guarded then
      eq <- strncmp_eq (S (N.to_nat n)) s lit 0 n ;;
      if eq then tail_at s skip else Ok s
    else
      b <- srd s (skip - 1) ;;
      if beq b x5f then tail_at s skip else Ok s.
  Definition facility_name (s : list byte) : res (list byte) := strip_prefix (s_fac_guarded c) (s_log_prefix c) (s_log_cmp_n c) (s_log_skip c) s.
  Definition level_name (s : list byte) : res (list byte) := strip_prefix (s_lvl_guarded c) (s_log_prefix c) (s_log_cmp_n c) (s_log_skip c) s.

  (** * configfile.c *)
  Definition strdup (s : list byte) : res arr := c_store (fresh (len s + 1)) 0 s.

  (** snoopy_util_string_toUpper in place *)
  Fixpoint toupper_loop (fuel : nat) (a : arr) (p : N) : res arr :=
    match fuel with
    | O => Fault Out_of_fuel
    | S f =>
      b <- rd a p ;;
      if beq b NUL then Ok a else
      a' <- (if (97 <=? byteN b) && (byteN b <=? 122) then wr a p (to_upper b) else Ok a) ;;
      toupper_loop f a' (p + 1)
    end.
  Definition to_upper_inplace (a : arr) : res arr := toupper_loop (S (List.length a)) a 0.

  (** snoopy_configfile_syslog_value_cleanup on a strdup'ed value, then the lookup's own strip *)
  Definition syslog_value (level : bool) (value : list byte) : res (list byte) :=
    a0 <- strdup value ;;
    a1 <- to_upper_inplace a0 ;;
    s <- cstr a1 0 ;;
    s' <- (if s_cfg_strips c then strip_prefix (s_cfg_guarded c) (s_cfg_prefix c) (s_cfg_cmp_n c) (s_cfg_skip c) s else Ok s) ;;
    if level then level_name s' else facility_name s'.

  (** parseValue_output: (name, arg, arg found?) *)
  Definition output_split (value : list byte) : res (list byte * list byte * bool) :=
    a0 <- strdup value ;;
    s <- cstr a0 0 ;;
    if s_out_split_strchr c then
      match index x3a s with
      | None => Ok (s, [], false)
      | Some k =>
        let k := N.of_nat k in
        a1 <- wr a0 k NUL ;;
        name <- cstr a1 0 ;;
        arg <- cstr a1 (k + 1) ;;
        Ok (name, arg, true)
      end
    else
      match index x3a s with
      | None => Ok (s, [], false)
      | Some _ =>
        (* old code: outputName = strtok_r(confVal, ":", &save); outputArg = outputName + strlen(outputName) + 1 *)
        r <- strtok_r a0 0 x3a ;;
        let '(a1, tok, _) := r in
        match tok with
        | None => Fault Null_deref
        | Some t => name <- cstr a1 t ;; arg <- cstr a1 (t + len name + 1) ;; Ok (name, arg, true)
        end
      end.

  (** snoopy_configfile_getboolean reads c[0] only *)
  Definition getboolean (value : list byte) : res (option bool) :=
    b <- srd value 0 ;;
    if beq b x79 || beq b x59 || beq b x31 || beq b x74 || beq b x54 then Ok (Some true)
    else if beq b x6e || beq b x4e || beq b x30 || beq b x66 || beq b x46 then Ok (Some false)
    else Ok None.

  (** * lib/inih/src/ini.c *)
  Definition is_nl (b : byte) : bool := beq b NL.
  (** fgets(line, n, file): at most n-1 bytes, stops after a newline; [None] at end of file *)
  Definition fgets (n : N) (rest : list byte) : option (list byte * list byte) :=
    match rest with
    | [] => None
    | _ =>
      let upto := match index NL rest with Some k => N.of_nat k + 1 | None => len rest end in
      let k := N.min (n - 1) upto in
      Some (takeN k rest, dropN k rest)
    end.

  Fixpoint rstrip_loop (fuel : nat) (a : arr) (s p : N) : res arr :=
    match fuel with
    | O => Fault Out_of_fuel
    | S f =>
      if s <? p then
        b <- rd a (p - 1) ;;
        if is_space b then a' <- wr a (p - 1) NUL ;; rstrip_loop f a' s (p - 1) else Ok a
      else Ok a
    end.
  Definition rstrip (a : arr) (s : N) : res arr :=
    n <- c_strlen a s ;; rstrip_loop (S (N.to_nat n)) a s (s + n).

  Fixpoint lskip_loop (fuel : nat) (a : arr) (s : N) : res N :=
    match fuel with
    | O => Fault Out_of_fuel
    | S f => b <- rd a s ;; if negb (beq b NUL) && is_space b then lskip_loop f a (s + 1) else Ok s
    end.
  Definition lskip (a : arr) (s : N) : res N := lskip_loop (S (List.length a)) a s.

  Fixpoint find_loop (fuel : nat) (a : arr) (s : N) (chars : list byte) (was_space : bool) : res N :=
    match fuel with
    | O => Fault Out_of_fuel
    | S f =>
      b <- rd a s ;;
      if beq b NUL then Ok s
      else if existsb (beq b) chars then Ok s
      else if s_ini_inline_comments c && was_space && beq b SEMI then Ok s
      else find_loop f a (s + 1) chars (is_space b)
    end.
  Definition find_chars_or_comment (a : arr) (s : N) (chars : list byte) : res N :=
    find_loop (S (List.length a)) a s chars false.

  (** strncpy0(dest, src + sp, size) *)
  Fixpoint strncpy0_loop (fuel : nat) (dest src : arr) (sp i size : N) : res arr :=
    match fuel with
    | O => Fault Out_of_fuel
    | S f =>
      if i <? sub64 size 1 then
        b <- rd src (sp + i) ;;
        if beq b NUL then (if s_ini_strncpy0_term c then wr dest i NUL else Ok dest)
        else dest' <- wr dest i b ;; strncpy0_loop f dest' src sp (i + 1) size
      else (if s_ini_strncpy0_term c then wr dest i NUL else Ok dest)
    end.
  Definition strncpy0 (dest src : arr) (sp size : N) : res arr :=
    strncpy0_loop (S (List.length src)) dest src sp 0 size.

  Variable handler : list byte -> list byte -> list byte -> bool.

  Record ini_state := {
    i_section : arr; i_prev : arr; i_error : N;
    i_calls : list (list byte * list byte * list byte)      (* handler calls, newest first *)
  }.

  Definition call_handler (st : ini_state) (lineno : N) (sec name value : list byte) (prev' : arr) : ini_state :=
    {| i_section := i_section st; i_prev := prev';
       i_error := if negb (handler sec name value) && (i_error st =? 0) then lineno else i_error st;
       i_calls := (sec, name, value) :: i_calls st |}.
  Definition set_error (st : ini_state) (lineno : N) : ini_state :=
    {| i_section := i_section st; i_prev := i_prev st;
       i_error := if i_error st =? 0 then lineno else i_error st; i_calls := i_calls st |}.

  Definition strip_quotes (l : arr) (value : N) : res (arr * N) :=
    v0 <- rd l value ;;
    n <- c_strlen l value ;;
    let try (q : byte) : res (option (arr * N)) :=
      if beq v0 q then
        last <- rd l (sub64 (value + n) 1) ;;
        if beq last q then l' <- wr l (sub64 (value + n) 1) NUL ;; Ok (Some (l', value + 1)) else Ok None
      else Ok None in
    r1 <- try x22 ;;
    match r1 with
    | Some r => Ok r
    | None => r2 <- try x27 ;; match r2 with Some r => Ok r | None => Ok (l, value) end
    end.

  Definition process_line (line : arr) (lineno : N) (st : ini_state) : res (arr * ini_state) :=
    start0 <- (if s_ini_bom c && (lineno =? 1) then
                 b0 <- rd line 0 ;;
                 if beq b0 xef then b1 <- rd line 1 ;;
                   if beq b1 xbb then b2 <- rd line 2 ;; if beq b2 xbf then Ok 3 else Ok 0
                   else Ok 0
                 else Ok 0
               else Ok 0) ;;
    l1 <- rstrip line start0 ;;
    start <- lskip l1 start0 ;;
    c0 <- rd l1 start ;;
    if beq c0 SEMI || beq c0 HASH || beq c0 NUL then Ok (l1, st) else
    pn0 <- rd (i_prev st) 0 ;;
    if s_ini_multiline c && negb (beq pn0 NUL) && (0 <? start) then
      sec <- cstr (i_section st) 0 ;; pn <- cstr (i_prev st) 0 ;; v <- cstr l1 start ;;
      Ok (l1, call_handler st lineno sec pn v (i_prev st))
    else if beq c0 x5b then
      e <- find_chars_or_comment l1 (start + 1) [x5d] ;;
      be <- rd l1 e ;;
      if beq be x5d then
        l2 <- wr l1 e NUL ;;
        sec' <- strncpy0 (i_section st) l2 (start + 1) (s_ini_section_copy c) ;;
        pn' <- wr (i_prev st) 0 NUL ;;
        Ok (l2, {| i_section := sec'; i_prev := pn'; i_error := i_error st; i_calls := i_calls st |})
      else Ok (l1, set_error st lineno)
    else
      e <- find_chars_or_comment l1 start [x3d; x3a] ;;
      be <- rd l1 e ;;
      if beq be x3d || beq be x3a then
        l2 <- wr l1 e NUL ;;
        l3 <- rstrip l2 start ;;
        let value := e + 1 in
        l4 <- (if s_ini_inline_comments c then
                 e2 <- find_chars_or_comment l3 value [] ;;
                 b <- rd l3 e2 ;;
                 if negb (beq b NUL) then wr l3 e2 NUL else Ok l3
               else Ok l3) ;;
        value1 <- lskip l4 value ;;
        l5 <- rstrip l4 value1 ;;
        q <- strip_quotes l5 value1 ;;
        let '(l6, value2) := q in
        pn' <- strncpy0 (i_prev st) l6 start (s_ini_name_copy c) ;;
        sec <- cstr (i_section st) 0 ;; nm <- cstr l6 start ;; v <- cstr l6 value2 ;;
        Ok (l6, call_handler st lineno sec nm v pn')
      else Ok (l1, set_error st lineno).

  Fixpoint ini_lines (fuel : nat) (line : arr) (rest : list byte) (lineno : N) (st : ini_state) : res ini_state :=
    match fuel with
    | O => Fault Out_of_fuel
    | S f =>
      match fgets (s_ini_max_line c) rest with
      | None => Ok st
      | Some (chunk, rest') =>
        line1 <- wrs line 0 (chunk ++ [NUL]) ;;
        r <- process_line line1 (lineno + 1) st ;;
        let '(line2, st') := r in
        ini_lines f line2 rest' (lineno + 1) st'
      end
    end.

  (** ini_parse_stream over the bytes of the file *)
  Definition ini_parse (file : list byte) : res ini_state :=
    ini_lines (S (List.length file)) (fresh (s_ini_line_cap c)) file 0
      {| i_section := zeroed (s_ini_section_cap c); i_prev := zeroed (s_ini_name_cap c); i_error := 0; i_calls := [] |}.
End Conf.
