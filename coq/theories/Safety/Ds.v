(** Buffer-level models of data sources: cmdline.c, env_all.c, hostname.c, login.c, datetime.c,
    and the generic "snprintf(resultBuf, resultBufSize, ...)" shape shared by the others
    (timestamp*, env, snoopy_literal, filename, uid, ... and, after the translator check,
    every remaining data source). *)
From Snoopy Require Import Lib.CStr Safety.Mem Safety.CLib Safety.Consts Safety.Lits Datasource.Cmdline.
From Coq Require Import ZifyBool ZifyN ZifyNat.
Local Open Scope N_scope.

Section Ds.
  Variable c : safety_consts.
  Variable cc : cmdline_consts.

  (** a data source of the generic shape: one bounded print of some text *)
  Definition ds_snprintf (a : arr) (size : N) (text : list byte) : res (arr * N) := c_snprintf a 0 size text.

  (** * cmdline.c *)
  Fixpoint cmdline_loop (a : arr) (size bytes : N) (first : bool) (args : list (list byte)) : res (arr * N) :=
    match args with
    | [] => Ok (a, bytes)
    | x :: args' =>
      r1 <- (if negb first && (bytes <? size) then
               r <- c_snprintf a bytes (size - bytes) (sep cc) ;; Ok (fst r, bytes + snd r)
             else Ok (a, bytes)) ;;
      let '(a1, b1) := r1 in
      r2 <- (if b1 <? size then
               r <- c_snprintf a1 b1 (size - b1) x ;; Ok (fst r, b1 + snd r)
             else Ok (a1, b1)) ;;
      cmdline_loop (fst r2) size (snd r2) false args'
    end.

  Definition cmdline_buf (a : arr) (size : N) (file : option (list byte)) (argv : option (list (list byte))) : res (arr * N) :=
    if size =? 0 then Ok (a, 0) else
    match argv with
    | None | Some [] =>
      match file with
      | None => c_snprintf a 0 size (unknown cc)
      | Some f => c_snprintf a 0 size f
      end
    | Some args =>
      r <- cmdline_loop a size 0 true args ;;
      let '(a1, bytes) := r in
      a2 <- (if bytes <? size then wr a1 bytes NUL else wr a1 (size - 1) NUL) ;;
      Ok (a2, bytes)
    end.

  (** * env_all.c: [environ = None] is environ == NULL *)
  Fixpoint env_loop (a : arr) (size rs : N) (first : bool) (items : list (list byte)) : res (arr * N) :=
    match items with
    | [] => Ok (a, rs)
    | item :: items' =>
      let rem0 := sub64 size rs in
      r1 <- (if negb first && (s_env_comma_min c <=? rem0) then
               a1 <- wr a rs COMMA ;; a2 <- wr a1 (rs + 1) NUL ;; Ok (a2, rs + 1, rem0 - 1)
             else Ok (a, rs, rem0)) ;;
      let '(a1, rs1, rem) := r1 in
      if len item + s_env_whole_slack c <? rem then
        r <- c_snprintf a1 rs1 rem item ;;
        env_loop (fst r) size (rs1 + snd r) false items'
      else
        let n1 := sub64 rem (s_env_trunc_sub c) in
        r <- c_snprintf a1 rs1 n1 item ;;
        (* resultSize += strSizeToCopy - 1 on an int *)
        if n1 =? 0 then Fault OOB_write (* resultSize becomes -1: the next write starts before the buffer *) else
        let rs2 := rs1 + (n1 - 1) in
        r' <- c_snprintf (fst r) rs2 (s_env_dots_size c) (s_env_dots c) ;;
        Ok (fst r', rs2 + (s_env_dots_size c - 1))
    end.

  Definition env_all_buf (a : arr) (size : N) (environ : option (list (list byte))) : res (arr * N) :=
    a0 <- wr a 0 NUL ;;
    match environ with
    | None => if s_env_null_guard c then Ok (a0, 0) else Fault Null_deref
    | Some items => env_loop a0 size 0 true items
    end.

  (** * hostname.c; [host] is the name the kernel holds *)
  Definition hostname_buf (a : arr) (size : N) (host : list byte) (errno_text : list byte) : res (arr * N) :=
    (* glibc gethostname: copies min(size, strlen + 1) bytes, -1/ENAMETOOLONG when the terminator did not fit *)
    if len host + 1 <=? size then
      a1 <- wrs a 0 (host ++ [NUL]) ;;
      a2 <- wr a1 (sub64 size 1) NUL ;;
      n <- c_strlen a2 0 ;;
      Ok (a2, n)
    else
      a1 <- wrs a 0 (takeS size host) ;;
      c_snprintf a1 0 size (lit_hostname_err ++ errno_text ++ lit_rparen).

  (** * login.c; [glogin] = what getlogin_r delivers (None: failure, buffer untouched) *)
  Definition login_buf (a : arr) (size : N) (glogin : option (list byte)) (sudo_user logname : option (list byte)) : res (arr * N) :=
    let login0 := zeroed (s_login_cap c) in                      (* char login[..] = "" *)
    login1 <- match glogin with
              | Some name => if len name + 1 <=? s_login_with_nul c then wrs login0 0 (name ++ [NUL]) else Ok login0
              | None => Ok login0
              end ;;
    let failed := match glogin with Some name => negb (len name + 1 <=? s_login_with_nul c) | None => true end in
    login2 <- (if failed then
                 match (match sudo_user with Some u => Some u | None => logname end) with
                 | None => c_store login1 0 (s_login_unknown c)                       (* strcpy *)
                 | Some p =>
                   l <- c_strncpy login1 0 p (s_login_without_nul c) ;;
                   if s_login_without_nul c <? len p then wr l (s_login_without_nul c) NUL else Ok l
                 end
               else Ok login1) ;;
    s <- cstr login2 0 ;;
    c_snprintf a 0 size s.

  (** * datetime.c; [formatted] = what strftime would produce without any bound *)
  Definition datetime_buf (a : arr) (size : N) (formatted : list byte) : res (arr * N) :=
    let tb0 := fresh (s_dt_cap c) in                               (* char timeBuffer[..] *)
    (* strftime(timeBuffer, max, ..): 0 and indeterminate contents when it does not fit *)
    if (len formatted + 1 <=? s_dt_size c) && negb (len formatted =? 0) then
      tb <- wrs tb0 0 (formatted ++ [NUL]) ;;
      s <- cstr tb 0 ;;
      c_snprintf a 0 size s
    else
      c_snprintf a 0 size lit_strftime_err.
End Ds.
