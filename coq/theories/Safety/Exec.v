(** Executable instances of the safety models for the correspondence run (extracted to OCaml):
    every entry point takes plain strings / numbers and returns strings and numbers in [res]. *)
From Snoopy Require Import Lib.CStr Safety.Mem Safety.CLib Safety.Consts Safety.Lits Safety.Str Safety.Filter Safety.Conf Safety.Ds Safety.Out
     Safety.Cgroup Safety.Rpname Safety.Top Expand.Model Expand.Exec Datasource.Cmdline.
From Coq Require Import ZifyBool ZifyN ZifyNat.
Local Open Scope N_scope.

Definition outv := (list (list byte) * list N)%type.

(** a buffer of [cap] bytes holding the string [s] (as the harness prepares it); bytes behind are 'Z' *)
Definition buf_with (cap : N) (s : list byte) : res arr :=
  wrs (repeat (Some x5a) (N.to_nat cap)) 0 (s ++ [NUL]).
Definition str_of (a : arr) : res (list byte) := cstr a 0.

Section Exec.
  Variable c : safety_consts.
  Variable e : expand_consts.
  Variable dc : ds_consts.
  Variable cc : cmdline_consts.

  (** 1. util/string.c *)
  Definition x_append (cap : N) (dst app : list byte) : res outv :=
    b <- buf_with cap dst ;;
    r <- string_append c b cap app ;;
    s <- str_of (fst r) ;;
    Ok ([s], [match snd r with Some n => n | None => two64 - 1 end]).

  (** 3. message.c with deterministic data sources *)
  Record xworld := { xw_env : option (list (list byte)); xw_file : option (list byte); xw_argv : option (list (list byte)) }.
  Definition n_env_all := [x65; x6e; x76; x5f; x61; x6c; x6c].
  Definition x_known (n : list byte) : bool := known_det n || list_eqb n n_env_all.
  Definition x_ds (w : xworld) (n a : list byte) (buf : arr) (sz : N) : res (arr * bool) :=
    if list_eqb n n_literal then r <- ds_snprintf buf sz a ;; Ok (fst r, false)
    else if list_eqb n n_env then
      r <- ds_snprintf buf sz (match a with
                               | [] => env_undefined dc
                               | _ => match getenv (match xw_env w with Some l => l | None => [] end) a with
                                      | None => env_undefined dc
                                      | Some v => v
                                      end
                               end) ;; Ok (fst r, false)
    else if list_eqb n n_filename then
      match xw_file w with
      | Some f => r <- ds_snprintf buf sz f ;; Ok (fst r, false)
      | None => Fault Null_deref
      end
    else if list_eqb n n_cmdline then r <- cmdline_buf cc buf sz (xw_file w) (xw_argv w) ;; Ok (fst r, false)
    else if list_eqb n n_failure then r <- ds_snprintf buf sz (failure_text dc) ;; Ok (fst r, true)
    else if list_eqb n n_env_all then r <- env_all_buf c buf sz (xw_env w) ;; Ok (fst r, false)
    else Ok (buf, false).

  Definition x_gen (w : xworld) (bufsize third : N) (fmt : list byte) : res outv :=
    log0 <- wr (fresh bufsize) 0 NUL ;;
    log <- generate_buf c e x_known (x_ds w) log0 bufsize third fmt ;;
    s <- str_of log ;;
    Ok ([s], []).

  (** 4. filtering.c with the deterministic filters *)
  Definition n_noop := [x6e; x6f; x6f; x70].
  Definition n_only_root := [x6f; x6e; x6c; x79; x5f; x72; x6f; x6f; x74].
  Definition n_only_uid := [x6f; x6e; x6c; x79; x5f; x75; x69; x64].
  Definition n_exclude_uid := [x65; x78; x63; x6c; x75; x64; x65; x5f; x75; x69; x64].

  (** atol, then (pid_t) and uid_t conversions: the value modulo 2^32 *)
  Definition two32 : N := 4294967296.
  Definition long_max : N := 9223372036854775807.
  Fixpoint skip_space (s : list byte) : list byte :=
    match s with b :: s' => if is_space b then skip_space s' else s | [] => [] end.
  Fixpoint digits_sat (s : list byte) (acc : N) : N :=
    match s with
    | b :: s' => if is_digit b then digits_sat s' (N.min (acc * 10 + digit_val b) (long_max + 1)) else acc
    | [] => acc
    end.
  Definition atol_uid (s : list byte) : N :=
    let s1 := skip_space s in
    match s1 with
    | b :: s2 =>
      if beq b x2d then let v := digits_sat s2 0 in (two32 - (v mod two32)) mod two32     (* negative, LONG_MIN -> 0 *)
      else let v := N.min (digits_sat (if beq b x2b then s2 else s1) 0) long_max in v mod two32
    | [] => 0
    end.

  Definition x_fknown (n : list byte) : bool :=
    list_eqb n n_noop || list_eqb n n_only_root || list_eqb n n_only_uid || list_eqb n n_exclude_uid.
  Definition x_fcall (uid : N) (n a : list byte) : res bool :=
    if list_eqb n n_noop then Ok true
    else if list_eqb n n_only_root then Ok (uid =? 0)
    else if list_eqb n n_only_uid then
      args <- uid_filter_args c a ;; Ok (existsb (fun s => atol_uid s =? uid) args)
    else if list_eqb n n_exclude_uid then
      args <- uid_filter_args c a ;; Ok (negb (existsb (fun s => atol_uid s =? uid) args))
    else Ok true.
  Definition x_chain (uid : N) (chain : list byte) : res outv :=
    r <- check_chain c x_fknown (x_fcall uid) chain ;; Ok ([], [if r then 1 else 0]).

  (** 5. csvToArgList as used by the uid filters *)
  Definition x_csv (arg : list byte) : res outv :=
    raw <- c_store (fresh (len arg + 1)) 0 arg ;;
    r <- csv_to_arglist c raw ;;
    let '(raw', ptrs, argc) := r in
    args <- uid_args raw' ptrs 0 (N.to_nat argc) ;;
    Ok (args, [argc]).

  (** 6. strByteLength *)
  Definition x_bytelen (text : list byte) (vmin vmax vdef : N) : res outv :=
    r <- byte_length c text vmin vmax vdef ;; Ok ([], [r]).

  (** 7. syslog lookups, configfile helpers *)
  Definition x_facility (s : list byte) : res outv := r <- facility_name c s ;; Ok ([r], []).
  Definition x_level (s : list byte) : res outv := r <- level_name c s ;; Ok ([r], []).
  Definition x_sysval (level : bool) (v : list byte) : res outv := r <- syslog_value c level v ;; Ok ([r], []).
  Definition x_outsplit (v : list byte) : res outv :=
    r <- output_split c v ;; let '(n, a, f) := r in Ok ([n; a], [if f then 1 else 0]).
  Definition x_getbool (v : list byte) : res outv :=
    r <- getboolean v ;; Ok ([], [match r with Some true => 1 | Some false => 0 | None => 2 end]).

  (** 10. ini.c *)
  Definition x_ini (file : list byte) : res outv :=
    st <- ini_parse c (fun _ _ _ => true) file ;;
    Ok (concat (map (fun t => let '(s, n, v) := t in [s; n; v]) (rev (i_calls st))), [i_error st]).

  (** 11-15. data sources *)
  Definition z_buf (size : N) : arr := repeat (Some x5a) (N.to_nat size).
  Definition x_cmdline (size : N) (file : option (list byte)) (argv : option (list (list byte))) : res outv :=
    r <- cmdline_buf cc (z_buf size) size file argv ;; s <- str_of (fst r) ;; Ok ([s], [snd r]).
  Definition x_envall (size : N) (env : option (list (list byte))) : res outv :=
    r <- env_all_buf c (z_buf size) size env ;; s <- str_of (fst r) ;; Ok ([s], [snd r]).
  Definition x_hostname (size : N) (host errno_text : list byte) : res outv :=
    r <- hostname_buf (z_buf size) size host errno_text ;; s <- str_of (fst r) ;; Ok ([s], [snd r]).
  Definition x_login (size : N) (gl su ln : option (list byte)) : res outv :=
    r <- login_buf c (z_buf size) size gl su ln ;; s <- str_of (fst r) ;; Ok ([s], [snd r]).
  Definition x_datetime (size : N) (formatted : list byte) : res outv :=
    r <- datetime_buf c (z_buf size) size formatted ;; s <- str_of (fst r) ;; Ok ([s], [snd r]).
  Definition x_snprintf (size : N) (text : list byte) : res outv :=
    r <- ds_snprintf (z_buf size) size text ;; s <- str_of (fst r) ;; Ok ([s], [snd r]).

  (** 16. exclude_spawns_of with a scripted /proc: [table] = (pid, stat content) *)
  Fixpoint lookup (t : list (N * list byte)) (pid : N) : option (list byte) :=
    match t with (p, s) :: t' => if p =? pid then Some s else lookup t' pid | [] => None end.
  (** sscanf(s, " %c %d"): one non-space char, then an int; None unless both convert; a negative or
      out-of-table value simply fails to open in the scripted /proc *)
  Definition scan_cd_x (s : list byte) : option N :=
    match skip_space s with
    | _ :: s1 =>
      match skip_space s1 with
      | b :: s2 =>
        if is_digit b then Some (N.min (digits_sat (b :: s2) 0) 4294967295 mod 4294967296)
        else if beq b x2b then (match s2 with d :: _ => if is_digit d then Some (N.min (digits_sat s2 0) 4294967295) else None | [] => None end)
        else if beq b x2d then (match s2 with d :: _ => if is_digit d then Some (if digits_sat s2 0 =? 0 then 0 else 4294967295 + 1 + digits_sat s2 0) else None | [] => None end)
        else None
      | [] => None
      end
    | [] => None
    end.
  Definition x_spawns (ppid : N) (table : list (N * list byte)) (arg : list byte) : res outv :=
    r <- exclude_spawns_of c (lookup table) scan_cd_x (S (S (List.length table))) ppid arg ;; Ok ([], [if r then 1 else 0]).

  (** 17. error cycle *)
  Definition x_errcycle (depth : N) (nr : N) (msg : list byte) : res outv :=
    r <- handler c (fun _ => nr) (N.to_nat depth) true msg ;; Ok ([], [if r then 1 else 0]).

  (** 18-20. outputs, util/file.c *)
  Definition x_sockaddr (arg : list byte) : res outv := r <- socket_addr c arg ;; Ok ([], [r]).
  Definition x_gen_fn (w : xworld) (log : arr) (bufsize third : N) (fmt : list byte) : res arr :=
    generate_buf c e x_known (x_ds w) log bufsize third fmt.
  Definition x_devlog (w : xworld) (msg ident_fmt : list byte) (pri pid : N) : res outv :=
    r <- devlog_datagram c (x_gen_fn w) msg ident_fmt pri pid ;;
    Ok (match r with Some d => [d] | None => [] end, []).
  Definition x_fileline (w : xworld) (msg path_fmt : list byte) : res outv :=
    r <- file_line c (x_gen_fn w) msg path_fmt ;;
    Ok (match r with Some (p, l) => [p; l] | None => [] end, []).
  Definition x_smallfile (content : list byte) (too_large : list byte) : res outv :=
    r <- small_file c content [] too_large ;; Ok ([fst r], [if snd r then 1 else 0]).
  (** 22-23. cgroup.c / rpname.c with a scripted /proc *)
  Definition x_cgroup (size : N) (arg pid_text : list byte) (file : option (list byte)) (open_err : list byte) : res outv :=
    b0 <- wr (z_buf size) 0 NUL ;;
    r <- cgroup_buf c (s_cg_path c) b0 size arg pid_text file open_err ;;
    s <- str_of (fst r) ;; Ok ([s], [if snd r then 1 else 0]).
  Definition rp_sizes_of : rp_sizes := {| path_cap := s_rp_path c; val_max := s_rp_val_max c; ret_cap := s_rp_ret_cap c |}.
  Definition x_rpname (size : N) (table : list (N * list byte)) (pid : N) : res outv :=
    b0 <- wr (z_buf size) 0 NUL ;;
    r <- rpname_buf rp_sizes_of (lookup table) (S (S (List.length table))) pid b0 size ;;
    s <- str_of (fst r) ;; Ok ([s], [snd r]).
  (** 24. configfile.c: the whole file through ini.c and the option parsers (Top.load_config); strings that the file does
      not set are reported as the one-byte marker 0x01 *)
  Definition x_cfgload (ini : list byte) : res outv :=
    let mark := [x01] in
    let dflt := {| g_message_format := mark; g_filter_chain := mark; g_output := mark; g_output_arg := mark; g_ident := mark;
                   g_facility := mark; g_level := mark; g_error_logging := false; g_llog := s_default_log c; g_lds := s_default_ds c |} in
    cf <- load_config c dflt (Some ini) ;;
    Ok ([g_message_format cf; g_filter_chain cf; g_ident cf], [g_llog cf; g_lds cf; if g_error_logging cf then 1 else 0]).
End Exec.
