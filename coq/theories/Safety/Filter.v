(** Buffer-level models of src/filtering.c (snoopy_filtering_check_chain), src/util/parser.c
    (snoopy_util_parser_csvToArgList) with its callers only_uid / exclude_uid, and
    src/filter/exclude_spawns_of.c. *)
From Snoopy Require Import Lib.CStr Safety.Mem Safety.CLib Safety.Consts Safety.Lits.
From Coq Require Import ZifyBool ZifyN ZifyNat.
Local Open Scope N_scope.

Definition COLON := x3a.
Definition LPAREN := x28.
Definition RPAREN := x29.

Section Filter.
  Variable c : safety_consts.

  (** * filtering.c *)
  Variable fknown : list byte -> bool.
  (** a filter: (name, arg) -> PASS? ; filters get NUL-terminated strings, modelled separately *)
  Variable fcall : list byte -> list byte -> res bool.

  (** one filter specification at offset [tok] of the chain copy *)
  Definition chain_element (copy : arr) (tok : N) : res bool (* continue (PASS or unknown)? *) :=
    spec <- cstr copy tok ;;
    let fname0 := fresh (s_fname_max c) in      (* char filterName[SNOOPY_FILTER_NAME_MAX_SIZE] *)
    let farg0 := fresh (s_farg_max c) in        (* char filterArg[SNOOPY_FILTER_ARG_MAX_SIZE]   *)
    na <- match index COLON spec with
          | None =>
            _ <- wr fname0 0 NUL ;;
            farg <- wr farg0 0 NUL ;;
            arg <- cstr farg 0 ;;
            Ok (spec, arg)
          | Some k =>
            let k := N.of_nat k in
            f1 <- wr fname0 0 NUL ;;
            f2 <- c_strncpy f1 0 spec (if s_fname_copy_exact c then k else len spec) ;;
            f3 <- (if s_fname_term c then wr f2 k NUL else Ok f2) ;;
            name <- cstr f3 0 ;;
            arg <- cstr copy (tok + k + 1) ;;
            Ok (name, arg)
          end ;;
    let '(name, arg) := na in
    if negb (fknown name) then Ok true else fcall name arg.

  Fixpoint chain_loop (fuel : nat) (copy : arr) (str : option N) (rest : N) : res bool :=
    match fuel with
    | O => Fault Out_of_fuel
    | S fuel' =>
      r <- strtok_r copy (match str with Some s => s | None => rest end) x3b ;;
      let '(copy', tok, rest') := r in
      match tok with
      | None => Ok true                       (* SNOOPY_FILTER_PASS *)
      | Some t =>
        go <- chain_element copy' t ;;
        if go then chain_loop fuel' copy' None rest' else Ok false
      end
    end.

  Definition check_chain (chain : list byte) : res bool :=
    let copy0 := fresh (s_chain_max c) in
    copy1 <- c_strncpy copy0 0 chain (s_chain_copy_n c) ;;
    copy2 <- (if s_chain_term c then wr copy1 (s_chain_term_idx c) NUL else Ok copy1) ;;
    chain_loop (S (S (List.length chain))) copy2 (Some 0) 0.

  (** * util/parser.c csvToArgList on a strdup'ed argument *)
  Fixpoint csv_loop (fuel : nat) (raw : arr) (pos : N) (ptrs : slots N) (i : N) : res (arr * slots N * N) :=
    match fuel with
    | O => Fault Out_of_fuel
    | S fuel' =>
      s <- cstr raw pos ;;
      match index COMMA s with
      | None => Ok (raw, ptrs, i)
      | Some q =>
        let q := N.of_nat q in
        raw' <- wr raw (pos + q) NUL ;;
        let pos' := pos + q + 1 in
        ptrs' <- sl_set ptrs i pos' ;;
        csv_loop fuel' raw' pos' ptrs' (i + 1)
      end
    end.

  (** returns (raw, pointer array, argCount) *)
  Definition csv_to_arglist (raw : arr) : res (arr * slots N * N) :=
    s <- cstr raw 0 ;;
    let n := len s in
    let commas := count_byte COMMA s in
    let argc := commas + 1 in
    let ptrs0 : slots N := sl_fresh (argc + s_csv_extra_slots c) in
    st <- (if n =? 0 then Ok (ptrs0, 0, 0)
           else p <- sl_set ptrs0 0 0 ;; Ok (p, 1, argc)) ;;
    let '(ptrs1, i, argc') := st in
    r <- (if 0 <? commas then csv_loop (S (N.to_nat commas)) raw 0 ptrs1 i else Ok (raw, ptrs1, i)) ;;
    let '(raw', ptrs2, i') := r in
    ptrs3 <- sl_set ptrs2 i' (n + 1) ;;
    Ok (raw', ptrs3, argc').

  (** only_uid / exclude_uid: strdup(arg), parse, atol on every argParsed[i], i < argCount.
      Returns the list of the strings handed to atol. *)
  Fixpoint uid_args (raw : arr) (ptrs : slots N) (i : N) (n : nat) : res (list (list byte)) :=
    match n with
    | O => Ok []
    | S n' => p <- sl_get ptrs i ;; s <- cstr raw p ;; r <- uid_args raw ptrs (i + 1) n' ;; Ok (s :: r)
    end.
  Definition uid_filter_args (arg : list byte) : res (list (list byte)) :=
    raw <- c_store (fresh (len arg + 1)) 0 arg ;;        (* strdup *)
    r <- csv_to_arglist raw ;;
    let '(raw', ptrs, argc) := r in
    uid_args raw' ptrs 0 (N.to_nat argc).

  (** * exclude_spawns_of.c *)
  (** string_to_token_array on the strdup'ed argument: [None] = returned NULL *)
  Fixpoint tok_loop (n : nat) (raw : arr) (first : bool) (rest : N) (toks : slots (option N)) (i : N)
    : res (arr * slots (option N)) :=
    match n with
    | O => Ok (raw, toks)
    | S n' =>
      r <- strtok_r raw (if first then 0 else rest) COMMA ;;
      let '(raw', tok, rest') := r in
      toks' <- sl_set toks i tok ;;
      tok_loop n' raw' false rest' toks' (i + 1)
    end.
  Definition token_array (raw : arr) : res (option (arr * slots (option N))) :=
    s <- cstr raw 0 ;;
    match s with
    | [] => Ok None
    | _ =>
      let sepcount := count_byte COMMA s in
      let token_count := sepcount + 1 in
      let toks0 : slots (option N) := repeat (Some None) (N.to_nat (token_count + 1)) in   (* calloc *)
      r <- tok_loop (N.to_nat token_count) raw true 0 toks0 0 ;;
      let '(raw', toks) := r in
      toks' <- sl_set toks token_count None ;;
      Ok (Some (raw', toks'))
    end.

  (** find_string_in_array: walk until the NULL slot *)
  Fixpoint find_in (fuel : nat) (raw : arr) (toks : slots (option N)) (i : N) (str : list byte) : res bool :=
    match fuel with
    | O => Fault Out_of_fuel
    | S f =>
      p <- sl_get toks i ;;
      match p with
      | None => Ok false
      | Some o => s <- cstr raw o ;; if list_eqb str s then Ok true else find_in f raw toks (i + 1) str
      end
    end.

  (** one /proc/<pid>/stat record: what fread delivers, what sscanf(" %c %d") makes of the tail *)
  Variable procstat : N -> option (list byte).               (* None: fopen failed *)
  Variable scan_cd : list byte -> option N.                  (* sscanf(right + 1, " %c %d", ..) == 2 -> new ppid *)

  Inductive anc := AncFound | AncNone | AncError.

  Definition stat_step (pid : N) (raw : arr) (toks : slots (option N)) : res (anc + N) :=
    (* snprintf(stat_path, ST_PATH_SIZE_MAX, "/proc/%d/stat", ppid) *)
    sp <- c_snprintf (fresh (s_st_path c)) 0 (s_st_path c) (lit_proc ++ dec pid ++ lit_stat) ;;
    match procstat pid with
    | None => Ok (inl AncError)
    | Some content =>
      let got := takeS (s_st_fread_n c) content in              (* fread(st_buf, 1, ST_BUF_SIZE - 1, statf) *)
      let rc := len got in
      b1 <- wrs (fresh (s_st_buf c)) 0 got ;;
      b2 <- wr b1 rc NUL ;;
      if rc <? s_st_size_min c then Ok (inl AncError) else
      s <- cstr b2 0 ;;
      match index LPAREN s, rindex RPAREN s with
      | Some l, Some r =>
        let l := N.of_nat l in let r := N.of_nat r in
        let ln := sub64 (sub64 r l) 1 in                        (* size_t len = right - left - 1; rejected when  len <= 0  (older form)  or  right < left *)
        if (if s_st_empty_ok c then r <? l else ln =? 0) || (s_st_comm_limit c <=? ln) then Ok (inl AncError) else
        (* memcpy(st_comm_buf, left + 1, len); st_comm_buf[len] = '\0' *)
        let comm_src := takeS ln (dropN (l + 1) s) in
        _ <- (if l + 1 + ln <=? len s + 1 then Ok tt else Fault OOB_read) ;;
        cb1 <- wrs (fresh (s_st_comm c)) 0 comm_src ;;
        cb2 <- wr cb1 ln NUL ;;
        comm <- cstr cb2 0 ;;
        match scan_cd (dropN (r + 1) s) with
        | None => Ok (inl AncError)
        | Some pp =>
          f <- find_in (S (List.length toks)) raw toks 0 comm ;;
          if f then Ok (inl AncFound) else Ok (inr pp)
        end
      | _, _ => Ok (inl AncError)
      end
    end.

  Fixpoint ancestors (fuel : nat) (pid : N) (raw : arr) (toks : slots (option N)) : res anc :=
    if pid =? 0 then Ok AncNone else
    match fuel with
    | O => Fault Out_of_fuel
    | S f =>
      r <- stat_step pid raw toks ;;
      match r with
      | inl a => Ok a
      | inr pp => ancestors f pp raw toks
      end
    end.

  (** snoopy_filter_exclude_spawns_of(arg): PASS? *)
  Definition exclude_spawns_of (fuel : nat) (ppid : N) (arg : list byte) : res bool :=
    raw <- c_store (fresh (len arg + 1)) 0 arg ;;
    ta <- token_array raw ;;
    match ta with
    | None => Ok true
    | Some (raw', toks) =>
      a <- ancestors fuel ppid raw' toks ;;
      Ok (match a with AncFound => false | _ => true end)
    end.
End Filter.
