(** Byte-string literals used by the safety models (kept apart so that Strings.String is not imported there). *)
From Snoopy Require Import Lib.CStr.
From Coq Require Import Strings.String.
Definition lit_proc := bytes "/proc/".
Definition lit_stat := bytes "/stat".
Definition lit_snoopy_error := bytes "SNOOPY ERROR: ".
Definition lit_hostname_err := bytes "(error @ gethostname(): ".
Definition lit_rparen := bytes ")".
Definition lit_strftime_err := bytes "(error @ strftime())".
Definition lit_sudo_user := bytes "SUDO_USER".
Definition lit_logname := bytes "LOGNAME".
Definition lit_space := bytes " ".
Definition lit_lt := bytes "<".
Definition lit_gt := bytes ">".
Definition lit_lbr := bytes "[".
Definition lit_rbr_colon := bytes "]: ".
Definition lit_snoopy := bytes "snoopy".
Definition lit_devlog := bytes "/dev/log".
Definition lit_undefined := bytes "(undefined)".
Definition lit_snoopy_section := bytes "snoopy".
