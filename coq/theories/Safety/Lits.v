(** Byte-string literals used by the safety models (kept apart so that Strings.String is not imported there). *)
From Snoopy Require Import Lib.CStr.
From Coq Require Import Strings.String.
Definition lit_proc := bytes "/proc/".
Definition lit_stat := bytes "/stat".
Definition lit_snoopy_error := bytes "SNOOPY ERROR: ".
Definition lit_hostname_err := bytes "(error @ gethostname(): ".
Definition lit_rparen := bytes ")".
Definition lit_strftime_err := bytes "(error @ strftime())".
Definition lit_sudo_user := bytes "SUDO_USER".
Definition lit_logname := bytes "LOGNAME".
Definition lit_space := bytes " ".
Definition lit_lt := bytes "<".
Definition lit_gt := bytes ">".
Definition lit_lbr := bytes "[".
Definition lit_rbr_colon := bytes "]: ".
Definition lit_snoopy := bytes "snoopy".
Definition lit_devlog := bytes "/dev/log".
Definition lit_undefined := bytes "(undefined)".
Definition lit_snoopy_section := bytes "snoopy".
(** option names of configfile.c's registry, data source / filter / output names with a buffer-level model *)
Definition opt_error_logging := bytes "error_logging".
Definition opt_filter_chain := bytes "filter_chain".
Definition opt_message_format := bytes "message_format".
Definition opt_output := bytes "output".
Definition opt_syslog_facility := bytes "syslog_facility".
Definition opt_syslog_ident := bytes "syslog_ident".
Definition opt_syslog_level := bytes "syslog_level".
Definition opt_ds_max := bytes "datasource_message_max_length".
Definition opt_log_max := bytes "log_message_max_length".
Definition ds_cmdline := bytes "cmdline".
Definition ds_env_all := bytes "env_all".
Definition ds_hostname := bytes "hostname".
Definition ds_login := bytes "login".
Definition ds_datetime := bytes "datetime".
Definition ds_cgroup := bytes "cgroup".
Definition ds_rpname := bytes "rpname".
Definition f_only_uid := bytes "only_uid".
Definition f_exclude_uid := bytes "exclude_uid".
Definition f_exclude_spawns_of := bytes "exclude_spawns_of".
Definition o_devlog := bytes "devlog".
Definition o_file := bytes "file".
Definition o_socket := bytes "socket".
Definition lit_refused := bytes "Maximum destination string size exceeded".
(** a small configuration file used by the non-vacuity example of Properties_C02.v *)
Definition lit_ini0 := bytes "[snoopy]
log_message_max_length = 1
filter_chain = only_uid:0
syslog_ident = i%{cmdline}
".
