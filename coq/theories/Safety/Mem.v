(** Safety library: C character arrays with explicit capacity and indeterminate cells,
    in the safety monad of Lib/CStr.v ([Fault] = the C program has undefined behaviour here).

    An array is a [list (option byte)]; its length is the capacity of the C object
    ([char x[N]], [malloc(N)]); [None] is an indeterminate (never written) byte.
    Every read and write is bounds-checked against the capacity; reading an
    indeterminate byte is a fault as well (the value would steer control flow).

    The libc string functions used by the modelled code are defined on arrays and
    characterised pointwise ([cstr_holds], [at_wrs]); every derived lemma is list-free
    arithmetic after that.  Stdlib only, no axioms. *)
From Snoopy Require Import Lib.CStr.
From Coq Require Import ZifyBool ZifyN ZifyNat.
Local Open Scope N_scope.

Definition cell := option byte.
Definition arr := list cell.
Definition cap (a : arr) : N := N.of_nat (length a).
Definition fresh (n : N) : arr := repeat None (N.to_nat n).            (* malloc(n), automatic array without initialiser *)
Definition zeroed (n : N) : arr := repeat (Some NUL) (N.to_nat n).     (* char x[n] = "" / = {0}, calloc *)

Definition nthN (k : N) (d : list byte) : byte := nth (N.to_nat k) d NUL.
Definition at_ (a : arr) (i : N) : option cell := nth_error a (N.to_nat i).

(** single byte read *)
Definition rd (a : arr) (i : N) : res byte :=
  match at_ a i with
  | Some (Some b) => Ok b
  | Some None => Fault Other_fault
  | None => Fault OOB_read
  end.

(** block write (memcpy of [bs] to [a + off]) *)
Definition wrs (a : arr) (off : N) (bs : list byte) : res arr :=
  if off + len bs <=? cap a
  then Ok (firstn (N.to_nat off) a ++ map Some bs ++ skipn (N.to_nat off + length bs) a)
  else Fault OOB_write.
Definition wr (a : arr) (i : N) (b : byte) : res arr := wrs a i [b].

(** the C string starting at [a + p]: bytes up to the first NUL *)
Fixpoint cstr_from (l : arr) : res (list byte) :=
  match l with
  | [] => Fault OOB_read
  | None :: _ => Fault Other_fault
  | Some b :: l' =>
    if beq b NUL then Ok []
    else match cstr_from l' with Ok s => Ok (b :: s) | Fault f => Fault f end
  end.
Definition cstr (a : arr) (p : N) : res (list byte) :=
  if p <=? cap a then cstr_from (skipn (N.to_nat p) a) else Fault OOB_read.

(** libc on arrays.  Source strings are values (already read with [cstr]). *)
Definition c_strlen (a : arr) (p : N) : res N := s <- cstr a p ;; Ok (len s).
Definition c_store (a : arr) (off : N) (s : list byte) : res arr := wrs a off (s ++ [NUL]).       (* strcpy / strcat at off *)
Definition zeros (n : N) : list byte := repeat NUL (N.to_nat n).
(** [takeN] that never materialises a count larger than the string (counts may be wrapped size_t values) *)
Definition takeS (n : N) (s : list byte) : list byte := takeN (N.min n (len s)) s.
Definition c_strncpy (a : arr) (off : N) (src : list byte) (n : N) : res arr :=
  if off + n <=? cap a then wrs a off (takeS n src ++ zeros (n - len src)) else Fault OOB_write.
(** snprintf(a + off, size, "%s"-like text [s]): returns the would-be length *)
Definition c_snprintf (a : arr) (off size : N) (s : list byte) : res (arr * N) :=
  if size =? 0 then Ok (a, len s)
  else a' <- wrs a off (takeS (size - 1) s ++ [NUL]) ;; Ok (a', len s).

(** a result buffer is well formed: NUL-terminated within its capacity *)
Definition terminated_within (a : arr) : Prop := exists s, cstr a 0 = Ok s /\ len s < cap a.
Definition terminated_withinb (a : arr) : bool := match cstr a 0 with Ok s => len s <? cap a | Fault _ => false end.

(** list lemmas missing in 8.16 *)
Lemma nth_error_skipn_ {A} n i (l : list A) : nth_error (skipn n l) i = nth_error l (n + i).
Proof. revert l; induction n as [|n IH]; intros l; [reflexivity|]. destruct l; simpl; [now destruct i|apply IH]. Qed.
Lemma nth_error_firstn_ {A} n i (l : list A) : (i < n)%nat -> nth_error (firstn n l) i = nth_error l i.
Proof. revert i l; induction n as [|n IH]; intros i l H; [lia|]. destruct l; simpl; [now destruct i|]. destruct i; [reflexivity|simpl; apply IH; lia]. Qed.

Lemma nth_error_ext_ {A} (l l' : list A) : (forall i, nth_error l i = nth_error l' i) -> l = l'.
Proof.
  revert l'; induction l as [|x l IH]; intros [|y l'] H; [reflexivity|specialize (H 0%nat); discriminate|specialize (H 0%nat); discriminate|].
  pose proof (H 0%nat) as H0. simpl in H0. injection H0 as <-. f_equal. apply IH. intros i. apply (H (S i)).
Qed.

(** * basic facts *)
Lemma cap_fresh n : cap (fresh n) = n.
Proof. unfold cap, fresh. rewrite repeat_length. lia. Qed.
Lemma cap_zeroed n : cap (zeroed n) = n.
Proof. unfold cap, zeroed. rewrite repeat_length. lia. Qed.
Lemma len_zeros n : len (zeros n) = n.
Proof. unfold len, zeros. rewrite repeat_length. lia. Qed.
Lemma takeS_eq n s : takeS n s = takeN n s.
Proof.
  unfold takeS. destruct (N.le_ge_cases n (len s)); [now replace (N.min n (len s)) with n by lia|].
  replace (N.min n (len s)) with (len s) by lia. now rewrite !takeN_all by lia.
Qed.
Lemma len_map_Some (bs : list byte) : length (map Some bs) = length bs.
Proof. apply map_length. Qed.

Lemma at_None a i : at_ a i = None <-> cap a <= i.
Proof. unfold at_, cap. rewrite nth_error_None. lia. Qed.
Lemma at_Some a i : i < cap a -> exists c, at_ a i = Some c.
Proof.
  intros H. destruct (at_ a i) eqn:E; [eauto|]. apply at_None in E. lia.
Qed.
Lemma at_zeroed n i : i < n -> at_ (zeroed n) i = Some (Some NUL).
Proof.
  intros H. unfold at_, zeroed. assert (N.to_nat i < N.to_nat n)%nat by lia.
  revert H0. generalize (N.to_nat i) (N.to_nat n). clear. intros i n; revert i.
  induction n as [|n IH]; intros i H; [lia|]. destruct i; simpl; [reflexivity|apply IH; lia].
Qed.

Lemma nthN_app_l k (a b : list byte) : k < len a -> nthN k (a ++ b) = nthN k a.
Proof. unfold nthN, len. intros H. apply app_nth1. lia. Qed.
Lemma nthN_app_r k (a b : list byte) : len a <= k -> nthN k (a ++ b) = nthN (k - len a) b.
Proof. unfold nthN, len. intros H. rewrite app_nth2 by lia. f_equal. lia. Qed.
Lemma nthN_takeN k n (d : list byte) : k < n -> nthN k (takeN n d) = nthN k d.
Proof. unfold nthN, takeN. intros H. apply nth_firstn_lt. lia. Qed.
Lemma nthN_dropN k n (d : list byte) : nthN k (dropN n d) = nthN (n + k) d.
Proof. unfold nthN, dropN. rewrite nth_skipn. f_equal. lia. Qed.
Lemma nthN_zeros k n : nthN k (zeros n) = NUL.
Proof.
  unfold nthN, zeros. generalize (N.to_nat k) (N.to_nat n). clear. intros k n; revert k.
  induction n as [|n IH]; intros k; destruct k; simpl; auto.
Qed.
Lemma nthN_beyond k (d : list byte) : len d <= k -> nthN k d = NUL.
Proof. unfold nthN, len. intros H. apply nth_overflow. lia. Qed.
Lemma nthN_in k (d : list byte) : k < len d -> In (nthN k d) d.
Proof. unfold nthN, len. intros H. apply nth_In. lia. Qed.
Lemma nthN_nonul k (d : list byte) : nonul d -> k < len d -> nthN k d <> NUL.
Proof. intros Hn Hk E. apply Hn. rewrite <- E. now apply nthN_in. Qed.
Lemma len_dropN n (s : list byte) : len (dropN n s) = len s - n.
Proof. unfold len, dropN. rewrite skipn_length. lia. Qed.
Lemma nonul_dropN n s : nonul s -> nonul (dropN n s).
Proof. apply nonul_skipn. Qed.
Lemma takeN_dropN n (s : list byte) : takeN n s ++ dropN n s = s.
Proof. apply firstn_skipn. Qed.

(** extensionality of byte lists through [nthN] *)
Lemma nthN_ext (a b : list byte) : len a = len b -> (forall k, k < len a -> nthN k a = nthN k b) -> a = b.
Proof.
  unfold len, nthN. intros HL H. apply (nth_ext a b NUL NUL); [lia|].
  intros n Hn. specialize (H (N.of_nat n)). rewrite Nat2N.id in H. apply H. lia.
Qed.

(** * pointwise characterisation of writes *)
Lemma wrs_ok a off bs : off + len bs <= cap a -> exists a', wrs a off bs = Ok a'.
Proof. intros H. unfold wrs. destruct (N.leb_spec (off + len bs) (cap a)); [eauto|lia]. Qed.
Lemma wrs_inv a off bs a' : wrs a off bs = Ok a' -> off + len bs <= cap a.
Proof. unfold wrs. destruct (N.leb_spec (off + len bs) (cap a)); [auto|discriminate]. Qed.
Lemma wrs_fault a off bs : cap a < off + len bs -> wrs a off bs = Fault OOB_write.
Proof. intros H. unfold wrs. destruct (N.leb_spec (off + len bs) (cap a)); [lia|reflexivity]. Qed.

Lemma cap_wrs a off bs a' : wrs a off bs = Ok a' -> cap a' = cap a.
Proof.
  intros H. pose proof (wrs_inv _ _ _ _ H) as B. unfold wrs in H.
  destruct (N.leb_spec (off + len bs) (cap a)); [|discriminate]. injection H as <-.
  unfold cap, len in *. rewrite !app_length, firstn_length, map_length, skipn_length. lia.
Qed.

Lemma at_wrs a off bs a' i : wrs a off bs = Ok a' ->
  at_ a' i = if (off <=? i) && (i <? off + len bs) then Some (Some (nthN (i - off) bs)) else at_ a i.
Proof.
  intros H. pose proof (wrs_inv _ _ _ _ H) as B. unfold wrs in H.
  destruct (N.leb_spec (off + len bs) (cap a)); [|discriminate]. injection H as <-.
  unfold at_, cap, len, nthN in *.
  assert (L1 : length (firstn (N.to_nat off) a) = N.to_nat off) by (rewrite firstn_length; lia).
  destruct (N.leb_spec off i); destruct (N.ltb_spec i (off + N.of_nat (length bs))); cbn [andb].
  - rewrite nth_error_app2 by lia. rewrite L1. rewrite nth_error_app1 by (rewrite map_length; lia).
    rewrite nth_error_map. replace (N.to_nat (i - off)) with (N.to_nat i - N.to_nat off)%nat by lia.
    rewrite (nth_error_nth' bs NUL) by lia. reflexivity.
  - rewrite nth_error_app2 by lia. rewrite L1. rewrite nth_error_app2 by (rewrite map_length; lia).
    rewrite map_length. rewrite nth_error_skipn_. f_equal. lia.
  - rewrite nth_error_app1 by lia. rewrite nth_error_firstn_; [reflexivity|lia].
  - lia.
Qed.

Lemma at_wrs_out a off bs a' i : wrs a off bs = Ok a' -> (i < off \/ off + len bs <= i) -> at_ a' i = at_ a i.
Proof.
  intros H Hi. rewrite (at_wrs _ _ _ _ i H).
  destruct (N.leb_spec off i); destruct (N.ltb_spec i (off + len bs)); cbn [andb]; try reflexivity; lia.
Qed.
Lemma at_wrs_in a off bs a' i : wrs a off bs = Ok a' -> off <= i < off + len bs -> at_ a' i = Some (Some (nthN (i - off) bs)).
Proof.
  intros H Hi. rewrite (at_wrs _ _ _ _ i H).
  destruct (N.leb_spec off i); destruct (N.ltb_spec i (off + len bs)); cbn [andb]; try reflexivity; lia.
Qed.

(** * pointwise characterisation of C strings *)
Definition holds (a : arr) (p : N) (d : list byte) : Prop :=
  nonul d /\ (forall k, k < len d -> at_ a (p + k) = Some (Some (nthN k d))) /\ at_ a (p + len d) = Some (Some NUL).

Definition holds_l (l : arr) (d : list byte) : Prop :=
  nonul d /\ (forall k, (k < length d)%nat -> nth_error l k = Some (Some (nth k d NUL))) /\ nth_error l (length d) = Some (Some NUL).

Lemma holds_l_cons b l x d : holds_l (Some b :: l) (x :: d) -> b = x /\ x <> NUL /\ holds_l l d.
Proof.
  intros [Hn [H1 H2]]. pose proof (H1 0%nat ltac:(simpl; lia)) as H0. simpl in H0. injection H0 as <-.
  split; [reflexivity|]. split; [intros E; apply Hn; left; now rewrite E|]. split; [|split].
  - intros F. apply Hn. now right.
  - intros k Hk. apply (H1 (S k)). simpl. lia.
  - exact H2.
Qed.

Lemma cstr_from_sound l : forall d, cstr_from l = Ok d -> holds_l l d.
Proof.
  induction l as [|c l IH]; intros d; cbn [cstr_from]; [discriminate|].
  destruct c as [b|]; [|discriminate]. destruct (beq b NUL) eqn:E.
  - apply beq_eq in E. subst b. intros H; injection H as <-. split; [intros []|]. split; [simpl; lia|reflexivity].
  - apply beq_neq in E. destruct (cstr_from l) as [s|f]; [|discriminate]. intros H; injection H as <-.
    destruct (IH s eq_refl) as [Hn [H1 H2]]. split; [|split].
    + intros [F|F]; [congruence|contradiction].
    + intros k Hk. destruct k; [reflexivity|]. simpl. apply H1. simpl in Hk. lia.
    + simpl. exact H2.
Qed.
Lemma cstr_from_complete l : forall d, holds_l l d -> cstr_from l = Ok d.
Proof.
  induction l as [|c l IH]; intros d H; cbn [cstr_from].
  - destruct H as [_ [_ H]]. destruct (length d); discriminate.
  - destruct c as [b|].
    2:{ destruct H as [_ [H1 H2]]. destruct d; simpl in *; [discriminate|]. specialize (H1 0%nat ltac:(lia)). discriminate. }
    destruct d as [|x d].
    + destruct H as [_ [_ H2]]. simpl in H2. injection H2 as ->. reflexivity.
    + apply holds_l_cons in H as [-> [Hx H]]. apply beq_neq in Hx. rewrite Hx. now rewrite (IH d H).
Qed.
Lemma cstr_from_holds l d : cstr_from l = Ok d <-> holds_l l d.
Proof. split; [apply cstr_from_sound|apply cstr_from_complete]. Qed.

Lemma cstr_holds a p d : cstr a p = Ok d <-> holds a p d.
Proof.
  unfold cstr, holds. destruct (N.leb_spec p (cap a)) as [Hp|Hp].
  - rewrite cstr_from_holds. unfold holds_l, at_, nthN, len. split; intros [Hn [H1 H2]]; (split; [exact Hn|split]).
    + intros k Hk. specialize (H1 (N.to_nat k) ltac:(lia)). rewrite nth_error_skipn_ in H1. rewrite <- H1. f_equal. lia.
    + rewrite nth_error_skipn_ in H2. rewrite <- H2. f_equal. lia.
    + intros k Hk. rewrite nth_error_skipn_. specialize (H1 (N.of_nat k) ltac:(lia)). rewrite Nat2N.id in H1. rewrite <- H1. f_equal. lia.
    + rewrite nth_error_skipn_. rewrite <- H2. f_equal. lia.
  - split; [discriminate|]. intros [_ [_ H2]]. exfalso.
    assert (at_ a (p + len d) = None) by (apply at_None; lia). unfold at_ in *. congruence.
Qed.

Lemma holds_bound a p d : holds a p d -> p + len d < cap a.
Proof.
  intros [_ [_ H]]. destruct (N.lt_ge_cases (p + len d) (cap a)); [assumption|].
  apply at_None in H0. congruence.
Qed.
Lemma cstr_bound a p d : cstr a p = Ok d -> p + len d < cap a.
Proof. intros H. apply holds_bound. now apply cstr_holds. Qed.
Lemma cstr_nonul a p d : cstr a p = Ok d -> nonul d.
Proof. intros H. apply cstr_holds in H. apply H. Qed.

(** [cstr a p] only depends on the cells from [p] on *)
Lemma cstr_oob a p : cap a <= p -> cstr a p = Fault OOB_read.
Proof.
  intros H. unfold cstr. destruct (N.leb_spec p (cap a)); [|reflexivity].
  rewrite skipn_all2; [reflexivity|unfold cap in *; lia].
Qed.
Lemma cstr_ext a a' p : (forall j, p <= j -> at_ a j = at_ a' j) -> cstr a p = cstr a' p.
Proof.
  intros H.
  destruct (N.lt_ge_cases p (cap a)) as [Ha|Ha]; destruct (N.lt_ge_cases p (cap a')) as [Ha'|Ha'].
  - unfold cstr. destruct (N.leb_spec p (cap a)); [|lia]. destruct (N.leb_spec p (cap a')); [|lia]. f_equal.
    apply nth_error_ext_. intros i. rewrite !nth_error_skipn_.
    specialize (H (p + N.of_nat i) ltac:(lia)). unfold at_ in H. now replace (N.to_nat (p + N.of_nat i)) with (N.to_nat p + i)%nat in H by lia.
  - exfalso. assert (E : at_ a' p = None) by (apply at_None; lia). rewrite <- H in E by lia. apply at_None in E. lia.
  - exfalso. assert (E : at_ a p = None) by (apply at_None; lia). rewrite H in E by lia. apply at_None in E. lia.
  - now rewrite !cstr_oob.
Qed.

(** reading inside a string *)
Lemma rd_in a p d k : cstr a p = Ok d -> k < len d -> rd a (p + k) = Ok (nthN k d).
Proof. intros H Hk. apply cstr_holds in H as [_ [H _]]. unfold rd. now rewrite H. Qed.
Lemma rd_end a p d : cstr a p = Ok d -> rd a (p + len d) = Ok NUL.
Proof. intros H. apply cstr_holds in H as [_ [_ H]]. unfold rd. now rewrite H. Qed.
Lemma rd_str a p d k : cstr a p = Ok d -> k <= len d -> rd a (p + k) = Ok (nthN k d).
Proof.
  intros H Hk. destruct (N.eq_dec k (len d)) as [->|].
  - rewrite (rd_end _ _ _ H). now rewrite nthN_beyond by lia.
  - apply rd_in; [assumption|lia].
Qed.

(** suffix of a string *)
Lemma cstr_suffix a p d k : cstr a p = Ok d -> k <= len d -> cstr a (p + k) = Ok (dropN k d).
Proof.
  intros H Hk. apply cstr_holds in H as [Hn [H1 H2]]. apply cstr_holds. split; [now apply nonul_dropN|]. rewrite len_dropN. split.
  - intros j Hj. rewrite nthN_dropN. replace (p + k + j) with (p + (k + j)) by lia. apply H1. lia.
  - replace (p + k + (len d - k)) with (p + len d) by lia. exact H2.
Qed.

(** a string is determined by the cells *)
Lemma holds_inj a p d1 d2 : holds a p d1 -> holds a p d2 -> d1 = d2.
Proof.
  intros H1 H2. apply cstr_holds in H1, H2. congruence.
Qed.

(** store a string (with its terminator) somewhere: it can be read back *)
Lemma cstr_wrs_here a off s t a' : wrs a off (s ++ NUL :: t) = Ok a' -> nonul s -> cstr a' off = Ok s.
Proof.
  intros H Hn. apply cstr_holds. split; [exact Hn|]. split.
  - intros k Hk. rewrite (at_wrs_in _ _ _ _ _ H) by (rewrite len_app, len_cons; lia).
    replace (off + k - off) with k by lia. now rewrite nthN_app_l.
  - rewrite (at_wrs_in _ _ _ _ _ H) by (rewrite len_app, len_cons; lia).
    replace (off + len s - off) with (len s) by lia. rewrite nthN_app_r by lia.
    replace (len s - len s) with 0 by lia. reflexivity.
Qed.

(** strcat: the destination string grows *)
Lemma cstr_wrs_append a p d s a' : cstr a p = Ok d -> wrs a (p + len d) (s ++ [NUL]) = Ok a' -> nonul s ->
  cstr a' p = Ok (d ++ s).
Proof.
  intros Hd H Hn. apply cstr_holds in Hd as [Hnd [H1 H2]]. apply cstr_holds. split; [now apply nonul_app|].
  rewrite len_app. split.
  - intros k Hk. destruct (N.lt_ge_cases k (len d)).
    + rewrite (at_wrs_out _ _ _ _ _ H) by lia. rewrite nthN_app_l by lia. now apply H1.
    + rewrite (at_wrs_in _ _ _ _ _ H) by (rewrite len_app, len_cons, len_nil; lia).
      replace (p + k - (p + len d)) with (k - len d) by lia.
      rewrite (nthN_app_r k d s) by lia. now rewrite (nthN_app_l (k - len d) s [NUL]) by lia.
  - rewrite (at_wrs_in _ _ _ _ _ H) by (rewrite len_app, len_cons, len_nil; lia).
    replace (p + (len d + len s) - (p + len d)) with (len s) by lia.
    rewrite (nthN_app_r (len s) s [NUL]) by lia. replace (len s - len s) with 0 by lia. reflexivity.
Qed.

(** a write beyond the terminator (or wholly before the string) leaves the string alone *)
Lemma cstr_wrs_frame a p d off bs a' : cstr a p = Ok d -> wrs a off bs = Ok a' ->
  (p + len d < off \/ off + len bs <= p) -> cstr a' p = Ok d.
Proof.
  intros Hd H Hout. apply cstr_holds in Hd as [Hnd [H1 H2]]. apply cstr_holds. split; [exact Hnd|]. split.
  - intros k Hk. rewrite (at_wrs_out _ _ _ _ _ H) by lia. now apply H1.
  - rewrite (at_wrs_out _ _ _ _ _ H) by lia. exact H2.
Qed.

(** writing a NUL inside (or on the terminator of) a string cuts it *)
Lemma cstr_wr_nul a p d i : cstr a p = Ok d -> p <= i <= p + len d ->
  exists a', wr a i NUL = Ok a' /\ cstr a' p = Ok (takeN (i - p) d) /\ cap a' = cap a
             /\ cstr a' (i + 1) = (if i <? p + len d then Ok (dropN (i - p + 1) d) else cstr a (i + 1)).
Proof.
  intros Hd Hi. pose proof (cstr_bound _ _ _ Hd) as B.
  destruct (wrs_ok a i [NUL]) as [a' Ha']; [cbn; lia|]. exists a'. unfold wr. split; [exact Ha'|].
  pose proof Hd as Hd0. apply cstr_holds in Hd as [Hnd [H1 H2]]. split; [|split; [now apply cap_wrs in Ha'|]].
  - apply cstr_holds. split; [now apply nonul_takeN|]. rewrite len_takeN. split.
    + intros k Hk. rewrite (at_wrs_out _ _ _ _ _ Ha') by (cbn; lia). rewrite nthN_takeN by lia. apply H1. lia.
    + replace (p + N.min (i - p) (len d)) with i by lia. rewrite (at_wrs_in _ _ _ _ _ Ha') by (cbn; lia).
      replace (i - i) with 0 by lia. reflexivity.
  - destruct (N.ltb_spec i (p + len d)).
    + apply cstr_holds. pose proof (cstr_suffix _ _ _ (i - p + 1) Hd0 ltac:(lia)) as Hs.
      replace (p + (i - p + 1)) with (i + 1) in Hs by lia. apply cstr_holds in Hs as [Hn' [S1 S2]].
      split; [exact Hn'|]. split.
      * intros k Hk. rewrite (at_wrs_out _ _ _ _ _ Ha') by (cbn; lia). now apply S1.
      * rewrite (at_wrs_out _ _ _ _ _ Ha') by (cbn; lia). exact S2.
    + (* i is the terminator: the bytes behind it are untouched *)
      apply cstr_ext. intros j Hj. apply (at_wrs_out _ _ _ _ _ Ha'). cbn. lia.
Qed.

(** overwriting a non-NUL byte inside a string by a non-NUL byte (toupper in place) *)
Lemma cstr_wr_byte a p d k b : cstr a p = Ok d -> k < len d -> b <> NUL ->
  exists a', wr a (p + k) b = Ok a' /\ cstr a' p = Ok (takeN k d ++ b :: dropN (k + 1) d) /\ cap a' = cap a.
Proof.
  intros Hd Hk Hb. pose proof (cstr_bound _ _ _ Hd) as B.
  destruct (wrs_ok a (p + k) [b]) as [a' Ha']; [cbn; lia|]. exists a'. unfold wr. split; [exact Ha'|].
  split; [|now apply cap_wrs in Ha'].
  apply cstr_holds in Hd as [Hnd [H1 H2]]. apply cstr_holds.
  assert (L : len (takeN k d ++ b :: dropN (k + 1) d) = len d).
  { rewrite len_app, len_cons, len_takeN, len_dropN. lia. }
  split; [|rewrite L; split].
  - apply nonul_app. split; [now apply nonul_takeN|]. intros [F|F]; [congruence|]. now apply (nonul_dropN (k + 1) d Hnd).
  - intros j Hj. destruct (N.eq_dec j k) as [->|Hne].
    + rewrite (at_wrs_in _ _ _ _ _ Ha') by (cbn; lia). replace (p + k - (p + k)) with 0 by lia.
      rewrite nthN_app_r by (rewrite len_takeN; lia). rewrite len_takeN. replace (k - N.min k (len d)) with 0 by lia. reflexivity.
    + rewrite (at_wrs_out _ _ _ _ _ Ha') by (cbn; lia). rewrite (H1 j Hj). do 2 f_equal.
      destruct (N.lt_ge_cases j k).
      * rewrite nthN_app_l by (rewrite len_takeN; lia). now rewrite nthN_takeN.
      * rewrite nthN_app_r by (rewrite len_takeN; lia). rewrite len_takeN.
        replace (j - N.min k (len d)) with ((j - k - 1) + 1) by lia.
        transitivity (nthN (j - k - 1) (dropN (k + 1) d)).
        2:{ unfold nthN at 2. replace (N.to_nat (j - k - 1 + 1)) with (S (N.to_nat (j - k - 1))) by lia. reflexivity. }
        rewrite nthN_dropN. f_equal. lia.
  - rewrite (at_wrs_out _ _ _ _ _ Ha') by (cbn; lia). exact H2.
Qed.

(** strncpy followed by an explicit terminator at [off + n], or shorter source *)
Lemma cstr_strncpy_short a off src n a' : c_strncpy a off src n = Ok a' -> nonul src -> len src < n -> cstr a' off = Ok src.
Proof.
  intros H Hn Hl. unfold c_strncpy in H. destruct (N.leb_spec (off + n) (cap a)); [|discriminate]. rewrite takeS_eq, takeN_all in H by lia.
  assert (E : zeros (n - len src) = NUL :: zeros (n - len src - 1)).
  { unfold zeros. replace (N.to_nat (n - len src)) with (S (N.to_nat (n - len src - 1))) by lia. reflexivity. }
  rewrite E in H. eapply cstr_wrs_here; eauto.
Qed.
Lemma cstr_strncpy_term a off src n a1 a2 : c_strncpy a off src n = Ok a1 -> wr a1 (off + n) NUL = Ok a2 -> nonul src ->
  cstr a2 off = Ok (takeN n src).
Proof.
  intros H1 H2 Hn. unfold c_strncpy in H1. destruct (N.leb_spec (off + n) (cap a)); [|discriminate]. rewrite takeS_eq in H1. unfold wr in H2.
  assert (LT : len (takeN n src ++ zeros (n - len src)) = n) by (rewrite len_app, len_takeN, len_zeros; lia).
  apply cstr_holds. split; [now apply nonul_takeN|]. rewrite len_takeN. split.
  - intros k Hk. rewrite (at_wrs_out _ _ _ _ _ H2) by (cbn; lia).
    rewrite (at_wrs_in _ _ _ _ _ H1) by lia. replace (off + k - off) with k by lia.
    rewrite nthN_app_l by (rewrite len_takeN; lia). reflexivity.
  - destruct (N.lt_ge_cases (len src) n).
    + replace (N.min n (len src)) with (len src) by lia.
      rewrite (at_wrs_out _ _ _ _ _ H2) by (cbn; lia). rewrite (at_wrs_in _ _ _ _ _ H1) by lia.
      rewrite nthN_app_r by (rewrite len_takeN; lia). now rewrite nthN_zeros.
    + replace (N.min n (len src)) with n by lia. rewrite (at_wrs_in _ _ _ _ _ H2) by (cbn; lia).
      replace (off + n - (off + n)) with 0 by lia. reflexivity.
Qed.

(** snprintf leaves a terminated string of less than [size] bytes *)
Lemma c_snprintf_spec a off size s a' r : c_snprintf a off size s = Ok (a', r) -> 1 <= size -> nonul s ->
  r = len s /\ cstr a' off = Ok (takeN (size - 1) s) /\ cap a' = cap a.
Proof.
  unfold c_snprintf. intros H Hs Hn. destruct (N.eqb_spec size 0); [lia|].
  rewrite takeS_eq in H. destruct (wrs a off (takeN (size - 1) s ++ [NUL])) as [a1|] eqn:E; cbn [bind] in H; [|discriminate].
  injection H as <- <-. split; [reflexivity|]. split; [|now apply cap_wrs in E].
  eapply cstr_wrs_here; eauto. now apply nonul_takeN.
Qed.
Lemma c_snprintf_ok a off size s : 1 <= size -> off + N.min size (len s + 1) <= cap a -> exists a', c_snprintf a off size s = Ok (a', len s).
Proof.
  intros Hs Hb. unfold c_snprintf. destruct (N.eqb_spec size 0); [lia|]. rewrite takeS_eq.
  destruct (wrs_ok a off (takeN (size - 1) s ++ [NUL])) as [a' E].
  { rewrite len_app, len_takeN. cbn. lia. }
  rewrite E. cbn. eauto.
Qed.
