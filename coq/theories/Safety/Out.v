(** error.c -> log-message-dispatch -> output -> message.c -> error.c call cycle (depth model),
    buffer arithmetic of devlogoutput.c / socketoutput.c / fileoutput.c, and the read loop of
    util/file.c. *)
From Snoopy Require Import Lib.CStr Safety.Mem Safety.CLib Safety.Consts Safety.Lits.
From Coq Require Import ZifyBool ZifyN ZifyNat.
Local Open Scope N_scope.

Section Out.
  Variable c : safety_consts.

  (** * the error cycle.  [nref msg] = number of appends refused while the configured output
      expands its own template (syslog ident, file path) for [msg]; each refusal calls the handler.
      [depth] bounds the nesting of C stack frames; the state is CFG->error_logging_enabled. *)
  Variable nref : list byte -> N.
  Definition refusal_text : list byte := lit_snoopy_error.   (* any non-empty text *)

  Fixpoint handler (depth : nat) (enabled : bool) (msg : list byte) {struct depth} : res bool :=
    match depth with
    | O => Fault Out_of_fuel
    | S d =>
      if negb enabled then Ok enabled else
      (* char errorMsgFormatted[SIZE]; snprintf(.., SIZE, "SNOOPY ERROR: %s", msg); [SIZE-1] = 0 *)
      b0 <- wr (fresh (s_err_buf c)) 0 NUL ;;
      r <- c_snprintf b0 0 (s_err_buf c) (lit_snoopy_error ++ msg) ;;
      _ <- wr (fst r) (sub64 (s_err_buf c) 1) NUL ;;
      let en1 := if s_err_guard c then false else enabled in
      (* snoopy_action_log_message_dispatch(msg): empty messages are discarded *)
      en2 <- match msg with
             | [] => Ok en1
             | _ =>
               (* the output runs; every refused append of its template expansion re-enters here *)
               (fix calls (n : nat) (en : bool) : res bool :=
                  match n with
                  | O => Ok en
                  | S n' => en' <- handler d en refusal_text ;; calls n' en'
                  end) (N.to_nat (nref msg)) en1
             end ;;
      Ok (if s_err_guard c then true else en2)
    end.

  (** * socketoutput.c: strncpy into sun_path, strnlen *)
  Fixpoint strnlen_loop (fuel : nat) (a : arr) (p i n : N) : res N :=
    match fuel with
    | O => Ok i
    | S f => if n <=? i then Ok i else b <- rd a (p + i) ;; if beq b NUL then Ok i else strnlen_loop f a p (i + 1) n
    end.
  Definition c_strnlen (a : arr) (p n : N) : res N := strnlen_loop (N.to_nat n) a p 0 n.

  (** returns the address length handed to connect() *)
  Definition socket_addr (arg : list byte) : res N :=
    let sp0 := fresh (s_sun_path_cap c) in
    sp1 <- c_strncpy sp0 0 arg (s_sock_path_size c) ;;
    sp2 <- (if s_sock_path_size c <? len arg then wr sp1 (s_sock_path_size c) NUL else Ok sp1) ;;
    n <- c_strnlen sp2 0 (s_sock_path_size c) ;;
    Ok (n + 2).

  (** * devlogoutput.c: ident template, prefix buffer *)
  Variable gen : arr -> N -> N -> list byte -> res arr.      (* snoopy_message_generateFromFormat *)

  Definition devlog_datagram (msg ident_fmt : list byte) (pri pid : N) : res (option (list byte)) :=
    match msg with
    | [] => Ok None
    | _ =>
      ident1 <- gen (zeroed (s_ident_buf c)) (s_ident_buf c) (s_ident_buf c) ident_fmt ;;
      ident <- cstr ident1 0 ;;
      let size := len msg + s_ident_buf c + s_devlog_extra c in
      b0 <- wr (fresh size) 0 NUL ;;
      r <- c_snprintf b0 0 size (lit_lt ++ dec pri ++ lit_gt ++ takeN (s_ident_buf c - 1) ident ++ lit_lbr ++ dec pid ++ lit_rbr_colon ++ msg) ;;
      out <- cstr (fst r) 0 ;;
      _ <- socket_addr lit_devlog ;;
      Ok (Some out)
    end.

  (** * fileoutput.c: path template, line buffer *)
  Definition file_line (msg path_fmt : list byte) : res (option (list byte * list byte)) :=
    match path_fmt with
    | [] => Ok None
    | _ =>
      p1 <- gen (zeroed (s_path_max c)) (s_path_max c) (s_path_max c) path_fmt ;;
      path <- cstr p1 0 ;;
      let n := len msg + 1 in
      l1 <- wrs (fresh n) 0 msg ;;
      l2 <- wr l1 (n - 1) NL ;;
      Ok (Some (path, msg ++ [NL]))
    end.

  (** * util/file.c getSmallTextFileContent: [limits] bounds what each fread delivers (short reads) *)
  Fixpoint read_loop (fuel : nat) (a : arr) (total : N) (rest : list byte) (limits : list N) : res (arr * N) :=
    match fuel with
    | O => Fault Out_of_fuel
    | S f =>
      if total <? s_file_max c then
        let lim := match limits with l :: _ => l | [] => s_file_fread c end in
        let k := N.min (N.min (s_file_fread c) (len rest)) lim in
        a' <- wrs a total (takeN k rest) ;;
        let total' := total + k in
        if k <? s_file_fread c then Ok (a', total')
        else read_loop f a' total' (dropN k rest) (tl limits)
      else Ok (a, total)
    end.

  (** returns the content string handed to the caller, or the error text *)
  Definition small_file (content : list byte) (limits : list N) (too_large_text : list byte) : res (list byte * bool) :=
    a0 <- wr (fresh (s_file_max c)) 0 NUL ;;
    r <- read_loop (S (N.to_nat (s_file_max c))) a0 0 content limits ;;
    let '(a1, total) := r in
    if s_file_max c <=? total then
      r <- c_snprintf (fresh (s_file_err_max c)) 0 (s_file_err_max c) too_large_text ;;
      e1 <- wr (fst r) (sub64 (s_file_err_max c) 1) NUL ;;
      s <- cstr e1 0 ;; Ok (s, false)
    else
      a2 <- (if total <? s_file_max c - 1 then wr a1 total NUL else wr a1 (s_file_max c - 1) NUL) ;;
      s <- cstr a2 0 ;; Ok (s, true).
End Out.
