(** Safety of the cgroup data source model (Safety/Cgroup.v): for every content of /proc/<pid>/cgroup (arbitrary
    bytes), every selection argument, every buffer size, [snoopy_datasource_cgroup] never faults and leaves the
    result buffer NUL-terminated below the size it was given.  Stdlib only, no axioms.

    Key facts: [doesCgroupEntryContainController] hands the content block back unchanged, cell for cell (every NUL
    it plants is replaced by the byte that was there); so only [strtok_r] and nullTerminateLine edit the block, and
    both only cut strings shorter. *)
From Snoopy Require Import Lib.CStr Safety.Mem Safety.CLib Safety.Consts Safety.Lits Safety.Out Safety.Cgroup
     Safety.P_Out Safety.P_Filter.
From Coq Require Import ZifyBool ZifyN ZifyNat.
Local Open Scope N_scope.

(** * generic helpers *)

(** arrays are determined by their cells *)
Lemma arr_ext (a a' : arr) : (forall j, at_ a j = at_ a' j) -> a = a'.
Proof.
  intros H. apply nth_error_ext_. intros i. specialize (H (N.of_nat i)). unfold at_ in H. now rewrite Nat2N.id in H.
Qed.

(** [*p = x; ... ; *p = <old value>] gives the old array back *)
Lemma wr_restore a i b0 b a1 : at_ a i = Some (Some b0) -> wr a i b = Ok a1 -> wr a1 i b0 = Ok a.
Proof.
  unfold wr. intros H0 W. pose proof (wrs_inv _ _ _ _ W) as B. pose proof (cap_wrs _ _ _ _ W) as K.
  change (len [b]) with 1 in B.
  destruct (wrs_ok a1 i [b0]) as [a2 E2]; [change (len [b0]) with 1; lia|]. rewrite E2. f_equal. apply arr_ext. intros j.
  destruct (N.eq_dec j i) as [->|Hne].
  - rewrite (at_wrs_in _ _ _ _ _ E2) by (change (len [b0]) with 1; lia). rewrite H0. replace (i - i) with 0 by lia. reflexivity.
  - rewrite (at_wrs_out _ _ _ _ _ E2) by (change (len [b0]) with 1; lia).
    apply (at_wrs_out _ _ _ _ _ W). change (len [b]) with 1. lia.
Qed.

(** the cell behind a [nat] index of a string *)
Lemma at_of_cstr a p d k : cstr a p = Ok d -> (k < length d)%nat -> at_ a (p + N.of_nat k) = Some (Some (nth k d NUL)).
Proof.
  intros H Hk. apply cstr_holds in H as [_ [H1 _]]. rewrite H1 by (unfold len; lia). unfold nthN. now rewrite Nat2N.id.
Qed.

(** a NUL written on or behind the terminator keeps the string *)
Lemma wr_nul_keep a w i : cstr a 0 = Ok w -> len w <= i -> i < cap a ->
  exists a', wr a i NUL = Ok a' /\ cap a' = cap a /\ cstr a' 0 = Ok w.
Proof.
  intros Hw Hi Hc. destruct (N.eq_dec i (len w)) as [->|Hne].
  - destruct (cstr_wr_nul a 0 w (len w) Hw ltac:(lia)) as [a' [E [C [K _]]]]. exists a'.
    split; [exact E|]. split; [exact K|]. rewrite C. f_equal. apply takeN_all. lia.
  - destruct (wrs_ok a i [NUL]) as [a' E]; [change (len [NUL]) with 1; lia|]. exists a'. unfold wr. split; [exact E|].
    split; [now apply cap_wrs in E|]. eapply cstr_wrs_frame; [exact Hw|exact E|]. left. lia.
Qed.

(** snprintf(buf, size, ..) into a buffer of unknown contents: the data-source contract *)
Lemma snprintf_result buf size text : 1 <= size -> size <= cap buf -> nonul text ->
  exists a', c_snprintf buf 0 size text = Ok (a', len text) /\ cap a' = cap buf /\ exists s, cstr a' 0 = Ok s /\ len s < size.
Proof.
  intros Hs Hc Hn. destruct (c_snprintf_ok buf 0 size text Hs ltac:(lia)) as [a' E]. exists a'. split; [exact E|].
  destruct (c_snprintf_spec _ _ _ _ _ _ E Hs Hn) as [_ [S C]]. split; [exact C|].
  eexists. split; [exact S|]. rewrite len_takeN. lia.
Qed.

Lemma nonul_colon arg : nonul arg -> nonul (arg ++ [COLONB]).
Proof. intros H. apply nonul_app. split; [exact H|]. intros [F|[]]. discriminate. Qed.

Lemma nonul_lit_missing_arg : nonul lit_missing_arg.  Proof. apply nonulb_spec. reflexivity. Qed.
Lemma nonul_lit_cgroup : nonul lit_cgroup.            Proof. apply nonulb_spec. reflexivity. Qed.
Lemma nonul_lit_proc : nonul lit_proc.                Proof. apply nonulb_spec. reflexivity. Qed.
Lemma nonul_lit_unable_read : nonul lit_unable_read.  Proof. apply nonulb_spec. reflexivity. Qed.
Lemma nonul_lit_reason : nonul lit_reason.            Proof. apply nonulb_spec. reflexivity. Qed.
Lemma nonul_lit_none : nonul lit_none.                Proof. apply nonulb_spec. reflexivity. Qed.
Lemma nonul_lit_unable_open : nonul lit_unable_open.  Proof. apply nonulb_spec. reflexivity. Qed.
Lemma nonul_lit_for_reading : nonul lit_for_reading.  Proof. apply nonulb_spec. reflexivity. Qed.
Lemma nonul_lit_too_large : nonul lit_too_large.      Proof. apply nonulb_spec. reflexivity. Qed.

(** * util/string.c *)

(** containsOnlyDigits never reads behind the terminator of its argument *)
Lemma digits_loop_safe s : forall fuel i, i <= len s -> (N.to_nat (len s - i) < fuel)%nat -> exists r, digits_loop fuel s i = Ok r.
Proof.
  induction fuel as [|f IH]; intros i Hi Hf; [lia|]. cbn [digits_loop]. unfold srd.
  destruct (N.leb_spec i (len s)); [|lia]. cbn [bind].
  destruct (beq (nthN i s) NUL) eqn:E; [eauto|]. destruct (is_digit (nthN i s)); [|eauto].
  assert (i <> len s). { intros ->. rewrite nthN_beyond in E by lia. rewrite beq_refl in E. discriminate. }
  apply IH; lia.
Qed.

Theorem contains_only_digits_safe : forall s, exists r, contains_only_digits s = Ok r.
Proof. intros s. unfold contains_only_digits. apply digits_loop_safe; [lia|unfold len; lia]. Qed.

(** findLineStartingWith: every [strstr] starts inside the content string, [found[-1]] is inside it, and the
    line found (if any) starts inside it *)
Lemma find_line_loop_safe blk ss d0 needle : cstr blk 0 = Ok d0 -> cstr ss 0 = Ok needle -> 1 <= len needle ->
  forall fuel pos, pos <= len d0 -> (N.to_nat (len d0 - pos) < fuel)%nat ->
  exists r, find_line_loop fuel blk ss pos = Ok r /\ match r with Some p => p <= len d0 | None => True end.
Proof.
  intros H0 Hs Hn. induction fuel as [|f IH]; intros pos Hp Hf; [lia|]. cbn [find_line_loop].
  pose proof (cstr_suffix _ _ _ pos H0 Hp) as Hh. rewrite N.add_0_l in Hh. rewrite Hh. cbn [bind]. rewrite Hs. cbn [bind].
  destruct (strstr (dropN pos d0) needle) as [k|] eqn:Es; [|exists None; auto].
  pose proof (strstr_bound _ _ _ Es) as Hb.
  assert (Hb' : N.of_nat k + len needle <= len d0 - pos). { rewrite <- len_dropN. unfold len. lia. }
  remember (pos + N.of_nat k) as fpos eqn:Efp.
  destruct (N.eqb_spec fpos 0) as [E0|E0].
  - cbn [bind]. exists (Some fpos). split; [reflexivity|lia].
  - destruct (N.ltb_spec 0 fpos); [|lia].
    pose proof (rd_in _ _ _ (fpos - 1) H0 ltac:(lia)) as Hr. rewrite N.add_0_l in Hr. rewrite Hr. cbn [bind].
    destruct (beq (nthN (fpos - 1) d0) NL).
    + exists (Some fpos). split; [reflexivity|lia].
    + unfold c_strlen. rewrite Hs. cbn [bind]. apply IH; lia.
Qed.

(** nullTerminateLine cuts the line in place *)
Lemma null_terminate_line_safe blk p d : cstr blk p = Ok d ->
  exists blk' e, null_terminate_line blk p = Ok blk' /\ cap blk' = cap blk /\ cstr blk' p = Ok e.
Proof.
  intros H. unfold null_terminate_line. rewrite H. cbn [bind].
  destruct (index NL d) as [k|] eqn:E; [|exists blk, d; auto].
  destruct (index_Some _ _ _ E) as [_ [Hk _]].
  destruct (cstr_wr_nul blk p d (p + N.of_nat k) H) as [a' [W [C [K _]]]]; [unfold len; lia|].
  rewrite W. eauto.
Qed.

(** * cgroup.c: doesCgroupEntryContainController restores the block *)
Lemma comma_loop_safe arg : forall fuel b tp tk, cstr b tp = Ok tk -> (length tk < fuel)%nat ->
  exists m, comma_loop arg fuel b tp = Ok (b, m).
Proof.
  induction fuel as [|f IH]; intros b tp tk H Hf; [lia|]. cbn [comma_loop]. rewrite H. cbn [bind].
  destruct (index COMMA tk) as [k|] eqn:E; [|eauto].
  destruct (index_Some _ _ _ E) as [Hn [Hk _]].
  pose proof (at_of_cstr _ _ _ k H Hk) as Hat. rewrite Hn in Hat.
  destruct (cstr_wr_nul b tp tk (tp + N.of_nat k) H) as [b1 [W [C [K _]]]]; [unfold len; lia|].
  rewrite W. cbn [bind]. rewrite C. cbn [bind]. rewrite (wr_restore _ _ _ _ _ Hat W). cbn [bind].
  destruct (list_eqb _ arg); [eauto|].
  apply (IH b (tp + N.of_nat k + 1) (dropN (N.of_nat k + 1) tk)).
  - replace (tp + N.of_nat k + 1) with (tp + (N.of_nat k + 1)) by lia. apply cstr_suffix; [exact H|unfold len; lia].
  - pose proof (len_dropN (N.of_nat k + 1) tk) as L. unfold len in L. lia.
Qed.

Theorem entry_has_controller_safe : forall arg blk t e, cstr blk t = Ok e ->
  exists m, entry_has_controller arg blk t = Ok (blk, m).
Proof.
  intros arg blk t e H. unfold entry_has_controller. rewrite H. cbn [bind].
  destruct (index COLONB e) as [k1|] eqn:E1; [|eauto].
  destruct (index_Some _ _ _ E1) as [_ [Hk1 _]].
  assert (Hl : cstr blk (t + N.of_nat k1 + 1) = Ok (dropN (N.of_nat k1 + 1) e)).
  { replace (t + N.of_nat k1 + 1) with (t + (N.of_nat k1 + 1)) by lia. apply cstr_suffix; [exact H|unfold len; lia]. }
  rewrite Hl. cbn [bind].
  remember (t + N.of_nat k1 + 1) as cl eqn:Ecl. remember (dropN (N.of_nat k1 + 1) e) as l eqn:El.
  destruct (index COLONB l) as [k2|] eqn:E2; [|eauto].
  destruct (index_Some _ _ _ E2) as [Hn2 [Hk2 _]].
  destruct (N.eqb_spec (cl + N.of_nat k2) cl); [eauto|].
  pose proof (at_of_cstr _ _ _ k2 Hl Hk2) as Hat. rewrite Hn2 in Hat.
  destruct (cstr_wr_nul blk cl l (cl + N.of_nat k2) Hl) as [b1 [W [C [K _]]]]; [unfold len; lia|].
  rewrite W. cbn [bind]. rewrite C. cbn [bind].
  pose proof (wr_restore _ _ _ _ _ Hat W) as R.
  destruct (list_eqb _ arg). { rewrite R. cbn [bind]. eauto. }
  destruct (index COMMA _). 2:{ rewrite R. cbn [bind]. eauto. }
  destruct (comma_loop_safe arg (S (length (takeN (cl + N.of_nat k2 - cl) l))) b1 cl _ C) as [m Em]; [lia|].
  rewrite Em. cbn [bind fst snd]. rewrite R. cbn [bind]. eauto.
Qed.

(** the strtok_r walk over the lines *)
Lemma entry_loop_safe arg : forall fuel blk str rest d,
  cstr blk (match str with Some s => s | None => rest end) = Ok d -> (length d < fuel)%nat ->
  exists blk' r, entry_loop arg fuel blk str rest = Ok (blk', r) /\
    match r with None => True | Some p => exists e, cstr blk' p = Ok e end.
Proof.
  induction fuel as [|f IH]; intros blk str rest d H Hf; [lia|]. cbn [entry_loop].
  destruct (strtok_r_safe blk _ d NL H) as (a' & tok & rest' & E & _ & _ & T). rewrite E. cbn [bind].
  destruct tok as [t|]; [|exists a', None; auto].
  destruct T as (tk & dr & Ht & _ & _ & Hr & _ & Hlt & _).
  destruct (entry_has_controller_safe arg a' t tk Ht) as [m Em]. rewrite Em. cbn [bind fst snd].
  destruct m. { exists a', (Some t). split; [reflexivity|eauto]. }
  apply (IH a' None rest' dr); [exact Hr|unfold len in Hlt; lia].
Qed.

(** both search modes: no fault, and the entry handed to the final snprintf is a C string of the block *)
Theorem cgroup_search_safe : forall arg fuel blk d0, cstr blk 0 = Ok d0 -> (length d0 < fuel)%nat -> nonul arg ->
  exists blk' r, cgroup_search arg fuel blk = Ok (blk', r) /\
    match r with None => True | Some p => exists e, cstr blk' p = Ok e end.
Proof.
  intros arg fuel blk d0 H0 Hf Hn. unfold cgroup_search.
  destruct (contains_only_digits_safe arg) as [dig Ed]. rewrite Ed. cbn [bind].
  destruct dig.
  - destruct (c_snprintf_ok (fresh (len arg + 2)) 0 (len arg + 2) (arg ++ [COLONB])) as [ss Es]; [lia|rewrite cap_fresh; lia|].
    rewrite Es. cbn [bind fst].
    destruct (c_snprintf_spec _ _ _ _ _ _ Es ltac:(lia) (nonul_colon _ Hn)) as [_ [Cs _]].
    destruct (find_line_loop_safe blk ss d0 _ H0 Cs) with (fuel := fuel) (pos := 0) as [r [Er Hr]].
    { rewrite len_takeN, len_app. change (len [COLONB]) with 1. lia. }
    { lia. }
    { unfold len. lia. }
    rewrite Er. cbn [bind]. destruct r as [p|]; [|exists blk, None; auto].
    pose proof (cstr_suffix _ _ _ p H0 Hr) as Hp. rewrite N.add_0_l in Hp.
    destruct (null_terminate_line_safe blk p _ Hp) as [blk' [e [En [_ Ce]]]]. rewrite En. cbn [bind].
    exists blk', (Some p). split; [reflexivity|eauto].
  - apply (entry_loop_safe arg fuel blk (Some 0) 0 d0 H0 Hf).
Qed.

(** * util/file.c as seen by the caller *)
Lemma err_block_safe em text : 1 <= em -> nonul text -> exists blk s, err_block em text = Ok blk /\ cstr blk 0 = Ok s.
Proof.
  intros He Hn. unfold err_block.
  destruct (c_snprintf_ok (fresh em) 0 em text) as [e0 E0]; [lia|rewrite cap_fresh; lia|].
  rewrite E0. cbn [bind fst]. destruct (c_snprintf_spec _ _ _ _ _ _ E0 He Hn) as [_ [Cs K]]. rewrite cap_fresh in K.
  rewrite sub64_le by lia.
  destruct (wr_nul_keep e0 _ (em - 1) Cs) as [e1 [W [_ C1]]]; [rewrite len_takeN; lia|lia|].
  rewrite W. eauto.
Qed.

Lemma get_small_file_none fm em path open_err : 1 <= em -> nonul path -> nonul open_err ->
  exists blk s, get_small_file fm em path None open_err = Ok (blk, false) /\ cstr blk 0 = Ok s.
Proof.
  intros He Hp Ho. unfold get_small_file.
  destruct (wr_ok (fresh em) 0 NUL) as [e0 [W0 K0]]; [rewrite cap_fresh; lia|]. rewrite cap_fresh in K0. rewrite W0. cbn [bind].
  destruct (c_snprintf_ok e0 0 em open_err) as [e1 E1]; [lia|lia|]. rewrite E1. cbn [bind fst].
  destruct (c_snprintf_spec _ _ _ _ _ _ E1 He Ho) as [_ [C1 K1]].
  rewrite sub64_le by lia.
  destruct (wr_nul_keep e1 _ (em - 1) C1) as [e2 [W2 [_ C2]]]; [rewrite len_takeN; lia|lia|].
  rewrite W2. cbn [bind]. rewrite C2. cbn [bind].
  destruct (err_block_safe em (lit_unable_open ++ path ++ lit_for_reading ++ takeN (em - 1) open_err) He) as [blk [s [Eb Cb]]].
  { repeat (apply nonul_app; split); try assumption; [exact nonul_lit_unable_open|exact nonul_lit_for_reading|now apply nonul_takeN]. }
  rewrite Eb. cbn [bind]. eauto.
Qed.

(** arbitrary file bytes: the block holds a C string no longer than the content *)
Lemma get_small_file_some fm em path content open_err : 1 <= em ->
  exists blk ok s, get_small_file fm em path (Some content) open_err = Ok (blk, ok) /\ cstr blk 0 = Ok s /\
    (ok = true -> len s <= len content).
Proof.
  intros He. unfold get_small_file. destruct (N.ltb_spec (len content) fm) as [Hlt|Hge].
  - destruct (wrs_ok (fresh fm) 0 (content ++ [NUL])) as [blk W].
    { rewrite cap_fresh, len_app. change (len [NUL]) with 1. lia. }
    rewrite W. cbn [bind].
    assert (L : len (content ++ [NUL]) = len content + 1) by (rewrite len_app; reflexivity).
    destruct (cstr_det blk (len content)) with (m := N.to_nat (len content)) (p := 0) as [s [Cs Ls]].
    + intros j Hj. apply (det_wrs_in _ _ _ _ _ W). lia.
    + rewrite (at_wrs_in _ _ _ _ _ W) by lia.
      rewrite nthN_app_r by lia. replace (len content - 0 - len content) with 0 by lia. reflexivity.
    + lia.
    + exists blk, true, s. split; [reflexivity|]. split; [exact Cs|]. intros _. lia.
  - destruct (err_block_safe em lit_too_large He nonul_lit_too_large) as [blk [s [Eb Cb]]].
    rewrite Eb. cbn [bind]. exists blk, false, s. split; [reflexivity|]. split; [exact Cb|discriminate].
Qed.

(** * snoopy_datasource_cgroup *)
Theorem cgroup_core_safe : forall fm em path_cap buf size arg pid_text file open_err,
  1 <= em -> 1 <= path_cap -> 1 <= size -> size <= cap buf -> nonul arg -> nonul pid_text -> nonul open_err ->
  exists buf' failed, cgroup_core fm em path_cap buf size arg pid_text file open_err = Ok (buf', failed) /\ cap buf' = cap buf /\
    exists s, cstr buf' 0 = Ok s /\ len s < size.
Proof.
  intros fm em path_cap buf size arg pid_text file open_err Hem Hpc Hs Hc Ha Hp Ho. unfold cgroup_core.
  unfold srd. destruct (N.leb_spec 0 (len arg)); [|lia]. cbn [bind].
  destruct (beq (nthN 0 arg) NUL).
  { destruct (snprintf_result buf size lit_missing_arg Hs Hc nonul_lit_missing_arg) as [a' [E [K S]]].
    rewrite E. cbn [bind fst]. eauto. }
  assert (Npt : nonul (lit_proc ++ pid_text ++ lit_cgroup)).
  { repeat (apply nonul_app; split); try assumption; [exact nonul_lit_proc|exact nonul_lit_cgroup]. }
  destruct (c_snprintf_ok (fresh path_cap) 0 path_cap (lit_proc ++ pid_text ++ lit_cgroup)) as [p1 E1]; [lia|rewrite cap_fresh; lia|].
  rewrite E1. cbn [bind fst].
  destruct (c_snprintf_spec _ _ _ _ _ _ E1 Hpc Npt) as [_ [Cp _]]. rewrite Cp. cbn [bind].
  remember (takeN (path_cap - 1) (lit_proc ++ pid_text ++ lit_cgroup)) as path eqn:Epath.
  assert (Np : nonul path) by (subst path; now apply nonul_takeN).
  destruct file as [content|].
  - destruct (get_small_file_some fm em path content open_err Hem) as (blk & ok & s0 & Eg & C0 & L0). rewrite Eg. cbn [bind].
    destruct ok; cbn [negb].
    + destruct (cgroup_search_safe arg (S (length content)) blk s0 C0) as (blk' & r & Es & Hr);
        [specialize (L0 eq_refl); unfold len in L0; lia|exact Ha|].
      rewrite Es. cbn [bind fst snd]. destruct r as [p|].
      * destruct Hr as [e Ce]. rewrite Ce. cbn [bind].
        destruct (snprintf_result buf size e Hs Hc (cstr_nonul _ _ _ Ce)) as [a' [E [K S]]].
        rewrite E. cbn [bind fst]. eauto.
      * destruct (snprintf_result buf size lit_none Hs Hc nonul_lit_none) as [a' [E [K S]]].
        rewrite E. cbn [bind fst]. eauto.
    + rewrite C0. cbn [bind].
      destruct (snprintf_result buf size (lit_unable_read ++ path ++ lit_reason ++ s0) Hs Hc) as [a' [E [K S]]].
      { repeat (apply nonul_app; split); try assumption; [exact nonul_lit_unable_read|exact nonul_lit_reason|exact (cstr_nonul _ _ _ C0)]. }
      rewrite E. cbn [bind fst]. eauto.
  - destruct (get_small_file_none fm em path open_err Hem Np Ho) as (blk & s0 & Eg & C0). rewrite Eg. cbn [bind negb].
    rewrite C0. cbn [bind].
    destruct (snprintf_result buf size (lit_unable_read ++ path ++ lit_reason ++ s0) Hs Hc) as [a' [E [K S]]].
    { repeat (apply nonul_app; split); try assumption; [exact nonul_lit_unable_read|exact nonul_lit_reason|exact (cstr_nonul _ _ _ C0)]. }
    rewrite E. cbn [bind fst]. eauto.
Qed.

(** the statement of the task: all constants of the tree that satisfy [safety_consts_ok], every path buffer size >= 1,
    every result size >= 1 that fits the buffer, NUL-free argument / pid text / strerror text, EVERY file content *)
Theorem cgroup_safe : forall c, safety_consts_ok c = true ->
  forall path_cap buf size arg pid_text file open_err,
  1 <= path_cap -> 1 <= size -> size <= cap buf -> nonul arg -> nonul pid_text -> nonul open_err ->
  exists buf' failed, cgroup_buf c path_cap buf size arg pid_text file open_err = Ok (buf', failed) /\ cap buf' = cap buf /\
    exists s, cstr buf' 0 = Ok s /\ len s < size.
Proof.
  intros c Hok path_cap buf size arg pid_text file open_err Hpc Hs Hc Ha Hp Ho. unfold cgroup_buf.
  apply cgroup_core_safe; try assumption. exact (ok_file_err c Hok).
Qed.

Print Assumptions contains_only_digits_safe.
Print Assumptions entry_has_controller_safe.
Print Assumptions cgroup_search_safe.
Print Assumptions cgroup_core_safe.
Print Assumptions cgroup_safe.
