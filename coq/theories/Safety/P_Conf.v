(** Safety proofs for the configuration path models of Safety/Conf.v (the part before ini.c):
    util/parser.c strByteLength, util/syslog.c prefix handling, configfile.c helpers. *)
From Snoopy Require Import Lib.CStr Safety.Mem Safety.CLib Safety.Consts Safety.Conf.
From Coq Require Import ZifyBool ZifyN ZifyNat.
Local Open Scope N_scope.

Section P_Conf.
  Variable c : safety_consts.
  Hypothesis Hok : safety_consts_ok c = true.

  Ltac okf := pose proof Hok as Hk; unfold safety_consts_ok in Hk; repeat (apply andb_true_iff in Hk as [Hk ?]).

  (** * facts from [Hok] *)
  Lemma ok_wide : s_bytelen_wide c = true.  Proof. okf. assumption. Qed.
  Lemma ok_llong : (s_int_max c * 10 + 9) * s_factor_m c <= s_llong_max c.  Proof. okf. apply N.leb_le. assumption. Qed.
  Lemma ok_factor_k : s_factor_k c <= s_factor_m c.  Proof. okf. apply N.leb_le. assumption. Qed.
  Lemma ok_fac_guarded : s_fac_guarded c = true.  Proof. okf. assumption. Qed.
  Lemma ok_lvl_guarded : s_lvl_guarded c = true.  Proof. okf. assumption. Qed.
  Lemma ok_cfg_guarded : s_cfg_guarded c = true.  Proof. okf. assumption. Qed.
  Lemma ok_log_skip : s_log_skip c <= N.min (s_log_cmp_n c) (len (s_log_prefix c)).  Proof. okf. apply N.leb_le. assumption. Qed.
  Lemma ok_log_prefix : nonul (s_log_prefix c).  Proof. okf. apply nonulb_spec. assumption. Qed.
  Lemma ok_cfg_skip : s_cfg_skip c <= N.min (s_cfg_cmp_n c) (len (s_cfg_prefix c)).  Proof. okf. apply N.leb_le. assumption. Qed.
  Lemma ok_cfg_prefix : nonul (s_cfg_prefix c).  Proof. okf. apply nonulb_spec. assumption. Qed.
  Lemma ok_strchr : s_out_split_strchr c = true.  Proof. okf. assumption. Qed.

  (** * small helpers *)
  Lemma srd_ok s i : i <= len s -> srd s i = Ok (nthN i s).
  Proof. intros H. unfold srd. destruct (N.leb_spec i (len s)); [reflexivity|lia]. Qed.

  Lemma nthN_not_nul_lt i s : i <= len s -> nthN i s <> NUL -> i < len s.
  Proof. intros H E. destruct (N.lt_ge_cases i (len s)); [assumption|]. exfalso. apply E. apply nthN_beyond. assumption. Qed.

  Lemma is_digit_not_nul b : is_digit b = true -> b <> NUL.
  Proof. intros H E. subst b. vm_compute in H. discriminate H. Qed.

  Lemma is_digit_val b : is_digit b = true -> digit_val b <= 9.
  Proof. unfold is_digit, digit_val. intros H. apply andb_true_iff in H as [H1 H2]. apply N.leb_le in H1, H2. lia. Qed.

  Lemma in_range_ok hi v : v <= hi -> in_range hi v = Ok v.
  Proof. intros H. unfold in_range. destruct (N.leb_spec v hi); [reflexivity|lia]. Qed.

  (** * util/parser.c *)
  Lemma digits_loop_ok text vmax : vmax * 10 + 9 <= s_llong_max c ->
    forall fuel p acc, p <= len text -> acc <= vmax * 10 + 9 -> (N.to_nat (len text - p) < fuel)%nat ->
    exists p' acc', digits_loop c fuel text p acc vmax = Ok (p', acc') /\ p' <= len text /\ acc' <= vmax * 10 + 9.
  Proof.
    intros HL. induction fuel as [|f IH]; intros p acc Hp Ha Hf; [lia|]. cbn [digits_loop].
    rewrite srd_ok by assumption. cbn [bind].
    destruct (is_digit (nthN p text)) eqn:D.
    - assert (Hlt : p < len text) by (apply nthN_not_nul_lt; [assumption|now apply is_digit_not_nul]).
      pose proof (is_digit_val _ D) as Hd.
      destruct (N.leb_spec acc vmax).
      + rewrite in_range_ok by (unfold acc_limit; rewrite ok_wide; lia). cbn [bind]. apply IH; lia.
      + cbn [bind]. apply IH; lia.
    - exists p, acc. auto.
  Qed.

  (** [Hfm] (now part of [safety_consts_ok]) is needed: otherwise [s_factor_m c = 0] is possible, for which the
      product bound of [Hok] is vacuous (e.g. s_factor_m = s_factor_k = 0, s_llong_max = 0, s_int_max = 5,
      text "1": the first accumulation step 0*10+1 exceeds acc_limit = 0). *)
  Section ByteLength.
  Lemma Hfm : 1 <= s_factor_m c.
  Proof. okf. match goal with H : (1 <=? s_factor_m c) = true |- _ => apply N.leb_le in H; exact H end. Qed.

  Lemma acc_bound vmax : vmax <= s_int_max c -> vmax * 10 + 9 <= s_llong_max c.
  Proof.
    intros H. pose proof ok_llong as L.
    assert ((s_int_max c * 10 + 9) * 1 <= (s_int_max c * 10 + 9) * s_factor_m c) by (apply N.mul_le_mono_l; exact Hfm).
    lia.
  Qed.

  Theorem byte_length_safe : forall text vmin vmax vdef, nonul text -> vmin <= vmax -> vmax <= s_int_max c ->
    exists r, byte_length c text vmin vmax vdef = Ok r /\ (r = vdef \/ (vmin <= r /\ r <= vmax)).
  Proof.
    intros text vmin vmax vdef _ Hmm Hmax. unfold byte_length.
    rewrite in_range_ok by assumption. cbn [bind].
    pose proof (acc_bound vmax Hmax) as HL.
    destruct (digits_loop_ok text vmax HL (S (S (length text))) 0 0) as [p [num [E [Hp Hn]]]]; [lia|lia|unfold len; lia|].
    rewrite E. cbn [bind].
    destruct (N.eqb_spec num 0) as [_|Hnz]; [exists vdef; auto|].
    rewrite srd_ok by assumption. cbn [bind].
    set (factor := if beq (nthN p text) x6b || beq (nthN p text) x4b then s_factor_k c
                   else if beq (nthN p text) x6d || beq (nthN p text) x4d then s_factor_m c else 1).
    assert (Hf : factor <= s_factor_m c).
    { unfold factor. pose proof ok_factor_k. pose proof Hfm. destruct (_ || _); [assumption|]. destruct (_ || _); lia. }
    assert (Hprod : num * factor <= s_llong_max c).
    { pose proof ok_llong. assert (num * factor <= (s_int_max c * 10 + 9) * s_factor_m c) by (apply N.mul_le_mono; lia). lia. }
    clearbody factor.
    rewrite in_range_ok by (unfold acc_limit; rewrite ok_wide; assumption). cbn [bind].
    destruct (N.ltb_spec (num * factor) vmin).
    - destruct (N.ltb_spec vmax vmin); [lia|]. rewrite in_range_ok by lia. exists vmin. split; [reflexivity|right; lia].
    - destruct (N.ltb_spec vmax (num * factor)).
      + rewrite in_range_ok by lia. exists vmax. split; [reflexivity|right; lia].
      + rewrite in_range_ok by lia. exists (num * factor). split; [reflexivity|right; lia].
  Qed.

  End ByteLength.

  (** * strncmp-guarded prefix removal *)
  Lemma strncmp_ok s lit n : nonul s -> nonul lit ->
    forall fuel i, i <= len s -> i <= len lit -> (N.to_nat (n - i) < fuel)%nat ->
    exists b, strncmp_eq fuel s lit i n = Ok b /\ (b = true -> N.min n (len lit) <= len s).
  Proof.
    intros Hs Hl. induction fuel as [|f IH]; intros i His Hil Hf; [lia|]. cbn [strncmp_eq].
    destruct (N.leb_spec n i); [exists true; split; [reflexivity|lia]|].
    rewrite !srd_ok by assumption. cbn [bind].
    destruct (beq (nthN i s) (nthN i lit)) eqn:E; cbn [negb].
    - apply beq_eq in E. destruct (beq (nthN i s) NUL) eqn:E2.
      + apply beq_eq in E2. exists true. split; [reflexivity|]. intros _.
        assert (len s <= i). { destruct (N.lt_ge_cases i (len s)); [|assumption]. exfalso. now apply (nthN_nonul i s Hs). }
        assert (len lit <= i). { destruct (N.lt_ge_cases i (len lit)); [|assumption]. exfalso. rewrite E in E2. now apply (nthN_nonul i lit Hl). }
        lia.
      + apply beq_neq in E2. assert (i < len s) by (now apply nthN_not_nul_lt).
        assert (i < len lit) by (apply nthN_not_nul_lt; [assumption|now rewrite <- E]).
        apply IH; lia.
    - exists false. split; [reflexivity|discriminate].
  Qed.

  Theorem strip_prefix_safe : forall lit n skip s, nonul s -> nonul lit -> skip <= N.min n (len lit) ->
    exists t, strip_prefix true lit n skip s = Ok t /\ nonul t /\ len t <= len s.
  Proof.
    intros lit n skip s Hs Hl Hk. unfold strip_prefix.
    destruct (strncmp_ok s lit n Hs Hl (S (N.to_nat n)) 0) as [b [E Hb]]; [lia|lia|lia|].
    rewrite E. cbn [bind]. destruct b.
    - specialize (Hb eq_refl). unfold tail_at. destruct (N.leb_spec skip (len s)); [|lia].
      exists (dropN skip s). split; [reflexivity|]. split; [now apply nonul_dropN|]. rewrite len_dropN. lia.
    - exists s. split; [reflexivity|]. split; [assumption|lia].
  Qed.

  Theorem facility_name_safe : forall s, nonul s -> exists t, facility_name c s = Ok t /\ nonul t /\ len t <= len s.
  Proof. intros s Hs. unfold facility_name. rewrite ok_fac_guarded. apply strip_prefix_safe; [assumption|apply ok_log_prefix|apply ok_log_skip]. Qed.

  Theorem level_name_safe : forall s, nonul s -> exists t, level_name c s = Ok t /\ nonul t /\ len t <= len s.
  Proof. intros s Hs. unfold level_name. rewrite ok_lvl_guarded. apply strip_prefix_safe; [assumption|apply ok_log_prefix|apply ok_log_skip]. Qed.

  (** * util/string.c toUpper in place *)
  Lemma to_upper_nonul b : (97 <=? byteN b) && (byteN b <=? 122) = true -> to_upper b <> NUL.
  Proof. destruct b; vm_compute; intros H; try discriminate H; intros E; discriminate E. Qed.

  Lemma toupper_loop_ok : forall fuel a p d, cstr a 0 = Ok d -> p <= len d -> (N.to_nat (len d - p) < fuel)%nat ->
    exists a' d', toupper_loop fuel a p = Ok a' /\ cap a' = cap a /\ cstr a' 0 = Ok d' /\ len d' = len d.
  Proof.
    induction fuel as [|f IH]; intros a p d Hd Hp Hf; [lia|]. cbn [toupper_loop].
    pose proof (rd_str a 0 d p Hd Hp) as R. rewrite N.add_0_l in R. rewrite R. cbn [bind].
    destruct (beq (nthN p d) NUL) eqn:E; [exists a, d; auto|].
    apply beq_neq in E. assert (Hlt : p < len d) by (now apply nthN_not_nul_lt).
    destruct ((97 <=? byteN (nthN p d)) && (byteN (nthN p d) <=? 122)) eqn:T.
    - destruct (cstr_wr_byte a 0 d p (to_upper (nthN p d)) Hd Hlt (to_upper_nonul _ T)) as [a1 [W [C1 K1]]].
      rewrite N.add_0_l in W. rewrite W. cbn [bind].
      assert (L : len (takeN p d ++ to_upper (nthN p d) :: dropN (p + 1) d) = len d).
      { rewrite len_app, len_cons, len_takeN, len_dropN. lia. }
      destruct (IH a1 (p + 1) _ C1) as [a' [d' [R' [K' [C' L']]]]]; [lia|lia|].
      exists a', d'. repeat split; [assumption|congruence|assumption|congruence].
    - cbn [bind]. apply IH; [assumption|lia|lia].
  Qed.

  Theorem to_upper_safe : forall a d, cstr a 0 = Ok d ->
    exists a' d', to_upper_inplace a = Ok a' /\ cap a' = cap a /\ cstr a' 0 = Ok d' /\ len d' = len d.
  Proof.
    intros a d Hd. unfold to_upper_inplace. apply toupper_loop_ok with (d := d); [assumption|lia|].
    pose proof (cstr_bound _ _ _ Hd). unfold cap in *. lia.
  Qed.

  (** * configfile.c *)
  Lemma strdup_ok v : nonul v -> exists a, strdup v = Ok a /\ cstr a 0 = Ok v /\ cap a = len v + 1.
  Proof.
    intros Hv. unfold strdup, c_store.
    destruct (wrs_ok (fresh (len v + 1)) 0 (v ++ [NUL])) as [a E].
    { rewrite cap_fresh, len_app, len_cons, len_nil. lia. }
    exists a. split; [assumption|]. split; [eapply cstr_wrs_here; eauto|]. rewrite (cap_wrs _ _ _ _ E). apply cap_fresh.
  Qed.

  Theorem syslog_value_safe : forall level v, nonul v -> exists t, syslog_value c level v = Ok t.
  Proof.
    intros level v Hv. unfold syslog_value.
    destruct (strdup_ok v Hv) as [a0 [E0 [C0 _]]]. rewrite E0. cbn [bind].
    destruct (to_upper_safe a0 v C0) as [a1 [d1 [E1 [_ [C1 _]]]]]. rewrite E1. cbn [bind]. rewrite C1. cbn [bind].
    pose proof (cstr_nonul _ _ _ C1) as N1. rewrite ok_cfg_guarded.
    assert (ST : exists t, (if s_cfg_strips c then strip_prefix true (s_cfg_prefix c) (s_cfg_cmp_n c) (s_cfg_skip c) d1 else Ok d1) = Ok t /\ nonul t).
    { destruct (s_cfg_strips c); [|eauto].
      destruct (strip_prefix_safe (s_cfg_prefix c) (s_cfg_cmp_n c) (s_cfg_skip c) d1 N1 ok_cfg_prefix ok_cfg_skip) as [t [E2 [N2 _]]]. eauto. }
    destruct ST as [t [E2 N2]].
    rewrite E2. cbn [bind]. destruct level.
    - destruct (level_name_safe t N2) as [r [E _]]. eauto.
    - destruct (facility_name_safe t N2) as [r [E _]]. eauto.
  Qed.

  Theorem output_split_safe : forall v, nonul v ->
    exists n a f, output_split c v = Ok (n, a, f) /\ nonul n /\ nonul a /\ len n <= len v /\ len a <= len v.
  Proof.
    intros v Hv. unfold output_split.
    destruct (strdup_ok v Hv) as [a0 [E0 [C0 _]]]. rewrite E0. cbn [bind]. rewrite C0. cbn [bind]. rewrite ok_strchr.
    destruct (index x3a v) as [k|] eqn:I.
    - apply index_Some in I as [_ [Hk _]].
      destruct (cstr_wr_nul a0 0 v (N.of_nat k) C0) as [a1 [W [C1 [_ C2]]]]; [unfold len; lia|].
      rewrite W. cbn [bind]. rewrite C1. cbn [bind]. rewrite C2.
      destruct (N.ltb_spec (N.of_nat k) (0 + len v)); [|unfold len in *; lia]. cbn [bind].
      eexists _, _, _. split; [reflexivity|].
      split; [now apply nonul_takeN|]. split; [now apply nonul_dropN|]. rewrite len_takeN, len_dropN. lia.
    - exists v, [], false. split; [reflexivity|]. split; [assumption|]. split; [intros []|]. rewrite len_nil. lia.
  Qed.

  Theorem getboolean_safe : forall v, exists r, getboolean v = Ok r.
  Proof.
    intros v. unfold getboolean. rewrite srd_ok by lia. cbn [bind].
    destruct (_ || _); [eauto|]. destruct (_ || _); eauto.
  Qed.
End P_Conf.

(** [Hfm] used to be a hypothesis: without the conjunct  1 <= s_factor_m  of [safety_consts_ok] a record with
    s_factor_m = 0 made the product bound vacuous and [byte_length] faulted on "1".  The conjunct was added to Consts.v. *)
Print Assumptions byte_length_safe.
Print Assumptions strip_prefix_safe.
Print Assumptions facility_name_safe.
Print Assumptions level_name_safe.
Print Assumptions to_upper_safe.
Print Assumptions syslog_value_safe.
Print Assumptions output_split_safe.
Print Assumptions getboolean_safe.
