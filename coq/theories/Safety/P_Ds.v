(** Safety of the data-source models of Safety/Ds.v: every data source leaves its result
    buffer NUL-terminated within the size it was given, for all inputs and all sizes. *)
From Snoopy Require Import Lib.CStr Safety.Mem Safety.CLib Safety.Consts Safety.Ds Safety.Lits Datasource.Cmdline.
From Coq Require Import ZifyBool ZifyN ZifyNat.
Local Open Scope N_scope.

(** * generic helpers (no constants involved) *)

Lemma cstr_zeroed n : 1 <= n -> cstr (zeroed n) 0 = Ok [].
Proof.
  intros H. apply cstr_holds. split; [intros []|]. rewrite len_nil. split; [intros k Hk; lia|].
  apply at_zeroed. lia.
Qed.

(** snprintf into a buffer of unknown contents *)
Lemma snprintf0_ok a size text : 1 <= size -> size <= cap a -> nonul text ->
  exists a', c_snprintf a 0 size text = Ok (a', len text) /\ cap a' = cap a /\ cstr a' 0 = Ok (takeN (size - 1) text).
Proof.
  intros Hs Hc Hn. destruct (c_snprintf_ok a 0 size text Hs ltac:(lia)) as [a' E]. exists a'. split; [exact E|].
  destruct (c_snprintf_spec _ _ _ _ _ _ E Hs Hn) as [_ [S C]]. split; assumption.
Qed.

(** snprintf at the terminator appends *)
Lemma snprintf_append a s n item : cstr a 0 = Ok s -> 1 <= n -> len s + N.min n (len item + 1) <= cap a -> nonul item ->
  exists a', c_snprintf a (len s) n item = Ok (a', len item) /\ cap a' = cap a /\ cstr a' 0 = Ok (s ++ takeN (n - 1) item).
Proof.
  intros Hs Hn Hb Hi. destruct (c_snprintf_ok a (len s) n item Hn Hb) as [a' E]. exists a'. split; [exact E|].
  unfold c_snprintf in E. destruct (N.eqb_spec n 0); [lia|]. rewrite takeS_eq in E.
  destruct (wrs a (len s) (takeN (n - 1) item ++ [NUL])) as [a1|] eqn:W; cbn [bind] in E; [|discriminate].
  injection E as <-. split; [now apply cap_wrs in W|].
  eapply cstr_wrs_append; [exact Hs| |now apply nonul_takeN]. rewrite N.add_0_l. exact W.
Qed.

(** snprintf beyond the terminator leaves the string alone *)
Lemma snprintf_beyond a s off n item : cstr a 0 = Ok s -> len s < off -> 1 <= n -> off + N.min n (len item + 1) <= cap a ->
  exists a', c_snprintf a off n item = Ok (a', len item) /\ cap a' = cap a /\ cstr a' 0 = Ok s.
Proof.
  intros Hs Ho Hn Hb. destruct (c_snprintf_ok a off n item Hn Hb) as [a' E]. exists a'. split; [exact E|].
  unfold c_snprintf in E. destruct (N.eqb_spec n 0); [lia|].
  destruct (wrs a off (takeS (n - 1) item ++ [NUL])) as [a1|] eqn:W; cbn [bind] in E; [|discriminate].
  injection E as <-. split; [now apply cap_wrs in W|].
  eapply cstr_wrs_frame; [exact Hs|exact W|]. left. lia.
Qed.

(** a NUL written on or behind the terminator keeps the string *)
Lemma wr_nul_keep a w i : cstr a 0 = Ok w -> len w <= i -> i < cap a ->
  exists a', wr a i NUL = Ok a' /\ cap a' = cap a /\ cstr a' 0 = Ok w.
Proof.
  intros Hw Hi Hc. destruct (N.eq_dec i (len w)) as [->|Hne].
  - destruct (cstr_wr_nul a 0 w (len w) Hw ltac:(lia)) as [a' [E [C [K _]]]]. exists a'.
    split; [exact E|]. split; [exact K|]. rewrite C. f_equal. apply takeN_all. lia.
  - destruct (wrs_ok a i [NUL]) as [a' E]; [cbn; lia|]. exists a'. unfold wr. split; [exact E|].
    split; [now apply cap_wrs in E|]. eapply cstr_wrs_frame; [exact Hw|exact E|]. left. lia.
Qed.

(** resultBuf[n] = b; resultBuf[n+1] = 0  at the terminator *)
Lemma wr_byte_nul_append a s b : cstr a 0 = Ok s -> b <> NUL -> len s + 2 <= cap a ->
  exists a1 a2, wr a (len s) b = Ok a1 /\ wr a1 (len s + 1) NUL = Ok a2 /\ cap a2 = cap a /\ cstr a2 0 = Ok (s ++ [b]).
Proof.
  intros Hs Hb Hc. unfold wr.
  destruct (wrs_ok a (len s) [b]) as [a1 E1]; [cbn; lia|]. pose proof (cap_wrs _ _ _ _ E1) as C1.
  destruct (wrs_ok a1 (len s + 1) [NUL]) as [a2 E2]; [cbn; lia|]. pose proof (cap_wrs _ _ _ _ E2) as C2.
  exists a1, a2. split; [exact E1|]. split; [exact E2|]. split; [lia|].
  apply cstr_holds in Hs as [Hn [H1 H2]]. apply cstr_holds. split.
  { apply nonul_app. split; [exact Hn|]. intros [F|[]]. congruence. }
  rewrite len_app. change (len [b]) with 1. split.
  - intros k Hk. destruct (N.lt_ge_cases k (len s)).
    + rewrite (at_wrs_out _ _ _ _ _ E2) by (cbn; lia). rewrite (at_wrs_out _ _ _ _ _ E1) by (cbn; lia).
      rewrite nthN_app_l by lia. now apply H1.
    + rewrite (at_wrs_out _ _ _ _ _ E2) by (cbn; lia). rewrite (at_wrs_in _ _ _ _ _ E1) by (cbn; lia).
      rewrite nthN_app_r by lia. replace (0 + k - len s) with 0 by lia. replace (k - len s) with 0 by lia. reflexivity.
  - rewrite (at_wrs_in _ _ _ _ _ E2) by (cbn; lia). replace (0 + (len s + 1) - (len s + 1)) with 0 by lia. reflexivity.
Qed.

Lemma nonul_lit_hostname_err : nonul lit_hostname_err.  Proof. apply nonulb_spec. reflexivity. Qed.
Lemma nonul_lit_rparen : nonul lit_rparen.              Proof. apply nonulb_spec. reflexivity. Qed.
Lemma nonul_lit_strftime_err : nonul lit_strftime_err.  Proof. apply nonulb_spec. reflexivity. Qed.

Section P_Ds.
  Variable c : safety_consts.
  Hypothesis Hok : safety_consts_ok c = true.
  Variable cc : cmdline_consts.
  Hypothesis Hsep : nonul (sep cc).
  Hypothesis Hunk : nonul (unknown cc).

  (** the facts of [safety_consts_ok] used here *)
  Lemma ok_ds :
    s_env_null_guard c = true /\ s_env_trunc_sub c + 1 <= s_env_whole_slack c /\ 2 <= s_env_comma_min c /\
    N.min (s_env_dots_size c) (len (s_env_dots c) + 1) <= s_env_trunc_sub c + 1 /\ 1 <= s_env_dots_size c /\
    nonul (s_env_dots c) /\
    s_login_with_nul c <= s_login_cap c /\ s_login_without_nul c < s_login_cap c /\
    len (s_login_unknown c) < s_login_cap c /\ nonul (s_login_unknown c) /\
    s_dt_size c <= s_dt_cap c.
  Proof.
    pose proof Hok as H. unfold safety_consts_ok in H. repeat (apply andb_true_iff in H as [H ?]).
    repeat match goal with
    | X : (_ <=? _) = true |- _ => apply N.leb_le in X
    | X : (_ <? _) = true |- _ => apply N.ltb_lt in X
    | X : nonulb _ = true |- _ => apply nonulb_spec in X
    end.
    repeat match goal with |- _ /\ _ => split end; assumption.
  Qed.

  Lemma ok_env_guard : s_env_null_guard c = true.  Proof. apply ok_ds. Qed.
  Lemma ok_env_slack : s_env_trunc_sub c + 1 <= s_env_whole_slack c.  Proof. apply ok_ds. Qed.
  Lemma ok_env_comma : 2 <= s_env_comma_min c.  Proof. apply ok_ds. Qed.
  Lemma ok_env_dots : N.min (s_env_dots_size c) (len (s_env_dots c) + 1) <= s_env_trunc_sub c + 1.  Proof. apply ok_ds. Qed.
  Lemma ok_env_dots_size : 1 <= s_env_dots_size c.  Proof. apply ok_ds. Qed.
  Lemma ok_env_dots_nonul : nonul (s_env_dots c).  Proof. apply ok_ds. Qed.
  Lemma ok_login_with : s_login_with_nul c <= s_login_cap c.  Proof. apply ok_ds. Qed.
  Lemma ok_login_without : s_login_without_nul c < s_login_cap c.  Proof. apply ok_ds. Qed.
  Lemma ok_login_unknown : len (s_login_unknown c) < s_login_cap c.  Proof. apply ok_ds. Qed.
  Lemma ok_login_unknown_nonul : nonul (s_login_unknown c).  Proof. apply ok_ds. Qed.
  Lemma ok_dt : s_dt_size c <= s_dt_cap c.  Proof. apply ok_ds. Qed.

  (** the contract every data source must meet (used by the message.c composition) *)
  Definition ds_result_ok (a : arr) (size : N) (r : res (arr * N)) : Prop :=
    exists a' n s, r = Ok (a', n) /\ cap a' = cap a /\ cstr a' 0 = Ok s /\ len s < size.

  Lemma snprintf0_result a0 a size text : 1 <= size -> size <= cap a -> cap a = cap a0 -> nonul text ->
    ds_result_ok a0 size (c_snprintf a 0 size text).
  Proof.
    intros Hs Hc Ha Hn. destruct (snprintf0_ok a size text Hs Hc Hn) as [a' [E [C S]]].
    exists a', (len text), (takeN (size - 1) text). split; [exact E|]. split; [lia|]. split; [exact S|].
    rewrite len_takeN. lia.
  Qed.

  Theorem ds_snprintf_safe : forall a size text, 1 <= size -> size <= cap a -> nonul text ->
    ds_result_ok a size (ds_snprintf a size text).
  Proof. intros a size text Hs Hc Hn. unfold ds_snprintf. now apply snprintf0_result. Qed.

  (** * hostname.c *)
  Theorem hostname_safe : forall a size host etxt, 1 <= size -> size <= cap a -> nonul host -> nonul etxt ->
    ds_result_ok a size (hostname_buf a size host etxt).
  Proof.
    intros a size host etxt Hs Hc Hh He. unfold hostname_buf.
    destruct (N.leb_spec (len host + 1) size) as [Hfit|Hbig].
    - destruct (wrs_ok a 0 (host ++ [NUL])) as [a1 E1]; [rewrite len_app; cbn; lia|]. rewrite E1. cbn [bind].
      pose proof (cap_wrs _ _ _ _ E1) as C1. pose proof (cstr_wrs_here _ _ _ _ _ E1 Hh) as S1.
      rewrite sub64_le by lia.
      destruct (wr_nul_keep a1 host (size - 1) S1 ltac:(lia) ltac:(lia)) as [a2 [E2 [C2 S2]]]. rewrite E2. cbn [bind].
      unfold c_strlen. rewrite S2. cbn [bind].
      exists a2, (len host), host. split; [reflexivity|]. split; [lia|]. split; [exact S2|lia].
    - destruct (wrs_ok a 0 (takeS size host)) as [a1 E1]; [rewrite takeS_eq, len_takeN; lia|]. rewrite E1. cbn [bind].
      pose proof (cap_wrs _ _ _ _ E1) as C1. apply snprintf0_result; [lia|lia|lia|].
      apply nonul_app. split; [exact nonul_lit_hostname_err|]. apply nonul_app. split; [exact He|exact nonul_lit_rparen].
  Qed.

  (** * datetime.c *)
  Theorem datetime_safe : forall a size formatted, 1 <= size -> size <= cap a -> nonul formatted ->
    ds_result_ok a size (datetime_buf c a size formatted).
  Proof.
    intros a size f Hs Hc Hf. unfold datetime_buf. pose proof ok_dt as Hdt.
    destruct (N.leb_spec (len f + 1) (s_dt_size c)) as [Hfit|Hbig]; cbn [andb].
    - destruct (N.eqb_spec (len f) 0); cbn [negb].
      + apply snprintf0_result; [lia|lia|reflexivity|exact nonul_lit_strftime_err].
      + destruct (wrs_ok (fresh (s_dt_cap c)) 0 (f ++ [NUL])) as [tb E]; [rewrite cap_fresh, len_app; cbn; lia|].
        rewrite E. cbn [bind]. rewrite (cstr_wrs_here _ _ _ _ _ E Hf). cbn [bind].
        apply snprintf0_result; [lia|lia|reflexivity|exact Hf].
    - apply snprintf0_result; [lia|lia|reflexivity|exact nonul_lit_strftime_err].
  Qed.

  (** * login.c *)
  Lemma strncpy_zeroed_fits n m p l : n < m -> nonul p -> len p <= n ->
    c_strncpy (zeroed m) 0 p n = Ok l -> cstr l 0 = Ok p.
  Proof.
    intros Hn Hp Hl E. unfold c_strncpy in E. rewrite cap_zeroed in E.
    destruct (N.leb_spec (0 + n) m); [|lia]. rewrite takeS_eq, takeN_all in E by lia.
    assert (L : len (p ++ zeros (n - len p)) = n) by (rewrite len_app, len_zeros; lia).
    apply cstr_holds. split; [exact Hp|]. split.
    - intros k Hk. rewrite (at_wrs_in _ _ _ _ _ E) by lia. replace (0 + k - 0) with k by lia. now rewrite nthN_app_l.
    - destruct (N.eq_dec (len p) n) as [Heq|Hne].
      + rewrite (at_wrs_out _ _ _ _ _ E) by lia. apply at_zeroed. lia.
      + rewrite (at_wrs_in _ _ _ _ _ E) by lia. rewrite nthN_app_r by lia. now rewrite nthN_zeros.
  Qed.

  Theorem login_safe : forall a size gl su ln, 1 <= size -> size <= cap a ->
    (forall x, gl = Some x -> nonul x) -> (forall x, su = Some x -> nonul x) -> (forall x, ln = Some x -> nonul x) ->
    ds_result_ok a size (login_buf c a size gl su ln).
  Proof.
    intros a size gl su ln Hs Hc Hgl Hsu Hln. unfold login_buf.
    pose proof ok_login_with as Hw. pose proof ok_login_without as Hwo.
    pose proof ok_login_unknown as Hu. pose proof ok_login_unknown_nonul as Hun.
    (* the fallback path, starting from the zero-initialised array *)
    assert (Fallback : exists l2 s,
      (match (match su with Some u => Some u | None => ln end) with
       | None => c_store (zeroed (s_login_cap c)) 0 (s_login_unknown c)
       | Some p => l <- c_strncpy (zeroed (s_login_cap c)) 0 p (s_login_without_nul c) ;;
                   if s_login_without_nul c <? len p then wr l (s_login_without_nul c) NUL else Ok l
       end) = Ok l2 /\ cstr l2 0 = Ok s).
    { assert (Hp : forall p, (match su with Some u => Some u | None => ln end) = Some p -> nonul p).
      { intros p E. destruct su as [u|]; [injection E as <-; now apply Hsu|now apply Hln]. }
      destruct (match su with Some u => Some u | None => ln end) as [p|].
      - specialize (Hp p eq_refl).
        destruct (c_strncpy (zeroed (s_login_cap c)) 0 p (s_login_without_nul c)) as [l|] eqn:E.
        2:{ unfold c_strncpy in E. rewrite cap_zeroed in E. destruct (N.leb_spec (0 + s_login_without_nul c) (s_login_cap c)); [|lia].
            destruct (wrs_ok (zeroed (s_login_cap c)) 0 (takeS (s_login_without_nul c) p ++ zeros (s_login_without_nul c - len p))) as [l E'].
            { rewrite cap_zeroed, len_app, takeS_eq, len_takeN, len_zeros. lia. }
            congruence. }
        cbn [bind]. destruct (N.ltb_spec (s_login_without_nul c) (len p)) as [Hlong|Hshort].
        + assert (Cl : cap l = s_login_cap c).
          { unfold c_strncpy in E. destruct (_ <=? _); [|discriminate]. apply cap_wrs in E. now rewrite cap_zeroed in E. }
          destruct (wrs_ok l (s_login_without_nul c) [NUL]) as [l2 E2]; [cbn; lia|].
          exists l2, (takeN (s_login_without_nul c) p). split; [exact E2|].
          apply (cstr_strncpy_term _ 0 p (s_login_without_nul c) l l2 E); [|exact Hp]. rewrite N.add_0_l. exact E2.
        + exists l, p. split; [reflexivity|].
          exact (strncpy_zeroed_fits (s_login_without_nul c) (s_login_cap c) p l Hwo Hp Hshort E).
      - unfold c_store. destruct (wrs_ok (zeroed (s_login_cap c)) 0 (s_login_unknown c ++ [NUL])) as [l2 E].
        { rewrite cap_zeroed, len_app. cbn. lia. }
        exists l2, (s_login_unknown c). split; [exact E|]. eapply cstr_wrs_here; eauto. }
    destruct Fallback as [l2 [s [EF SF]]].
    destruct gl as [name|].
    - destruct (N.leb_spec (len name + 1) (s_login_with_nul c)) as [Hfit|Hbig]; cbn [negb].
      + destruct (wrs_ok (zeroed (s_login_cap c)) 0 (name ++ [NUL])) as [l1 E1]; [rewrite cap_zeroed, len_app; cbn; lia|].
        rewrite E1. cbn [bind]. rewrite (cstr_wrs_here _ _ _ _ _ E1 (Hgl name eq_refl)). cbn [bind].
        apply snprintf0_result; [lia|lia|reflexivity|now apply Hgl].
      + cbn [bind]. rewrite EF. cbn [bind]. rewrite SF. cbn [bind].
        apply snprintf0_result; [lia|lia|reflexivity|now apply cstr_nonul in SF].
    - cbn [bind]. rewrite EF. cbn [bind]. rewrite SF. cbn [bind].
      apply snprintf0_result; [lia|lia|reflexivity|now apply cstr_nonul in SF].
  Qed.

  (** * env_all.c *)
  (** the two halves of one loop iteration, transcribed from [env_loop] ([env_loop_cons] checks the transcription) *)
  Definition env_comma (a : arr) (size rs : N) (first : bool) : res (arr * N * N) :=
    let rem0 := sub64 size rs in
    if negb first && (s_env_comma_min c <=? rem0) then
      a1 <- wr a rs COMMA ;; a2 <- wr a1 (rs + 1) NUL ;; Ok (a2, rs + 1, rem0 - 1)
    else Ok (a, rs, rem0).
  Definition env_tail (a1 : arr) (size rs1 rem : N) (item : list byte) (items' : list (list byte)) : res (arr * N) :=
    if len item + s_env_whole_slack c <? rem then
      r <- c_snprintf a1 rs1 rem item ;;
      env_loop c (fst r) size (rs1 + snd r) false items'
    else
      let n1 := sub64 rem (s_env_trunc_sub c) in
      r <- c_snprintf a1 rs1 n1 item ;;
      if n1 =? 0 then Fault OOB_write else
      let rs2 := rs1 + (n1 - 1) in
      r' <- c_snprintf (fst r) rs2 (s_env_dots_size c) (s_env_dots c) ;;
      Ok (fst r', rs2 + (s_env_dots_size c - 1)).
  Lemma env_loop_cons a size rs first item items :
    env_loop c a size rs first (item :: items) =
    (r1 <- env_comma a size rs first ;; let '(a1, rs1, rem) := r1 in env_tail a1 size rs1 rem item items).
  Proof. reflexivity. Qed.

  (** loop-head invariant: the buffer holds a string of [rs] bytes, [rs < size], and
      first iteration: at least [trunc_sub + 1] bytes remain; later: more than [whole_slack] bytes remain *)
  Definition env_inv (a : arr) (size rs : N) (first : bool) (s : list byte) : Prop :=
    cstr a 0 = Ok s /\ len s = rs /\ rs < size /\ size <= cap a /\
    ((first = true /\ s_env_trunc_sub c + 1 <= size - rs) \/ (first = false /\ s_env_whole_slack c < size - rs)).

  Lemma env_comma_ok a size rs first s : env_inv a size rs first s ->
    exists a1 rs1 s1, env_comma a size rs first = Ok (a1, rs1, size - rs1) /\ cap a1 = cap a /\
      cstr a1 0 = Ok s1 /\ len s1 = rs1 /\ s_env_trunc_sub c + 1 <= size - rs1.
  Proof.
    intros (Hs & Hl & Hrs & Hsz & Hf). unfold env_comma. rewrite sub64_le by lia.
    pose proof ok_env_slack as Hsl. pose proof ok_env_comma as Hcm.
    destruct Hf as [[-> Hrem]|[-> Hrem]]; cbn [negb andb].
    - exists a, rs, s. repeat split; auto.
    - destruct (N.leb_spec (s_env_comma_min c) (size - rs)) as [Hc|Hc].
      + subst rs. destruct (wr_byte_nul_append a s COMMA Hs ltac:(discriminate) ltac:(lia)) as [a1 [a2 [E1 [E2 [C2 S2]]]]].
        rewrite E1. cbn [bind]. rewrite E2. cbn [bind].
        exists a2, (len s + 1), (s ++ [COMMA]). replace (size - (len s + 1)) with (size - len s - 1) by lia.
        split; [reflexivity|]. split; [exact C2|]. split; [exact S2|]. split; [rewrite len_app; reflexivity|lia].
      + exists a, rs, s. repeat split; auto. lia.
  Qed.

  (** a whole copy *)
  Lemma env_whole_ok a1 size s1 item : cstr a1 0 = Ok s1 -> size <= cap a1 -> nonul item ->
    len item + s_env_whole_slack c < size - len s1 ->
    exists a2, c_snprintf a1 (len s1) (size - len s1) item = Ok (a2, len item) /\ cap a2 = cap a1 /\
      env_inv a2 size (len s1 + len item) false (s1 ++ item).
  Proof.
    intros Hs Hsz Hi Hw.
    destruct (snprintf_append a1 s1 (size - len s1) item Hs ltac:(lia) ltac:(lia) Hi) as [a2 [E [C S]]].
    exists a2. split; [exact E|]. split; [exact C|]. rewrite takeN_all in S by lia.
    split; [exact S|]. split; [apply len_app|]. split; [lia|]. split; [lia|]. right. split; [reflexivity|lia].
  Qed.

  (** the documented invariant of env_all.c: one loop iteration that copies an item whole takes a loop-head
      state satisfying [env_inv] to a loop-head state in which more than [s_env_whole_slack] bytes remain *)
  Theorem env_whole_copy_keeps_slack : forall a size rs first s item items, env_inv a size rs first s -> nonul item ->
    exists a1 rs1 s1, env_comma a size rs first = Ok (a1, rs1, size - rs1) /\ len s1 = rs1 /\
      (len item + s_env_whole_slack c < size - rs1 ->
       exists a2, env_loop c a size rs first (item :: items) = env_loop c a2 size (rs1 + len item) false items /\
                  cap a2 = cap a /\ env_inv a2 size (rs1 + len item) false (s1 ++ item) /\
                  s_env_whole_slack c < size - (rs1 + len item)).
  Proof.
    intros a size rs first s item items Hinv Hi. pose proof Hinv as (_ & _ & _ & Hsz & _).
    destruct (env_comma_ok a size rs first s Hinv) as [a1 [rs1 [s1 [E1 [C1 [S1 [L1 R1]]]]]]].
    exists a1, rs1, s1. split; [exact E1|]. split; [exact L1|]. intros Hw. subst rs1.
    destruct (env_whole_ok a1 size s1 item S1 ltac:(lia) Hi Hw) as [a2 [E2 [C2 I2]]].
    exists a2. rewrite env_loop_cons, E1. cbn [bind]. unfold env_tail.
    destruct (N.ltb_spec (len item + s_env_whole_slack c) (size - len s1)); [|lia].
    rewrite E2. cbn [bind fst snd]. split; [reflexivity|]. split; [lia|]. split; [exact I2|]. lia.
  Qed.

  (** the truncated copy followed by the "..." marker *)
  Lemma env_trunc_ok a1 size s1 item : cstr a1 0 = Ok s1 -> size <= cap a1 -> nonul item ->
    s_env_trunc_sub c + 1 <= size - len s1 ->
    exists a2 a3 s3,
      c_snprintf a1 (len s1) (size - len s1 - s_env_trunc_sub c) item = Ok (a2, len item) /\
      c_snprintf a2 (len s1 + (size - len s1 - s_env_trunc_sub c - 1)) (s_env_dots_size c) (s_env_dots c) = Ok (a3, len (s_env_dots c)) /\
      cap a3 = cap a1 /\ cstr a3 0 = Ok s3 /\ len s3 < size.
  Proof.
    intros Hs Hsz Hi Hrem. pose proof ok_env_dots as Hd. pose proof ok_env_dots_size as Hds. pose proof ok_env_dots_nonul as Hdn.
    set (n1 := size - len s1 - s_env_trunc_sub c).
    destruct (snprintf_append a1 s1 n1 item Hs ltac:(lia) ltac:(lia) Hi) as [a2 [E2 [C2 S2]]].
    exists a2. set (s2 := s1 ++ takeN (n1 - 1) item) in *.
    assert (L2 : len s2 = len s1 + N.min (n1 - 1) (len item)) by (unfold s2; now rewrite len_app, len_takeN).
    destruct (N.lt_ge_cases (len item) (n1 - 1)) as [Hshort|Hlong].
    - (* the item is shorter than the truncation length: the marker lands behind the terminator *)
      destruct (snprintf_beyond a2 s2 (len s1 + (n1 - 1)) (s_env_dots_size c) (s_env_dots c) S2 ltac:(lia) Hds ltac:(lia))
        as [a3 [E3 [C3 S3]]].
      exists a3, s2. split; [exact E2|]. split; [exact E3|]. split; [lia|]. split; [exact S3|lia].
    - (* the marker overwrites the terminator of the truncated copy *)
      assert (L2' : len s2 = len s1 + (n1 - 1)) by lia.
      destruct (snprintf_append a2 s2 (s_env_dots_size c) (s_env_dots c) S2 Hds ltac:(lia) Hdn) as [a3 [E3 [C3 S3]]].
      rewrite L2' in E3.
      exists a3, (s2 ++ takeN (s_env_dots_size c - 1) (s_env_dots c)).
      split; [exact E2|]. split; [exact E3|]. split; [lia|]. split; [exact S3|]. rewrite len_app, len_takeN. lia.
  Qed.

  Lemma env_loop_ok : forall items a size rs first s, Forall nonul items -> env_inv a size rs first s ->
    exists a' n s', env_loop c a size rs first items = Ok (a', n) /\ cap a' = cap a /\ cstr a' 0 = Ok s' /\ len s' < size.
  Proof.
    induction items as [|item items IH]; intros a size rs first s Hnn Hinv.
    - destruct Hinv as (Hs & Hl & Hrs & _). cbn [env_loop]. exists a, rs, s. repeat split; auto. lia.
    - inversion Hnn as [|? ? Hi Hitems]; subst. pose proof Hinv as (_ & _ & _ & Hsz & _).
      destruct (env_comma_ok a size rs first s Hinv) as [a1 [rs1 [s1 [E1 [C1 [S1 [L1 R1]]]]]]]. subst rs1.
      rewrite env_loop_cons, E1. cbn [bind]. unfold env_tail.
      destruct (N.ltb_spec (len item + s_env_whole_slack c) (size - len s1)) as [Hw|Ht].
      + destruct (env_whole_ok a1 size s1 item S1 ltac:(lia) Hi Hw) as [a2 [E2 [C2 I2]]].
        rewrite E2. cbn [bind fst snd].
        destruct (IH a2 size _ false _ Hitems I2) as [a' [n [s' [E' [C' [S' L']]]]]].
        exists a', n, s'. split; [exact E'|]. split; [lia|]. split; assumption.
      + rewrite sub64_le by lia.
        destruct (env_trunc_ok a1 size s1 item S1 ltac:(lia) Hi R1) as [a2 [a3 [s3 [E2 [E3 [C3 [S3 L3]]]]]]].
        rewrite E2. cbn [bind fst snd]. destruct (N.eqb_spec (size - len s1 - s_env_trunc_sub c) 0); [lia|].
        rewrite E3. cbn [bind fst snd]. eexists a3, _, s3. split; [reflexivity|]. split; [lia|]. split; assumption.
  Qed.

  Theorem env_all_safe : forall a size environ, s_env_trunc_sub c + 1 <= size -> size <= cap a ->
    (forall l, environ = Some l -> Forall nonul l) -> ds_result_ok a size (env_all_buf c a size environ).
  Proof.
    intros a size environ Hs Hc Hnn. unfold env_all_buf.
    destruct (wrs_ok a 0 [NUL]) as [a0 E0]; [cbn; lia|]. unfold wr at 1. rewrite E0. cbn [bind].
    pose proof (cap_wrs _ _ _ _ E0) as C0.
    assert (S0 : cstr a0 0 = Ok []) by (apply (cstr_wrs_here a 0 [] [] a0 E0); intros []).
    destruct environ as [items|].
    - assert (I0 : env_inv a0 size 0 true []).
      { split; [exact S0|]. split; [reflexivity|]. split; [lia|]. split; [lia|]. left. split; [reflexivity|lia]. }
      destruct (env_loop_ok items a0 size 0 true [] (Hnn items eq_refl) I0) as [a' [n [s' [E' [C' [S' L']]]]]].
      exists a', n, s'. split; [exact E'|]. split; [lia|]. split; assumption.
    - rewrite ok_env_guard. exists a0, 0, []. split; [reflexivity|]. split; [exact C0|]. split; [exact S0|]. rewrite len_nil. lia.
  Qed.

  (** * cmdline.c *)
  (** [if (bytes < size) bytes += snprintf(buf + bytes, size - bytes, "%s", x);] *)
  Definition cm_step (a : arr) (size b : N) (x : list byte) : res (arr * N) :=
    if b <? size then r <- c_snprintf a b (size - b) x ;; Ok (fst r, b + snd r) else Ok (a, b).
  Lemma cmdline_loop_true a size b x args :
    cmdline_loop cc a size b true (x :: args) =
    (r2 <- cm_step a size b x ;; cmdline_loop cc (fst r2) size (snd r2) false args).
  Proof. reflexivity. Qed.
  Lemma cmdline_loop_false a size b x args :
    cmdline_loop cc a size b false (x :: args) =
    (r1 <- cm_step a size b (sep cc) ;; let '(a1, b1) := r1 in
     r2 <- cm_step a1 size b1 x ;; cmdline_loop cc (fst r2) size (snd r2) false args).
  Proof. reflexivity. Qed.

  (** the buffer holds the bytes of the functional model's state; while [bytes < size] the terminator is at [bytes] *)
  Definition CInv (a : arr) (size : N) (st : list byte * N) : Prop :=
    cstr a 0 = Ok (fst st) /\ len (fst st) < size /\ (snd st < size -> len (fst st) = snd st).

  Lemma cm_step_ok a size st x : size <= cap a -> nonul x -> CInv a size st ->
    exists a', cm_step a size (snd st) x = Ok (a', snd (snprintf_at size st x)) /\ cap a' = cap a /\
               CInv a' size (snprintf_at size st x).
  Proof.
    destruct st as [w b]. unfold CInv, cm_step, snprintf_at. cbn [fst snd]. intros Hsz Hx [Hw [Hl Hb]].
    destruct (N.ltb_spec b size) as [Hlt|Hge].
    - specialize (Hb Hlt). subst b.
      destruct (snprintf_append a w (size - len w) x Hw ltac:(lia) ltac:(lia) Hx) as [a' [E [C S]]].
      rewrite E. cbn [bind fst snd]. exists a'. split; [reflexivity|]. split; [exact C|]. split; [exact S|].
      rewrite len_app, len_takeN. split; lia.
    - exists a. cbn [fst snd]. split; [reflexivity|]. split; [reflexivity|]. split; [exact Hw|]. split; [exact Hl|lia].
  Qed.

  Lemma cmdline_loop_ok : forall args a size st, size <= cap a -> Forall nonul args -> CInv a size st ->
    exists a', cmdline_loop cc a size (snd st) false args = Ok (a', snd (rest cc size st args)) /\ cap a' = cap a /\
               CInv a' size (rest cc size st args).
  Proof.
    induction args as [|x args IH]; intros a size st Hsz Hnn Hinv.
    - cbn [cmdline_loop rest]. exists a. split; [reflexivity|]. split; [reflexivity|exact Hinv].
    - inversion Hnn as [|? ? Hx Hargs]; subst. rewrite cmdline_loop_false.
      destruct (cm_step_ok a size st (sep cc) Hsz Hsep Hinv) as [a1 [E1 [C1 I1]]]. rewrite E1. cbn [bind].
      destruct (cm_step_ok a1 size _ x ltac:(lia) Hx I1) as [a2 [E2 [C2 I2]]]. rewrite E2. cbn [bind fst snd].
      destruct (IH a2 size _ ltac:(lia) Hargs I2) as [a3 [E3 [C3 I3]]]. cbn [rest].
      exists a3. split; [exact E3|]. split; [lia|exact I3].
  Qed.

  (** cmdline.c: buffer-level run = the functional model of Datasource/Cmdline.v, all sizes >= 1 *)
  Theorem cmdline_buf_safe : forall a size file argv, 1 <= size -> size <= cap a ->
    (forall f, file = Some f -> nonul f) -> (forall l, argv = Some l -> Forall nonul l) ->
    exists a' n, cmdline_buf cc a size file argv = Ok (a', n) /\ cap a' = cap a /\
                 cstr a' 0 = Ok (cmdline cc file argv size) /\ len (cmdline cc file argv size) < size.
  Proof.
    intros a size file argv Hs Hc Hf Hargv.
    assert (Hfit : len (cmdline cc file argv size) < size) by (apply cmdline_fits; lia).
    unfold cmdline_buf. destruct (N.eqb_spec size 0); [lia|].
    assert (Fallback : exists a' n,
      match file with None => c_snprintf a 0 size (unknown cc) | Some f => c_snprintf a 0 size f end = Ok (a', n) /\
      cap a' = cap a /\
      cstr a' 0 = Ok (match file with None => snprintf_s size (unknown cc) | Some f => snprintf_s size f end)).
    { destruct file as [f|].
      - destruct (snprintf0_ok a size f Hs Hc (Hf f eq_refl)) as [a' [E [C S]]]. exists a', (len f). auto.
      - destruct (snprintf0_ok a size (unknown cc) Hs Hc Hunk) as [a' [E [C S]]]. exists a', (len (unknown cc)). auto. }
    destruct argv as [[|a0 args]|].
    - destruct Fallback as [a' [n' [E [C S]]]]. exists a', n'. repeat split; assumption.
    - clear Fallback. specialize (Hargv _ eq_refl). inversion Hargv as [|? ? Ha0 Hargs]; subst.
      rewrite cmdline_loop_true.
      (* the first print goes into a buffer of unknown contents *)
      assert (First : exists a1, cm_step a size 0 a0 = Ok (a1, snd (snprintf_at size ([], 0) a0)) /\ cap a1 = cap a /\
                                 CInv a1 size (snprintf_at size ([], 0) a0)).
      { unfold cm_step, snprintf_at, CInv. destruct (N.ltb_spec 0 size); [|lia].
        destruct (snprintf0_ok a (size - 0) a0 ltac:(lia) ltac:(lia) Ha0) as [a1 [E [C S]]].
        rewrite E. cbn [bind fst snd app]. exists a1. split; [reflexivity|]. split; [exact C|]. split; [exact S|].
        rewrite len_takeN. split; lia. }
      destruct First as [a1 [E1 [C1 I1]]]. rewrite E1. cbn [bind fst snd].
      destruct (cmdline_loop_ok args a1 size _ ltac:(lia) Hargs I1) as [a2 [E2 [C2 I2]]]. rewrite E2. cbn [bind].
      change (cmdline cc file (Some (a0 :: args)) size) with (fst (rest cc size (snprintf_at size ([], 0) a0) args)) in *.
      destruct I2 as [S2 [L2 B2]].
      set (st := rest cc size (snprintf_at size ([], 0) a0) args) in *.
      destruct (N.ltb_spec (snd st) size) as [Hlt|Hge].
      + destruct (wr_nul_keep a2 (fst st) (snd st) S2 ltac:(lia) ltac:(lia)) as [a3 [E3 [C3 S3]]].
        rewrite E3. cbn [bind]. exists a3, (snd st). split; [reflexivity|]. split; [lia|]. split; assumption.
      + destruct (wr_nul_keep a2 (fst st) (size - 1) S2 ltac:(lia) ltac:(lia)) as [a3 [E3 [C3 S3]]].
        rewrite E3. cbn [bind]. exists a3, (snd st). split; [reflexivity|]. split; [lia|]. split; assumption.
    - destruct Fallback as [a' [n' [E [C S]]]]. exists a', n'. repeat split; assumption.
  Qed.

End P_Ds.

Print Assumptions cmdline_buf_safe.
Print Assumptions ds_snprintf_safe.
Print Assumptions env_whole_copy_keeps_slack.
Print Assumptions env_all_safe.
Print Assumptions hostname_safe.
Print Assumptions datetime_safe.
Print Assumptions login_safe.
