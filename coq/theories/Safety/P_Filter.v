(** Safety of the filter models (Safety/Filter.v): filtering.c check_chain, util/parser.c csvToArgList with
    only_uid/exclude_uid, and filter/exclude_spawns_of.c.  Stdlib only, no axioms. *)
From Snoopy Require Import Lib.CStr Safety.Mem Safety.CLib Safety.Consts Safety.Lits Safety.Filter.
From Coq Require Import ZifyBool ZifyN ZifyNat.
Local Open Scope N_scope.

(** * generic helpers *)
Lemma dropN_all k (d : list byte) : len d <= k -> dropN k d = [].
Proof. unfold len, dropN. intros H. apply skipn_all2. lia. Qed.

Lemma c_strncpy_ok a off src n : off + n <= cap a -> exists a', c_strncpy a off src n = Ok a' /\ cap a' = cap a.
Proof.
  intros H. unfold c_strncpy. destruct (N.leb_spec (off + n) (cap a)); [|lia].
  destruct (wrs_ok a off (takeS n src ++ zeros (n - len src))) as [a' E].
  { rewrite takeS_eq, len_app, len_takeN, len_zeros. lia. }
  exists a'. split; [exact E|]. now apply cap_wrs in E.
Qed.

Lemma wr_ok a i b : i < cap a -> exists a', wr a i b = Ok a' /\ cap a' = cap a.
Proof.
  intros H. destruct (wrs_ok a i [b]) as [a' E]; [cbn; lia|]. exists a'. split; [exact E|]. now apply cap_wrs in E.
Qed.

(** strtok_r on a well-formed string never faults *)
Lemma strtok_r_safe a s d delim : cstr a s = Ok d ->
  exists a' tok rest, strtok_r a s delim = Ok (a', tok, rest) /\ cap a' = cap a /\
    (forall p f, cstr a p = Ok f -> p + len f <= s -> cstr a' p = Ok f) /\
    match tok with
    | None => a' = a /\ rest = s + len d /\ cstr a' rest = Ok []
    | Some t => exists tk dr, cstr a' t = Ok tk /\ s <= t /\ t + len tk <= rest /\ cstr a' rest = Ok dr
                  /\ rest + len dr <= s + len d /\ len dr < len d /\ len tk <= len d
    end.
Proof.
  intros H. unfold strtok_r. rewrite H. cbn [bind].
  set (lead := span (beq delim) d). pose proof (span_le (beq delim) d) as Hl. fold lead in Hl.
  assert (Hend : cstr a (s + len d) = Ok []).
  { rewrite (cstr_suffix _ _ _ (len d) H) by lia. now rewrite dropN_all by lia. }
  destruct (dropN lead d) as [|b d1'] eqn:E1.
  - assert (lead = len d).
    { pose proof (len_dropN lead d) as L. rewrite E1 in L. cbn in L. lia. }
    exists a, None, (s + lead). split; [reflexivity|]. split; [reflexivity|]. split; [auto|].
    split; [reflexivity|]. rewrite H0. split; [reflexivity|exact Hend].
  - assert (L1 : len (b :: d1') = len d - lead) by (rewrite <- E1; apply len_dropN).
    assert (Hlt : lead < len d) by (rewrite len_cons in L1; lia).
    assert (Hb : beq delim b = false).
    { pose proof (span_lt_stop (beq delim) d Hlt) as Hs. fold lead in Hs.
      replace (nthN lead d) with (nthN 0 (dropN lead d)) in Hs by (rewrite nthN_dropN; f_equal; lia).
      rewrite E1 in Hs. exact Hs. }
    assert (Hd1 : cstr a (s + lead) = Ok (b :: d1')).
    { rewrite (cstr_suffix _ _ _ lead H) by lia. now rewrite E1. }
    set (tl := span (fun b0 => negb (beq delim b0)) (b :: d1')).
    assert (Htl : 1 <= tl <= len (b :: d1')).
    { split; [|apply span_le]. subst tl. cbn [span]. rewrite Hb. cbn [negb]. lia. }
    destruct (N.eqb_spec tl (len (b :: d1'))) as [Eq|Ne].
    + exists a, (Some (s + lead)), (s + lead + tl). split; [reflexivity|]. split; [reflexivity|]. split; [auto|].
      exists (b :: d1'), []. replace (s + lead + tl) with (s + len d) by lia.
      repeat split; try assumption; try (rewrite ?len_nil; lia).
    + destruct (cstr_wr_nul a (s + lead) (b :: d1') (s + lead + tl) Hd1 ltac:(lia)) as [a' [W [C1 [Cp C2]]]].
      rewrite W. cbn [bind]. exists a', (Some (s + lead)), (s + lead + tl + 1).
      split; [reflexivity|]. split; [exact Cp|]. split.
      { intros p f Hf Hp. unfold wr in W. eapply cstr_wrs_frame; eauto. lia. }
      destruct (N.ltb_spec (s + lead + tl) (s + lead + len (b :: d1'))); [|lia].
      eexists _, _. split; [exact C1|]. split; [lia|]. split; [rewrite len_takeN; lia|]. split; [exact C2|].
      rewrite len_dropN, len_takeN. lia.
Qed.


(** slot arrays: read after write *)
Lemma sl_get_set {A} (l : slots A) i v l' j : sl_set l i v = Ok l' -> sl_get l' j = if j =? i then Ok v else sl_get l j.
Proof.
  unfold sl_set. destruct (N.ltb_spec i (N.of_nat (length l))) as [Hi|]; [|discriminate]. intros E; injection E as <-.
  unfold sl_get.
  assert (L1 : length (firstn (N.to_nat i) l) = N.to_nat i) by (rewrite firstn_length; lia).
  destruct (N.eqb_spec j i) as [->|Hne].
  - rewrite nth_error_app2 by lia. rewrite L1, Nat.sub_diag. reflexivity.
  - destruct (N.lt_ge_cases j i).
    + rewrite nth_error_app1 by lia. rewrite nth_error_firstn_ by lia. reflexivity.
    + rewrite nth_error_app2 by lia. rewrite L1.
      replace (N.to_nat j - N.to_nat i)%nat with (S (N.to_nat j - N.to_nat i - 1)) by lia. cbn [nth_error].
      rewrite nth_error_skipn_. replace (N.to_nat i + 1 + (N.to_nat j - N.to_nat i - 1))%nat with (N.to_nat j) by lia. reflexivity.
Qed.
Lemma sl_get_set_same {A} (l : slots A) i v l' : sl_set l i v = Ok l' -> sl_get l' i = Ok v.
Proof. intros H. rewrite (sl_get_set _ _ _ _ i H). now rewrite N.eqb_refl. Qed.
Lemma sl_get_set_other {A} (l : slots A) i v l' j : sl_set l i v = Ok l' -> j <> i -> sl_get l' j = sl_get l j.
Proof. intros H Hne. rewrite (sl_get_set _ _ _ _ j H). destruct (N.eqb_spec j i); [contradiction|reflexivity]. Qed.

(** strchr and the number of occurrences *)
Lemma beq_sym a b : beq a b = beq b a.
Proof.
  destruct (beq b a) eqn:E.
  - apply beq_eq in E. subst. apply beq_refl.
  - apply beq_neq in E. apply beq_neq. congruence.
Qed.
Lemma count_index_none ch s : index ch s = None -> count_byte ch s = 0.
Proof.
  induction s as [|b s IH]; [reflexivity|]. cbn [index]. destruct (beq b ch) eqn:E; [discriminate|].
  destruct (index ch s); [discriminate|]. intros _. unfold count_byte in *. cbn [filter]. rewrite beq_sym, E. now apply IH.
Qed.
Lemma count_index_some ch s : forall q, index ch s = Some q ->
  count_byte ch s = 1 + count_byte ch (dropN (N.of_nat q + 1) s).
Proof.
  induction s as [|b s IH]; intros q; [discriminate|]. cbn [index]. destruct (beq b ch) eqn:E.
  - intros H; injection H as <-. unfold count_byte. cbn [filter]. rewrite beq_sym, E. cbn [length].
    change (dropN (N.of_nat 0 + 1) (b :: s)) with s. lia.
  - destruct (index ch s) as [j|]; [|discriminate]. intros H; injection H as <-.
    specialize (IH j eq_refl). unfold count_byte in *. cbn [filter]. rewrite beq_sym, E. rewrite IH. do 3 f_equal.
    unfold dropN. replace (N.to_nat (N.of_nat (S j) + 1)) with (S (N.to_nat (N.of_nat j + 1))) by lia. reflexivity.
Qed.


(** a buffer filled with arbitrary bytes (NULs allowed) and then terminated holds a C string *)
Lemma cstr_after_fill a off bs a1 a2 i : wrs a off bs = Ok a1 -> i = off + len bs -> wr a1 i NUL = Ok a2 ->
  exists s, cstr a2 off = Ok s /\ len s <= len bs.
Proof.
  intros W1 -> W2. unfold wr in W2. set (bs' := bs ++ [NUL]).
  assert (Hat : forall j, j < len bs' -> at_ a2 (off + j) = Some (Some (nthN j bs'))).
  { intros j Hj. unfold bs' in *. rewrite len_app in Hj. cbn in Hj. destruct (N.lt_ge_cases j (len bs)).
    - rewrite (at_wrs_out _ _ _ _ _ W2) by (cbn; lia). rewrite (at_wrs_in _ _ _ _ _ W1) by lia.
      replace (off + j - off) with j by lia. now rewrite nthN_app_l.
    - assert (j = len bs) by lia. subst j. rewrite (at_wrs_in _ _ _ _ _ W2) by (cbn; lia).
      rewrite nthN_app_r by lia. replace (off + len bs - (off + len bs)) with 0 by lia.
      replace (len bs - len bs) with 0 by lia. reflexivity. }
  destruct (index NUL bs') as [k|] eqn:E.
  2:{ apply index_None in E. exfalso. apply E. unfold bs'. apply in_or_app. right. now left. }
  apply index_Some in E as [Hk [Hlt Hnin]].
  assert (Lb : len bs' = len bs + 1) by (unfold bs'; rewrite len_app; reflexivity).
  assert (HK : N.of_nat k < len bs') by (unfold len; lia).
  exists (takeN (N.of_nat k) bs'). rewrite len_takeN. split; [|lia].
  apply cstr_holds. split; [|split].
  - unfold takeN. rewrite Nat2N.id. exact Hnin.
  - rewrite len_takeN. intros j Hj. rewrite Hat by lia. now rewrite nthN_takeN by lia.
  - rewrite len_takeN. replace (N.min (N.of_nat k) (len bs')) with (N.of_nat k) by lia.
    rewrite Hat by lia. unfold nthN. rewrite Nat2N.id, Hk. reflexivity.
Qed.

Lemma rindex_lt ch s r : rindex ch s = Some r -> (r < length s)%nat.
Proof.
  unfold rindex. destruct (index ch (rev s)) as [k|] eqn:E; [|discriminate]. intros H; injection H as <-.
  apply index_Some in E as [_ [Hk _]]. rewrite rev_length in Hk. lia.
Qed.

(** size_t len = right - left - 1: a value that passes  0 < len < lim  is the true distance, provided lim stays
    below the wrapped values *)
Lemma sub64_len L R lim fr : L < fr -> lim + fr <= two64 ->
  sub64 (sub64 R L) 1 <> 0 -> sub64 (sub64 R L) 1 < lim -> L < R /\ sub64 (sub64 R L) 1 = R - L - 1.
Proof.
  intros HL Hw. unfold sub64.
  destruct (N.leb_spec L R); [destruct (N.leb_spec 1 (R - L))|destruct (N.leb_spec 1 (R + two64 - L))]; lia.
Qed.

Section P_Filter.
  Set Default Proof Using "Type".
  Variable c : safety_consts.
  Hypothesis Hok : safety_consts_ok c = true.

  Lemma ok_filter :
    s_chain_copy_n c <= s_chain_max c /\ s_chain_term c = true /\ s_chain_term_idx c < s_chain_max c
    /\ s_chain_copy_n c <= s_chain_term_idx c /\ s_fname_copy_exact c = true /\ s_fname_term c = true
    /\ 1 <= s_farg_max c /\ 1 <= s_fname_max c
    /\ (s_chain_copy_n c = s_chain_term_idx c \/ s_fname_max c < s_chain_copy_n c)
    /\ 1 <= s_csv_extra_slots c
    /\ s_st_fread_n c < s_st_buf c /\ s_st_comm_limit c <= s_st_comm c /\ 1 <= s_st_path c.
  Proof using Hok.
    unfold safety_consts_ok in Hok. repeat (apply andb_true_iff in Hok as [Hok ?]).
    repeat match goal with
    | H : (_ <=? _) = true |- _ => apply N.leb_le in H
    | H : (_ <? _) = true |- _ => apply N.ltb_lt in H
    | H : (_ =? _) = true |- _ => apply N.eqb_eq in H
    | H : (_ || _) = true |- _ => apply orb_true_iff in H
    end.
    repeat split; try assumption.
    match goal with H : _ \/ _ |- _ => destruct H as [H|H]; [left; now apply N.eqb_eq in H|right; now apply N.ltb_lt in H] end.
  Qed.

  (** * filtering.c *)
  Variable fknown : list byte -> bool.
  Variable fcall : list byte -> list byte -> res bool.
  Hypothesis fcall_safe : forall n a, nonul n -> nonul a -> exists r, fcall n a = Ok r.

  Lemma chain_element_safe copy tok spec : cstr copy tok = Ok spec -> len spec <= s_fname_max c ->
    exists r, chain_element c fknown fcall copy tok = Ok r.
  Proof using Hok fcall_safe.
    intros H HL. destruct ok_filter as (_ & _ & _ & _ & Hexact & Hterm & Hfarg & Hfname & _).
    pose proof (cstr_nonul _ _ _ H) as Hn.
    unfold chain_element. rewrite H. cbn [bind].
    destruct (wr_ok (fresh (s_fname_max c)) 0 NUL) as [f1 [W1 C1]]; [rewrite cap_fresh; lia|]. rewrite cap_fresh in C1.
    destruct (index COLON spec) as [k|] eqn:E.
    - apply index_Some in E as [_ [Hk _]]. set (K := N.of_nat k). assert (HK : K < len spec) by (unfold len, K; lia).
      rewrite W1. cbn [bind]. rewrite Hexact, Hterm.
      destruct (c_strncpy_ok f1 0 spec K) as [f2 [W2 C2]]; [lia|]. rewrite W2. cbn [bind].
      destruct (wr_ok f2 K NUL) as [f3 [W3 C3]]; [lia|]. rewrite W3. cbn [bind].
      rewrite (cstr_strncpy_term f1 0 spec K f2 f3 W2 W3 Hn). cbn [bind].
      replace (tok + K + 1) with (tok + (K + 1)) by lia.
      rewrite (cstr_suffix _ _ _ (K + 1) H) by lia. cbn [bind].
      destruct (fknown (takeN K spec)); cbn [negb]; [|eauto].
      apply fcall_safe; [now apply nonul_takeN|now apply nonul_dropN].
    - rewrite W1. cbn [bind].
      destruct (wr_ok (fresh (s_farg_max c)) 0 NUL) as [g1 [V1 D1]]; [rewrite cap_fresh; lia|]. rewrite V1. cbn [bind].
      rewrite (cstr_wrs_here (fresh (s_farg_max c)) 0 [] [] g1 V1) by (intros []). cbn [bind].
      destruct (fknown spec); cbn [negb]; [|eauto].
      apply fcall_safe; [exact Hn|intros []].
  Qed.

  Lemma chain_loop_safe : forall fuel copy str rest d,
    cstr copy (match str with Some s => s | None => rest end) = Ok d -> len d <= s_fname_max c -> (length d < fuel)%nat ->
    exists r, chain_loop c fknown fcall fuel copy str rest = Ok r.
  Proof using Hok fcall_safe.
    induction fuel as [|fuel IH]; intros copy str rest d H HL HF; [lia|].
    cbn [chain_loop].
    destruct (strtok_r_safe copy _ d x3b H) as (a' & tok & rest' & E & _ & _ & T).
    rewrite E. cbn [bind]. destruct tok as [t|]; [|eauto].
    destruct T as (tk & dr & Ht & _ & _ & Hr & _ & Hlt & Hle).
    destruct (chain_element_safe a' t tk Ht ltac:(lia)) as [go Eg]. rewrite Eg. cbn [bind].
    destruct go; [|eauto]. apply (IH a' None rest' dr); [exact Hr|lia|unfold len in Hlt, HF |- *; lia].
  Qed.

  Theorem check_chain_safe : forall chain, nonul chain -> len chain <= s_fname_max c ->
    exists r, check_chain c fknown fcall chain = Ok r.
  Proof using Hok fcall_safe.
    intros chain Hn HL. destruct ok_filter as (H1 & H2 & H3 & H4 & _ & _ & _ & _ & H5 & _).
    unfold check_chain. rewrite H2.
    destruct (c_strncpy_ok (fresh (s_chain_max c)) 0 chain (s_chain_copy_n c)) as [c1 [W1 C1]]; [rewrite cap_fresh; lia|].
    rewrite cap_fresh in C1. rewrite W1. cbn [bind].
    destruct (wr_ok c1 (s_chain_term_idx c) NUL) as [c2 [W2 C2]]; [lia|]. rewrite W2. cbn [bind].
    assert (exists d, cstr c2 0 = Ok d /\ len d <= len chain) as (d & Hd & Hdl).
    { destruct H5 as [H5|H5].
      - exists (takeN (s_chain_copy_n c) chain). split; [|rewrite len_takeN; lia].
        rewrite <- H5 in W2. exact (cstr_strncpy_term _ 0 chain _ c1 c2 W1 W2 Hn).
      - exists chain. split; [|lia]. pose proof (cstr_strncpy_short _ _ _ _ _ W1 Hn ltac:(lia)) as S1.
        unfold wr in W2. eapply cstr_wrs_frame; eauto. lia. }
    apply (chain_loop_safe _ c2 (Some 0) 0 d); [exact Hd|lia|unfold len in Hdl |- *; lia].
  Qed.

  (** * util/parser.c csvToArgList, only_uid / exclude_uid *)
  Lemma csv_loop_safe : forall fuel raw pos ptrs i s,
    cstr raw pos = Ok s ->
    (N.to_nat (count_byte COMMA s) < fuel)%nat ->
    i + count_byte COMMA s < N.of_nat (length ptrs) ->
    (forall j, j < i -> exists p f, sl_get ptrs j = Ok p /\ cstr raw p = Ok f /\ (p + len f < pos \/ p = pos)) ->
    exists raw' ptrs' i', csv_loop fuel raw pos ptrs i = Ok (raw', ptrs', i') /\ cap raw' = cap raw /\ length ptrs' = length ptrs
      /\ i' = i + count_byte COMMA s
      /\ forall j, j < i' -> exists p f, sl_get ptrs' j = Ok p /\ cstr raw' p = Ok f.
  Proof using.
    clear Hok fcall_safe fknown fcall c.
    induction fuel as [|fuel IH]; intros raw pos ptrs i s H HF HI Inv; [lia|].
    cbn [csv_loop]. rewrite H. cbn [bind]. destruct (index COMMA s) as [q|] eqn:E.
    - pose proof (count_index_some _ _ _ E) as HC. apply index_Some in E as [_ [Hq _]].
      set (Q := N.of_nat q) in HC |- *. assert (HQ : Q < len s) by (unfold len, Q; lia).
      destruct (cstr_wr_nul raw pos s (pos + Q) H ltac:(lia)) as (raw1 & W & C1 & Cp & C2).
      replace (pos + Q - pos) with Q in C1, C2 by lia.
      destruct (N.ltb_spec (pos + Q) (pos + len s)); [|lia].
      rewrite W. cbn [bind]. destruct (sl_set_ok ptrs i (pos + Q + 1)) as [ptrs1 S1]; [lia|]. rewrite S1. cbn [bind].
      pose proof (sl_set_length _ _ _ _ S1) as L1.
      destruct (IH raw1 (pos + Q + 1) ptrs1 (i + 1) (dropN (Q + 1) s) C2) as (raw' & ptrs' & i' & E' & Cp' & L' & Hi' & Inv').
      + lia.
      + rewrite L1. lia.
      + intros j Hj. destruct (N.eq_dec j i) as [->|Hne].
        * exists (pos + Q + 1), (dropN (Q + 1) s). split; [apply (sl_get_set_same _ _ _ _ S1)|]. split; [exact C2|now right].
        * destruct (Inv j ltac:(lia)) as (p & f & G & Cf & Hp). exists p. rewrite (sl_get_set_other _ _ _ _ _ S1 Hne).
          destruct Hp as [Hp| ->].
          -- exists f. split; [exact G|]. split; [|lia]. unfold wr in W. eapply cstr_wrs_frame; eauto. lia.
          -- exists (takeN Q s). split; [exact G|]. split; [exact C1|]. rewrite len_takeN. lia.
      + exists raw', ptrs', i'. split; [exact E'|]. split; [congruence|]. split; [congruence|]. split; [lia|exact Inv'].
    - apply count_index_none in E. exists raw, ptrs, i. split; [reflexivity|]. split; [reflexivity|]. split; [reflexivity|].
      split; [lia|]. intros j Hj. destruct (Inv j ltac:(lia)) as (p & f & G & Cf & _). eauto.
  Qed.

  Theorem csv_safe : forall raw s, cstr raw 0 = Ok s ->
    exists raw' ptrs argc, csv_to_arglist c raw = Ok (raw', ptrs, argc) /\ cap raw' = cap raw /\ argc <= count_byte COMMA s + 1 /\
      forall i, i < argc -> exists p f, sl_get ptrs i = Ok p /\ cstr raw' p = Ok f.
  Proof using Hok.
    clear fcall_safe fknown fcall.
    intros raw s H. destruct ok_filter as (_ & _ & _ & _ & _ & _ & _ & _ & _ & Hx & _).
    unfold csv_to_arglist. rewrite H. cbn [bind]. cbv zeta.
    set (commas := count_byte COMMA s).
    set (ptrs0 := @sl_fresh N (commas + 1 + s_csv_extra_slots c)).
    assert (L0 : N.of_nat (length ptrs0) = commas + 1 + s_csv_extra_slots c).
    { unfold ptrs0, sl_fresh. rewrite repeat_length. lia. }
    destruct (N.eqb_spec (len s) 0) as [Hz|Hnz].
    - assert (s = []) by (destruct s; [reflexivity|rewrite len_cons in Hz; lia]). subst s.
      cbn [bind]. change commas with 0. cbn [N.ltb N.compare].
      destruct (sl_set_ok ptrs0 0 (len [] + 1)) as [p3 S3]; [lia|]. cbn [bind]. rewrite S3. cbn [bind].
      exists raw, p3, 0. split; [reflexivity|]. split; [reflexivity|]. split; [lia|]. intros i Hi. lia.
    - destruct (sl_set_ok ptrs0 0 0) as [p1 S1]; [lia|]. rewrite S1. cbn [bind].
      pose proof (sl_set_length _ _ _ _ S1) as L1.
      destruct (N.ltb_spec 0 commas) as [Hc|Hc].
      + destruct (csv_loop_safe (S (N.to_nat commas)) raw 0 p1 1 s H) as (raw' & p2 & i' & E' & Cp' & L' & Hi' & Inv').
        * fold commas. lia.
        * fold commas. lia.
        * intros j Hj. assert (j = 0) by lia. subst j. exists 0, s. split; [apply (sl_get_set_same _ _ _ _ S1)|]. split; [exact H|now right].
        * rewrite E'. cbn [bind]. fold commas in Hi'.
          destruct (sl_set_ok p2 i' (len s + 1)) as [p3 S3]; [lia|]. rewrite S3. cbn [bind].
          exists raw', p3, (commas + 1). split; [reflexivity|]. split; [exact Cp'|]. split; [lia|].
          intros i Hi. destruct (Inv' i ltac:(lia)) as (p & f & G & Cf). exists p, f. split; [|exact Cf].
          rewrite (sl_get_set_other _ _ _ _ _ S3); [exact G|lia].
      + cbn [bind]. destruct (sl_set_ok p1 1 (len s + 1)) as [p3 S3]; [lia|]. rewrite S3. cbn [bind].
        exists raw, p3, (commas + 1). split; [reflexivity|]. split; [reflexivity|]. split; [lia|].
        intros i Hi. assert (i = 0) by lia. subst i. exists 0, s. split; [|exact H].
        rewrite (sl_get_set_other _ _ _ _ _ S3) by lia. apply (sl_get_set_same _ _ _ _ S1).
  Qed.

  Lemma uid_args_safe raw ptrs : forall n i,
    (forall j, i <= j < i + N.of_nat n -> exists p f, sl_get ptrs j = Ok p /\ cstr raw p = Ok f) ->
    exists l, uid_args raw ptrs i n = Ok l /\ Forall nonul l.
  Proof using.
    clear Hok fcall_safe fknown fcall c.
    induction n as [|n IH]; intros i H; cbn [uid_args]; [eauto|].
    destruct (H i ltac:(lia)) as (p & f & G & Cf). rewrite G. cbn [bind]. rewrite Cf. cbn [bind].
    destruct (IH (i + 1)) as (l & E & Fl); [intros j Hj; apply H; lia|]. rewrite E. cbn [bind].
    exists (f :: l). split; [reflexivity|]. constructor; [now apply cstr_nonul in Cf|exact Fl].
  Qed.

  Lemma strdup_safe arg : nonul arg -> exists raw, c_store (fresh (len arg + 1)) 0 arg = Ok raw /\ cstr raw 0 = Ok arg.
  Proof using.
    clear Hok fcall_safe fknown fcall c.
    intros Hn. unfold c_store. destruct (wrs_ok (fresh (len arg + 1)) 0 (arg ++ [NUL])) as [raw E].
    { rewrite cap_fresh, len_app. cbn. lia. }
    exists raw. split; [exact E|]. eapply cstr_wrs_here; eauto.
  Qed.

  Theorem uid_filter_args_safe : forall arg, nonul arg -> exists l, uid_filter_args c arg = Ok l /\ Forall nonul l.
  Proof using Hok.
    clear fcall_safe fknown fcall.
    intros arg Hn. unfold uid_filter_args. destruct (strdup_safe arg Hn) as (raw & E & C0). rewrite E. cbn [bind].
    destruct (csv_safe raw arg C0) as (raw' & ptrs & argc & E1 & _ & _ & Hall). rewrite E1. cbn [bind].
    apply uid_args_safe. intros j Hj. apply Hall. lia.
  Qed.

  (** * exclude_spawns_of.c *)
  Variable procstat : N -> option (list byte).
  Variable scan_cd : list byte -> option N.

  (** the token array: a NULL slot [n] inside the array, every slot before it points to a string of [raw] *)
  Definition toks_wf (raw : arr) (toks : slots (option N)) : Prop :=
    exists n, sl_get toks n = Ok None /\ (N.to_nat n < length toks)%nat /\
      forall i, i < n -> exists o f, sl_get toks i = Ok (Some o) /\ cstr raw o = Ok f.

  (** loop invariant of string_to_token_array: [m] = number of leading non-NULL tokens; once strtok_r has
      returned NULL ([m < i]) the rest string is empty and every later call returns NULL again *)
  Definition tok_inv (raw : arr) (toks : slots (option N)) (i pos : N) : Prop :=
    exists d m, cstr raw pos = Ok d /\ m <= i /\
      (forall j, j < m -> exists o f, sl_get toks j = Ok (Some o) /\ cstr raw o = Ok f /\ o + len f <= pos) /\
      (m < i -> sl_get toks m = Ok None /\ d = []).

  Lemma tok_loop_safe : forall n raw (first : bool) rest toks i,
    tok_inv raw toks i (if first then 0 else rest) ->
    i + N.of_nat n <= N.of_nat (length toks) ->
    exists raw' toks' pos', tok_loop n raw first rest toks i = Ok (raw', toks') /\ length toks' = length toks
      /\ tok_inv raw' toks' (i + N.of_nat n) pos'.
  Proof using.
    clear Hok fcall_safe fknown fcall procstat scan_cd c.
    induction n as [|n IH]; intros raw first rest toks i Inv HL.
    - cbn [tok_loop]. exists raw, toks, (if first then 0 else rest). split; [reflexivity|]. split; [reflexivity|].
      now replace (i + N.of_nat 0) with i by lia.
    - cbn [tok_loop]. destruct Inv as (d & m & C & Hm & Hall & Hnone).
      destruct (strtok_r_safe raw _ d COMMA C) as (a' & tok & rest' & E & _ & Fr & T). rewrite E. cbn [bind].
      destruct (sl_set_ok toks i tok) as [toks1 S1]; [lia|]. rewrite S1. cbn [bind].
      pose proof (sl_set_length _ _ _ _ S1) as L1.
      destruct (IH a' false rest' toks1 (i + 1)) as (raw' & toks' & pos' & E' & L' & Inv').
      + cbn [tok_inv]. destruct tok as [t|].
        * destruct T as (tk & dr & Ct & Hst & Htr & Cr & _ & Hlt & _).
          assert (m = i). { destruct (N.eq_dec m i); [assumption|]. destruct Hnone as [_ ->]; [lia|]. cbn in Hlt. lia. }
          subst m. exists dr, (i + 1). split; [exact Cr|]. split; [lia|]. split; [|lia].
          intros j Hj. destruct (N.eq_dec j i) as [->|Hne].
          -- exists t, tk. split; [apply (sl_get_set_same _ _ _ _ S1)|]. split; [exact Ct|lia].
          -- destruct (Hall j ltac:(lia)) as (o & f & G & Cf & Ho). exists o, f.
             split; [rewrite (sl_get_set_other _ _ _ _ _ S1 Hne); exact G|]. split; [apply Fr; assumption|lia].
        * destruct T as (-> & -> & Cr). exists [], m. split; [exact Cr|]. split; [lia|]. split.
          -- intros j Hj. destruct (Hall j Hj) as (o & f & G & Cf & Ho). exists o, f.
             split; [rewrite (sl_get_set_other _ _ _ _ _ S1) by lia; exact G|]. split; [exact Cf|lia].
          -- intros _. split; [|reflexivity]. destruct (N.eq_dec m i) as [->|Hne].
             ++ apply (sl_get_set_same _ _ _ _ S1).
             ++ rewrite (sl_get_set_other _ _ _ _ _ S1 Hne). apply Hnone. lia.
      + rewrite L1. lia.
      + exists raw', toks', pos'. split; [exact E'|]. split; [congruence|].
        now replace (i + N.of_nat (S n)) with (i + 1 + N.of_nat n) by lia.
  Qed.

  Theorem token_array_safe : forall raw s, cstr raw 0 = Ok s ->
    exists r, token_array raw = Ok r /\ match r with None => s = [] | Some (raw', toks) => toks_wf raw' toks end.
  Proof using.
    clear Hok fcall_safe fknown fcall procstat scan_cd c.
    intros raw s H. unfold token_array. rewrite H. cbn [bind].
    destruct s as [|b s']; [exists None; split; reflexivity|]. cbv zeta.
    set (tc := count_byte COMMA (b :: s') + 1).
    set (toks0 := repeat (Some (@None N)) (N.to_nat (tc + 1))).
    assert (L0 : N.of_nat (length toks0) = tc + 1) by (unfold toks0; rewrite repeat_length; lia).
    destruct (tok_loop_safe (N.to_nat tc) raw true 0 toks0 0) as (raw' & toks' & pos' & E & L' & Inv).
    { exists (b :: s'), 0. split; [exact H|]. split; [lia|]. split; intros; lia. }
    { lia. }
    rewrite E. cbn [bind]. destruct (sl_set_ok toks' tc None) as [toks2 S2]; [lia|]. rewrite S2. cbn [bind].
    exists (Some (raw', toks2)). split; [reflexivity|].
    replace (0 + N.of_nat (N.to_nat tc)) with tc in Inv by lia.
    destruct Inv as (d & m & _ & Hm & Hall & Hnone). exists m. split; [|split].
    - destruct (N.eq_dec m tc) as [->|Hne]; [apply (sl_get_set_same _ _ _ _ S2)|].
      rewrite (sl_get_set_other _ _ _ _ _ S2 Hne). apply Hnone. lia.
    - rewrite (sl_set_length _ _ _ _ S2). lia.
    - intros i Hi. destruct (Hall i Hi) as (o & f & G & Cf & _). exists o, f. split; [|exact Cf].
      rewrite (sl_get_set_other _ _ _ _ _ S2) by lia. exact G.
  Qed.

  Lemma find_in_from raw toks str n :
    sl_get toks n = Ok None -> (forall i, i < n -> exists o f, sl_get toks i = Ok (Some o) /\ cstr raw o = Ok f) ->
    forall fuel i, i <= n -> (N.to_nat (n - i) < fuel)%nat -> exists b, find_in fuel raw toks i str = Ok b.
  Proof using.
    clear Hok fcall_safe fknown fcall procstat scan_cd c.
    intros Hn Hall. induction fuel as [|fuel IH]; intros i Hi HF; [lia|]. cbn [find_in].
    destruct (N.eq_dec i n) as [->|Hne].
    - rewrite Hn. cbn [bind]. eauto.
    - destruct (Hall i ltac:(lia)) as (o & f & G & Cf). rewrite G. cbn [bind]. rewrite Cf. cbn [bind].
      destruct (list_eqb str f); [eauto|]. apply IH; lia.
  Qed.

  Theorem find_in_safe : forall raw toks str, toks_wf raw toks -> exists b, find_in (S (length toks)) raw toks 0 str = Ok b.
  Proof using.
    clear Hok fcall_safe fknown fcall procstat scan_cd c.
    intros raw toks str (n & Hn & Hl & Hall). apply (find_in_from raw toks str n Hn Hall); lia.
  Qed.

  (** NOT derivable from [safety_consts_ok]: the limit of  len >= ST_COMM_SIZE_MAX  must stay below the values that
      size_t  right - left - 1  wraps to when ')' precedes '(' (see [stat_step_needs_nowrap] at the end of the file) *)
  Lemma Hnowrap : s_st_comm_limit c + s_st_fread_n c <= two64.
  Proof using Hok.
    clear fcall_safe. unfold safety_consts_ok in Hok. repeat (apply andb_true_iff in Hok as [Hok ?]).
    match goal with H : (s_st_comm_limit c + s_st_fread_n c <=? _) = true |- _ => apply N.leb_le in H; exact H end.
  Qed.

  Theorem stat_step_safe : forall pid raw toks, toks_wf raw toks -> exists r, stat_step c procstat scan_cd pid raw toks = Ok r.
  Proof using Hok.
    clear fcall_safe fknown fcall.
    intros pid raw toks Hwf.
    destruct ok_filter as (_ & _ & _ & _ & _ & _ & _ & _ & _ & _ & Hfr & Hcl & Hpath).
    unfold stat_step.
    destruct (c_snprintf_ok (fresh (s_st_path c)) 0 (s_st_path c) (lit_proc ++ dec pid ++ lit_stat)) as [sp Esp];
      [lia|rewrite cap_fresh; lia|].
    rewrite Esp. cbn [bind].
    destruct (procstat pid) as [content|]; [|eauto].
    cbv zeta. set (got := takeS (s_st_fread_n c) content).
    assert (Hg : len got <= s_st_fread_n c) by (unfold got; rewrite takeS_eq, len_takeN; lia).
    destruct (wrs_ok (fresh (s_st_buf c)) 0 got) as [b1 W1]; [rewrite cap_fresh; lia|]. rewrite W1. cbn [bind].
    pose proof (cap_wrs _ _ _ _ W1) as C1. rewrite cap_fresh in C1.
    destruct (wr_ok b1 (len got) NUL) as [b2 [W2 C2]]; [lia|]. rewrite W2. cbn [bind].
    destruct (len got <? s_st_size_min c); [eauto|].
    destruct (cstr_after_fill _ 0 got b1 b2 (len got) W1 eq_refl W2) as (s & Hs & Hsl). rewrite Hs. cbn [bind].
    destruct (index LPAREN s) as [l|] eqn:El; [|eauto]. destruct (rindex RPAREN s) as [r|] eqn:Er; [|eauto].
    apply index_Some in El as [_ [Hl _]]. apply rindex_lt in Er.
    set (L := N.of_nat l). set (R := N.of_nat r). set (ln := sub64 (sub64 R L) 1).
    assert (HLfr : L < s_st_fread_n c) by (unfold L, len in Hl, Hsl, Hg |- *; lia).
    assert (KEY : (if s_st_empty_ok c then R <? L else ln =? 0) = false -> ln < s_st_comm_limit c -> L < R /\ ln = R - L - 1).
    { intros Eb Hlim. pose proof Hnowrap as Hw. destruct (s_st_empty_ok c).
      - apply N.ltb_ge in Eb. unfold ln, sub64 in *. unfold two64 in *.
        destruct (N.leb_spec L R); [|lia]. destruct (N.leb_spec 1 (R - L)); [lia|].
        exfalso. assert (E0 : R - L = 0) by lia. rewrite E0 in Hlim. lia.
      - apply N.eqb_neq in Eb. apply (sub64_len L R (s_st_comm_limit c) (s_st_fread_n c)); assumption. }
    destruct (if s_st_empty_ok c then R <? L else ln =? 0) eqn:Eb; [cbn [orb]; eauto|]. cbn [orb].
    destruct (N.leb_spec (s_st_comm_limit c) ln) as [|Hlim]; [eauto|].
    destruct (KEY eq_refl Hlim) as [HLR Hln].
    assert (HR : R < len s) by (unfold R, len; lia).
    destruct (N.leb_spec (L + 1 + ln) (len s + 1)); [|lia]. cbn [bind].
    set (comm_src := takeS ln (dropN (L + 1) s)).
    assert (Hcs : len comm_src = ln) by (unfold comm_src; rewrite takeS_eq, len_takeN, len_dropN; lia).
    destruct (wrs_ok (fresh (s_st_comm c)) 0 comm_src) as [cb1 V1]; [rewrite cap_fresh; lia|]. rewrite V1. cbn [bind].
    pose proof (cap_wrs _ _ _ _ V1) as D1. rewrite cap_fresh in D1.
    destruct (wr_ok cb1 ln NUL) as [cb2 [V2 D2]]; [lia|]. rewrite V2. cbn [bind].
    destruct (cstr_after_fill _ 0 comm_src cb1 cb2 ln V1 ltac:(lia) V2) as (comm & Hc & _). rewrite Hc. cbn [bind].
    destruct (scan_cd (dropN (R + 1) s)) as [pp|]; [|eauto].
    destruct (find_in_safe raw toks comm Hwf) as [f Ef]. rewrite Ef. cbn [bind]. destruct f; eauto.
  Qed.

  Theorem ancestors_safe : forall fuel pid raw toks, toks_wf raw toks ->
    (exists a, ancestors c procstat scan_cd fuel pid raw toks = Ok a) \/ ancestors c procstat scan_cd fuel pid raw toks = Fault Out_of_fuel.
  Proof using Hok.
    clear fcall_safe fknown fcall.
    induction fuel as [|fuel IH]; intros pid raw toks Hwf; cbn [ancestors]; (destruct (pid =? 0); [left; eauto|]).
    - now right.
    - destruct (stat_step_safe pid raw toks Hwf) as [r E]. rewrite E. cbn [bind]. destruct r as [a|pp]; [left; eauto|].
      now apply IH.
  Qed.

  (** fuel linear in the length of the parent chain *)
  Inductive reaches (raw : arr) (toks : slots (option N)) : nat -> N -> Prop :=
  | R_zero : forall n, reaches raw toks n 0
  | R_stop : forall n pid a, pid <> 0 -> stat_step c procstat scan_cd pid raw toks = Ok (inl a) -> reaches raw toks (S n) pid
  | R_step : forall n pid pp, pid <> 0 -> stat_step c procstat scan_cd pid raw toks = Ok (inr pp) -> reaches raw toks n pp -> reaches raw toks (S n) pid.

  Theorem ancestors_fuel : forall n fuel pid raw toks, reaches raw toks n pid -> (n <= fuel)%nat ->
    exists a, ancestors c procstat scan_cd fuel pid raw toks = Ok a.
  Proof using.
    clear Hok fcall_safe fknown fcall.
    intros n fuel pid raw toks H. revert fuel. induction H as [n|n pid a Hp E|n pid pp Hp E Hr IH]; intros fuel Hle.
    - destruct fuel; cbn [ancestors]; change (0 =? 0) with true; cbn iota; eauto.
    - destruct fuel as [|fuel]; [lia|]. cbn [ancestors]. destruct (N.eqb_spec pid 0); [contradiction|].
      rewrite E. cbn [bind]. eauto.
    - destruct fuel as [|fuel]; [lia|]. cbn [ancestors]. destruct (N.eqb_spec pid 0); [contradiction|].
      rewrite E. cbn [bind]. apply IH. lia.
  Qed.

  Theorem exclude_spawns_of_safe : forall fuel ppid arg, nonul arg ->
    (exists r, exclude_spawns_of c procstat scan_cd fuel ppid arg = Ok r) \/ exclude_spawns_of c procstat scan_cd fuel ppid arg = Fault Out_of_fuel.
  Proof using Hok.
    clear fcall_safe fknown fcall.
    intros fuel ppid arg Hn. unfold exclude_spawns_of. destruct (strdup_safe arg Hn) as (raw & E & C0). rewrite E. cbn [bind].
    destruct (token_array_safe raw arg C0) as (ta & Et & Hta). rewrite Et. cbn [bind].
    destruct ta as [[raw' toks]|]; [|left; eauto].
    destruct (ancestors_safe fuel ppid raw' toks Hta) as [[a Ea]|Ea]; rewrite Ea; cbn [bind]; [left; eauto|now right].
  Qed.
End P_Filter.

(** The bound [Hnowrap] used to be a hypothesis: without the conjunct  s_st_comm_limit + s_st_fread_n <= 2^64  of
    [safety_consts_ok], ST_COMM_SIZE_MAX = 2^64 and the stat content ")(abcdefgh" made [stat_step] fault
    (size_t  right - left - 1  wraps to 2^64 - 2 and passes  0 < len < limit).  The conjunct was added to Consts.v. *)

Print Assumptions strtok_r_safe.
Print Assumptions check_chain_safe.
Print Assumptions csv_safe.
Print Assumptions uid_filter_args_safe.
Print Assumptions token_array_safe.
Print Assumptions find_in_safe.
Print Assumptions stat_step_safe.
Print Assumptions ancestors_safe.
Print Assumptions ancestors_fuel.
Print Assumptions exclude_spawns_of_safe.
Check check_chain_safe. Check csv_safe. Check uid_filter_args_safe. Check token_array_safe. Check find_in_safe.
Check stat_step_safe. Check ancestors_safe. Check ancestors_fuel. Check exclude_spawns_of_safe.
