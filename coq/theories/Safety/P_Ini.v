(** Safety of lib/inih/src/ini.c as compiled (model: Safety/Conf.v, from "lib/inih/src/ini.c" on):
    parsing ANY byte string never faults, and every handler call receives bounded NUL-free strings. *)
From Snoopy Require Import Lib.CStr Safety.Mem Safety.CLib Safety.Consts Safety.Conf.
From Coq Require Import ZifyBool ZifyN ZifyNat.
Local Open Scope N_scope.

(** * generic helpers (not in the frozen library) *)
Lemma rd_head a s d : cstr a s = Ok d -> rd a s = Ok (nthN 0 d).
Proof. intros H. pose proof (rd_str a s d 0 H ltac:(lia)) as R. now replace (s + 0) with s in R by lia. Qed.

Lemma nthN_nz_lt k d : nthN k d <> NUL -> k < len d.
Proof. intros H. destruct (N.lt_ge_cases k (len d)); [assumption|]. exfalso. apply H. now apply nthN_beyond. Qed.

Lemma nthN_z_ge k d : nonul d -> nthN k d = NUL -> len d <= k.
Proof. intros Hn H. destruct (N.lt_ge_cases k (len d)); [|assumption]. exfalso. now apply (nthN_nonul k d Hn). Qed.

(** a string that ends before [s] survives any modification of the cells from [s] on *)
Lemma cstr_frame a a' p d s : cstr a p = Ok d -> p + len d < s -> (forall j, j < s -> at_ a' j = at_ a j) -> cstr a' p = Ok d.
Proof.
  intros H B F. apply cstr_holds in H as [Hn [H1 H2]]. apply cstr_holds. split; [exact Hn|split].
  - intros k Hk. rewrite F by lia. now apply H1.
  - rewrite F by lia. exact H2.
Qed.

Lemma cstr_zeroed n : 1 <= n -> cstr (zeroed n) 0 = Ok [].
Proof.
  intros H. apply cstr_holds. split; [intros []|]. split.
  - intros k Hk. cbn in Hk. lia.
  - cbn [len length N.of_nat]. apply at_zeroed. lia.
Qed.

(** * rstrip *)
Lemma rstrip_loop_spec s : forall fuel a m dm, cstr a s = Ok dm -> len dm = m -> (N.to_nat m < fuel)%nat ->
  exists a' d', rstrip_loop fuel a s (s + m) = Ok a' /\ cap a' = cap a /\ cstr a' s = Ok d' /\ len d' <= m /\
    (forall j, j < s + len d' \/ s + m <= j -> at_ a' j = at_ a j).
Proof.
  induction fuel as [|f IH]; intros a m dm Hd Hm Hf; [lia|].
  cbn [rstrip_loop]. destruct (N.ltb_spec s (s + m)) as [Hlt|Hge].
  - replace (s + m - 1) with (s + (m - 1)) by lia.
    rewrite (rd_in a s dm (m - 1) Hd) by lia. cbn [bind].
    destruct (is_space (nthN (m - 1) dm)) eqn:Esp.
    + destruct (cstr_wr_nul a s dm (s + (m - 1)) Hd ltac:(lia)) as [a1 [W [C1 [K1 _]]]].
      rewrite W. cbn [bind].
      replace (s + (m - 1) - s) with (m - 1) in C1 by lia.
      destruct (IH a1 (m - 1) (takeN (m - 1) dm) C1 ltac:(rewrite len_takeN; lia) ltac:(lia)) as [a' [d' [E [K [C [Hl F]]]]]].
      exists a', d'. split; [exact E|]. split; [congruence|]. split; [exact C|]. split; [lia|].
      intros j Hj. rewrite F by lia. unfold wr in W. apply (at_wrs_out _ _ _ _ _ W). cbn. lia.
    + exists a, dm. split; [reflexivity|]. split; [reflexivity|]. split; [exact Hd|]. split; [lia|]. reflexivity.
  - exists a, dm. split; [reflexivity|]. split; [reflexivity|]. split; [exact Hd|]. split; [lia|]. reflexivity.
Qed.

Lemma rstrip_spec a s d : cstr a s = Ok d ->
  exists a' d', rstrip a s = Ok a' /\ cap a' = cap a /\ cstr a' s = Ok d' /\ len d' <= len d /\
    (forall j, j < s + len d' \/ s + len d <= j -> at_ a' j = at_ a j).
Proof.
  intros Hd. unfold rstrip, c_strlen. rewrite Hd. cbn [bind].
  apply (rstrip_loop_spec s _ a (len d) d Hd eq_refl). lia.
Qed.

Lemma rstrip_safe a s d : cstr a s = Ok d ->
  exists a' d', rstrip a s = Ok a' /\ cap a' = cap a /\ cstr a' s = Ok d' /\ len d' <= len d
    /\ (forall p dp, p + len dp < s -> cstr a p = Ok dp -> cstr a' p = Ok dp).
Proof.
  intros Hd. destruct (rstrip_spec a s d Hd) as [a' [d' [E [K [C [L F]]]]]].
  exists a', d'. repeat (split; [assumption|]).
  intros p dp Hp Hc. apply (cstr_frame a a' p dp s Hc Hp). intros j Hj. apply F. lia.
Qed.

(** * lskip *)
Lemma lskip_loop_spec a : forall fuel s d, cstr a s = Ok d -> (length d < fuel)%nat ->
  exists k, lskip_loop fuel a s = Ok (s + k) /\ k <= len d.
Proof.
  induction fuel as [|f IH]; intros s d Hd Hf; [lia|].
  cbn [lskip_loop]. rewrite (rd_head _ _ _ Hd). cbn [bind].
  destruct (negb (beq (nthN 0 d) NUL) && is_space (nthN 0 d)) eqn:E.
  - apply andb_true_iff in E as [E1 _]. apply negb_true_iff, beq_neq, nthN_nz_lt in E1.
    pose proof (cstr_suffix a s d 1 Hd ltac:(lia)) as Hs.
    destruct (IH (s + 1) (dropN 1 d) Hs) as [k [E K]].
    { pose proof (len_dropN 1 d). unfold len in *. lia. }
    exists (1 + k). split; [rewrite E; f_equal; lia|]. rewrite len_dropN in K. lia.
  - exists 0. split; [f_equal; lia|lia].
Qed.

Lemma lskip_safe a s d : cstr a s = Ok d -> exists k, lskip a s = Ok (s + k) /\ k <= len d.
Proof.
  intros Hd. unfold lskip. apply (lskip_loop_spec a _ s d Hd).
  pose proof (cstr_bound _ _ _ Hd). unfold cap, len in *. lia.
Qed.

Section P_Ini.
  Variable c : safety_consts.
  Hypothesis Hok : safety_consts_ok c = true.

  Lemma ok_ini : s_ini_use_stack c = true /\ 2 <= s_ini_max_line c /\ s_ini_max_line c <= s_ini_line_cap c /\
    1 <= s_ini_section_copy c /\ s_ini_section_copy c <= s_ini_section_cap c /\
    1 <= s_ini_name_copy c /\ s_ini_name_copy c <= s_ini_name_cap c /\ s_ini_strncpy0_term c = true.
  Proof.
    unfold safety_consts_ok in Hok. repeat (apply andb_true_iff in Hok as [Hok ?]).
    repeat split; try (apply N.leb_le; assumption); assumption.
  Qed.

  (** * find_chars_or_comment *)
  Lemma find_loop_spec a chars : forall fuel s d ws, cstr a s = Ok d -> (length d < fuel)%nat ->
    exists k, find_loop c fuel a s chars ws = Ok (s + k) /\ k <= len d.
  Proof.
    induction fuel as [|f IH]; intros s d ws Hd Hf; [lia|].
    cbn [find_loop]. rewrite (rd_head _ _ _ Hd). cbn [bind].
    destruct (beq (nthN 0 d) NUL) eqn:E0; [exists 0; split; [f_equal; lia|lia]|].
    destruct (existsb (beq (nthN 0 d)) chars); [exists 0; split; [f_equal; lia|lia]|].
    destruct (s_ini_inline_comments c && ws && beq (nthN 0 d) SEMI); [exists 0; split; [f_equal; lia|lia]|].
    apply beq_neq, nthN_nz_lt in E0.
    pose proof (cstr_suffix a s d 1 Hd ltac:(lia)) as Hs.
    destruct (IH (s + 1) (dropN 1 d) (is_space (nthN 0 d)) Hs) as [k [E K]].
    { pose proof (len_dropN 1 d). unfold len in *. lia. }
    exists (1 + k). split; [rewrite E; f_equal; lia|]. rewrite len_dropN in K. lia.
  Qed.

  Lemma find_safe a s d chars : cstr a s = Ok d -> exists k, find_chars_or_comment c a s chars = Ok (s + k) /\ k <= len d.
  Proof.
    intros Hd. unfold find_chars_or_comment. apply (find_loop_spec a chars _ s d false Hd).
    pose proof (cstr_bound _ _ _ Hd). unfold cap, len in *. lia.
  Qed.

  (** * strncpy0 *)
  Lemma strncpy0_loop_spec src sp d size : cstr src sp = Ok d -> 1 <= size ->
    forall fuel dest i, i <= len d -> i <= size - 1 -> size <= cap dest ->
      (forall k, k < i -> at_ dest k = Some (Some (nthN k d))) -> (N.to_nat (len d - i) < fuel)%nat ->
      exists dest', strncpy0_loop c fuel dest src sp i size = Ok dest' /\ cap dest' = cap dest /\ cstr dest' 0 = Ok (takeN (size - 1) d).
  Proof.
    intros Hd Hs. destruct ok_ini as [_ [_ [_ [_ [_ [_ [_ Ht]]]]]]].
    pose proof (cstr_nonul _ _ _ Hd) as Hn.
    induction fuel as [|f IH]; intros dest i Hi Hi2 Hcap Hpre Hf; [lia|].
    cbn [strncpy0_loop]. rewrite Ht. rewrite sub64_le by lia.
    destruct (N.ltb_spec i (size - 1)) as [Hlt|Hge].
    - rewrite (rd_str src sp d i Hd Hi). cbn [bind].
      destruct (beq (nthN i d) NUL) eqn:Eb.
      + apply beq_eq in Eb. apply (nthN_z_ge _ _ Hn) in Eb. assert (i = len d) by lia. subst i.
        destruct (wrs_ok dest (len d) [NUL]) as [dest' W]; [cbn; lia|].
        unfold wr. rewrite W. exists dest'. split; [reflexivity|]. split; [now apply cap_wrs in W|].
        rewrite takeN_all by lia. apply cstr_holds. split; [exact Hn|]. split.
        * intros k Hk. rewrite (at_wrs_out _ _ _ _ _ W) by (cbn; lia). replace (0 + k) with k by lia. now apply Hpre.
        * rewrite (at_wrs_in _ _ _ _ _ W) by (cbn; lia). replace (0 + len d - len d) with 0 by lia. reflexivity.
      + apply beq_neq in Eb. pose proof (nthN_nz_lt _ _ Eb) as Hlt2.
        destruct (wrs_ok dest i [nthN i d]) as [dest1 W]; [cbn; lia|].
        unfold wr. rewrite W. cbn [bind].
        destruct (IH dest1 (i + 1)) as [dest' [E [K C]]]; try lia.
        * apply cap_wrs in W. lia.
        * intros k Hk. destruct (N.eq_dec k i) as [->|Hne].
          -- rewrite (at_wrs_in _ _ _ _ _ W) by (cbn; lia). replace (i - i) with 0 by lia. reflexivity.
          -- rewrite (at_wrs_out _ _ _ _ _ W) by (cbn; lia). apply Hpre. lia.
        * exists dest'. split; [exact E|]. split; [|exact C]. apply cap_wrs in W. congruence.
    - assert (i = size - 1) by lia. subst i.
      destruct (wrs_ok dest (size - 1) [NUL]) as [dest' W]; [cbn; lia|].
      unfold wr. rewrite W. exists dest'. split; [reflexivity|]. split; [now apply cap_wrs in W|].
      apply cstr_holds. split; [now apply nonul_takeN|]. rewrite len_takeN. replace (N.min (size - 1) (len d)) with (size - 1) by lia. split.
      * intros k Hk. rewrite (at_wrs_out _ _ _ _ _ W) by (cbn; lia). replace (0 + k) with k by lia.
        rewrite nthN_takeN by lia. now apply Hpre.
      * rewrite (at_wrs_in _ _ _ _ _ W) by (cbn; lia). replace (0 + (size - 1) - (size - 1)) with 0 by lia. reflexivity.
  Qed.

  Lemma strncpy0_safe dest src sp d size : cstr src sp = Ok d -> 1 <= size -> size <= cap dest ->
    exists dest', strncpy0 c dest src sp size = Ok dest' /\ cap dest' = cap dest /\ cstr dest' 0 = Ok (takeN (size - 1) d).
  Proof.
    intros Hd Hs Hc. unfold strncpy0.
    apply (strncpy0_loop_spec src sp d size Hd Hs); try lia.
    pose proof (cstr_bound _ _ _ Hd). unfold cap, len in *. lia.
  Qed.

  (** * strip_quotes *)
  Definition try_q (l : arr) (value : N) (v0 : byte) (n : N) (q : byte) : res (option (arr * N)) :=
    if beq v0 q then
      last <- rd l (sub64 (value + n) 1) ;;
      if beq last q then l' <- wr l (sub64 (value + n) 1) NUL ;; Ok (Some (l', value + 1)) else Ok None
    else Ok None.

  Lemma strip_quotes_eq l value : strip_quotes l value =
    v0 <- rd l value ;; n <- c_strlen l value ;;
    r1 <- try_q l value v0 n x22 ;;
    match r1 with
    | Some r => Ok r
    | None => r2 <- try_q l value v0 n x27 ;; match r2 with Some r => Ok r | None => Ok (l, value) end
    end.
  Proof. reflexivity. Qed.

  Lemma try_q_spec l value v q : cstr l value = Ok v -> q <> NUL ->
    try_q l value (nthN 0 v) (len v) q = Ok None \/
    exists l' v', try_q l value (nthN 0 v) (len v) q = Ok (Some (l', value + 1)) /\ cap l' = cap l /\
       cstr l' (value + 1) = Ok v' /\ 1 + len v' <= len v /\ (forall j, j < value -> at_ l' j = at_ l j).
  Proof.
    intros Hv Hq. unfold try_q. destruct (beq (nthN 0 v) q) eqn:E0; [|now left].
    apply beq_eq in E0.
    assert (H1 : 1 <= len v). { assert (H : nthN 0 v <> NUL) by congruence. apply nthN_nz_lt in H. lia. }
    rewrite sub64_le by lia. replace (value + len v - 1) with (value + (len v - 1)) by lia.
    rewrite (rd_in l value v (len v - 1) Hv) by lia. cbn [bind].
    destruct (beq (nthN (len v - 1) v) q); [|now left]. right.
    destruct (cstr_wr_nul l value v (value + (len v - 1)) Hv ltac:(lia)) as [l' [W [C1 [K C2]]]].
    rewrite W. cbn [bind].
    destruct (N.ltb_spec (value + (len v - 1)) (value + len v)) as [_|]; [|lia].
    assert (F : forall j, j < value -> at_ l' j = at_ l j).
    { intros j Hj. unfold wr in W. apply (at_wrs_out _ _ _ _ _ W). lia. }
    destruct (N.eq_dec (len v) 1) as [E1|E1].
    - exists l', (dropN (value + (len v - 1) - value + 1) v). split; [reflexivity|]. split; [exact K|]. split.
      + replace (value + 1) with (value + (len v - 1) + 1) by lia. exact C2.
      + split; [rewrite len_dropN; lia|exact F].
    - exists l', (dropN 1 (takeN (value + (len v - 1) - value) v)). split; [reflexivity|]. split; [exact K|]. split.
      + apply (cstr_suffix l' value _ 1 C1). rewrite len_takeN. lia.
      + split; [rewrite len_dropN, len_takeN; lia|exact F].
  Qed.

  Lemma strip_quotes_spec l value v : cstr l value = Ok v ->
    exists l' value' v', strip_quotes l value = Ok (l', value') /\ cap l' = cap l /\ cstr l' value' = Ok v' /\
      value <= value' /\ value' + len v' <= value + len v /\ (forall j, j < value -> at_ l' j = at_ l j).
  Proof.
    intros Hv. rewrite strip_quotes_eq. rewrite (rd_head _ _ _ Hv). cbn [bind].
    unfold c_strlen. rewrite Hv. cbn [bind].
    destruct (try_q_spec l value v x22 Hv ltac:(discriminate)) as [E|[l' [v' [E [K [C [L F]]]]]]]; rewrite E; cbn [bind].
    2:{ exists l', (value + 1), v'. split; [reflexivity|]. split; [exact K|]. split; [exact C|]. split; [lia|]. split; [lia|exact F]. }
    destruct (try_q_spec l value v x27 Hv ltac:(discriminate)) as [E'|[l' [v' [E' [K [C [L F]]]]]]]; rewrite E'; cbn [bind].
    2:{ exists l', (value + 1), v'. split; [reflexivity|]. split; [exact K|]. split; [exact C|]. split; [lia|]. split; [lia|exact F]. }
    exists l, value, v. split; [reflexivity|]. split; [reflexivity|]. split; [exact Hv|]. split; [lia|]. split; [lia|reflexivity].
  Qed.

  (** * process_line, cut into its blocks *)
  Variable handler : list byte -> list byte -> list byte -> bool.
  Definition bom_skip (line : arr) (lineno : N) : res N :=
    if s_ini_bom c && (lineno =? 1) then
      b0 <- rd line 0 ;;
      if beq b0 xef then b1 <- rd line 1 ;;
        if beq b1 xbb then b2 <- rd line 2 ;; if beq b2 xbf then Ok 3 else Ok 0
        else Ok 0
      else Ok 0
    else Ok 0.

  Definition sec_case (l1 : arr) (start lineno : N) (st : ini_state) : res (arr * ini_state) :=
    e <- find_chars_or_comment c l1 (start + 1) [x5d] ;;
    be <- rd l1 e ;;
    if beq be x5d then
      l2 <- wr l1 e NUL ;;
      sec' <- strncpy0 c (i_section st) l2 (start + 1) (s_ini_section_copy c) ;;
      pn' <- wr (i_prev st) 0 NUL ;;
      Ok (l2, {| i_section := sec'; i_prev := pn'; i_error := i_error st; i_calls := i_calls st |})
    else Ok (l1, set_error st lineno).

  Definition inline_cut (l3 : arr) (value : N) : res arr :=
    if s_ini_inline_comments c then
      e2 <- find_chars_or_comment c l3 value [] ;;
      b <- rd l3 e2 ;;
      if negb (beq b NUL) then wr l3 e2 NUL else Ok l3
    else Ok l3.

  Definition nv_case (l1 : arr) (start lineno : N) (st : ini_state) : res (arr * ini_state) :=
    e <- find_chars_or_comment c l1 start [x3d; x3a] ;;
    be <- rd l1 e ;;
    if beq be x3d || beq be x3a then
      l2 <- wr l1 e NUL ;;
      l3 <- rstrip l2 start ;;
      let value := e + 1 in
      l4 <- inline_cut l3 value ;;
      value1 <- lskip l4 value ;;
      l5 <- rstrip l4 value1 ;;
      q <- strip_quotes l5 value1 ;;
      let '(l6, value2) := q in
      pn' <- strncpy0 c (i_prev st) l6 start (s_ini_name_copy c) ;;
      sec <- cstr (i_section st) 0 ;; nm <- cstr l6 start ;; v <- cstr l6 value2 ;;
      Ok (l6, call_handler handler st lineno sec nm v pn')
    else Ok (l1, set_error st lineno).

  Lemma process_line_eq line lineno st : process_line c handler line lineno st =
    start0 <- bom_skip line lineno ;;
    l1 <- rstrip line start0 ;;
    start <- lskip l1 start0 ;;
    c0 <- rd l1 start ;;
    if beq c0 SEMI || beq c0 HASH || beq c0 NUL then Ok (l1, st) else
    pn0 <- rd (i_prev st) 0 ;;
    if s_ini_multiline c && negb (beq pn0 NUL) && (0 <? start) then
      sec <- cstr (i_section st) 0 ;; pn <- cstr (i_prev st) 0 ;; v <- cstr l1 start ;;
      Ok (l1, call_handler handler st lineno sec pn v (i_prev st))
    else if beq c0 x5b then sec_case l1 start lineno st else nv_case l1 start lineno st.
  Proof. reflexivity. Qed.

  Lemma bom_skip_spec line lineno d : cstr line 0 = Ok d -> exists s0, bom_skip line lineno = Ok s0 /\ s0 <= len d.
  Proof.
    intros Hd. unfold bom_skip.
    destruct (s_ini_bom c && (lineno =? 1)); [|exists 0; split; [reflexivity|lia]].
    rewrite (rd_head _ _ _ Hd). cbn [bind].
    destruct (beq (nthN 0 d) xef) eqn:E0; [|exists 0; split; [reflexivity|lia]].
    apply beq_eq in E0. assert (H0 : 0 < len d) by (apply nthN_nz_lt; rewrite E0; discriminate).
    change (rd line 1) with (rd line (0 + 1)). rewrite (rd_str line 0 d 1 Hd) by lia. cbn [bind].
    destruct (beq (nthN 1 d) xbb) eqn:E1; [|exists 0; split; [reflexivity|lia]].
    apply beq_eq in E1. assert (H1 : 1 < len d) by (apply nthN_nz_lt; rewrite E1; discriminate).
    change (rd line 2) with (rd line (0 + 2)). rewrite (rd_str line 0 d 2 Hd) by lia. cbn [bind].
    destruct (beq (nthN 2 d) xbf) eqn:E2; [|exists 0; split; [reflexivity|lia]].
    apply beq_eq in E2. assert (H2 : 2 < len d) by (apply nthN_nz_lt; rewrite E2; discriminate).
    exists 3. split; [reflexivity|lia].
  Qed.

  Lemma inline_cut_spec l value v : cstr l value = Ok v ->
    exists l' v', inline_cut l value = Ok l' /\ cap l' = cap l /\ cstr l' value = Ok v' /\ len v' <= len v /\
      (forall j, j < value -> at_ l' j = at_ l j).
  Proof.
    intros Hv. unfold inline_cut.
    assert (Same : exists l' v', Ok l = Ok l' /\ cap l' = cap l /\ cstr l' value = Ok v' /\ len v' <= len v /\
      (forall j, j < value -> at_ l' j = at_ l j)).
    { exists l, v. split; [reflexivity|]. split; [reflexivity|]. split; [exact Hv|]. split; [lia|reflexivity]. }
    destruct (s_ini_inline_comments c); [|exact Same].
    destruct (find_safe l value v [] Hv) as [k [E Hk]]. rewrite E. cbn [bind].
    rewrite (rd_str l value v k Hv Hk). cbn [bind].
    destruct (beq (nthN k v) NUL); cbn [negb]; [exact Same|].
    destruct (cstr_wr_nul l value v (value + k) Hv ltac:(lia)) as [l' [W [C1 [K _]]]].
    exists l', (takeN (value + k - value) v). split; [exact W|]. split; [exact K|]. split; [exact C1|].
    split; [rewrite len_takeN; lia|].
    intros j Hj. unfold wr in W. apply (at_wrs_out _ _ _ _ _ W). lia.
  Qed.

  (** what the state keeps between lines (the previous name is also shorter than a line:
      it is a prefix of a name taken from a line) *)
  Definition st_wf (st : ini_state) : Prop :=
    cap (i_section st) = s_ini_section_cap c /\ cap (i_prev st) = s_ini_name_cap c /\
    (exists s, cstr (i_section st) 0 = Ok s /\ len s < s_ini_section_copy c) /\
    (exists s, cstr (i_prev st) 0 = Ok s /\ len s < s_ini_name_copy c /\ len s < s_ini_max_line c).
  Definition call_ok (t : list byte * list byte * list byte) : Prop :=
    let '(s, n, v) := t in nonul s /\ nonul n /\ nonul v /\ len v + 2 <= s_ini_max_line c /\ len n < s_ini_max_line c /\ len s < s_ini_section_copy c.

  Lemma sec_case_spec l1 start lineno st ds : cstr l1 start = Ok ds -> 1 <= len ds ->
    st_wf st -> Forall call_ok (i_calls st) ->
    exists l' st', sec_case l1 start lineno st = Ok (l', st') /\ cap l' = cap l1 /\ st_wf st' /\ Forall call_ok (i_calls st').
  Proof.
    intros Hds H1 Hwf Hcalls. unfold sec_case.
    destruct ok_ini as [_ [Hml [_ [Hsc1 [Hsc2 [Hnc1 [Hnc2 _]]]]]]].
    pose proof (cstr_suffix l1 start ds 1 Hds H1) as Hs.
    destruct (find_safe l1 (start + 1) _ [x5d] Hs) as [k [Ef Hk]]. rewrite Ef. cbn [bind].
    rewrite (rd_str l1 (start + 1) _ k Hs Hk). cbn [bind].
    destruct (beq (nthN k (dropN 1 ds)) x5d).
    2:{ exists l1, (set_error st lineno). split; [reflexivity|]. split; [reflexivity|]. split; [exact Hwf|exact Hcalls]. }
    destruct (cstr_wr_nul l1 (start + 1) _ (start + 1 + k) Hs ltac:(lia)) as [l2 [W2 [C2 [K2 _]]]].
    rewrite W2. cbn [bind].
    destruct Hwf as [Wc1 [Wc2 [[s1 [Ws1 Wl1]] [s2 [Ws2 [Wl2 Wl3]]]]]].
    destruct (strncpy0_safe (i_section st) l2 (start + 1) _ (s_ini_section_copy c) C2 Hsc1 ltac:(lia)) as [sec' [Es [Ks Cs]]].
    rewrite Es. cbn [bind].
    destruct (cstr_wr_nul (i_prev st) 0 s2 0 Ws2 ltac:(lia)) as [pn' [Wp [Cp [Kp _]]]].
    rewrite Wp. cbn [bind].
    eexists; eexists. split; [reflexivity|]. split; [exact K2|]. split; [|exact Hcalls].
    unfold st_wf. cbn [i_section i_prev]. split; [congruence|]. split; [congruence|]. split.
    - eexists. split; [exact Cs|]. rewrite len_takeN. lia.
    - eexists. split; [exact Cp|]. rewrite len_takeN. lia.
  Qed.

  Lemma nv_case_spec l1 start lineno st ds L : cstr l1 start = Ok ds -> start + len ds <= L -> L < s_ini_max_line c ->
    st_wf st -> Forall call_ok (i_calls st) ->
    exists l' st', nv_case l1 start lineno st = Ok (l', st') /\ cap l' = cap l1 /\ st_wf st' /\ Forall call_ok (i_calls st').
  Proof.
    intros Hds HL HLm Hwf Hcalls. unfold nv_case.
    destruct ok_ini as [_ [Hml [_ [Hsc1 [Hsc2 [Hnc1 [Hnc2 _]]]]]]].
    destruct (find_safe l1 start ds [x3d; x3a] Hds) as [k [Ef Hk]]. rewrite Ef. cbn [bind].
    rewrite (rd_str l1 start ds k Hds Hk). cbn [bind].
    destruct (beq (nthN k ds) x3d || beq (nthN k ds) x3a) eqn:Ebe.
    2:{ exists l1, (set_error st lineno). split; [reflexivity|]. split; [reflexivity|]. split; [exact Hwf|exact Hcalls]. }
    assert (Hk' : k < len ds).
    { apply nthN_nz_lt. apply orb_true_iff in Ebe as [E|E]; apply beq_eq in E; rewrite E; discriminate. }
    destruct (cstr_wr_nul l1 start ds (start + k) Hds ltac:(lia)) as [l2 [W2 [C2 [K2 C2']]]].
    rewrite W2. cbn [bind].
    destruct (N.ltb_spec (start + k) (start + len ds)) as [_|]; [|lia].
    replace (start + k - start) with k in C2, C2' by lia.
    destruct (rstrip_spec l2 start _ C2) as [l3 [dn [E3 [K3 [C3 [L3 F3]]]]]].
    rewrite E3. cbn [bind]. cbv zeta.
    rewrite len_takeN in L3, F3.
    assert (C3v : cstr l3 (start + k + 1) = Ok (dropN (k + 1) ds)).
    { rewrite <- C2'. apply cstr_ext. intros j Hj. apply F3. lia. }
    destruct (inline_cut_spec l3 (start + k + 1) _ C3v) as [l4 [v4 [E4 [K4 [C4 [L4 F4]]]]]].
    rewrite E4. cbn [bind]. rewrite len_dropN in L4.
    pose proof (cstr_frame l3 l4 start dn (start + k + 1) C3 ltac:(lia) F4) as N4.
    destruct (lskip_safe l4 (start + k + 1) v4 C4) as [k5 [E5 Hk5]]. rewrite E5. cbn [bind].
    pose proof (cstr_suffix l4 (start + k + 1) v4 k5 C4 Hk5) as C4'.
    destruct (rstrip_spec l4 (start + k + 1 + k5) _ C4') as [l5 [v5 [E6 [K5 [C5 [L5 F5]]]]]].
    rewrite E6. cbn [bind]. rewrite len_dropN in L5, F5.
    pose proof (cstr_frame l4 l5 start dn (start + k + 1 + k5) N4 ltac:(lia) ltac:(intros j Hj; apply F5; lia)) as N5.
    destruct (strip_quotes_spec l5 (start + k + 1 + k5) v5 C5) as [l6 [value2 [v6 [E7 [K6 [C6 [Hv1 [Hv2 F6]]]]]]]].
    rewrite E7. cbn [bind].
    pose proof (cstr_frame l5 l6 start dn (start + k + 1 + k5) N5 ltac:(lia) F6) as N6.
    destruct Hwf as [Wc1 [Wc2 [[s1 [Ws1 Wl1]] [s2 [Ws2 [Wl2 Wl3]]]]]].
    destruct (strncpy0_safe (i_prev st) l6 start dn (s_ini_name_copy c) N6 Hnc1 ltac:(lia)) as [pn' [Ep [Kp Cp]]].
    rewrite Ep. cbn [bind]. rewrite Ws1. cbn [bind]. rewrite N6. cbn [bind]. rewrite C6. cbn [bind].
    eexists; eexists. split; [reflexivity|]. split; [congruence|]. split.
    - unfold st_wf, call_handler. cbn [i_section i_prev]. split; [exact Wc1|]. split; [congruence|]. split.
      + eexists. split; [exact Ws1|exact Wl1].
      + eexists. split; [exact Cp|]. rewrite len_takeN. lia.
    - unfold call_handler. cbn [i_calls]. constructor; [|exact Hcalls].
      unfold call_ok. split; [exact (cstr_nonul _ _ _ Ws1)|]. split; [exact (cstr_nonul _ _ _ N6)|].
      split; [exact (cstr_nonul _ _ _ C6)|]. lia.
  Qed.

  Theorem process_line_safe : forall line lineno st d, cap line = s_ini_line_cap c -> cstr line 0 = Ok d -> len d < s_ini_max_line c ->
    st_wf st -> Forall call_ok (i_calls st) ->
    exists line' st', process_line c handler line lineno st = Ok (line', st') /\ cap line' = cap line /\ st_wf st' /\ Forall call_ok (i_calls st').
  Proof.
    intros line lineno st d Hcap Hd HL Hwf Hcalls. rewrite process_line_eq.
    destruct (bom_skip_spec line lineno d Hd) as [s0 [E0 H0]]. rewrite E0. cbn [bind].
    pose proof (cstr_suffix line 0 d s0 Hd H0) as Hd0. replace (0 + s0) with s0 in Hd0 by lia.
    destruct (rstrip_spec line s0 _ Hd0) as [l1 [d1 [E1 [K1 [C1 [L1 _]]]]]].
    rewrite E1. cbn [bind]. rewrite len_dropN in L1.
    destruct (lskip_safe l1 s0 d1 C1) as [k [E2 Hk]]. rewrite E2. cbn [bind].
    pose proof (cstr_suffix l1 s0 d1 k C1 Hk) as Hds.
    assert (HLs : s0 + k + len (dropN k d1) <= len d) by (rewrite len_dropN; lia).
    revert Hds HLs. generalize (dropN k d1) (s0 + k). intros ds start Hds HLs.
    rewrite (rd_head _ _ _ Hds). cbn [bind].
    destruct (beq (nthN 0 ds) SEMI || beq (nthN 0 ds) HASH || beq (nthN 0 ds) NUL) eqn:Ec.
    { exists l1, st. split; [reflexivity|]. split; [exact K1|]. split; [exact Hwf|exact Hcalls]. }
    assert (H1 : 1 <= len ds).
    { apply orb_false_iff in Ec as [_ Ec]. apply beq_neq, nthN_nz_lt in Ec. lia. }
    pose proof Hwf as [Wc1 [Wc2 [[s1 [Ws1 Wl1]] [s2 [Ws2 [Wl2 Wl3]]]]]].
    rewrite (rd_head _ _ _ Ws2). cbn [bind].
    destruct (s_ini_multiline c && negb (beq (nthN 0 s2) NUL) && (0 <? start)) eqn:Em.
    { apply andb_true_iff in Em as [_ Em]. apply N.ltb_lt in Em.
      rewrite Ws1. cbn [bind]. rewrite Ws2. cbn [bind]. rewrite Hds. cbn [bind].
      eexists; eexists. split; [reflexivity|]. split; [exact K1|]. split; [exact Hwf|].
      unfold call_handler. cbn [i_calls]. constructor; [|exact Hcalls].
      unfold call_ok. split; [exact (cstr_nonul _ _ _ Ws1)|]. split; [exact (cstr_nonul _ _ _ Ws2)|].
      split; [exact (cstr_nonul _ _ _ Hds)|]. lia. }
    destruct (beq (nthN 0 ds) x5b).
    - destruct (sec_case_spec l1 start lineno st ds Hds H1 Hwf Hcalls) as [l' [st' [E [K [W F]]]]].
      exists l', st'. split; [exact E|]. split; [congruence|]. split; assumption.
    - destruct (nv_case_spec l1 start lineno st ds (len d) Hds HLs HL Hwf Hcalls) as [l' [st' [E [K [W F]]]]].
      exists l', st'. split; [exact E|]. split; [congruence|]. split; assumption.
  Qed.

  (** * fgets and the line loop *)
  Lemma fgets_spec n rest : 2 <= n ->
    match fgets n rest with
    | None => rest = []
    | Some (chunk, rest') => len chunk <= n - 1 /\ (length rest' < length rest)%nat
    end.
  Proof.
    intros Hn. destruct rest as [|b r]; [reflexivity|]. unfold fgets. cbv zeta.
    generalize (index NL (b :: r)). intros o.
    assert (Hu : 1 <= match o with Some k => N.of_nat k + 1 | None => len (b :: r) end).
    { destruct o; [lia|rewrite len_cons; lia]. }
    revert Hu. generalize (match o with Some k => N.of_nat k + 1 | None => len (b :: r) end). intros upto Hu.
    split; [rewrite len_takeN; lia|]. unfold dropN. rewrite skipn_length. cbn [length]. lia.
  Qed.

  (** the C string at the start of [chunk ++ [NUL]] is the part of the chunk before its first NUL byte *)
  Lemma chunk_split (chunk : list byte) : exists d t, chunk ++ [NUL] = d ++ NUL :: t /\ nonul d /\ len d <= len chunk.
  Proof.
    induction chunk as [|b ch IH].
    - exists [], []. split; [reflexivity|]. split; [intros []|unfold len; cbn [length]; lia].
    - destruct IH as [d [t [E [Hn Hl]]]]. destruct (beq b NUL) eqn:Eb.
      + apply beq_eq in Eb. subst b. exists [], (ch ++ [NUL]). split; [reflexivity|]. split; [intros []|unfold len; cbn [length]; lia].
      + apply beq_neq in Eb. exists (b :: d), t. split; [cbn [app]; now rewrite E|]. split.
        * intros [F|F]; [congruence|contradiction].
        * rewrite !len_cons. lia.
  Qed.

  Lemma ini_lines_safe : forall fuel line rest lineno st, (length rest < fuel)%nat -> cap line = s_ini_line_cap c ->
    st_wf st -> Forall call_ok (i_calls st) ->
    exists st', ini_lines c handler fuel line rest lineno st = Ok st' /\ Forall call_ok (i_calls st').
  Proof.
    destruct ok_ini as [_ [Hml [Hlc _]]].
    induction fuel as [|f IH]; intros line rest lineno st Hf Hcap Hwf Hcalls; [lia|].
    cbn [ini_lines]. pose proof (fgets_spec (s_ini_max_line c) rest Hml) as G.
    destruct (fgets (s_ini_max_line c) rest) as [[chunk rest']|].
    2:{ exists st. split; [reflexivity|exact Hcalls]. }
    destruct G as [G1 G2].
    destruct (wrs_ok line 0 (chunk ++ [NUL])) as [line1 W]; [rewrite len_app; cbn; lia|].
    rewrite W. cbn [bind].
    destruct (chunk_split chunk) as [d [t [Es [Hn Hl]]]].
    pose proof W as W'. rewrite Es in W'. pose proof (cstr_wrs_here _ _ _ _ _ W' Hn) as Hd.
    apply cap_wrs in W.
    destruct (process_line_safe line1 (lineno + 1) st d ltac:(congruence) Hd ltac:(lia) Hwf Hcalls) as [line2 [st' [E [K [Hwf' Hcalls']]]]].
    rewrite E. cbn [bind].
    apply IH; [lia|congruence|exact Hwf'|exact Hcalls'].
  Qed.

  Theorem ini_parse_safe : forall file,
    exists st, ini_parse c handler file = Ok st /\ Forall call_ok (i_calls st).
  Proof.
    intros file. unfold ini_parse. destruct ok_ini as [_ [Hml [_ [Hsc1 [Hsc2 [Hnc1 [Hnc2 _]]]]]]].
    apply ini_lines_safe; [lia|apply cap_fresh| |constructor].
    unfold st_wf. cbn [i_section i_prev]. split; [apply cap_zeroed|]. split; [apply cap_zeroed|]. split.
    - exists []. split; [apply cstr_zeroed; lia|cbn; lia].
    - exists []. split; [apply cstr_zeroed; lia|cbn; lia].
  Qed.
End P_Ini.

Print Assumptions rstrip_safe.
Print Assumptions lskip_safe.
Print Assumptions find_safe.
Print Assumptions strncpy0_safe.
Print Assumptions strip_quotes_spec.
Print Assumptions process_line_safe.
Print Assumptions ini_parse_safe.
