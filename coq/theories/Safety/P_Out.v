(** Safety proofs for Safety/Out.v: the error.c call cycle, socketoutput.c / devlogoutput.c /
    fileoutput.c buffer arithmetic, and the read loop of util/file.c. *)
From Snoopy Require Import Lib.CStr Safety.Mem Safety.CLib Safety.Consts Safety.Out Safety.Lits.
From Coq Require Import ZifyBool ZifyN ZifyNat.
Local Open Scope N_scope.

(** * lemmas that do not depend on the constants *)

(** a cell holds a determinate byte *)
Definition det (a : arr) (j : N) : Prop := exists b, at_ a j = Some (Some b).

Lemma rd_det a j : det a j -> exists b, rd a j = Ok b.
Proof. intros [b H]. exists b. unfold rd. now rewrite H. Qed.
Lemma det_wrs a off bs a' j : wrs a off bs = Ok a' -> det a j -> det a' j.
Proof.
  intros W [b H]. unfold det. rewrite (at_wrs _ _ _ _ j W).
  destruct ((off <=? j) && (j <? off + len bs)); eauto.
Qed.
Lemma det_wrs_in a off bs a' j : wrs a off bs = Ok a' -> off <= j < off + len bs -> det a' j.
Proof. intros W H. unfold det. rewrite (at_wrs_in _ _ _ _ _ W H). eauto. Qed.

Lemma cstr_cons a p b s : at_ a p = Some (Some b) -> b <> NUL -> cstr a (p + 1) = Ok s -> cstr a p = Ok (b :: s).
Proof.
  intros H Hb Hs. apply cstr_holds in Hs as [Hn [H1 H2]]. apply cstr_holds. split; [|split].
  - intros [F|F]; [now apply Hb|now apply Hn].
  - intros k Hk. rewrite len_cons in Hk. destruct (N.eq_dec k 0) as [->|Hne].
    + rewrite N.add_0_r. exact H.
    + replace (p + k) with (p + 1 + (k - 1)) by lia. rewrite H1 by lia. do 2 f_equal.
      unfold nthN. replace (N.to_nat k) with (S (N.to_nat (k - 1))) by lia. reflexivity.
  - rewrite len_cons. replace (p + (len s + 1)) with (p + 1 + len s) by lia. exact H2.
Qed.

Lemma cstr_nil a p : at_ a p = Some (Some NUL) -> cstr a p = Ok [].
Proof.
  intros H. apply cstr_holds. split; [intros []|split].
  - intros k Hk. rewrite len_nil in Hk. lia.
  - rewrite len_nil, N.add_0_r. exact H.
Qed.

(** determinate cells up to a NUL: there is a string, and it ends at or before that NUL *)
Lemma cstr_det a n : (forall j, j < n -> det a j) -> at_ a n = Some (Some NUL) ->
  forall m p, p + N.of_nat m = n -> exists s, cstr a p = Ok s /\ len s <= N.of_nat m.
Proof.
  intros Hd Hn. induction m as [|m IH]; intros p Hp.
  - exists []. split; [|rewrite len_nil; lia]. apply cstr_nil. now replace p with n by lia.
  - destruct (Hd p ltac:(lia)) as [b Hb]. destruct (beq b NUL) eqn:E.
    + apply beq_eq in E. subst b. exists []. split; [now apply cstr_nil|rewrite len_nil; lia].
    + apply beq_neq in E. destruct (IH (p + 1) ltac:(lia)) as [s [Hs Hl]].
      exists (b :: s). split; [now apply cstr_cons|rewrite len_cons; lia].
Qed.

Lemma cstr_zeroed n : 1 <= n -> cstr (zeroed n) 0 = Ok [].
Proof. intros H. apply cstr_nil. apply at_zeroed. lia. Qed.

(** decimal rendering yields digits only *)
Lemma digit_byte_nonul d : d < 10 -> digit_byte d <> NUL.
Proof.
  intros H.
  assert (E : d = 0 \/ d = 1 \/ d = 2 \/ d = 3 \/ d = 4 \/ d = 5 \/ d = 6 \/ d = 7 \/ d = 8 \/ d = 9) by lia.
  repeat (destruct E as [->|E]; [vm_compute; discriminate|]). subst d. vm_compute. discriminate.
Qed.
Lemma nonul_dec_aux : forall fuel n acc, nonul acc -> nonul (dec_aux fuel n acc).
Proof.
  induction fuel as [|f IH]; intros n acc Ha; cbn [dec_aux]; [assumption|].
  assert (Hc : nonul (digit_byte (n mod 10) :: acc)).
  { intros [F|F]; [|contradiction]. revert F. apply digit_byte_nonul. apply N.mod_lt. lia. }
  destruct (n <? 10); [assumption|now apply IH].
Qed.
Lemma nonul_dec n : nonul (dec n).
Proof. unfold dec. apply nonul_dec_aux. intros []. Qed.

(** * error.c: facts that hold for every record of constants *)
(** the three buffer operations of the handler, for any record with a non-empty buffer and any message *)
Lemma err_buf_ops (c0 : safety_consts) msg : 1 <= s_err_buf c0 ->
  exists b0 r x, wr (fresh (s_err_buf c0)) 0 NUL = Ok b0
    /\ c_snprintf b0 0 (s_err_buf c0) (lit_snoopy_error ++ msg) = Ok r
    /\ wr (fst r) (sub64 (s_err_buf c0) 1) NUL = Ok x.
Proof.
  intros H1. unfold wr.
  destruct (wrs_ok (fresh (s_err_buf c0)) 0 [NUL]) as [b0 E0]; [rewrite cap_fresh; cbn; lia|].
  pose proof (cap_wrs _ _ _ _ E0) as K0. rewrite cap_fresh in K0.
  exists b0. unfold c_snprintf. destruct (N.eqb_spec (s_err_buf c0) 0); [lia|].
  destruct (wrs_ok b0 0 (takeS (s_err_buf c0 - 1) (lit_snoopy_error ++ msg) ++ [NUL])) as [b1 E1].
  { rewrite len_app, takeS_eq, len_takeN. cbn. lia. }
  pose proof (cap_wrs _ _ _ _ E1) as K1.
  rewrite E1. cbn [bind]. eexists. rewrite sub64_le by lia. cbn [fst].
  destruct (wrs_ok b1 (s_err_buf c0 - 1) [NUL]) as [x Ex]; [cbn; lia|].
  exists x. auto.
Qed.

(** without the guard the cycle is unbounded: whatever nesting depth is granted, one refused append
    per message exhausts it (documentation of D9) *)
Theorem error_cycle_unguarded_refuted : forall c', s_err_guard c' = false -> 1 <= s_err_buf c' ->
  forall depth msg, msg <> [] -> handler c' (fun _ => 1) depth true msg = Fault Out_of_fuel.
Proof.
  intros c' Hg Hb. induction depth as [|d IH]; intros msg Hm; [reflexivity|].
  cbn [handler negb].
  destruct (err_buf_ops c' msg Hb) as [b0 [r [x [E1 [E2 E3]]]]].
  rewrite E1. cbn [bind]. rewrite E2. cbn [bind]. rewrite E3. cbn [bind].
  rewrite Hg. destruct msg as [|m0 msg']; [congruence|].
  change (N.to_nat 1) with 1%nat. cbn [bind].
  rewrite IH; [reflexivity|discriminate].
Qed.

Section P_Out.
  Variable c : safety_consts.
  Hypothesis Hok : safety_consts_ok c = true.

  Ltac okf := pose proof Hok as Hk; unfold safety_consts_ok in Hk; repeat (apply andb_true_iff in Hk as [Hk ?]).

  Lemma ok_err_guard : s_err_guard c = true.  Proof. okf. assumption. Qed.
  Lemma ok_err_buf : 1 <= s_err_buf c.  Proof. okf. apply N.leb_le. assumption. Qed.
  Lemma ok_ident_buf : 1 <= s_ident_buf c.  Proof. okf. apply N.leb_le. assumption. Qed.
  Lemma ok_path_max : 1 <= s_path_max c.  Proof. okf. apply N.leb_le. assumption. Qed.
  Lemma ok_sock : s_sock_path_size c < s_sun_path_cap c.  Proof. okf. apply N.ltb_lt. assumption. Qed.
  Lemma ok_fread : 1 <= s_file_fread c.  Proof. okf. apply N.leb_le. assumption. Qed.
  Lemma ok_file_mod : s_file_max c mod s_file_fread c = 0.  Proof. okf. apply N.eqb_eq. assumption. Qed.
  Lemma ok_file_max : 1 <= s_file_max c.  Proof. okf. apply N.leb_le. assumption. Qed.
  Lemma ok_file_err : 1 <= s_file_err_max c.  Proof. okf. apply N.leb_le. assumption. Qed.

  (** * error.c *)
  Section ErrorCycle.
  Variable nref : list byte -> N.

  Lemma handler_false d msg : handler c nref (S d) false msg = Ok false.
  Proof. reflexivity. Qed.

  (** depth 2 already suffices under the guard: the nested calls return at once *)
  Lemma handler_true d msg : (1 <= d)%nat -> handler c nref (S d) true msg = Ok true.
  Proof.
    intros Hd. destruct d as [|d']; [lia|]. cbn [handler negb].
    destruct (err_buf_ops c msg ok_err_buf) as [b0 [r [x [E1 [E2 E3]]]]].
    rewrite E1. cbn [bind]. rewrite E2. cbn [bind]. rewrite E3. cbn [bind].
    rewrite ok_err_guard.
    destruct msg as [|m0 msg']; [reflexivity|].
    generalize (N.to_nat (nref (m0 :: msg'))). intros n.
    induction n as [|n IH]; [reflexivity|].
    cbn [negb bind]. exact IH.
  Qed.

  (** sharper than asked: nesting depth 2 suffices (the nested calls find logging switched off) *)
  Theorem error_dispatch_terminates_depth2 : forall depth en msg, (2 <= depth)%nat ->
    exists r, handler c nref depth en msg = Ok r /\ r = en.
  Proof.
    intros depth en msg Hd. destruct depth as [|d]; [lia|]. exists en. split; [|reflexivity].
    destruct en; [apply handler_true; lia|apply handler_false].
  Qed.

  Theorem error_dispatch_terminates : forall depth en msg, (4 <= depth)%nat -> nonul msg ->
    exists r, handler c nref depth en msg = Ok r /\ r = en.
  Proof. intros depth en msg Hd _. apply error_dispatch_terminates_depth2. lia. Qed.
  End ErrorCycle.

  (** * socketoutput.c *)
  Lemma strnlen_loop_ok a p n : (forall j, j < n -> det a (p + j)) ->
    forall fuel i, i <= n -> exists r, strnlen_loop fuel a p i n = Ok r /\ r <= n.
  Proof.
    intros Hd. induction fuel as [|f IH]; intros i Hi; cbn [strnlen_loop]; [eauto|].
    destruct (N.leb_spec n i); [eauto|].
    destruct (rd_det _ _ (Hd i ltac:(lia))) as [b Hb]. rewrite Hb. cbn [bind].
    destruct (beq b NUL); [eauto|]. apply IH. lia.
  Qed.

  Theorem socket_addr_safe : forall arg, nonul arg -> exists n, socket_addr c arg = Ok n /\ n <= s_sock_path_size c + 2.
  Proof.
    intros arg _. unfold socket_addr. pose proof ok_sock as Hs.
    set (P := s_sock_path_size c) in *.
    assert (S1 : exists sp1, c_strncpy (fresh (s_sun_path_cap c)) 0 arg P = Ok sp1 /\ cap sp1 = s_sun_path_cap c
                             /\ forall j, j < P -> det sp1 j).
    { unfold c_strncpy. rewrite cap_fresh. destruct (N.leb_spec (0 + P) (s_sun_path_cap c)); [|lia].
      assert (L : len (takeS P arg ++ zeros (P - len arg)) = P) by (rewrite len_app, takeS_eq, len_takeN, len_zeros; lia).
      destruct (wrs_ok (fresh (s_sun_path_cap c)) 0 (takeS P arg ++ zeros (P - len arg))) as [sp1 E]; [rewrite cap_fresh; lia|].
      exists sp1. split; [assumption|]. split; [rewrite (cap_wrs _ _ _ _ E); apply cap_fresh|].
      intros j Hj. apply (det_wrs_in _ _ _ _ _ E). lia. }
    destruct S1 as [sp1 [E1 [K1 D1]]]. rewrite E1. cbn [bind].
    assert (S2 : exists sp2, (if P <? len arg then wr sp1 P NUL else Ok sp1) = Ok sp2 /\ forall j, j < P -> det sp2 j).
    { destruct (P <? len arg); [|eauto]. unfold wr.
      destruct (wrs_ok sp1 P [NUL]) as [sp2 E]; [cbn; lia|]. exists sp2. split; [assumption|].
      intros j Hj. apply (det_wrs _ _ _ _ _ E). now apply D1. }
    destruct S2 as [sp2 [E2 D2]]. rewrite E2. cbn [bind]. unfold c_strnlen.
    destruct (strnlen_loop_ok sp2 0 P D2 (N.to_nat P) 0) as [r [Er Hr]]; [lia|].
    rewrite Er. cbn [bind]. exists (r + 2). split; [reflexivity|lia].
  Qed.

  (** * util/file.c *)
  Lemma read_loop_ok : forall fuel a total rest limits q,
    cap a = s_file_max c -> total = q * s_file_fread c -> total <= s_file_max c ->
    det a 0 -> (forall j, j < total -> det a j) ->
    (N.to_nat (s_file_max c - total) < fuel)%nat ->
    exists a' t, read_loop c fuel a total rest limits = Ok (a', t) /\ cap a' = s_file_max c /\ t <= s_file_max c
                 /\ det a' 0 /\ (forall j, j < t -> det a' j).
  Proof.
    pose proof ok_fread as Hf. pose proof ok_file_mod as Hm.
    apply N.mod_divides in Hm; [|lia]. destruct Hm as [Q HQ]. rewrite N.mul_comm in HQ.
    induction fuel as [|f IH]; intros a total rest limits q Hc Hq Hle D0 Dt Hfuel; [lia|].
    cbn [read_loop]. destruct (N.ltb_spec total (s_file_max c)) as [Hlt|Hge].
    2:{ exists a, total. auto. }
    set (lim := match limits with l :: _ => l | [] => s_file_fread c end).
    set (k := N.min (N.min (s_file_fread c) (len rest)) lim).
    assert (Hroom : total + s_file_fread c <= s_file_max c).
    { rewrite Hq, HQ in Hlt. apply N.mul_lt_mono_pos_r in Hlt; [|lia].
      assert ((q + 1) * s_file_fread c <= Q * s_file_fread c) by (apply N.mul_le_mono_r; lia). lia. }
    assert (Lk : len (takeN k rest) = k) by (rewrite len_takeN; lia).
    destruct (wrs_ok a total (takeN k rest)) as [a1 E1]; [lia|]. rewrite E1. cbn [bind].
    pose proof (cap_wrs _ _ _ _ E1) as K1.
    assert (D0' : det a1 0) by (now apply (det_wrs _ _ _ _ _ E1)).
    assert (Dt' : forall j, j < total + k -> det a1 j).
    { intros j Hj. destruct (N.lt_ge_cases j total); [apply (det_wrs _ _ _ _ _ E1); now apply Dt|].
      apply (det_wrs_in _ _ _ _ _ E1). lia. }
    destruct (N.ltb_spec k (s_file_fread c)) as [Hk|Hk].
    - exists a1, (total + k). repeat split; try assumption; lia.
    - assert (Ek : k = s_file_fread c) by lia.
      apply (IH a1 (total + k) _ _ (q + 1)); try assumption; lia.
  Qed.

  Theorem small_file_safe : forall content limits tl, nonul tl ->
    exists s ok, small_file c content limits tl = Ok (s, ok) /\ len s < N.max (s_file_max c) (s_file_err_max c).
  Proof.
    intros content limits tl Htl. unfold small_file.
    pose proof ok_file_max as HM. pose proof ok_file_err as HE.
    unfold wr at 1. destruct (wrs_ok (fresh (s_file_max c)) 0 [NUL]) as [a0 E0]; [rewrite cap_fresh; cbn; lia|].
    rewrite E0. cbn [bind].
    pose proof (cap_wrs _ _ _ _ E0) as K0. rewrite cap_fresh in K0.
    assert (D0 : det a0 0) by (apply (det_wrs_in _ _ _ _ _ E0); cbn; lia).
    destruct (read_loop_ok (S (N.to_nat (s_file_max c))) a0 0 content limits 0) as [a1 [total [ER [K1 [Ht [D1 Dt]]]]]];
      try assumption; try lia.
    rewrite ER. cbn [bind].
    destruct (N.leb_spec (s_file_max c) total) as [Hbig|Hsmall].
    - destruct (c_snprintf_ok (fresh (s_file_err_max c)) 0 (s_file_err_max c) tl) as [e0 Ee]; [lia|rewrite cap_fresh; lia|].
      rewrite Ee. cbn [bind fst]. rewrite sub64_le by lia.
      destruct (c_snprintf_spec _ _ _ _ _ _ Ee HE Htl) as [_ [Cs Ke]]. rewrite cap_fresh in Ke.
      set (d := takeN (s_file_err_max c - 1) tl) in *.
      assert (Ld : len d <= s_file_err_max c - 1) by (unfold d; rewrite len_takeN; lia).
      destruct (N.eq_dec (len d) (s_file_err_max c - 1)) as [Heq|Hne].
      + destruct (cstr_wr_nul e0 0 d (s_file_err_max c - 1) Cs) as [e1 [W [C1 _]]]; [lia|].
        rewrite W. cbn [bind]. rewrite C1. cbn [bind]. eexists _, _. split; [reflexivity|].
        rewrite len_takeN. lia.
      + unfold wr. destruct (wrs_ok e0 (s_file_err_max c - 1) [NUL]) as [e1 W]; [cbn; lia|].
        rewrite W. cbn [bind]. rewrite (cstr_wrs_frame _ _ _ _ _ _ Cs W) by lia. cbn [bind].
        eexists _, _. split; [reflexivity|]. lia.
    - assert (W : exists a2, (if total <? s_file_max c - 1 then wr a1 total NUL else wr a1 (s_file_max c - 1) NUL) = Ok a2
                             /\ at_ a2 total = Some (Some NUL) /\ forall j, j < total -> det a2 j).
      { assert (Ei : (if total <? s_file_max c - 1 then wr a1 total NUL else wr a1 (s_file_max c - 1) NUL) = wr a1 total NUL).
        { destruct (N.ltb_spec total (s_file_max c - 1)); [reflexivity|]. f_equal. lia. }
        rewrite Ei. unfold wr. destruct (wrs_ok a1 total [NUL]) as [a2 E2]; [cbn; lia|].
        exists a2. split; [assumption|]. split.
        - rewrite (at_wrs_in _ _ _ _ _ E2) by (cbn; lia). replace (total - total) with 0 by lia. reflexivity.
        - intros j Hj. apply (det_wrs _ _ _ _ _ E2). now apply Dt. }
      destruct W as [a2 [E2 [A2 D2]]]. rewrite E2. cbn [bind].
      destruct (cstr_det a2 total D2 A2 (N.to_nat total) 0) as [s [Cs Ls]]; [lia|].
      rewrite Cs. cbn [bind]. eexists _, _. split; [reflexivity|]. lia.
  Qed.

  (** * outputs that expand a template *)
  Variable gen : arr -> N -> N -> list byte -> res arr.
  (** the formatter is only needed at the two sizes these outputs pass (both sizes = the buffer's own size) *)
  Hypothesis gen_ok : forall a bs th fmt, (bs = s_ident_buf c \/ bs = s_path_max c) -> th = bs ->
    (exists s0, cstr a 0 = Ok s0 /\ len s0 < bs) -> 1 <= bs -> bs <= cap a -> 1 <= th -> nonul fmt ->
    exists a' s, gen a bs th fmt = Ok a' /\ cap a' = cap a /\ cstr a' 0 = Ok s /\ len s < bs.

  Lemma gen_zeroed n fmt : (n = s_ident_buf c \/ n = s_path_max c) -> 1 <= n -> nonul fmt ->
    exists a' s, gen (zeroed n) n n fmt = Ok a' /\ cstr a' 0 = Ok s /\ len s < n.
  Proof.
    intros Hwhich Hn Hf. destruct (gen_ok (zeroed n) n n fmt Hwhich eq_refl) as [a' [s [E [_ [Cs Ls]]]]]; try assumption.
    - exists []. split; [now apply cstr_zeroed|rewrite len_nil; lia].
    - rewrite cap_zeroed. lia.
    - eauto.
  Qed.

  Lemma nonul_lit_devlog : nonul lit_devlog.  Proof. apply nonulb_spec. reflexivity. Qed.

  Theorem devlog_safe : forall msg ident_fmt pri pid, nonul msg -> nonul ident_fmt ->
    exists r, devlog_datagram c gen msg ident_fmt pri pid = Ok r.
  Proof.
    intros msg ident_fmt pri pid Hm Hf. unfold devlog_datagram.
    destruct msg as [|m0 msg']; [eauto|]. set (msg := m0 :: msg') in *.
    pose proof ok_ident_buf as HI.
    destruct (gen_zeroed (s_ident_buf c) ident_fmt (or_introl eq_refl) HI Hf) as [i1 [ident [Eg [Ci Li]]]].
    rewrite Eg. cbn [bind]. rewrite Ci. cbn [bind].
    pose proof (cstr_nonul _ _ _ Ci) as Ni.
    set (size := len msg + s_ident_buf c + s_devlog_extra c).
    unfold wr. destruct (wrs_ok (fresh size) 0 [NUL]) as [b0 E0]; [rewrite cap_fresh; cbn; lia|].
    rewrite E0. cbn [bind]. pose proof (cap_wrs _ _ _ _ E0) as K0. rewrite cap_fresh in K0.
    set (text := lit_lt ++ dec pri ++ lit_gt ++ takeN (s_ident_buf c - 1) ident ++ lit_lbr ++ dec pid ++ lit_rbr_colon ++ msg).
    assert (Nt : nonul text).
    { unfold text. repeat (apply nonul_app; split); try apply nonul_dec; try (apply nonulb_spec; reflexivity); try assumption.
      now apply nonul_takeN. }
    destruct (c_snprintf_ok b0 0 size text) as [b1 E1]; [lia|lia|]. rewrite E1. cbn [bind fst].
    destruct (c_snprintf_spec _ _ _ _ _ _ E1 ltac:(lia) Nt) as [_ [C1 _]]. rewrite C1. cbn [bind].
    destruct (socket_addr_safe lit_devlog nonul_lit_devlog) as [n [En _]]. rewrite En. cbn [bind]. eauto.
  Qed.

  Theorem file_line_safe : forall msg path_fmt, nonul msg -> nonul path_fmt ->
    exists r, file_line c gen msg path_fmt = Ok r.
  Proof.
    intros msg path_fmt Hm Hf. unfold file_line.
    destruct path_fmt as [|p0 fmt']; [eauto|]. set (path_fmt := p0 :: fmt') in *.
    destruct (gen_zeroed (s_path_max c) path_fmt (or_intror eq_refl) ok_path_max Hf) as [p1 [path [Eg [Cp _]]]].
    rewrite Eg. cbn [bind]. rewrite Cp. cbn [bind].
    destruct (wrs_ok (fresh (len msg + 1)) 0 msg) as [l1 E1]; [rewrite cap_fresh; lia|].
    rewrite E1. cbn [bind]. pose proof (cap_wrs _ _ _ _ E1) as K1. rewrite cap_fresh in K1.
    unfold wr. destruct (wrs_ok l1 (len msg + 1 - 1) [NL]) as [l2 E2]; [cbn; lia|].
    rewrite E2. cbn [bind]. eauto.
  Qed.
End P_Out.

Print Assumptions error_dispatch_terminates.
Print Assumptions error_cycle_unguarded_refuted.
Print Assumptions socket_addr_safe.
Print Assumptions small_file_safe.
Print Assumptions devlog_safe.
Print Assumptions file_line_safe.
Print Assumptions error_dispatch_terminates_depth2.
