(** Safety of the rpname.c model (Safety/Rpname.v). *)
From Snoopy Require Import Lib.CStr Safety.Mem Safety.CLib Safety.Consts Safety.Lits Safety.Rpname.
From Coq Require Import ZifyBool ZifyN ZifyNat.
Local Open Scope N_scope.

(** * library complements *)
Lemma beq_sym a b : beq a b = beq b a.
Proof.
  destruct (beq a b) eqn:E.
  - apply beq_eq in E. subst. now rewrite beq_refl.
  - apply beq_neq in E. symmetry. apply beq_neq. congruence.
Qed.

(** strstr with a one-byte needle is strchr *)
Lemma strstr_single c s : strstr s [c] = index c s.
Proof.
  induction s as [|b s IH]; [reflexivity|]. cbn [strstr prefixb index].
  rewrite (beq_sym c b). destruct (beq b c); cbn [andb]; [|rewrite IH]; destruct s; reflexivity.
Qed.

Lemma dropN_0 (t : list byte) : dropN 0 t = t.
Proof. reflexivity. Qed.

(** the C string in front of a byte sequence *)
Lemma cprefix_nil : cprefix [] = [].
Proof. reflexivity. Qed.
Lemma cprefix_cons b t : cprefix (b :: t) = if notnul b then b :: cprefix t else [].
Proof.
  unfold cprefix. cbn [span]. destruct (notnul b); [|reflexivity].
  unfold takeN. replace (N.to_nat (1 + span notnul t)) with (S (N.to_nat (span notnul t))) by lia. reflexivity.
Qed.
Lemma len_cprefix t : len (cprefix t) = span notnul t.
Proof. unfold cprefix. rewrite len_takeN. pose proof (span_le notnul t). lia. Qed.
Lemma len_cprefix_le t : len (cprefix t) <= len t.
Proof. rewrite len_cprefix. apply span_le. Qed.
Lemma nonul_cprefix t : nonul (cprefix t).
Proof.
  induction t as [|b t IH]; [intros []|]. rewrite cprefix_cons. destruct (notnul b) eqn:E; [|intros []].
  intros [F|F]; [|contradiction]. subst b. discriminate.
Qed.
Lemma nthN_cprefix k t : k < len (cprefix t) -> nthN k (cprefix t) = nthN k t.
Proof. intros H. rewrite len_cprefix in H. unfold cprefix. now apply nthN_takeN. Qed.
Lemma cprefix_stop t : nthN (len (cprefix t)) t = NUL.
Proof.
  rewrite len_cprefix. destruct (N.lt_ge_cases (span notnul t) (len t)) as [H|H].
  - apply span_lt_stop in H. unfold notnul in H. apply negb_false_iff in H. now apply beq_eq in H.
  - now apply nthN_beyond.
Qed.
Lemma cprefix_pos t : nthN 0 t <> NUL -> 1 <= len (cprefix t).
Proof.
  destruct t as [|b t]; [intros H; now contradiction H|]. intros H. change (nthN 0 (b :: t)) with b in H.
  rewrite cprefix_cons. unfold notnul. apply beq_neq in H. rewrite H. cbn [negb]. rewrite len_cons. lia.
Qed.
Lemma cprefix_nul t : nthN 0 t = NUL -> cprefix t = [].
Proof.
  destruct t as [|b t]; [reflexivity|]. intros H. change (nthN 0 (b :: t)) with b in H. subst b. now rewrite cprefix_cons.
Qed.

(** reading a C string out of a block that was written as [t ++ NUL]: no condition on [t] *)
Lemma cstr_written a off t a' p : wrs a off (t ++ [NUL]) = Ok a' -> p <= len t ->
  cstr a' (off + p) = Ok (cprefix (dropN p t)).
Proof.
  intros H Hp. set (d := cprefix (dropN p t)).
  assert (Ld : len d <= len t - p) by (unfold d; rewrite <- len_dropN; apply len_cprefix_le).
  assert (LT : len (t ++ [NUL]) = len t + 1) by (rewrite len_app; reflexivity).
  apply cstr_holds. split; [apply nonul_cprefix|]. split.
  - intros k Hk. rewrite (at_wrs_in _ _ _ _ _ H) by lia. do 2 f_equal.
    replace (off + p + k - off) with (p + k) by lia. rewrite nthN_app_l by lia.
    unfold d. rewrite nthN_cprefix by exact Hk. now rewrite nthN_dropN.
  - rewrite (at_wrs_in _ _ _ _ _ H) by lia. do 2 f_equal.
    replace (off + p + len d - off) with (p + len d) by lia.
    destruct (N.lt_ge_cases (p + len d) (len t)) as [Hin|Hout].
    + rewrite nthN_app_l by lia. rewrite <- nthN_dropN. apply cprefix_stop.
    + rewrite nthN_app_r by lia. replace (p + len d - len t) with 0 by lia. reflexivity.
Qed.

Lemma cstr_indet a p : at_ a p = Some None -> cstr a p = Fault Other_fault.
Proof.
  intros H. unfold cstr. assert (p < cap a).
  { destruct (N.lt_ge_cases p (cap a)); [assumption|]. apply at_None in H0. congruence. }
  destruct (N.leb_spec p (cap a)); [|lia]. unfold at_ in H.
  pose proof (nth_error_skipn_ (N.to_nat p) 0 a) as E. rewrite Nat.add_0_r, H in E.
  destruct (skipn (N.to_nat p) a) as [|c l]; [discriminate|]. cbn in E. injection E as ->. reflexivity.
Qed.

Lemma at_fresh n i : i < n -> at_ (fresh n) i = Some None.
Proof.
  intros H. unfold at_, fresh. assert (N.to_nat i < N.to_nat n)%nat by lia.
  revert H0. generalize (N.to_nat i) (N.to_nat n). clear. intros i n; revert i.
  induction n as [|n IH]; intros i H; [lia|]. destruct i; simpl; [reflexivity|apply IH; lia].
Qed.

Lemma c_strncpy_ok a off src n : off + n <= cap a -> exists a', c_strncpy a off src n = Ok a' /\ cap a' = cap a.
Proof.
  intros H. unfold c_strncpy. destruct (N.leb_spec (off + n) (cap a)); [|lia].
  destruct (wrs_ok a off (takeS n src ++ zeros (n - len src))) as [a' E].
  { rewrite len_app, takeS_eq, len_takeN, len_zeros. lia. }
  exists a'. split; [exact E|now apply cap_wrs in E].
Qed.

(** strncpy of a string of at most [n] bytes into a zero-filled array of more than [n] bytes (as in P_Ds.v) *)
Lemma strncpy_zeroed_fits n m p l : n < m -> nonul p -> len p <= n ->
  c_strncpy (zeroed m) 0 p n = Ok l -> cstr l 0 = Ok p.
Proof.
  intros Hn Hp Hl E. unfold c_strncpy in E. rewrite cap_zeroed in E.
  destruct (N.leb_spec (0 + n) m); [|lia]. rewrite takeS_eq, takeN_all in E by lia.
  assert (L : len (p ++ zeros (n - len p)) = n) by (rewrite len_app, len_zeros; lia).
  apply cstr_holds. split; [exact Hp|]. split.
  - intros k Hk. rewrite (at_wrs_in _ _ _ _ _ E) by lia. replace (0 + k - 0) with k by lia. now rewrite nthN_app_l.
  - destruct (N.eq_dec (len p) n) as [Heq|Hne].
    + rewrite (at_wrs_out _ _ _ _ _ E) by lia. apply at_zeroed. lia.
    + rewrite (at_wrs_in _ _ _ _ _ E) by lia. rewrite nthN_app_r by lia. now rewrite nthN_zeros.
Qed.

Lemma snprintf0_ok a size text : 1 <= size -> size <= cap a -> nonul text ->
  exists a', c_snprintf a 0 size text = Ok (a', len text) /\ cap a' = cap a /\ cstr a' 0 = Ok (takeN (size - 1) text).
Proof.
  intros Hs Hc Hn. destruct (c_snprintf_ok a 0 size text Hs ltac:(lia)) as [a' E]. exists a'. split; [exact E|].
  destruct (c_snprintf_spec _ _ _ _ _ _ E Hs Hn) as [_ [S C]]. split; assumption.
Qed.

Lemma nonul_lit_unknown : nonul lit_unknown.
Proof. apply nonulb_spec. reflexivity. Qed.

(** [lines] only cuts: nothing is lost, no chunk is empty *)
Lemma concat_lines s : concat (lines s) = s.
Proof.
  induction s as [|b s IH]; [reflexivity|]. cbn [lines]. destruct (beq b NL).
  - cbn [concat app]. now rewrite IH.
  - destruct (lines s) as [|l ls]; cbn [concat app] in *; now rewrite <- IH.
Qed.
Lemma concat_len_le (ls : list (list byte)) : Forall (fun ch => len ch <= len (concat ls)) ls.
Proof.
  induction ls as [|l ls IH]; constructor.
  - cbn [concat]. rewrite len_app. lia.
  - eapply Forall_impl; [|exact IH]. cbn beta. intros ch H. cbn [concat]. rewrite len_app. lia.
Qed.
Lemma lines_len_le s : Forall (fun ch => len ch <= len s) (lines s).
Proof. pose proof (concat_len_le (lines s)) as H. now rewrite concat_lines in H. Qed.

(** the contract of a data source (textually the [ds_result_ok] of P_Ds.v) *)
Definition rp_result_ok (a : arr) (size : N) (r : res (arr * N)) : Prop :=
  exists a' n s, r = Ok (a', n) /\ cap a' = cap a /\ cstr a' 0 = Ok s /\ len s < size.

Lemma snprintf0_result a size text : 1 <= size -> size <= cap a -> nonul text -> rp_result_ok a size (c_snprintf a 0 size text).
Proof.
  intros Hs Hc Hn. destruct (snprintf0_ok a size text Hs Hc Hn) as [a' [E [C S]]].
  exists a', (len text), (takeN (size - 1) text). split; [exact E|]. split; [exact C|]. split; [exact S|].
  rewrite len_takeN. lia.
Qed.

(** getline's block *)
Lemma block_ok chunk : exists line, getline_block chunk = Ok line /\ cap line = N.max 120 (len chunk + 1)
  /\ (forall p, p <= len chunk -> cstr line p = Ok (cprefix (dropN p chunk)))
  /\ (forall i, len chunk < i -> i < cap line -> at_ line i = Some None).
Proof.
  unfold getline_block. destruct (wrs_ok (fresh (N.max 120 (len chunk + 1))) 0 (chunk ++ [NUL])) as [line E].
  { rewrite cap_fresh, len_app. cbn. lia. }
  exists line. split; [exact E|]. pose proof (cap_wrs _ _ _ _ E) as C. rewrite cap_fresh in C. split; [exact C|]. split.
  - intros p Hp. apply (cstr_written _ 0 _ _ p E Hp).
  - intros i H1 H2. rewrite (at_wrs_out _ _ _ _ _ E) by (rewrite len_app; cbn; lia). apply at_fresh. lia.
Qed.

Section P_Rpname.
  Variable sz : rp_sizes.
  (** the relations between the sizes that the proof needs:
      ST_PATH_SIZE_MAX >= 1 (fopen reads a terminated path) and NAME_MAX < sizeof returnValue *)
  Hypothesis Hpath : 1 <= path_cap sz.
  Hypothesis Hret : val_max sz < ret_cap sz.

  (** the result of [read_proc_property] against the reference value *)
  Definition rpp_post (r : option arr) (v : option (list byte)) : Prop :=
    match r, v with
    | Some blk, Some x => cstr blk 0 = Ok x
    | None, None => True
    | _, _ => False
    end.

  (** the copy into returnValue and the strdup, for a terminated source of any length *)
  Lemma copy_out src : nonul src ->
    exists dup,
      (ret <- (if val_max sz <? len src then
                 r1 <- c_strncpy (zeroed (ret_cap sz)) 0 src (val_max sz) ;; wr r1 (val_max sz + 1 - 1) NUL
               else c_strncpy (zeroed (ret_cap sz)) 0 src (val_max sz + 1 - 1)) ;;
       rs <- cstr ret 0 ;;
       dup <- c_store (fresh (len rs + 1)) 0 rs ;;
       Ok (Some dup)) = Ok (Some dup)
      /\ cstr dup 0 = Ok (takeN (val_max sz) src).
  Proof using Hret.
    clear Hpath. intros Hn. replace (val_max sz + 1 - 1) with (val_max sz) by lia.
    assert (R : exists ret, (if val_max sz <? len src then
                 r1 <- c_strncpy (zeroed (ret_cap sz)) 0 src (val_max sz) ;; wr r1 (val_max sz) NUL
               else c_strncpy (zeroed (ret_cap sz)) 0 src (val_max sz)) = Ok ret /\ cstr ret 0 = Ok (takeN (val_max sz) src)).
    { destruct (c_strncpy_ok (zeroed (ret_cap sz)) 0 src (val_max sz)) as (r1 & E1 & C1); [rewrite cap_zeroed; lia|].
      rewrite cap_zeroed in C1. rewrite E1. destruct (N.ltb_spec (val_max sz) (len src)) as [Hlong|Hshort].
      - cbn [bind]. destruct (wrs_ok r1 (val_max sz) [NUL]) as [r2 E2]; [cbn; lia|]. exists r2. split; [exact E2|].
        apply (cstr_strncpy_term _ 0 src (val_max sz) r1 r2 E1); [rewrite N.add_0_l; exact E2|exact Hn].
      - exists r1. split; [reflexivity|]. rewrite takeN_all by lia.
        apply (strncpy_zeroed_fits (val_max sz) (ret_cap sz) src r1 Hret Hn Hshort E1). }
    destruct R as (ret & ER & SR). rewrite ER. cbn [bind]. rewrite SR. cbn [bind].
    set (rs := takeN (val_max sz) src). assert (Hrs : nonul rs) by now apply nonul_takeN.
    unfold c_store. destruct (wrs_ok (fresh (len rs + 1)) 0 (rs ++ [NUL])) as [dup ED].
    { rewrite cap_fresh, len_app. cbn. lia. }
    rewrite ED. cbn [bind]. exists dup. split; [reflexivity|]. now apply (cstr_wrs_here _ 0 rs [] dup ED).
  Qed.

  (** ** the loop over the lines: defined exactly on [prop_wf] input, with the reference value *)
  Lemma rpp_loop_ok prop chunks : prop_wf prop chunks = true ->
    exists r, rpp_loop sz prop chunks = Ok r /\ rpp_post r (prop_value sz prop chunks).
  Proof using Hret.
    clear Hpath. induction chunks as [|chunk rest IH]; intros W.
    - exists None. split; reflexivity.
    - cbn [rpp_loop prop_value prop_wf] in *.
      destruct (block_ok chunk) as (line & EL & CL & SL & _). rewrite EL. cbn [bind].
      destruct (N.eqb_spec (cap line) 0); [lia|].
      pose proof (SL 0 ltac:(lia)) as S0. rewrite dropN_0 in S0. rewrite S0. cbn [bind].
      rewrite strstr_single. set (s := cprefix chunk) in *.
      destruct (index COLONB s) as [k|] eqn:EK; [|exists None; split; reflexivity].
      destruct (index_Some _ _ _ EK) as (_ & K2 & _).
      assert (Hk : N.of_nat k < len s) by (unfold len; lia).
      set (kk := N.of_nat k) in *.
      destruct (cstr_wr_nul line 0 s kk S0 ltac:(lia)) as (line1 & E1 & S1 & C1 & _).
      rewrite E1. cbn [bind]. replace (kk - 0) with kk in S1 by lia. rewrite S1. cbn [bind].
      destruct (list_eqb prop (takeN kk s)); [|apply IH; exact W].
      (* the line with the key: v = line + k + 2 *)
      apply negb_true_iff, beq_neq in W.
      assert (Hs : len s <= len chunk) by apply len_cprefix_le.
      assert (Hv : kk + 2 < len chunk).
      { destruct (N.lt_ge_cases (kk + 2) (len chunk)); [assumption|]. exfalso. apply W. now apply nthN_beyond. }
      replace (kk + 1 + 1) with (kk + 2) by lia.
      set (vs := cprefix (dropN (kk + 2) chunk)).
      assert (SV : cstr line1 (kk + 2) = Ok vs).
      { transitivity (cstr line (kk + 2)); [|apply SL; lia]. apply cstr_ext. intros j Hj.
        apply (at_wrs_out _ _ _ _ _ E1). cbn. lia. }
      rewrite SV. cbn [bind].
      assert (Lv : 1 <= len vs).
      { apply cprefix_pos. rewrite nthN_dropN. now replace (kk + 2 + 0) with (kk + 2) by lia. }
      rewrite sub64_le by lia.
      destruct (cstr_wr_nul line1 (kk + 2) vs (kk + 2 + (len vs - 1)) SV ltac:(lia)) as (line2 & E2 & S2 & _ & _).
      rewrite E2. cbn [bind]. replace (kk + 2 + (len vs - 1) - (kk + 2)) with (len vs - 1) in S2 by lia.
      rewrite S2. cbn [bind].
      set (src := takeN (len vs - 1) vs) in *.
      assert (Hsrc : nonul src) by (apply nonul_takeN, nonul_cprefix).
      assert (Lsrc : len src = len vs - 1) by (unfold src; rewrite len_takeN; lia).
      rewrite <- Lsrc.
      destruct (copy_out src Hsrc) as (dup & ED & SD). rewrite ED.
      exists (Some dup). split; [reflexivity|]. exact SD.
  Qed.

  (** ** the converse: outside [prop_wf] the loop faults (for files of less than 2^64 - 1 bytes), so [prop_wf]
      is the weakest condition under which [read_proc_property] is safe *)
  Lemma rpp_loop_fault prop chunks : prop_wf prop chunks = false -> Forall (fun ch => len ch + 1 < two64) chunks ->
    exists f, rpp_loop sz prop chunks = Fault f /\ f <> Out_of_fuel.
  Proof using.
    clear Hpath Hret.
    induction chunks as [|chunk rest IH]; intros W HF; [discriminate|].
    cbn [rpp_loop prop_wf] in *. inversion HF as [|? ? Hsmall HF']; subst.
    destruct (block_ok chunk) as (line & EL & CL & SL & IL). rewrite EL. cbn [bind].
    destruct (N.eqb_spec (cap line) 0); [lia|].
    pose proof (SL 0 ltac:(lia)) as S0. rewrite dropN_0 in S0. rewrite S0. cbn [bind].
    rewrite strstr_single. set (s := cprefix chunk) in *.
    destruct (index COLONB s) as [k|] eqn:EK; [|discriminate].
    destruct (index_Some _ _ _ EK) as (_ & K2 & _).
    assert (Hk : N.of_nat k < len s) by (unfold len; lia).
    set (kk := N.of_nat k) in *.
    destruct (cstr_wr_nul line 0 s kk S0 ltac:(lia)) as (line1 & E1 & S1 & C1 & _).
    rewrite E1. cbn [bind]. replace (kk - 0) with kk in S1 by lia. rewrite S1. cbn [bind].
    destruct (list_eqb prop (takeN kk s)); [|apply IH; assumption].
    apply negb_false_iff, beq_eq in W.
    assert (Hs : len s <= len chunk) by apply len_cprefix_le.
    replace (kk + 1 + 1) with (kk + 2) by lia.
    assert (X : forall j, kk + 2 <= j -> at_ line1 j = at_ line j).
    { intros j Hj. apply (at_wrs_out _ _ _ _ _ E1). cbn. lia. }
    destruct (N.le_gt_cases (kk + 2) (len chunk)) as [Hin|Hout].
    - (* v points at a NUL: vLen = 0, vLen - 1 = SIZE_MAX *)
      assert (SV : cstr line1 (kk + 2) = Ok []).
      { rewrite (cstr_ext line1 line) by exact X. rewrite (SL (kk + 2)) by lia. f_equal. apply cprefix_nul.
        rewrite nthN_dropN. now replace (kk + 2 + 0) with (kk + 2) by lia. }
      rewrite SV. cbn [bind]. rewrite len_nil. unfold wr. rewrite wrs_fault.
      + cbn [bind]. eexists. split; [reflexivity|discriminate].
      + rewrite C1, CL. unfold sub64. cbn [N.leb N.compare]. cbn [len length]. unfold two64 in *. lia.
    - (* v points behind the terminator *)
      assert (kk + 2 = len chunk + 1) by lia.
      destruct (N.lt_ge_cases (kk + 2) (cap line)) as [Hc|Hc].
      + rewrite cstr_indet; [cbn [bind]; eexists; split; [reflexivity|discriminate]|].
        rewrite X by lia. apply IL; lia.
      + rewrite cstr_oob by lia. cbn [bind]. eexists. split; [reflexivity|discriminate].
  Qed.

  (** ** read_proc_property *)
  Variable status : N -> option (list byte).

  Definition value_of (pid : Z) (prop : list byte) : option (list byte) :=
    match status_of status pid with
    | None => None
    | Some content => prop_value sz prop (lines content)
    end.

  Lemma path_ok pid :
    exists pf s, c_snprintf (fresh (path_cap sz)) 0 (path_cap sz) (lit_proc ++ dec_z pid ++ lit_status) = Ok pf /\ cstr (fst pf) 0 = Ok s.
  Proof using Hpath.
    clear Hret. set (text := lit_proc ++ dec_z pid ++ lit_status).
    destruct (c_snprintf_ok (fresh (path_cap sz)) 0 (path_cap sz) text Hpath) as [a' E]; [rewrite cap_fresh; lia|].
    exists (a', len text). pose proof E as E'. unfold c_snprintf in E'. destruct (N.eqb_spec (path_cap sz) 0); [lia|].
    destruct (wrs (fresh (path_cap sz)) 0 (takeS (path_cap sz - 1) text ++ [NUL])) as [a1|] eqn:EW; cbn [bind] in E'; [|discriminate].
    injection E' as <-. eexists. split; [exact E|]. cbn [fst]. apply (cstr_written _ 0 _ _ 0 EW). lia.
  Qed.

  Theorem read_proc_property_safe pid prop :
    (forall content, status_of status pid = Some content -> prop_wf prop (lines content) = true) ->
    exists r, read_proc_property sz status pid prop = Ok r /\ rpp_post r (value_of pid prop).
  Proof using Hpath Hret.
    intros W. unfold read_proc_property, value_of. destruct (path_ok pid) as (pf & s & E & S). rewrite E. cbn [bind]. rewrite S. cbn [bind].
    destruct (status_of status pid) as [content|]; [|exists None; split; reflexivity].
    apply rpp_loop_ok. now apply W.
  Qed.

  Theorem read_proc_property_fault pid prop content :
    status_of status pid = Some content -> len content + 1 < two64 -> prop_wf prop (lines content) = false ->
    exists f, read_proc_property sz status pid prop = Fault f /\ f <> Out_of_fuel.
  Proof using Hpath.
    clear Hret. intros ES Hsmall W. unfold read_proc_property. destruct (path_ok pid) as (pf & s & E & S). rewrite E. cbn [bind]. rewrite S. cbn [bind].
    rewrite ES. apply rpp_loop_fault; [exact W|].
    eapply Forall_impl; [|apply lines_len_le]. cbn beta. intros ch H. lia.
  Qed.

  (** ** the whole data source *)
  (** the file of [pid] is fine for the key [prop] (an unreadable file is) *)
  Definition file_wf (pid : Z) (prop : list byte) : bool :=
    match status_of status pid with
    | None => true
    | Some content => prop_wf prop (lines content)
    end.

  (** PPid as the C code sees it *)
  Definition ppid_of (pid : Z) : Z := match value_of pid KEY_PPID with Some v => atoi v | None => (-1)%Z end.

  (** the EXACT precondition of [get_rpname fuel pid]: the files that the walk reads, for the keys it looks up *)
  Fixpoint walk_wf (fuel : nat) (pid : Z) : bool :=
    match fuel with
    | O => true
    | S fuel' =>
      file_wf pid KEY_PPID &&
      (let pp := ppid_of pid in
       if (pp =? 1)%Z || (pp =? 0)%Z then file_wf pid KEY_NAME
       else if (pp =? -1)%Z then true
       else walk_wf fuel' pp)
    end.

  (** the hypothesis of the main theorem: every readable status file is fine for both keys *)
  Definition status_wf : Prop := forall pid content, status pid = Some content -> content_wf content = true.

  (** a sufficient condition that is easier to read: in every line whose key (the bytes in front of the first ':'
      of the line's C string) is "Name" or "PPid", the byte two places behind that ':' exists and is not NUL *)
  Definition line_ok (chunk : list byte) : Prop :=
    forall k, index COLONB (cprefix chunk) = Some k ->
      (takeN (N.of_nat k) (cprefix chunk) = KEY_NAME \/ takeN (N.of_nat k) (cprefix chunk) = KEY_PPID) ->
      nthN (N.of_nat k + 2) chunk <> NUL.
  Lemma lines_ok_prop_wf prop chunks : prop = KEY_NAME \/ prop = KEY_PPID -> Forall line_ok chunks -> prop_wf prop chunks = true.
  Proof using.
    clear. intros Hp H. induction H as [|chunk rest H1 _ IH]; [reflexivity|]. cbn [prop_wf].
    destruct (index COLONB (cprefix chunk)) as [k|] eqn:EK; [|reflexivity].
    destruct (list_eqb prop (takeN (N.of_nat k) (cprefix chunk))) eqn:EQ; [|exact IH].
    apply list_eqb_eq in EQ. apply negb_true_iff, beq_neq. apply (H1 k EK). rewrite <- EQ. tauto.
  Qed.
  Lemma lines_ok_status_wf : (forall pid content, status pid = Some content -> Forall line_ok (lines content)) -> status_wf.
  Proof using.
    clear Hpath Hret. intros H pid content E. unfold content_wf. apply andb_true_iff.
    split; (apply lines_ok_prop_wf; [|now apply (H pid)]); [now right|now left].
  Qed.

  Lemma status_wf_file pid : status_wf -> file_wf pid KEY_PPID = true /\ file_wf pid KEY_NAME = true.
  Proof using.
    clear. unfold file_wf, status_of. intros W. destruct (pid <? 0)%Z; [now split|].
    destruct (status (z_to_n pid)) as [content|] eqn:E; [|now split].
    apply W in E. unfold content_wf in E. now apply andb_true_iff in E.
  Qed.
  Lemma status_wf_walk fuel : forall pid, status_wf -> walk_wf fuel pid = true.
  Proof using.
    clear. induction fuel as [|fuel IH]; intros pid W; [reflexivity|]. cbn [walk_wf].
    destruct (status_wf_file pid W) as [-> ->]. cbn [andb].
    destruct ((ppid_of pid =? 1)%Z || (ppid_of pid =? 0)%Z); [reflexivity|].
    destruct (ppid_of pid =? -1)%Z; [reflexivity|]. now apply IH.
  Qed.

  Lemma file_wf_safe pid prop : file_wf pid prop = true ->
    exists r, read_proc_property sz status pid prop = Ok r /\ rpp_post r (value_of pid prop).
  Proof using Hpath Hret.
    intros W. apply read_proc_property_safe. intros content E. unfold file_wf in W. now rewrite E in W.
  Qed.
  (** the files are smaller than 2^64 - 1 bytes (only for the converse direction: see [rpp_loop_fault]) *)
  Definition small_files : Prop := forall pid content, status pid = Some content -> len content + 1 < two64.
  Lemma file_wf_fault pid prop : small_files -> file_wf pid prop = false ->
    exists f, read_proc_property sz status pid prop = Fault f /\ f <> Out_of_fuel.
  Proof using Hpath.
    clear Hret. intros Hsm W. unfold file_wf in W. destruct (status_of status pid) as [content|] eqn:E; [|discriminate].
    apply (read_proc_property_fault pid prop content E); [|exact W].
    unfold status_of in E. destruct (pid <? 0)%Z; [discriminate|]. now apply Hsm in E.
  Qed.

  Lemma get_parent_pid_ok pid : file_wf pid KEY_PPID = true -> get_parent_pid sz status pid = Ok (ppid_of pid).
  Proof using Hpath Hret.
    intros W. unfold get_parent_pid, ppid_of.
    destruct (file_wf_safe pid KEY_PPID W) as (r & E & P).
    rewrite E. cbn [bind]. unfold rpp_post in P. destruct r as [blk|], (value_of pid KEY_PPID) as [v|]; try contradiction.
    - rewrite P. reflexivity.
    - reflexivity.
  Qed.

  Lemma root_name_ok pid buf size : file_wf pid KEY_NAME = true -> 1 <= size -> size <= cap buf ->
    rp_result_ok buf size (r <- read_proc_property sz status pid KEY_NAME ;;
                           match r with
                           | Some blk => name <- cstr blk 0 ;; c_snprintf buf 0 size name
                           | None => c_snprintf buf 0 size lit_unknown
                           end).
  Proof using Hpath Hret.
    intros W Hs Hc. destruct (file_wf_safe pid KEY_NAME W) as (r & E & P).
    rewrite E. cbn [bind]. unfold rpp_post in P. destruct r as [blk|], (value_of pid KEY_NAME) as [v|]; try contradiction.
    - rewrite P. cbn [bind]. apply snprintf0_result; [exact Hs|exact Hc|now apply cstr_nonul in P].
    - apply snprintf0_result; [exact Hs|exact Hc|exact nonul_lit_unknown].
  Qed.

  (** safe on exactly the [walk_wf] inputs *)
  Lemma get_rpname_walk fuel : forall pid buf size, walk_wf fuel pid = true -> 1 <= size -> size <= cap buf ->
    rp_result_ok buf size (get_rpname sz status fuel pid buf size) \/ get_rpname sz status fuel pid buf size = Fault Out_of_fuel.
  Proof using Hpath Hret.
    induction fuel as [|fuel IH]; intros pid buf size W Hs Hc; [now right|].
    cbn [get_rpname walk_wf] in *. apply andb_true_iff in W as [W1 W2].
    rewrite (get_parent_pid_ok pid W1). cbn [bind].
    destruct ((ppid_of pid =? 1)%Z || (ppid_of pid =? 0)%Z); [left; now apply root_name_ok|].
    destruct (ppid_of pid =? -1)%Z; [left; apply snprintf0_result; [exact Hs|exact Hc|exact nonul_lit_unknown]|].
    now apply IH.
  Qed.
  Lemma get_rpname_unsafe fuel : forall pid buf size, small_files -> walk_wf fuel pid = false ->
    exists f, get_rpname sz status fuel pid buf size = Fault f /\ f <> Out_of_fuel.
  Proof using Hpath Hret.
    induction fuel as [|fuel IH]; intros pid buf size Hsm W; [discriminate|].
    cbn [get_rpname walk_wf] in *. destruct (file_wf pid KEY_PPID) eqn:W1; cbn [andb] in W.
    - rewrite (get_parent_pid_ok pid W1). cbn [bind].
      destruct ((ppid_of pid =? 1)%Z || (ppid_of pid =? 0)%Z).
      + destruct (file_wf_fault pid KEY_NAME Hsm W) as (f & E & Hf). rewrite E. cbn [bind]. now exists f.
      + destruct (ppid_of pid =? -1)%Z; [discriminate|]. now apply IH.
    - unfold get_parent_pid. destruct (file_wf_fault pid KEY_PPID Hsm W1) as (f & E & Hf). rewrite E. cbn [bind]. now exists f.
  Qed.

  Lemma get_rpname_safe fuel pid buf size : status_wf -> 1 <= size -> size <= cap buf ->
    rp_result_ok buf size (get_rpname sz status fuel pid buf size) \/ get_rpname sz status fuel pid buf size = Fault Out_of_fuel.
  Proof using Hpath Hret. intros W. apply get_rpname_walk. now apply status_wf_walk. Qed.

  (** the parent chain, read off the oracle: [chain n pid] = the walk from [pid] ends after at most [n] processes *)
  Inductive chain : nat -> Z -> Prop :=
  | Ch_stop : forall n pid, ppid_of pid = 0%Z \/ ppid_of pid = 1%Z \/ ppid_of pid = (-1)%Z -> chain (S n) pid
  | Ch_step : forall n pid, chain n (ppid_of pid) -> chain (S n) pid.

  Lemma get_rpname_fuel n : forall fuel pid buf size, chain n pid -> (n <= fuel)%nat -> walk_wf fuel pid = true -> 1 <= size -> size <= cap buf ->
    rp_result_ok buf size (get_rpname sz status fuel pid buf size).
  Proof using Hpath Hret.
    intros fuel pid buf size H. revert fuel. induction H as [n pid Hp|n pid Hr IH]; intros fuel Hle W Hs Hc.
    - destruct fuel as [|fuel]; [lia|]. cbn [get_rpname walk_wf] in *. apply andb_true_iff in W as [W1 W2].
      rewrite (get_parent_pid_ok pid W1). cbn [bind].
      destruct Hp as [E | [E | E]]; rewrite E in *; cbn [Z.eqb Pos.eqb orb] in *.
      + now apply root_name_ok.
      + now apply root_name_ok.
      + apply snprintf0_result; [exact Hs|exact Hc|exact nonul_lit_unknown].
    - destruct fuel as [|fuel]; [lia|]. cbn [get_rpname walk_wf] in *. apply andb_true_iff in W as [W1 W2].
      rewrite (get_parent_pid_ok pid W1). cbn [bind].
      destruct ((ppid_of pid =? 1)%Z || (ppid_of pid =? 0)%Z); [now apply root_name_ok|].
      destruct (ppid_of pid =? -1)%Z; [apply snprintf0_result; [exact Hs|exact Hc|exact nonul_lit_unknown]|].
      apply IH; [lia|assumption..].
  Qed.

  (** * the theorems about snoopy_datasource_rpname *)
  Definition rpname_good (fuel : nat) (pid : N) (buf : arr) (size : N) : Prop :=
    (exists buf' n, rpname_buf sz status fuel pid buf size = Ok (buf', n) /\ cap buf' = cap buf
                    /\ exists s, cstr buf' 0 = Ok s /\ len s < size)
    \/ rpname_buf sz status fuel pid buf size = Fault Out_of_fuel.

  Lemma result_ok_good fuel pid buf size :
    rp_result_ok buf size (get_rpname sz status fuel (Z.of_N pid) buf size) \/ get_rpname sz status fuel (Z.of_N pid) buf size = Fault Out_of_fuel ->
    rpname_good fuel pid buf size.
  Proof using.
    clear. unfold rpname_good, rpname_buf. intros [(a' & n & s & E & C & S & L)|E]; [left|now right].
    exists a', n. split; [exact E|]. split; [exact C|]. now exists s.
  Qed.

  Theorem rpname_safe : forall fuel pid buf size, status_wf -> 1 <= size -> size <= cap buf ->
    (exists buf' n, rpname_buf sz status fuel pid buf size = Ok (buf', n) /\ cap buf' = cap buf
                    /\ exists s, cstr buf' 0 = Ok s /\ len s < size)
    \/ rpname_buf sz status fuel pid buf size = Fault Out_of_fuel.
  Proof using Hpath Hret.
    intros fuel pid buf size W Hs Hc. apply result_ok_good. now apply get_rpname_safe.
  Qed.

  Theorem rpname_fuel : forall n fuel pid buf size, chain n (Z.of_N pid) -> (n <= fuel)%nat -> status_wf -> 1 <= size -> size <= cap buf ->
    exists buf' n', rpname_buf sz status fuel pid buf size = Ok (buf', n') /\ cap buf' = cap buf
                    /\ exists s, cstr buf' 0 = Ok s /\ len s < size.
  Proof using Hpath Hret.
    intros n fuel pid buf size Hch Hle W Hs Hc. unfold rpname_buf.
    destruct (get_rpname_fuel n fuel (Z.of_N pid) buf size Hch Hle (status_wf_walk fuel _ W) Hs Hc) as (a' & n' & s & E & C & S & L).
    exists a', n'. split; [exact E|]. split; [exact C|]. now exists s.
  Qed.

  (** [walk_wf] is the weakest precondition: the call is safe if and only if the files that the walk reads are well
      formed for the keys it looks up there (files of less than 2^64 - 1 bytes) *)
  Theorem rpname_safe_iff : forall fuel pid buf size, small_files -> 1 <= size -> size <= cap buf ->
    (walk_wf fuel (Z.of_N pid) = true <-> rpname_good fuel pid buf size).
  Proof using Hpath Hret.
    intros fuel pid buf size Hsm Hs Hc. split.
    - intros W. apply result_ok_good. now apply get_rpname_walk.
    - intros G. destruct (walk_wf fuel (Z.of_N pid)) eqn:W; [reflexivity|]. exfalso.
      destruct (get_rpname_unsafe fuel (Z.of_N pid) buf size Hsm W) as (f & E & Hf).
      unfold rpname_good, rpname_buf in G. rewrite z_of_n_eq in G. rewrite E in G. destruct G as [(a' & n & G & _)|G]; [discriminate|].
      injection G as ->. now apply Hf.
  Qed.

  (** in particular: if the file of the process itself is not well formed for "PPid", the call faults whatever the fuel (>= 1) *)
  Theorem rpname_needs_wf : forall fuel pid buf size content,
    status pid = Some content -> len content + 1 < two64 -> prop_wf KEY_PPID (lines content) = false ->
    exists f, rpname_buf sz status (S fuel) pid buf size = Fault f /\ f <> Out_of_fuel.
  Proof using Hpath.
    clear Hret. intros fuel pid buf size content ES Hsmall W. unfold rpname_buf. rewrite z_of_n_eq. cbn [get_rpname]. unfold get_parent_pid.
    destruct (read_proc_property_fault (Z.of_N pid) KEY_PPID content) as (f & E & Hf); [|exact Hsmall|exact W|].
    - unfold status_of. destruct (Z.ltb_spec (Z.of_N pid) 0); [lia|]. rewrite z_to_n_eq. now rewrite N2Z.id.
    - rewrite E. cbn [bind]. now exists f.
  Qed.
End P_Rpname.

(** * the sizes of rpname.c satisfy the side conditions *)
Theorem rpname_safe_c : forall status fuel pid buf size, status_wf status -> 1 <= size -> size <= cap buf ->
  (exists buf' n, rpname_buf rp_sizes_c status fuel pid buf size = Ok (buf', n) /\ cap buf' = cap buf
                  /\ exists s, cstr buf' 0 = Ok s /\ len s < size)
  \/ rpname_buf rp_sizes_c status fuel pid buf size = Fault Out_of_fuel.
Proof. intros status. apply rpname_safe; cbn; lia. Qed.

(** * counterexamples: the hypothesis [status_wf] cannot be dropped *)
Module RpnameCounterexamples.
  Import Coq.Strings.String.
  Definition buf0 : arr := fresh 64.
  Definition only (pid : N) (content : list byte) (p : N) : option (list byte) := if p =? pid then Some content else None.

  (** 1. the file ends right behind "PPid:" (no newline): v++ twice steps over the terminator into the
         indeterminate rest of getline's 120-byte block; strlen(v) reads it *)
  Example cex_key_colon_eof : rpname_buf rp_sizes_c (only 9 (bytes "PPid:")) 1 9 buf0 64 = Fault Other_fault.
  Proof. vm_compute. reflexivity. Qed.
  (** the same in the "Name" line of a root process (PPid = 1) *)
  Example cex_key_colon_eof_name : rpname_buf rp_sizes_c (only 9 (bytes "PPid:" ++ [TAB] ++ bytes "1" ++ [NL] ++ bytes "Name:")) 1 9 buf0 64 = Fault Other_fault.
  Proof. vm_compute. reflexivity. Qed.
  (** 2. one byte behind the ':' and nothing else ("PPid:\n", or "PPid:X" at the end of the file): v is the
         terminator, vLen = 0, v[vLen-1] is v[SIZE_MAX] *)
  Example cex_empty_value : rpname_buf rp_sizes_c (only 9 (bytes "PPid:" ++ [NL])) 1 9 buf0 64 = Fault OOB_write.
  Proof. vm_compute. reflexivity. Qed.
  Example cex_one_byte_eof : rpname_buf rp_sizes_c (only 9 (bytes "PPid:1")) 1 9 buf0 64 = Fault OOB_write.
  Proof. vm_compute. reflexivity. Qed.
  (** 3. a NUL two places behind the ':' *)
  Example cex_nul_value : rpname_buf rp_sizes_c (only 9 (bytes "PPid:" ++ [TAB; NUL] ++ bytes "1" ++ [NL])) 1 9 buf0 64 = Fault OOB_write.
  Proof. vm_compute. reflexivity. Qed.
  (** 4. the same defects in the "Name" line of the root process *)
  Example cex_name_eof : rpname_buf rp_sizes_c (only 9 (bytes "PPid:" ++ [TAB] ++ bytes "1" ++ [NL] ++ bytes "Name:" ++ [NL])) 1 9 buf0 64 = Fault OOB_write.
  Proof. vm_compute. reflexivity. Qed.
  (** 5. ... and in the file of an ancestor *)
  Example cex_parent : rpname_buf rp_sizes_c (fun p => if p =? 9 then Some (bytes "PPid:" ++ [TAB] ++ bytes "8" ++ [NL]) else if p =? 8 then Some (bytes "PPid:") else None) 2 9 buf0 64 = Fault Other_fault.
  Proof. vm_compute. reflexivity. Qed.

  (** the boundary: two bytes behind the ':' are enough, whatever they are; an empty value with the tab is fine *)
  Example ok_tab_newline : rpname_buf rp_sizes_c (only 9 (bytes "PPid:" ++ [TAB; NL])) 1 9 buf0 64 = rpname_buf rp_sizes_c (only 9 (bytes "PPid:" ++ [TAB] ++ bytes "0" ++ [NL])) 1 9 buf0 64.
  Proof. vm_compute. reflexivity. Qed.
  Example ok_two_bytes_eof : is_ok (rpname_buf rp_sizes_c (only 9 (bytes "PPid:xy")) 1 9 buf0 64) = true.
  Proof. vm_compute. reflexivity. Qed.
  (** the key must be the whole text in front of the first ':' : "XPPid:" is another key *)
  Example ok_other_key : is_ok (rpname_buf rp_sizes_c (only 9 (bytes "XPPid:")) 1 9 buf0 64) = true.
  Proof. vm_compute. reflexivity. Qed.

  (** [content_wf] says exactly that *)
  Example wf_values : map content_wf [bytes "PPid:"; bytes "PPid:" ++ [NL]; bytes "PPid:1"; bytes "PPid:" ++ [TAB; NUL; NL]; bytes "Name:";
                                      bytes "PPid:" ++ [TAB; NL]; bytes "PPid:xy"; bytes "XPPid:"; bytes "nocolon" ++ [NL] ++ bytes "PPid:"]
                      = [false; false; false; false; false; true; true; true; true].
  Proof. vm_compute. reflexivity. Qed.

  (** the executable precondition [walk_wf] on these inputs *)
  Example walk_values :
    (walk_wf rp_sizes_c (only 9 (bytes "PPid:")) 1 9,
     walk_wf rp_sizes_c (only 9 (bytes "PPid:" ++ [TAB] ++ bytes "1" ++ [NL] ++ bytes "Name:")) 1 9,
     walk_wf rp_sizes_c (only 9 (bytes "PPid:" ++ [TAB] ++ bytes "7" ++ [NL] ++ bytes "Name:")) 1 9,     (* Name is not looked up: PPid = 7 *)
     walk_wf rp_sizes_c (fun p => if p =? 9 then Some (bytes "PPid:" ++ [TAB] ++ bytes "8" ++ [NL]) else if p =? 8 then Some (bytes "PPid:") else None) 2 9)
    = (false, false, true, false).
  Proof. vm_compute. reflexivity. Qed.
  Example ok_name_not_read : is_ok (rpname_buf rp_sizes_c (only 9 (bytes "PPid:" ++ [TAB] ++ bytes "7" ++ [NL] ++ bytes "Name:")) 2 9 buf0 64) = true.
  Proof. vm_compute. reflexivity. Qed.

  (** the side conditions on the sizes are needed as well: NAME_MAX = sizeof returnValue *)
  Example cex_sizes : rpname_buf {| path_cap := 32; val_max := 256; ret_cap := 256 |} (only 9 (bytes "PPid:" ++ [TAB] ++ repeat x31 300 ++ [NL])) 1 9 buf0 64 = Fault OOB_write.
  Proof. vm_compute. reflexivity. Qed.
  Example cex_path0 : rpname_buf {| path_cap := 0; val_max := 255; ret_cap := 256 |} (fun _ => None) 1 9 buf0 64 = Fault OOB_read.
  Proof. vm_compute. reflexivity. Qed.
End RpnameCounterexamples.

Print Assumptions rpp_loop_ok.
Print Assumptions rpp_loop_fault.
Print Assumptions read_proc_property_safe.
Print Assumptions read_proc_property_fault.
Print Assumptions get_rpname_safe.
Print Assumptions get_rpname_fuel.
Print Assumptions rpname_safe.
Print Assumptions rpname_fuel.
Print Assumptions rpname_needs_wf.
Print Assumptions rpname_safe_iff.
Print Assumptions get_rpname_walk.
Print Assumptions get_rpname_unsafe.
Print Assumptions rpname_safe_c.
Print Assumptions lines_ok_status_wf.
Print Assumptions concat_lines.
Check rpname_safe. Check rpname_safe_iff. Check rpname_fuel. Check rpname_needs_wf. Check read_proc_property_safe. Check read_proc_property_fault.
