(** Safety of util/string.c append, message.c append and generateFromFormat at the buffer level:
    the array-level run never faults, keeps the message NUL-terminated below [bufsize], never
    overruns the data-source scratch buffer, and computes exactly the functional model of
    Expand/Model.v (so every C05 theorem transfers to the buffer-level program). *)
From Snoopy Require Import Lib.CStr Safety.Mem Safety.CLib Safety.Consts Safety.Str Expand.Model Expand.Proofs.
From Coq Require Import ZifyBool ZifyN ZifyNat.
Local Open Scope N_scope.

Section P_Str.
  Variable c : safety_consts.
  Hypothesis Hok : safety_consts_ok c = true.
  Variable e : expand_consts.
  Hypothesis Hek : expand_consts_ok e = true.
  (** the literals of message.c are C strings *)
  Hypothesis Hlits : nonul (e_close e) /\ nonul (e_nf1 e) /\ nonul (e_nf2 e) /\ nonul (e_f1 e) /\ nonul (e_f2 e) /\ nonul (e_f3 e).

  Ltac split_ok H := unfold safety_consts_ok in H; repeat (apply andb_true_iff in H as [H ?]).

  Lemma sok_strict : s_append_strict c = true.
  Proof. pose proof Hok as H. split_ok H. assumption. Qed.
  Lemma sok_msg : s_ds_buf_adj c = 0 /\ 1 <= s_ds_arg_max c /\ s_ds_pre_nul c = true /\ s_tag_skip c = 2 /\ s_close_skip c = 1.
  Proof.
    pose proof Hok as H. split_ok H.
    repeat match goal with
    | H : (_ <=? _) = true |- _ => apply N.leb_le in H
    | H : (_ =? _) = true |- _ => apply N.eqb_eq in H
    end.
    repeat split; assumption.
  Qed.
  Lemma eok_strict : append_strict e = true.
  Proof. apply (ok_strict e Hek). Qed.
  Lemma eok_tags : tag_open e = [x25; x7b] /\ tag_close e = [x7d] /\ tag_colon e = [x3a].
  Proof.
    pose proof Hek as H. unfold expand_consts_ok in H. repeat (apply andb_true_iff in H as [H ?]).
    repeat split; now apply list_eqb_eq.
  Qed.

  (** * util/string.c *)
  Theorem string_append_spec dest bufsize d app :
    cstr dest 0 = Ok d -> len d < bufsize -> bufsize <= cap dest -> nonul app ->
    exists dest' r, string_append c dest bufsize app = Ok (dest', r) /\ cap dest' = cap dest /\
      match str_append e bufsize d app with
      | None => dest' = dest /\ r = None
      | Some d' => cstr dest' 0 = Ok d' /\ r = Some (len app)
      end.
  Proof.
    intros Hd Hl Hc Hn. unfold string_append, c_strlen. rewrite Hd. cbn [bind].
    rewrite sub64_le by lia. unfold str_append. rewrite sok_strict, eok_strict.
    destruct (N.leb_spec (bufsize - len d) (len app)).
    - exists dest, None. repeat split; reflexivity.
    - unfold c_store. destruct (wrs_ok dest (len d) (app ++ [NUL])) as [dest' E].
      { rewrite len_app. cbn. lia. }
      rewrite E. cbn [bind]. exists dest', (Some (len app)). split; [reflexivity|]. split; [now apply cap_wrs in E|].
      split; [|reflexivity]. apply (cstr_wrs_append dest 0 d app dest'); assumption.
  Qed.

  (** the appended message stays below the buffer size: safety statement on its own *)
  Theorem string_append_safe dest bufsize d app :
    cstr dest 0 = Ok d -> len d < bufsize -> bufsize <= cap dest -> nonul app ->
    exists dest' r d', string_append c dest bufsize app = Ok (dest', r) /\ cap dest' = cap dest /\ cstr dest' 0 = Ok d' /\ len d' < bufsize.
  Proof.
    intros Hd Hl Hc Hn. destruct (string_append_spec dest bufsize d app Hd Hl Hc Hn) as [dest' [r [E [C M]]]].
    destruct (str_append e bufsize d app) as [d'|] eqn:S.
    - destruct M as [M _]. exists dest', r, d'. apply (str_append_lt e Hek (fun _ => true) (fun _ _ _ => (false, []))) in S as [_ S]. repeat split; assumption.
    - destruct M as [-> ->]. exists dest, None, d. repeat split; assumption.
  Qed.

  (** * message.c append, on the piece list of the functional model *)
  Lemma message_append_spec log bufsize out p :
    cstr log 0 = Ok (flat out) -> len (flat out) < bufsize -> bufsize <= cap log -> nonul (snd p) ->
    exists log', message_append c log bufsize (snd p) = Ok log' /\ cap log' = cap log /\
                 cstr log' 0 = Ok (flat (append e (Some bufsize) out p)) /\ len (flat (append e (Some bufsize) out p)) < bufsize.
  Proof.
    intros Hd Hl Hc Hn. unfold message_append.
    destruct (string_append_spec log bufsize (flat out) (snd p) Hd Hl Hc Hn) as [log' [r [E [C M]]]].
    rewrite E. cbn [bind fst]. exists log'. split; [reflexivity|]. split; [exact C|].
    pose proof (append_lt e Hek (fun _ => true) (fun _ _ _ => (false, [])) bufsize out p Hl) as B. split; [|exact B].
    unfold append. destruct (str_append e bufsize (flat out) (snd p)) as [d'|] eqn:S.
    - destruct M as [M _]. apply (str_append_lt e Hek (fun _ => true) (fun _ _ _ => (false, []))) in S as [-> _]. now rewrite flat_app, flat_one.
    - destruct M as [-> _]. exact Hd.
  Qed.

  (** * strndup, tag split *)
  Lemma takeN_min n (s : list byte) : takeN (N.min n (len s)) s = takeN n s.
  Proof. apply takeS_eq. Qed.

  Lemma strndup_spec s n : nonul s -> exists a, strndup s n = Ok a /\ cstr a 0 = Ok (takeN n s).
  Proof.
    intros Hn. unfold strndup, c_store.
    destruct (wrs_ok (fresh (N.min n (len s) + 1)) 0 (takeN (N.min n (len s)) s ++ [NUL])) as [a E].
    { rewrite cap_fresh, len_app, len_takeN. cbn. lia. }
    rewrite E. exists a. split; [reflexivity|]. rewrite <- takeN_min.
    apply (cstr_wrs_here _ 0 _ [] a E). now apply nonul_takeN.
  Qed.

  Lemma takeN_of_nat i (s : list byte) : takeN (N.of_nat i) s = firstn i s.
  Proof. unfold takeN. now rewrite Nat2N.id. Qed.
  Lemma dropN_of_nat i (s : list byte) : dropN (N.of_nat i) s = skipn i s.
  Proof. unfold dropN. now rewrite Nat2N.id. Qed.

  Lemma tag_split_spec tag t : cstr tag 0 = Ok t ->
    exists tag', tag_split c e tag = Ok (tag', fst (split_colon e t), snd (split_colon e t))
                 /\ nonul (fst (split_colon e t)) /\ nonul (snd (split_colon e t)).
  Proof.
    intros Ht. pose proof (cstr_nonul _ _ _ Ht) as Hn. unfold tag_split, split_colon. rewrite Ht. cbn [bind].
    destruct eok_tags as [_ [_ Ecol]]. destruct sok_msg as [_ [Harg _]].
    destruct (strstr t (tag_colon e)) as [k|] eqn:Es.
    - pose proof (strstr_bound _ _ _ Es) as B. rewrite Ecol in *. cbn [length] in B.
      destruct (cstr_wr_nul tag 0 t (N.of_nat k) Ht) as [tag' [Ew [H0 [_ H1]]]]; [unfold len; lia|].
      rewrite Ew. cbn [bind]. rewrite H0. cbn [bind].
      destruct (N.ltb_spec (N.of_nat k) (0 + len t)); [|unfold len in *; lia].
      rewrite H1. cbn [bind fst snd]. exists tag'.
      replace (N.of_nat k - 0) with (N.of_nat k) by lia. rewrite takeN_of_nat.
      replace (N.of_nat k + 1) with (N.of_nat (k + 1)) by lia. rewrite dropN_of_nat.
      split; [reflexivity|]. split; [now apply nonul_firstn|now apply nonul_skipn].
    - destruct (wrs_ok (fresh (s_ds_arg_max c)) 0 [NUL]) as [ab Ea]; [rewrite cap_fresh; cbn; lia|].
      unfold wr. rewrite Ea. cbn [bind].
      assert (Hab : cstr ab 0 = Ok []) by (apply (cstr_wrs_here _ 0 [] [] ab Ea); intros []).
      rewrite Hab. cbn [bind fst snd]. exists tag. split; [reflexivity|]. split; [exact Hn|intros []].
  Qed.

  (** * the expansion loop *)
  Variable known : list byte -> bool.
  Variable ds : list byte -> list byte -> arr -> N -> res (arr * bool).
  (** value-level view of the data sources (the [ds] of Expand/Model.v) *)
  Variable dsv : list byte -> list byte -> N -> bool * list byte.
  (** contract: handed a scratch buffer of at least [size] bytes that starts with NUL, a data source
      returns it NUL-terminated with less than [size] bytes (strlen(out) < size), capacity unchanged *)
  Definition ds_refines : Prop := forall name arg a size,
      nonul name -> nonul arg -> 1 <= size -> size <= cap a -> cstr a 0 = Ok [] ->
      exists a', ds name arg a size = Ok (a', fst (dsv name arg size)) /\ cap a' = cap a
                 /\ cstr a' 0 = Ok (snd (dsv name arg size)) /\ len (snd (dsv name arg size)) < size.
  Hypothesis Hds : ds_refines.

  Lemma expand_loop_refines bufsize dsbuf : 1 <= dsbuf -> forall fuel log out dsm cur,
      cstr log 0 = Ok (flat out) -> len (flat out) < bufsize -> bufsize <= cap log ->
      cap dsm = dsbuf -> nonul cur -> (length cur < fuel)%nat ->
      exists log', expand_loop c e known ds fuel log bufsize dsm dsbuf cur = Ok log' /\ cap log' = cap log /\
                   cstr log' 0 = Ok (flat (expand_aux e known dsv fuel (Some bufsize) dsbuf out cur)).
  Proof.
    intros Hdb. destruct eok_tags as [Eop [Ecl Ecol]]. destruct sok_msg as [_ [_ [Hpre [Hts Hcs]]]].
    destruct Hlits as [L1 [L2 [L3 [L4 [L5 L6]]]]].
    induction fuel as [|fuel IH]; intros log out dsm cur Hlog Hlt Hcap Hdsm Hcur Hfuel; [lia|].
    cbn [expand_loop expand_aux].
    (* a helper: one append step *)
    assert (AP : forall lg o (p : piece), cstr lg 0 = Ok (flat o) -> len (flat o) < bufsize -> cap lg = cap log -> nonul (snd p) ->
               exists lg', message_append c lg bufsize (snd p) = Ok lg' /\ cap lg' = cap log /\
                           cstr lg' 0 = Ok (flat (append e (Some bufsize) o p)) /\ len (flat (append e (Some bufsize) o p)) < bufsize).
    { intros lg o p A1 A2 A3 A4. destruct (message_append_spec lg bufsize o p A1 A2 ltac:(lia) A4) as [lg' [B1 [B2 [B3 B4]]]].
      exists lg'. repeat split; try assumption. lia. }
    destruct (strstr cur (tag_open e)) as [i|] eqn:Ei.
    2:{ destruct (AP log out (KLit, cur) Hlog Hlt eq_refl Hcur) as [lg' [B1 [B2 [B3 _]]]]. cbn [snd] in B1.
        exists lg'. repeat split; assumption. }
    pose proof (strstr_Some _ _ _ Ei) as [Pi _]. pose proof (strstr_le _ _ _ Ei) as Li.
    (* literal text before the tag *)
    destruct (strndup_spec cur (N.of_nat i) Hcur) as [lit [El Hl]]. rewrite El. cbn [bind]. rewrite Hl. cbn [bind].
    rewrite takeN_of_nat.
    destruct (AP log out (KLit, firstn i cur) Hlog Hlt eq_refl ltac:(now apply nonul_firstn)) as [log1 [B1 [C1 [S1 T1]]]].
    cbn [snd] in B1. rewrite B1. cbn [bind]. rewrite dropN_of_nat.
    set (out1 := append e (Some bufsize) out (KLit, firstn i cur)) in *.
    set (nft := skipn i cur) in *.
    assert (Hnft : nonul nft) by now apply nonul_skipn.
    destruct (strstr nft (tag_close e)) as [j|] eqn:Ej.
    2:{ destruct (AP log1 out1 (KErr, e_close e) S1 T1 C1 L1) as [lg' [D1 [D2 [D3 _]]]]. cbn [snd] in D1.
        exists lg'. repeat split; assumption. }
    (* the tag: nft starts with "%{" and "}" is at offset j >= 2 *)
    pose proof (strstr_Some _ _ _ Ej) as [Pj _]. pose proof (strstr_bound _ _ _ Ej) as Bj.
    rewrite Eop in Pi. rewrite Ecl in Pj, Bj. cbn [length] in Bj.
    apply prefixb_app in Pi as [r0 Enft]. fold nft in Enft.
    assert (Hj2 : (2 <= j)%nat).
    { destruct j as [|[|j]]; [| |lia].
      - rewrite Enft in Pj. cbn in Pj. discriminate.
      - rewrite Enft in Pj. cbn in Pj. discriminate. }
    rewrite Hts. rewrite sub64_le by lia.
    destruct (strndup_spec (dropN 2 nft) (N.of_nat j - 2) ltac:(now apply nonul_dropN)) as [tag [Et Htag]].
    rewrite Et. cbn [bind].
    destruct (tag_split_spec tag _ Htag) as [tag' [Esp [Hnm Harg]]]. rewrite Esp. cbn [bind].
    (* align with the functional model's tag *)
    assert (Etag : takeN (N.of_nat j - 2) (dropN 2 nft) = firstn (j - length (tag_open e)) (skipn (length (tag_open e)) nft)).
    { rewrite Eop. cbn [length]. unfold takeN, dropN. replace (N.to_nat (N.of_nat j - 2)) with (j - 2)%nat by lia. reflexivity. }
    rewrite Etag in *. clear Etag.
    set (tagv := firstn (j - length (tag_open e)) (skipn (length (tag_open e)) nft)) in *.
    destruct (split_colon e tagv) as [name arg] eqn:Esc. cbn [fst snd] in *.
    destruct (negb (known name)) eqn:Ek.
    { destruct (AP log1 out1 (KErr, e_nf1 e) S1 T1 C1 L2) as [l2 [D1 [D2 [D3 D4]]]]. cbn [snd] in D1. rewrite D1. cbn [bind].
      destruct (AP l2 _ (KName, name) D3 D4 D2 Hnm) as [l3 [F1 [F2 [F3 F4]]]]. cbn [snd] in F1. rewrite F1. cbn [bind].
      destruct (AP l3 _ (KErr, e_nf2 e) F3 F4 F2 L3) as [l4 [G1 [G2 [G3 _]]]]. cbn [snd] in G1.
      exists l4. repeat split; assumption. }
    (* the data source *)
    rewrite Hpre.
    destruct (wrs_ok dsm 0 [NUL]) as [dsm0 Ed0]; [cbn; lia|]. unfold wr. rewrite Ed0. cbn [bind].
    assert (Hd0 : cstr dsm0 0 = Ok []) by (apply (cstr_wrs_here _ 0 [] [] dsm0 Ed0); intros []).
    pose proof (cap_wrs _ _ _ _ Ed0) as Cd0.
    destruct (Hds name arg dsm0 dsbuf Hnm Harg Hdb ltac:(lia) Hd0) as [dsm1 [Eds [Cd1 [Sd1 Ld1]]]].
    rewrite Eds. cbn [bind]. rewrite Sd1. cbn [bind].
    destruct (dsv name arg dsbuf) as [failed txt] eqn:Edv. cbn [fst snd] in *.
    pose proof (cstr_nonul _ _ _ Sd1) as Htxt.
    assert (NEXT : forall log2 out2, cstr log2 0 = Ok (flat out2) -> len (flat out2) < bufsize -> cap log2 = cap log ->
              exists log', expand_loop c e known ds fuel log2 bufsize dsm1 dsbuf (dropN (N.of_nat j + s_close_skip c) nft) = Ok log' /\ cap log' = cap log /\
                cstr log' 0 = Ok (flat (expand_aux e known dsv fuel (Some bufsize) dsbuf out2 (skipn (j + length (tag_close e)) nft)))).
    { intros log2 out2 N1 N2 N3. rewrite Hcs, Ecl. cbn [length].
      replace (N.of_nat j + 1) with (N.of_nat (j + 1)) by lia. rewrite dropN_of_nat.
      destruct (IH log2 out2 dsm1 (skipn (j + 1) nft) N1 N2 ltac:(lia) ltac:(lia) ltac:(now apply nonul_skipn)) as [lg' [X1 [X2 X3]]].
      { clear - Bj Hfuel. unfold nft in *. rewrite !skipn_length in *. lia. }
      exists lg'. repeat split; [assumption|lia|assumption]. }
    destruct failed.
    - destruct (AP log1 out1 (KErr, e_f1 e) S1 T1 C1 L4) as [l2 [D1 [D2 [D3 D4]]]]. cbn [snd] in D1. rewrite D1. cbn [bind].
      destruct (AP l2 _ (KName, name) D3 D4 D2 Hnm) as [l3 [F1 [F2 [F3 F4]]]]. cbn [snd] in F1. rewrite F1. cbn [bind].
      destruct (AP l3 _ (KErr, e_f2 e) F3 F4 F2 L5) as [l4 [G1 [G2 [G3 G4]]]]. cbn [snd] in G1. rewrite G1. cbn [bind].
      destruct (AP l4 _ (KDs, txt) G3 G4 G2 Htxt) as [l5 [H1 [H2 [H3 H4]]]]. cbn [snd] in H1. rewrite H1. cbn [bind].
      destruct (AP l5 _ (KErr, e_f3 e) H3 H4 H2 L6) as [l6 [I1 [I2 [I3 I4]]]]. cbn [snd] in I1. rewrite I1. cbn [bind].
      apply NEXT; assumption.
    - destruct (AP log1 out1 (KDs, txt) S1 T1 C1 Htxt) as [l2 [D1 [D2 [D3 D4]]]]. cbn [snd] in D1. rewrite D1. cbn [bind].
      apply NEXT; assumption.
  Qed.

  (** snoopy_message_generateFromFormat on an empty message buffer: the buffer-level program computes
      the functional model's message, never faults, the result is NUL-terminated below [bufsize] *)
  Theorem generate_buf_refines log bufsize third fmt :
    cstr log 0 = Ok [] -> 1 <= bufsize -> bufsize <= cap log -> 1 <= third -> nonul fmt ->
    exists log', generate_buf c e known ds log bufsize third fmt = Ok log' /\ cap log' = cap log /\
                 cstr log' 0 = Ok (generate e known dsv bufsize third fmt) /\ len (generate e known dsv bufsize third fmt) < bufsize.
  Proof.
    intros Hlog Hb Hc Ht Hf. unfold generate_buf, generate, generate_pieces.
    destruct sok_msg as [Hadj _]. destruct (ok_adj e Hek) as [Hadj' _]. rewrite Hadj, Hadj'.
    pose proof (generate_lt e Hek known dsv bufsize third fmt Hb) as LT. unfold generate, generate_pieces in LT. rewrite Hadj' in LT.
    destruct fmt as [|b fmt].
    - exists log. repeat split; try assumption.
    - destruct (expand_loop_refines bufsize (third + 0) ltac:(lia) (S (length (b :: fmt))) log [] (fresh (third + 0)) (b :: fmt)) as [lg' [E1 [E2 E3]]];
        try assumption; [cbn; lia | apply cap_fresh | lia |].
      exists lg'. repeat split; assumption.
  Qed.

End P_Str.

(** * Safety alone, for arbitrary (relational) data sources: what the composition of the whole logging path uses.
    No functional view of the data sources is needed: each call only has to honour the buffer contract. *)
Section P_Str_safe.
  Variable c : safety_consts.
  Hypothesis Hok : safety_consts_ok c = true.
  Variable e : expand_consts.
  Hypothesis Hek : expand_consts_ok e = true.
  Hypothesis Hlits : nonul (e_close e) /\ nonul (e_nf1 e) /\ nonul (e_nf2 e) /\ nonul (e_f1 e) /\ nonul (e_f2 e) /\ nonul (e_f3 e).
  Variable known : list byte -> bool.
  Variable ds : list byte -> list byte -> arr -> N -> res (arr * bool).

  (** the contract at one scratch-buffer size (env_all, for one, needs size >= 4; callers pass >= 256) *)
  Definition ds_contract (size : N) : Prop := forall name arg a,
      nonul name -> nonul arg -> size <= cap a -> cstr a 0 = Ok [] ->
      exists a' failed s, ds name arg a size = Ok (a', failed) /\ cap a' = cap a /\ cstr a' 0 = Ok s /\ len s < size.

  Definition msg_ok (bufsize : N) (log0 log : arr) : Prop := cap log = cap log0 /\ exists s, cstr log 0 = Ok s /\ len s < bufsize.

  Lemma message_append_safe log0 log bufsize app : bufsize <= cap log0 -> msg_ok bufsize log0 log -> nonul app ->
    exists log', message_append c log bufsize app = Ok log' /\ msg_ok bufsize log0 log'.
  Proof.
    intros Hc [C [s [Hs Hl]]] Hn. unfold message_append.
    destruct (string_append_safe c Hok e Hek log bufsize s app Hs Hl ltac:(lia) Hn) as [log' [r [d' [E [C' [S' L']]]]]].
    rewrite E. cbn [bind fst]. exists log'. split; [reflexivity|]. split; [lia|]. now exists d'.
  Qed.

  Lemma expand_loop_safe bufsize dsbuf log0 : ds_contract dsbuf -> 1 <= dsbuf -> bufsize <= cap log0 -> forall fuel log dsm cur,
      msg_ok bufsize log0 log -> cap dsm = dsbuf -> nonul cur -> (length cur < fuel)%nat ->
      exists log', expand_loop c e known ds fuel log bufsize dsm dsbuf cur = Ok log' /\ msg_ok bufsize log0 log'.
  Proof.
    intros Hds Hdb Hc0. destruct (eok_tags e Hek) as [Eop [Ecl Ecol]]. destruct (sok_msg c Hok) as [_ [_ [Hpre [Hts Hcs]]]].
    destruct Hlits as [L1 [L2 [L3 [L4 [L5 L6]]]]].
    pose proof (message_append_safe log0) as AP.
    induction fuel as [|fuel IH]; intros log dsm cur Hlog Hdsm Hcur Hfuel; [lia|].
    cbn [expand_loop].
    destruct (strstr cur (tag_open e)) as [i|] eqn:Ei; [|now apply AP].
    pose proof (strstr_Some _ _ _ Ei) as [Pi _].
    destruct (strndup_spec c Hok e Hek cur (N.of_nat i) Hcur) as [lit [El Hl]]. rewrite El. cbn [bind]. rewrite Hl. cbn [bind].
    destruct (AP log bufsize (takeN (N.of_nat i) cur) Hc0 Hlog ltac:(now apply nonul_takeN)) as [log1 [B1 M1]]. rewrite B1. cbn [bind].
    rewrite dropN_of_nat. set (nft := skipn i cur) in *.
    assert (Hnft : nonul nft) by now apply nonul_skipn.
    destruct (strstr nft (tag_close e)) as [j|] eqn:Ej; [|now apply AP].
    pose proof (strstr_Some _ _ _ Ej) as [Pj _]. pose proof (strstr_bound _ _ _ Ej) as Bj.
    rewrite Eop in Pi. rewrite Ecl in Pj, Bj. cbn [length] in Bj.
    apply prefixb_app in Pi as [r0 Enft]. fold nft in Enft.
    assert (Hj2 : (2 <= j)%nat).
    { destruct j as [|[|j]]; [| |lia].
      - rewrite Enft in Pj. cbn in Pj. discriminate.
      - rewrite Enft in Pj. cbn in Pj. discriminate. }
    rewrite Hts. rewrite sub64_le by lia.
    destruct (strndup_spec c Hok e Hek (dropN 2 nft) (N.of_nat j - 2) ltac:(now apply nonul_dropN)) as [tag [Et Htag]].
    rewrite Et. cbn [bind].
    destruct (tag_split_spec c Hok e Hek tag _ Htag) as [tag' [Esp [Hnm Harg]]]. rewrite Esp. cbn [bind].
    set (name := fst (split_colon e (takeN (N.of_nat j - 2) (dropN 2 nft)))) in *.
    set (arg := snd (split_colon e (takeN (N.of_nat j - 2) (dropN 2 nft)))) in *.
    destruct (negb (known name)).
    { destruct (AP log1 bufsize (e_nf1 e) Hc0 M1 L2) as [l2 [D1 D2]]. rewrite D1. cbn [bind].
      destruct (AP l2 bufsize name Hc0 D2 Hnm) as [l3 [F1 F2]]. rewrite F1. cbn [bind]. now apply AP. }
    rewrite Hpre.
    destruct (wrs_ok dsm 0 [NUL]) as [dsm0 Ed0]; [cbn; lia|]. unfold wr. rewrite Ed0. cbn [bind].
    assert (Hd0 : cstr dsm0 0 = Ok []) by (apply (cstr_wrs_here _ 0 [] [] dsm0 Ed0); intros []).
    pose proof (cap_wrs _ _ _ _ Ed0) as Cd0.
    destruct (Hds name arg dsm0 Hnm Harg ltac:(lia) Hd0) as [dsm1 [failed [txt [Eds [Cd1 [Sd1 Ld1]]]]]].
    rewrite Eds. cbn [bind]. rewrite Sd1. cbn [bind].
    pose proof (cstr_nonul _ _ _ Sd1) as Htxt.
    assert (NEXT : forall log2, msg_ok bufsize log0 log2 ->
              exists log', expand_loop c e known ds fuel log2 bufsize dsm1 dsbuf (dropN (N.of_nat j + s_close_skip c) nft) = Ok log' /\ msg_ok bufsize log0 log').
    { intros log2 N1. apply IH; [assumption|lia|now apply nonul_dropN|].
      rewrite Hcs. unfold dropN. clear - Bj Hfuel. unfold nft in *. rewrite !skipn_length in *. lia. }
    destruct failed.
    - destruct (AP log1 bufsize (e_f1 e) Hc0 M1 L4) as [l2 [D1 D2]]. rewrite D1. cbn [bind].
      destruct (AP l2 bufsize name Hc0 D2 Hnm) as [l3 [F1 F2]]. rewrite F1. cbn [bind].
      destruct (AP l3 bufsize (e_f2 e) Hc0 F2 L5) as [l4 [G1 G2]]. rewrite G1. cbn [bind].
      destruct (AP l4 bufsize txt Hc0 G2 Htxt) as [l5 [H1 H2]]. rewrite H1. cbn [bind].
      destruct (AP l5 bufsize (e_f3 e) Hc0 H2 L6) as [l6 [I1 I2]]. rewrite I1. cbn [bind].
      now apply NEXT.
    - destruct (AP log1 bufsize txt Hc0 M1 Htxt) as [l2 [D1 D2]]. rewrite D1. cbn [bind]. now apply NEXT.
  Qed.

  (** snoopy_message_generateFromFormat appending to any terminated message buffer: no fault, the message stays
      NUL-terminated below [bufsize], the scratch buffer is never overrun (every write to it is one of the data source's,
      made under the contract), capacity of the message buffer unchanged *)
  Theorem generate_buf_safe log bufsize third fmt : ds_contract third ->
    (exists s0, cstr log 0 = Ok s0 /\ len s0 < bufsize) -> 1 <= bufsize -> bufsize <= cap log -> 1 <= third -> nonul fmt ->
    exists log' s, generate_buf c e known ds log bufsize third fmt = Ok log' /\ cap log' = cap log /\ cstr log' 0 = Ok s /\ len s < bufsize.
  Proof.
    intros Hds [s0 [H0 L0]] Hb Hc Ht Hf. unfold generate_buf. destruct (sok_msg c Hok) as [Hadj _]. rewrite Hadj.
    destruct fmt as [|b fmt]; [exists log, s0; repeat split; assumption|].
    replace (third + 0) with third by lia.
    destruct (expand_loop_safe bufsize third log Hds ltac:(lia) Hc (S (length (b :: fmt))) log (fresh third) (b :: fmt)) as [lg' [E1 [E2 [s [E3 E4]]]]].
    - split; [reflexivity|now exists s0].
    - apply cap_fresh.
    - assumption.
    - lia.
    - exists lg', s. repeat split; assumption.
  Qed.
End P_Str_safe.


Print Assumptions string_append_spec.
Print Assumptions string_append_safe.
Print Assumptions message_append_spec.
Print Assumptions generate_buf_refines.
Print Assumptions generate_buf_safe.
